(* Write path: WriteControl, the copy loops and the messageWriter methods preserve the wire
   invariant. *)
Require Import WS.Base.Bytes WS.gen.Consts WS.Spec.Frame WS.Proofs.FrameP WS.Model.Writer.
From RecordUpdate Require Import RecordSet.
Import RecordSetNotations.
Require Import WS.Proofs.WWBase WS.Proofs.WWInv.
Ltac Zify.zify_post_hook ::= Z.div_mod_to_equations.

(* how a messageWriter call may move the writer slots: the flag never turns on, a writer that
   survives is the same one (same identity) and keeps the flag *)
Definition crel (s s':wst) : Prop :=
  (cur_flate s' = true -> cur_flate s = true) /\
  (forall m', cur s' = Some m' -> cur_flate s' = cur_flate s /\ exists m, cur s = Some m /\ m_id m' = m_id m).

Lemma crel_refl s : crel s s.
Proof. split; [auto|]. intros m' H. split; [reflexivity|]. exists m'. auto. Qed.

Lemma crel_trans a b c : crel a b -> crel b c -> crel a c.
Proof.
  intros [A1 A2] [B1 B2]. split; [auto|].
  intros m' H. destruct (B2 m' H) as (E1 & m1 & H1 & I1).
  destruct (A2 m1 H1) as (E0 & m0 & H0 & I0). split; [congruence|]. exists m0. split; [exact H0|congruence].
Qed.

Section Fa.
Variable fa : option (nat * fkind).
Notation Inv := (Inv fa).
Notation CInv := (CInv fa).

(* a state that differs only in fields the invariant does not read *)
Lemma CInv_same c s s' :
  CInv c s -> wire s' = wire s -> keys s' = keys s -> fail_at s' = fail_at s -> werr s' = werr s ->
  cur s' = cur s -> CInv c s'.
Proof.
  intros (fs & p & HI) HW HK HF HE HC. exists fs, p. rewrite HC.
  apply (Inv_transfer fa c s s' (cur s) (cur s) fs p HI HW).
  - rewrite HK. apply HI.
  - exact HF.
  - rewrite HE. auto.
  - apply HI.
  - auto.
Qed.

(* ------------------------------------------------------------------------------------------ *)
(* WriteControl                                                                               *)
(* ------------------------------------------------------------------------------------------ *)
Lemma control_frame_ok c ty mk data o :
  is_control_ty ty = true -> blen data <= 125 -> role_key c mk ->
  let f := mkf true ty 0 mk data in
  wf_frame f /\ frame_ok (isclient c) (w_negotiated c) o f true = true /\ next_open o f = o.
Proof.
  intros HT HL HR f. subst f.
  assert (HV : ty = 8 \/ ty = 9 \/ ty = 10).
  { unfold is_control_ty, c_CloseMessage, c_PingMessage, c_PongMessage in HT.
    destruct (ty =? 8) eqn:E1; [lia|]. destruct (ty =? 9) eqn:E2; [lia|].
    destruct (ty =? 10) eqn:E3; [lia|]. discriminate. }
  split.
  { apply wf_mkf; [lia|lia|lia|].
    unfold role_key in HR. unfold key_ok. destruct (w_server c).
    - subst mk. exact I.
    - destruct HR as (key & -> & HK). exact HK. }
  unfold frame_ok, next_open, is_control, is_data_op, mkf, plen, isclient.
  cbn [fin rsv opcode mkey payload].
  assert (HKey : (if negb (w_server c) then match mk with Some _ => true | None => false end
                  else match mk with Some _ => false | None => true end) = true).
  { unfold role_key in HR. destruct (w_server c); cbn [negb].
    - subst mk. reflexivity.
    - destruct HR as (key & -> & _). reflexivity. }
  rewrite HKey. replace (blen data <=? 125) with true by lia.
  destruct HV as [->|[->| ->]]; cbn; auto.
Qed.

Lemma write_control_inv c ty data dl s e s' :
  CInv c s -> write_control c ty data dl s = (e, s') ->
  CInv c s' /\ cur s' = cur s /\ fl s' = fl s /\ cur_flate s' = cur_flate s.
Proof.
  intros HC H. unfold write_control in H.
  destruct (negb (is_control_ty ty)) eqn:ET; [inversion H; subst; auto|].
  destruct (c_maxControlFramePayloadSize <? blen data) eqn:EL; [inversion H; subst; auto|].
  destruct (dl =? 1); [inversion H; subst; auto|].
  destruct (werr s) as [ew|] eqn:EW; [inversion H; subst; auto|].
  destruct HC as (fs & p & HI).
  destruct (t_setdl dl s) as [e1 s1] eqn:E1. apply t_setdl_eff in E1. destruct E1 as [D1 D2].
  destruct D1 as (A1&A2&A3&A4&A5&A6&A7). rewrite app_nil_r in A7.
  destruct e1 as [e1|].
  { inversion H; subst e s'. clear H.
    destruct (write_fatal_eff e1 s1) as (B1&B2&B3&B4&B5&B6&B7).
    split; [|split; [congruence|split; congruence]].
    exists fs, p. rewrite B1, A1.
    apply (Inv_transfer fa c s _ (cur s) (cur s) fs p HI).
    - congruence.
    - rewrite B5, A6. apply HI.
    - congruence.
    - intros X. contradiction.
    - apply HI.
    - auto. }
  destruct (keyed_write (negb (w_server c)) (fun key => control_frame (w_server c) ty key data) s1)
    as [e2 s2] eqn:E2.
  apply keyed_write_eff in E2; [|rewrite A6; apply HI].
  destruct E2 as (HK2 & key & W & Hkey & (C1&C2&C3&C4&C5) & HW2 & N2 & F2).
  assert (HR : role_key c (if w_server c then None else Some key)).
  { unfold role_key. destruct (w_server c); [reflexivity|]. exists key. auto. }
  assert (HT : is_control_ty ty = true) by (destruct (is_control_ty ty); [reflexivity|discriminate]).
  assert (HL : blen data <= 125) by (unfold c_maxControlFramePayloadSize in EL; lia).
  destruct (control_frame_ok c ty _ data (wopen fs) HT HL HR) as (Fwf & Fok & Fnext).
  set (f := mkf true ty 0 (if w_server c then None else Some key) data) in *.
  assert (Henc : control_frame (w_server c) ty key data = encode_frame f)
    by (apply control_frame_enc; exact HL).
  destruct e2 as [e2|].
  { inversion H; subst e s'. clear H.
    destruct (write_fatal_eff e2 s2) as (B1&B2&B3&B4&B5&B6&B7).
    split; [|split; [congruence|split; congruence]].
    exists fs, W. rewrite B1, C1, A1.
    destruct F2 as [F2a F2b]; [discriminate|].
    apply (Inv_emit_fail fa c s _ (cur s) (cur s) fs p f W HI EW); try assumption.
    - congruence.
    - rewrite B5. exact HK2.
    - congruence.
    - congruence.
    - rewrite <- Henc. exact F2b.
    - apply HI. }
  specialize (N2 eq_refl). subst W. rewrite Henc in C5.
  inversion H; subst e s'. clear H.
  assert (HS : exists s3, s3 = (if ty =? c_CloseMessage then write_fatal WCloseSent s2 else s2) /\
     cur s3 = cur s2 /\ cur_flate s3 = cur_flate s2 /\ fl s3 = fl s2 /\ fail_at s3 = fail_at s2 /\
     keys s3 = keys s2 /\ wire s3 = wire s2).
  { eexists. split; [reflexivity|]. destruct (ty =? c_CloseMessage).
    - destruct (write_fatal_eff WCloseSent s2) as (B1&B2&B3&B4&B5&B6&B7). auto 10.
    - auto 10. }
  destruct HS as (s3 & <- & B1&B2&B3&B4&B5&B6).
  split; [|split; [congruence|split; congruence]].
  exists (fs ++ [f]), []. rewrite B1, C1, A1.
  apply (Inv_emit_ok fa c s _ (cur s) (cur s) fs p f HI EW); try assumption.
  - congruence.
  - rewrite B5. exact HK2.
  - congruence.
  - apply HI.
  - intros _. rewrite Fnext. apply (i_live _ _ _ _ _ _ HI EW).
Qed.

(* ------------------------------------------------------------------------------------------ *)
(* flushFrame on the current writer                                                           *)
(* ------------------------------------------------------------------------------------------ *)
Definition capok (c:wcfg) : Prop := cap c < 2^62.
Definition small (b:bytes) : Prop := blen b < 2^62.

Lemma flush_cur_inv c final extra m s e s' :
  capok c -> small extra -> CInv c s -> cur s = Some m -> flush_frame c final extra m s = (e, s') ->
  CInv c s' /\ crel s s' /\ fl s' = fl s /\ (e <> None -> cur s' = None) /\ (final = true -> cur s' = None) /\
  (forall m', cur s' = Some m' -> m_buf m' = [] /\ e = None).
Proof.
  intros HCap HS (fs & p & HI) HC H. rewrite HC in HI.
  assert (HB : blen (m_buf m) + blen extra < 2^63).
  { assert (X : blen (m_buf m) <= N.max 1 (cap c)) by (apply (i_cm _ _ _ _ _ _ HI); reflexivity).
    unfold capok, small in *. lia. }
  destruct (flush_frame_inv fa c final extra m s fs p HI HB e s' H) as (R1 & R2 & R3 & R4 & R5).
  split; [exact R1|]. split; [|split; [exact R2|split; [exact R5|split]]].
  - split; [exact R3|]. intros m' Hm'. destruct (R4 m' Hm') as (X1&X2&X3&X4&X5&X6).
    split; [exact X6|]. exists m. auto.
  - intros ->. destruct (cur s') as [m'|] eqn:E; [|reflexivity].
    destruct (R4 m' eq_refl) as (_&X&_). discriminate.
  - intros m' Hm'. destruct (R4 m' Hm') as (X1&X2&X3&X4&X5&X6). auto.
Qed.

(* appending to the buffer of the current writer *)
Lemma buf_append_inv c s m d :
  CInv c s -> cur s = Some m -> blen (m_buf m) + blen d <= N.max 1 (cap c) ->
  let s' := s <| cur := Some (m <| m_buf := m_buf m ++ d |>) |> in
  CInv c s' /\ crel s s' /\ fl s' = fl s.
Proof.
  intros (fs & p & HI) HC HB s'. rewrite HC in HI.
  assert (HM : mok c m) by (apply (i_cm _ _ _ _ _ _ HI); reflexivity).
  split; [|split; [|reflexivity]].
  - exists fs, p. change (cur s') with (Some (m <| m_buf := m_buf m ++ d |>)).
    apply (Inv_transfer fa c s s' (Some m) _ fs p HI); try reflexivity.
    + apply HI.
    + auto.
    + intros m' Hm'. inversion Hm'; subst m'. destruct HM as [A B C D]. constructor; try assumption.
      wsimpl. rewrite blen_app. exact HB.
    + intros _ X. exact X.
  - split; [auto|]. intros m' Hm'. split; [reflexivity|]. exists m. split; [exact HC|].
    change (cur s') with (Some (m <| m_buf := m_buf m ++ d |>)) in Hm'. inversion Hm'. reflexivity.
Qed.

Lemma oracle_short_inv c s :
  CInv c s -> let s' := s <| oracle_short := true |> in CInv c s' /\ crel s s' /\ fl s' = fl s /\ cur s' = cur s.
Proof.
  intros HC s'. split; [|split; [|split; reflexivity]].
  - apply (CInv_same c s s' HC); reflexivity.
  - split; [intros X; exact X|]. intros m' Hm'. split; [reflexivity|]. exists m'.
    split; [exact Hm'|reflexivity].
Qed.

Lemma copy_loop_inv c : capok c -> forall fuel p s e s',
  CInv c s -> copy_loop fuel c p s = (e, s') ->
  CInv c s' /\ crel s s' /\ fl s' = fl s /\ (e <> None -> cur s' = None).
Proof.
  intros HCap. induction fuel as [|fuel IH]; intros p s e s' HC H.
  - destruct p as [|x p']; cbn [copy_loop] in H; inversion H; subst e s'; clear H.
    + split; [exact HC|split; [apply crel_refl|split; [reflexivity|intros X; contradiction]]].
    + destruct (oracle_short_inv c s HC) as (A&B&C&D).
      split; [exact A|split; [exact B|split; [exact C|intros X; contradiction]]].
  - destruct p as [|x p']; cbn [copy_loop] in H.
    { inversion H; subst e s'.
      split; [exact HC|split; [apply crel_refl|split; [reflexivity|intros X; contradiction]]]. }
    set (pp := x :: p') in *. clearbody pp.
    destruct (cur s) as [m|] eqn:EC.
    2:{ inversion H; subst e s'.
        split; [exact HC|split; [apply crel_refl|split; [reflexivity|intros _; exact EC]]]. }
    destruct (cap c - blen (m_buf m) =? 0) eqn:ER.
    + destruct (flush_frame c false [] m s) as [e1 s1] eqn:EF.
      assert (Hs : small []) by (unfold small; cbn; lia).
      destruct (flush_cur_inv c false [] m s e1 s1 HCap Hs HC EC EF) as (F1&F2&F3&F4&F5&F6).
      destruct e1 as [e1|].
      * inversion H; subst e s'. split; [exact F1|split; [exact F2|split; [exact F3|intros _; apply F4; discriminate]]].
      * destruct (IH pp s1 e s' F1 H) as (G1&G2&G3&G4).
        split; [exact G1|split; [eapply crel_trans; eassumption|split; [congruence|exact G4]]].
    + set (n := N.min (cap c - blen (m_buf m)) (blen pp)) in *.
      assert (HB : blen (m_buf m) + blen (takeN n pp) <= N.max 1 (cap c)).
      { rewrite blen_takeN. subst n. lia. }
      destruct (buf_append_inv c s m (takeN n pp) HC EC HB) as (B1&B2&B3).
      cbv zeta in B1, B2, B3.
      destruct (IH _ _ e s' B1 H) as (G1&G2&G3&G4).
      split; [exact G1|split; [eapply crel_trans; eassumption|split; [|exact G4]]].
      rewrite G3. reflexivity.
Qed.

Lemma mw_write_inv c p s e s' : capok c -> small p ->
  CInv c s -> mw_write c p s = (e, s') ->
  CInv c s' /\ crel s s' /\ fl s' = fl s /\ (e <> None -> cur s' = None).
Proof.
  intros HCap HS HC H. unfold mw_write in H. destruct (cur s) as [m|] eqn:EC.
  2:{ inversion H; subst e s'.
      split; [exact HC|split; [apply crel_refl|split; [reflexivity|intros _; exact EC]]]. }
  destruct ((2 * w_bufsize c <? blen p) && w_server c).
  - destruct (flush_cur_inv c false p m s e s' HCap HS HC EC H) as (F1&F2&F3&F4&F5&F6). auto.
  - eapply copy_loop_inv; eassumption.
Qed.

Lemma mw_write_string_inv c p s e s' : capok c ->
  CInv c s -> mw_write_string c p s = (e, s') ->
  CInv c s' /\ crel s s' /\ fl s' = fl s /\ (e <> None -> cur s' = None).
Proof.
  intros HCap HC H. unfold mw_write_string in H. destruct (cur s) as [m|] eqn:EC.
  2:{ inversion H; subst e s'.
      split; [exact HC|split; [apply crel_refl|split; [reflexivity|intros _; exact EC]]]. }
  eapply copy_loop_inv; eassumption.
Qed.

(* the lookahead byte of ReadFrom lands in the buffer a non-final flush has just emptied *)
Lemma put_byte_inv c b s :
  CInv c s -> (forall m', cur s = Some m' -> m_buf m' = [] /\ @None werror = None) ->
  CInv c (put_byte b s) /\ crel s (put_byte b s) /\ fl (put_byte b s) = fl s.
Proof.
  intros HC HE. unfold put_byte. destruct (cur s) as [m|] eqn:EC.
  - apply (buf_append_inv c s m [b] HC EC). destruct (HE m eq_refl) as [-> _]. cbn. lia.
  - split; [exact HC|split; [apply crel_refl|reflexivity]].
Qed.

Lemma read_from_inv c : capok c -> forall fuel chunks s e s',
  CInv c s -> read_from fuel c chunks s = (e, s') ->
  CInv c s' /\ crel s s' /\ fl s' = fl s /\ (e <> None -> cur s' = None).
Proof.
  intros HCap. induction fuel as [|fuel IH]; intros chunks s e s' HC H; cbn [read_from] in H.
  - inversion H; subst e s'. destruct (oracle_short_inv c s HC) as (A&B&C&D).
    split; [exact A|split; [exact B|split; [exact C|intros X; contradiction]]].
  - destruct (cur s) as [m|] eqn:EC.
    2:{ inversion H; subst e s'.
        split; [exact HC|split; [apply crel_refl|split; [reflexivity|intros _; exact EC]]]. }
    destruct (cap c - blen (m_buf m) =? 0) eqn:ER.
    + destruct chunks as [|[|b ch'] rest].
      { inversion H; subst e s'.
        split; [exact HC|split; [apply crel_refl|split; [reflexivity|intros X; contradiction]]]. }
      { destruct rest as [|r1 rest1]; [|exact (IH _ _ e s' HC H)].
        inversion H; subst e s'.
        split; [exact HC|split; [apply crel_refl|split; [reflexivity|intros X; contradiction]]]. }
      destruct (flush_frame c false [] m s) as [e1 s1] eqn:EF.
      assert (Hs : small []) by (unfold small; cbn; lia).
      destruct (flush_cur_inv c false [] m s e1 s1 HCap Hs HC EC EF) as (F1&F2&F3&F4&F5&F6).
      destruct e1 as [e1|].
      { inversion H; subst e s'. split; [exact F1|split; [exact F2|split; [exact F3|intros _; apply F4; discriminate]]]. }
      destruct (put_byte_inv c b s1 F1 F6) as (P1&P2&P3).
      assert (Q2 : crel s (put_byte b s1)) by (eapply crel_trans; eassumption).
      assert (Q3 : fl (put_byte b s1) = fl s) by congruence.
      destruct ch' as [|b1 ch1]; [destruct rest as [|r1 rest1]|].
      { inversion H; subst e s'.
        split; [exact P1|split; [exact Q2|split; [exact Q3|intros X; contradiction]]]. }
      { destruct (IH _ _ e s' P1 H) as (G1&G2&G3&G4).
        split; [exact G1|split; [eapply crel_trans; eassumption|split; [congruence|exact G4]]]. }
      destruct (IH _ _ e s' P1 H) as (G1&G2&G3&G4).
      split; [exact G1|split; [eapply crel_trans; eassumption|split; [congruence|exact G4]]].
    + destruct chunks as [|ch rest].
      { inversion H; subst e s'.
        split; [exact HC|split; [apply crel_refl|split; [reflexivity|intros X; contradiction]]]. }
      set (n := N.min (cap c - blen (m_buf m)) (blen ch)) in *.
      assert (HB : blen (m_buf m) + blen (takeN n ch) <= N.max 1 (cap c)).
      { rewrite blen_takeN. subst n. lia. }
      destruct (buf_append_inv c s m (takeN n ch) HC EC HB) as (B1&B2&B3).
      cbv zeta in B1, B2, B3.
      destruct (dropN n ch) as [|r0 rem]; [destruct rest as [|r1 rest1]|].
      { inversion H; subst e s'.
        split; [exact B1|split; [exact B2|split; [reflexivity|intros X; contradiction]]]. }
      { destruct (IH _ _ e s' B1 H) as (G1&G2&G3&G4).
        split; [exact G1|split; [eapply crel_trans; eassumption|split; [|exact G4]]].
        rewrite G3. reflexivity. }
      destruct (IH _ _ e s' B1 H) as (G1&G2&G3&G4).
      split; [exact G1|split; [eapply crel_trans; eassumption|split; [|exact G4]]].
      rewrite G3. reflexivity.
Qed.

Lemma mw_close_inv c s e s' : capok c ->
  CInv c s -> mw_close c s = (e, s') ->
  CInv c s' /\ crel s s' /\ fl s' = fl s /\ cur s' = None.
Proof.
  intros HCap HC H. unfold mw_close in H. destruct (cur s) as [m|] eqn:EC.
  2:{ inversion H; subst e s'.
      split; [exact HC|split; [apply crel_refl|split; [reflexivity|exact EC]]]. }
  assert (Hs : small []) by (unfold small; cbn; lia).
  destruct (flush_cur_inv c true [] m s e s' HCap Hs HC EC H) as (F1&F2&F3&F4&F5&F6). auto.
Qed.

End Fa.
