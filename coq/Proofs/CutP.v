(* ========================================================================================== *)
(* C05 "no silent truncation": the read path of gorilla/websocket on a transport stream that   *)
(* fails or ends in the MIDDLE of a message (inside a frame, or between two fragments).        *)
(*                                                                                            *)
(*  Part B   read_loop_eof_only_at_end   messageReader.Read returns io.EOF only when the final *)
(*           frame of the message has been consumed completely (any state, any transport).     *)
(*  Part A   cut_stream_read_messages    ReadMessage loop: every complete message is returned, *)
(*           then the partial message comes back with a non-nil, non-EOF error.                *)
(*  Part B'  cut_stream_reader_api       NextReader + Read on the partial message: bytes, then *)
(*           the transport error; never io.EOF.                                                *)
(*  Part C   cut_stream_errors_sticky    afterwards every operation fails, nothing delivered.  *)
(* ========================================================================================== *)
Require Import WS.Base.Bytes WS.gen.Consts WS.Spec.Frame WS.Spec.Conformance WS.Model.Bufio
  WS.Model.Reader WS.Proofs.BufioP WS.Proofs.FrameP WS.Proofs.ReaderBasicP.
From RecordUpdate Require Import RecordSet.
Import RecordSetNotations.
Require Import WS.Proofs.ReaderP1 WS.Proofs.ReaderP2 WS.Proofs.ReaderP3 WS.Proofs.ReaderP.
Ltac Zify.zify_post_hook ::= Z.div_mod_to_equations.

(* ============================== CutB.v ============================== *)
(* Part B: messageReader.Read returns io.EOF only when the final frame of the message has been
   consumed completely.  Proved directly on the model, for every state / transport / config. *)

(* ---------- what advanceFrame never touches, and the errors it can produce ---------- *)
Definition pres (s s':rst) : Prop :=
  cur s' = cur s /\ rerror s' = rerror s /\ outoffuel s' = outoffuel s /\ errcount s' = errcount s
  /\ nextid s' = nextid s /\ opidx s' = opidx s /\ rlimit s' = rlimit s.

Lemma pres_refl s : pres s s.
Proof. unfold pres. auto 10. Qed.
Lemma pres_trans a b c : pres a b -> pres b c -> pres a c.
Proof. unfold pres. intuition congruence. Qed.

Definition noeof (a:adv) : Prop := match a with AErr e => e <> RIoEOF | AFrame _ => True end.

Definition good (s:rst) (r:adv * rst) : Prop := pres s (snd r) /\ noeof (fst r).

Lemma of_berror_noeof e : of_berror e <> RIoEOF.
Proof. destruct e as [[| |]|]; discriminate. Qed.

Lemma rd_pres n s : pres s (snd (rd n s)).
Proof.
  unfold rd. destruct (br_peek_discard n (br s)) as [[p e] b]. cbn [snd]. unfold pres. rsimpl. auto 10.
Qed.

Lemma rd_noeof n s p e s' : rd n s = (p, Some e, s') -> e <> RIoEOF.
Proof.
  unfold rd. destruct (br_peek_discard n (br s)) as [[p0 [e0|]] b]; intros H; inversion H.
  apply of_berror_noeof.
Qed.

Lemma send_pres w s : pres s (send w s).
Proof. unfold send. destruct (closesent s); [apply pres_refl|]. unfold pres. rsimpl. auto 10. Qed.

Transparent aas2 aas3 aas4 aas5.

Ltac pres_fin :=
  unfold good; cbn [fst snd noeof]; split;
  [ repeat (eapply pres_trans; [eassumption|]);
    repeat (eapply pres_trans; [|apply send_pres]);
    unfold pres; rsimpl; auto 10
  | try exact I; try discriminate; try (eapply rd_noeof; eassumption) ].

Lemma handler_result_pres c s : pres s (snd (handler_result c s)).
Proof.
  unfold handler_result. cbv zeta. destruct (existsb _ _); cbn [snd]; unfold pres; rsimpl; auto 10.
Qed.

Lemma good_aas5 c op len s : good s (aas5 c op len s).
Proof.
  unfold aas5. cbv zeta.
  destruct ((op =? c_continuationFrame) || ((op =? c_TextMessage) || (op =? c_BinaryMessage))).
  { destruct (2 ^ 63 <=? rlen s + len); [pres_fin|].
    destruct ((0 <? rlimit (s <| rlen := rlen s + len |>)) &&
              (rlimit (s <| rlen := rlen s + len |>) <? rlen s + len)); pres_fin. }
  assert (Hrd : exists pl e s1, (if 0 <? len then rd (N.to_nat len) s else ([], None, s)) = (pl, e, s1) /\
                  pres s s1 /\ (forall e0, e = Some e0 -> e0 <> RIoEOF)).
  { destruct (0 <? len).
    - destruct (rd (N.to_nat len) s) as [[pl e] s1] eqn:E. exists pl, e, s1. split; [reflexivity|].
      split; [pose proof (rd_pres (N.to_nat len) s) as H; rewrite E in H; exact H|].
      intros e0 ->. eapply rd_noeof; eassumption.
    - exists [], None, s. split; [reflexivity|]. split; [apply pres_refl|]. intros e0 H; discriminate H. }
  destruct Hrd as (pl & e & s1 & -> & Hp1 & Hne).
  destruct e as [e0|]; [unfold good; cbn [fst snd noeof]; split; [eapply pres_trans; [exact Hp1|]; unfold pres; rsimpl; auto 10|apply Hne; reflexivity]|].
  set (s2 := s1 <| rem := 0 |>).
  assert (Hp2 : pres s s2) by (eapply pres_trans; [exact Hp1|]; unfold pres, s2; rsimpl; auto 10).
  clearbody s2. clear Hp1 Hne s1.
  set (pl' := if server c then maskl (rkey s2) 0 pl else pl). clearbody pl'.
  assert (Hh : forall ev (s3:rst) (a2:adv), pres s s3 -> noeof a2 ->
     good s (let '(r, s4) := handler_result c (s3 <| hlog := hlog s3 ++ [ev] |>) in
             match r with Some e => (AErr e, s4) | None => (a2, s4) end)).
  { intros ev s3 a2 H3 Ha2.
    pose proof (handler_result_pres c (s3 <| hlog := hlog s3 ++ [ev] |>)) as Hhr.
    unfold handler_result in *. cbv zeta in *.
    destruct (existsb _ _); cbn [snd] in Hhr; unfold good; cbn [fst snd noeof]; (split; [|try exact Ha2; try discriminate]);
      (eapply pres_trans; [exact H3|]); (eapply pres_trans; [|exact Hhr]); unfold pres; rsimpl; auto 10. }
  destruct (op =? c_PongMessage).
  { destruct (custom_handlers c); [apply (Hh _ _ (AFrame op)); [exact Hp2|exact I]|pres_fin]. }
  destruct (op =? c_PingMessage).
  { destruct (custom_handlers c); [apply (Hh _ _ (AFrame op)); [exact Hp2|exact I]|pres_fin]. }
  unfold protocol_error.
  destruct ((2 <=? blen pl') && negb (is_valid_received_close_code _)); [pres_fin|].
  destruct ((2 <=? blen pl') && negb (Utf8.utf8_valid _)); [pres_fin|].
  destruct (custom_handlers c); [apply Hh; [exact Hp2|discriminate]|pres_fin].
Qed.

Lemma good_trans s s1 r : pres s s1 -> good s1 r -> good s r.
Proof. intros H (H1 & H2). split; [eapply pres_trans; eassumption|exact H2]. Qed.

Lemma good_aas4 c op mask len s : good s (aas4 c op mask len s).
Proof.
  unfold aas4. cbv zeta. destruct mask.
  - match goal with |- context [rd ?n ?st] => pose proof (rd_pres n st) as Hp;
      destruct (rd n st) as [[p [e|]] s1] eqn:E end; cbn [snd] in Hp.
    + unfold good; cbn [fst snd noeof]. split; [|eapply rd_noeof; eassumption].
      eapply pres_trans; [|exact Hp]. unfold pres; rsimpl; auto 10.
    + eapply good_trans; [|apply good_aas5].
      eapply pres_trans; [|eapply pres_trans; [exact Hp|]]; unfold pres; rsimpl; auto 10.
  - eapply good_trans; [|apply good_aas5]. unfold pres; rsimpl; auto 10.
Qed.

Lemma good_aas3 c op mask l7 s : good s (aas3 c op mask l7 s).
Proof.
  unfold aas3. destruct (l7 =? 126); [|destruct (l7 =? 127)].
  - pose proof (rd_pres 2 s) as Hp; destruct (rd 2 s) as [[p [e|]] s1] eqn:E; cbn [snd] in Hp.
    + unfold good; cbn [fst snd noeof]. split; [exact Hp|eapply rd_noeof; eassumption].
    + eapply good_trans; [exact Hp|apply good_aas4].
  - pose proof (rd_pres 8 s) as Hp; destruct (rd 8 s) as [[p [e|]] s1] eqn:E; cbn [snd] in Hp.
    + unfold good; cbn [fst snd noeof]. split; [exact Hp|eapply rd_noeof; eassumption].
    + destruct (2 ^ 63 <=? be_dec p).
      * unfold good; cbn [fst snd noeof]. split; [|discriminate].
        eapply pres_trans; [exact Hp|]. unfold send. destruct (closesent s1); unfold pres; rsimpl; auto 10.
      * eapply good_trans; [exact Hp|apply good_aas4].
  - apply good_aas4.
Qed.

Lemma good_aas2 c b0 b1 s : good s (aas2 c b0 b1 s).
Proof.
  unfold aas2. cbv zeta.
  match goal with |- context [if hdr_reject ?a ?b ?c ?d then _ else _] => destruct (hdr_reject a b c d) end.
  - unfold protocol_error.
    destruct ((N.land b0 15 =? c_TextMessage) || (N.land b0 15 =? c_BinaryMessage));
      [|destruct (N.land b0 15 =? c_continuationFrame)]; pres_fin.
  - eapply good_trans; [|apply good_aas3].
    destruct ((N.land b0 15 =? c_TextMessage) || (N.land b0 15 =? c_BinaryMessage));
      [|destruct (N.land b0 15 =? c_continuationFrame)]; unfold pres; rsimpl; auto 10.
Qed.

Opaque aas2 aas3 aas4 aas5.

Theorem advance_after_skip_good c s : good s (advance_after_skip c s).
Proof.
  rewrite aas_unfold.
  pose proof (rd_pres 2 s) as Hp; destruct (rd 2 s) as [[p [e|]] s1] eqn:E; cbn [snd] in Hp.
  - unfold good; cbn [fst snd noeof]. split; [exact Hp|eapply rd_noeof; eassumption].
  - eapply good_trans; [exact Hp|apply good_aas2].
Qed.

(* ---------- Read with a remembered error ---------- *)
Lemma read_loop_err_val fuel c m s e : rerror s = Some e ->
  read_loop fuel c m s =
  ([], Some (if is_io_eof e && match cur s with Some _ => true | None => false end
                && ((0 <? rem s) || negb (rfin s)) then unexpected_eof else e), s).
Proof. intros H. destruct fuel; cbn [read_loop]; rewrite H; reflexivity. Qed.

(* ---------- Theorem B ---------- *)
Theorem read_loop_eof_only_at_end : forall fuel c m s d s',
  rerror s = None -> read_loop fuel c m s = (d, Some RIoEOF, s') ->
  rfin s' = true /\ rem s' = 0.
Proof.
  induction fuel as [|f IH]; intros c m s d s' He H.
  - cbn [read_loop] in H. rewrite He in H. discriminate H.
  - cbn [read_loop] in H. rewrite He in H.
    destruct (0 <? rem s) eqn:Er.
    + (* inside a frame: the transport's EOF is passed on only when nothing is missing *)
      cbv zeta in H.
      destruct (br_read (N.to_nat (N.min (N.of_nat m) (rem s))) (br s)) as [[d0 e0] b] eqn:Ebr.
      destruct e0 as [k0|]; [|inversion H].
      match type of H with (_, Some (if ?cnd && _ then _ else _), ?st) = _ =>
        set (cond := cnd) in *; set (sf := st) in * end.
      inversion H as [[Hd Hk Hs]]. clear H.
      destruct cond eqn:Ec; destruct k0; cbn [andb errk_eqb of_errk] in Hk; try discriminate Hk.
      subst cond. apply orb_false_iff in Ec. destruct Ec as [Ec1 Ec2].
      apply negb_false_iff in Ec2.
      subst sf. rsimpl.
      destruct (server c); rsimpl_in Ec1; rsimpl_in Ec2; rsimpl; (split; [exact Ec2|lia]).
    + destruct (rfin s) eqn:Ef.
      * inversion H; subst. rsimpl. split; [exact Ef|lia].
      * rewrite advance_frame_rem0 in H by lia.
        pose proof (advance_after_skip_good c s) as (Hp & Hne).
        destruct (advance_after_skip c s) as [a s1]. cbn [fst snd] in Hp, Hne.
        destruct Hp as (_ & Hre & _).
        destruct a as [e|op].
        -- rewrite (read_loop_err_val f c m _ e) in H by reflexivity.
           inversion H as [[Hd Hk Hs]]. cbn [noeof] in Hne.
           destruct e; cbn [is_io_eof andb] in Hk; try discriminate Hk. congruence.
        -- destruct ((op =? c_TextMessage) || (op =? c_BinaryMessage)).
           ++ rewrite (read_loop_err_val f c m _ RInternal) in H by reflexivity.
              cbn [is_io_eof andb] in H. discriminate H.
           ++ apply (IH c m s1 d s'); [congruence|exact H].
Qed.

(* the same at the API level: Read on the current reader *)
Corollary read_eof_means_complete inflate c s m d s' :
  rerror s = None -> cur s <> None ->
  rstep inflate c s (ORead m) = (RData d (Some RIoEOF), s') ->
  rfin s' = true /\ rem s' = 0.
Proof.
  intros He Hc H. unfold rstep in H. destruct (cur s) as [i|]; [|congruence].
  unfold reader_read in H. destruct (read_loop (fuel_of s) c m s) as [[d0 e0] s0] eqn:E.
  inversion H; subst. rsimpl. eapply read_loop_eof_only_at_end; eassumption.
Qed.

(* contrapositive: while the final frame of the message has not been consumed entirely, Read
   returns data, nil or an error OTHER than io.EOF *)
Corollary read_loop_incomplete_not_eof fuel c m s d e s' :
  rerror s = None -> read_loop fuel c m s = (d, e, s') ->
  (rfin s' = false \/ 0 < rem s') -> e <> Some RIoEOF.
Proof.
  intros He H Hinc ->. destruct (read_loop_eof_only_at_end _ _ _ _ _ _ He H) as [H1 H2].
  destruct Hinc as [Hx|Hx]; [congruence|lia].
Qed.

(* ============================== CutA1.v ============================== *)
(* Part A1: advanceFrame on a frame that is cut short by the end of the transport stream. *)

(* ---------- prefixes of a concatenation ---------- *)
Lemma prefix_app_cases {A} : forall (a b cut suf : list A), a ++ b = cut ++ suf ->
  (exists x, a = cut ++ x /\ x <> [] /\ suf = x ++ b) \/ (exists y, cut = a ++ y /\ b = y ++ suf).
Proof.
  induction a as [|h a IH]; intros b cut suf H.
  - right. exists cut. auto.
  - destruct cut as [|c cut].
    + left. exists (h :: a). cbn [app] in *. split; [reflexivity|]. split; [discriminate|]. symmetry. exact H.
    + cbn [app] in H. inversion H; subst c.
      destruct (IH b cut suf H2) as [(x & E1 & E2 & E3)|(y & E1 & E2)].
      * left. exists x. rewrite E1. auto.
      * right. exists y. rewrite E1. auto.
Qed.

Lemma app_nonnil_length {A} (x y : list A) : y <> [] -> (length x < length (x ++ y))%nat.
Proof. intros H. rewrite app_length. destruct y; [congruence|]. cbn [length]. lia. Qed.

Definition hdr_bytes (f:frame) : bytes := hdr_b0 f :: hdr_b1 f :: ext_bytes f ++ key_bytes f.
Definition hlen (f:frame) : nat := length (hdr_bytes f).

Lemma encode_frame_hdr f : encode_frame f = hdr_bytes f ++ wire_payload f.
Proof. rewrite encode_frame_decomp. unfold hdr_bytes. cbn [app]. rewrite <- app_assoc. reflexivity. Qed.

Lemma maskl_firstn key : forall n p l, maskl key p (firstn n l) = firstn n (maskl key p l).
Proof.
  induction n as [|n IH]; intros p l; [reflexivity|]. destruct l as [|x l]; [reflexivity|].
  cbn [firstn maskl]. rewrite IH. reflexivity.
Qed.

(* ---------- the header state ---------- *)
Lemma hdr_state_facts f s :
  br (hdr_state f s) = br s /\ wlog (hdr_state f s) = wlog s /\ closesent (hdr_state f s) = closesent s /\
  rkey (hdr_state f s) = rkey s.
Proof.
  unfold hdr_state. cbv zeta. destruct ((opcode f =? 1) || (opcode f =? 2)); [|destruct (opcode f =? 0)];
    rsimpl; auto.
Qed.

(* ---------- the stages when the stream runs out ---------- *)
Transparent aas3 aas4 aas5.

Lemma aas3_short c op mask f s x y :
  binv (br s) -> (125 <= bsize (br s))%nat -> pending (br s) = x -> ext_bytes f = x ++ y -> y <> [] ->
  exists b', aas3 c op mask (len7 f) s = (AErr (of_berror (BErr (fault (src (br s))))), s <| br := b' |>).
Proof.
  intros Hinv Hbs Hp He Hy. unfold aas3.
  pose proof (app_nonnil_length x y Hy) as Hl. rewrite <- He in Hl.
  destruct (N.ltb_spec (plen f) 126) as [Hs|Hs]; [|destruct (N.ltb_spec (plen f) 65536) as [Hm|Hm]].
  - destruct (len7_small f Hs) as [_ He0]. rewrite He0 in Hl. cbn [length] in Hl. lia.
  - destruct (len7_126 f Hs Hm) as [H7 He0]. rewrite H7. change (126 =? 126) with true. cbv iota.
    rewrite He0, be_enc_length in Hl.
    destruct (rd_short 2 s Hinv ltac:(lia) ltac:(rewrite Hp; exact Hl)) as (p & b' & Hrd & _).
    rewrite Hrd. exists b'. reflexivity.
  - destruct (len7_127 f Hm) as [H7 He0]. rewrite H7.
    change (127 =? 126) with false. change (127 =? 127) with true. cbv iota.
    rewrite He0, be_enc_length in Hl.
    destruct (rd_short 8 s Hinv ltac:(lia) ltac:(rewrite Hp; exact Hl)) as (p & b' & Hrd & _).
    rewrite Hrd. exists b'. reflexivity.
Qed.

Lemma aas4_short c op len s x y :
  binv (br s) -> (125 <= bsize (br s))%nat -> pending (br s) = x -> length (x ++ y) = 4%nat -> y <> [] ->
  exists b', aas4 c op true len s =
    (AErr (of_berror (BErr (fault (src (br s))))), s <| rem := len |> <| mpos := 0 |> <| br := b' |>).
Proof.
  intros Hinv Hbs Hp Hk Hy. unfold aas4. cbv zeta. cbv iota.
  pose proof (app_nonnil_length x y Hy) as Hl. rewrite Hk in Hl.
  destruct (rd_short 4 (s <| rem := len |> <| mpos := 0 |>)) as (p & b' & Hrd & _);
    [exact Hinv|change (4 <= bsize (br s))%nat; lia|change (length (pending (br s)) < 4)%nat; rewrite Hp; exact Hl|].
  rewrite Hrd. exists b'. reflexivity.
Qed.

Lemma aas5_ctl_short c op len s w :
  op = 9 \/ op = 10 -> binv (br s) -> (125 <= bsize (br s))%nat -> len <= 125 ->
  pending (br s) = w -> blen w < len ->
  exists b', aas5 c op len s =
    (AErr (of_berror (BErr (fault (src (br s))))), s <| br := b' |> <| rem := 0 |>).
Proof.
  intros Hop Hinv Hbs Hlen Hp Hw. unfold aas5. cbv zeta.
  unfold c_TextMessage, c_BinaryMessage, c_continuationFrame.
  replace ((op =? 0) || ((op =? 1) || (op =? 2))) with false by lia. cbv iota.
  replace (0 <? len) with true by lia.
  destruct (rd_short (N.to_nat len) s Hinv ltac:(lia) ltac:(rewrite Hp; unfold blen in Hw; lia))
    as (p & b' & Hrd & _).
  rewrite Hrd. exists b'. reflexivity.
Qed.

Opaque aas3 aas4 aas5.

(* ---------- advanceFrame on a data / continuation frame whose header is complete ---------- *)
Lemma advance_data_gen k c s f rest :
  rinv k s -> wf_frame f -> frame_acc (server c) (negb (rfin s)) f = true ->
  is_control (opcode f) = false ->
  pending (br s) = hdr_bytes f ++ rest ->
  (if opcode f =? 0 then rlen s else 0) + plen f < 2^63 ->
  exists s', advance_after_skip c s = (AFrame (opcode f), s') /\
    rinv k s' /\ rem s' = plen f /\ rfin s' = fin f /\
    rlen s' = (if opcode f =? 0 then rlen s else 0) + plen f /\
    pending (br s') = rest /\
    (forall w, unmask c s' w = match mkey f with Some key => maskl key 0 w | None => w end) /\
    rdecomp s' = false /\ wlog s' = wlog s.
Proof.
  intros Hrinv Hwf Hacc Hctl Hp Hlen.
  pose proof Hrinv as (Hinv & Hbs & Hfl & Herr & Hoof & Hcs & Hrl & Hec).
  destruct (frame_acc_facts _ _ _ Hacc) as (Hr & Hm & Hcases).
  assert (Hop : opcode f = 0 \/ opcode f = 1 \/ opcode f = 2).
  { unfold is_control in Hctl. destruct Hcases as [(Ho & _)|[(Ho & _)|(Ho & _)]]; lia. }
  pose proof Hwf as (_ & _ & Hpl & Hkey).
  assert (Hp0 : pending (br s) = [hdr_b0 f; hdr_b1 f] ++ (ext_bytes f ++ (key_bytes f ++ rest))).
  { rewrite Hp. unfold hdr_bytes. cbn [app]. rewrite <- app_assoc. reflexivity. }
  rewrite aas_unfold.
  destruct (rd_app 2 s _ _ Hinv ltac:(lia) Hp0 eq_refl) as (b1 & Hrd & Hp1 & Hinv1 & Hbs1 & Hfl1).
  rewrite Hrd. cbv iota. cbn [nth].
  rewrite aas2_ok; [|exact Hwf|exact Hacc].
  set (s1 := hdr_state f (s <| br := b1 |>)).
  assert (Es1 : br s1 = b1 /\ rfin s1 = fin f /\ rlen s1 = (if opcode f =? 0 then rlen s else 0) /\
                rlimit s1 = 0 /\ rerror s1 = None /\ outoffuel s1 = false /\ closesent s1 = false /\
                wlog s1 = wlog s /\ rdecomp s1 = false /\ errcount s1 = errcount s).
  { subst s1. unfold hdr_state. cbv zeta.
    destruct Hop as [Ho|[Ho|Ho]]; rewrite Ho;
      [change ((0 =? 1) || (0 =? 2)) with false; change (0 =? 0) with true
      |change ((1 =? 1) || (1 =? 2)) with true; change (1 =? 0) with false
      |change ((2 =? 1) || (2 =? 2)) with true; change (2 =? 0) with false];
      cbv iota; rsimpl; auto 12. }
  destruct Es1 as (E1 & E2 & E3 & E4 & E5 & E6 & E7 & E8 & E9 & E10).
  destruct (aas3_ok c (opcode f) (is_some (mkey f)) f s1 (key_bytes f ++ rest))
    as (b2 & H3 & Hp2 & Hinv2 & Hbs2 & Hfl2);
    [rewrite E1; exact Hinv1|rewrite E1; lia|exact Hpl|rewrite E1; exact Hp1|].
  rewrite H3. rewrite E1 in Hbs2, Hfl2.
  destruct (mkey f) as [key|] eqn:Ek.
  - (* masked *)
    cbn [is_some]. unfold key_bytes in Hp2. rewrite Ek in Hp2.
    destruct (aas4_masked c (opcode f) (plen f) (s1 <| br := b2 |>) key rest)
      as (b3 & H4 & Hp3 & Hinv3 & Hbs3 & Hfl3);
      [exact Hinv2|change (125 <= bsize b2)%nat; lia|exact Hkey|exact Hp2|].
    rewrite H4. change (bsize (br (s1 <| br := b2 |>))) with (bsize b2) in Hbs3.
    change (fault (src (br (s1 <| br := b2 |>)))) with (fault (src b2)) in Hfl3.
    rewrite aas5_data; [|exact Hop|rsimpl; exact E4|rsimpl; rewrite E3; exact Hlen].
    eexists. split; [reflexivity|].
    split.
    { apply (rinv_upd k s); [exact Hrinv| | | |rsimpl; congruence ..]; rsimpl;
        [exact Hinv3|congruence|congruence]. }
    rsimpl. rewrite E2, E3, E8, E9.
    repeat split; try reflexivity; try assumption.
    intros w. unfold unmask. rsimpl. cbn [is_some] in Hm. rewrite <- Hm. reflexivity.
  - (* unmasked *)
    cbn [is_some]. unfold key_bytes in Hp2. rewrite Ek in Hp2. cbn [app] in Hp2.
    rewrite aas4_unmasked.
    rewrite aas5_data; [|exact Hop|rsimpl; exact E4|rsimpl; rewrite E3; exact Hlen].
    eexists. split; [reflexivity|].
    split.
    { apply (rinv_upd k s); [exact Hrinv| | | |rsimpl; congruence ..]; rsimpl;
        [exact Hinv2|congruence|congruence]. }
    rsimpl. rewrite E2, E3, E8, E9.
    repeat split; try reflexivity; try assumption.
    intros w. unfold unmask. cbn [is_some] in Hm. rewrite <- Hm. reflexivity.
Qed.

(* unmasking a prefix of the wire payload gives the same prefix of the payload *)
Lemma unmask_prefix f w suf :
  wire_payload f = w ++ suf ->
  match mkey f with Some key => maskl key 0 w | None => w end = firstn (length w) (payload f).
Proof.
  intros H. destruct (mkey f) as [key|] eqn:Ek.
  - rewrite <- (unmask_wire f key Ek), H, <- maskl_firstn, firstn_app_exact by reflexivity. reflexivity.
  - rewrite <- (wire_payload_unmasked f Ek), H, firstn_app_exact by reflexivity. reflexivity.
Qed.

(* (B) header complete, data or continuation frame, payload cut *)
Lemma advance_cut_data k c s f w suf :
  rinv k s -> wf_frame f -> frame_acc (server c) (negb (rfin s)) f = true ->
  is_control (opcode f) = false ->
  pending (br s) = hdr_bytes f ++ w -> wire_payload f = w ++ suf ->
  (if opcode f =? 0 then rlen s else 0) + plen f < 2^63 ->
  exists s', advance_after_skip c s = (AFrame (opcode f), s') /\
    rinv k s' /\ rem s' = blen w + blen suf /\ rfin s' = fin f /\
    pending (br s') = w /\ unmask c s' w = firstn (length w) (payload f) /\
    rdecomp s' = false /\ wlog s' = wlog s.
Proof.
  intros Hrinv Hwf Hacc Hctl Hp Hw Hlen.
  destruct (advance_data_gen k c s f w Hrinv Hwf Hacc Hctl Hp Hlen)
    as (s' & H1 & H2 & H3 & H4 & H5 & H6 & H7 & H8 & H9).
  exists s'. split; [exact H1|]. split; [exact H2|].
  split; [rewrite H3, <- wire_payload_blen, Hw, blen_app; reflexivity|].
  split; [exact H4|]. split; [exact H6|].
  split; [rewrite H7; apply (unmask_prefix f w suf Hw)|]. auto.
Qed.

(* (A) the stream ends inside the header, or anywhere inside a control frame *)
Lemma advance_cut_err k c s f cut suf :
  rinv k s -> wf_frame f -> frame_acc (server c) (negb (rfin s)) f = true ->
  pending (br s) = cut -> encode_frame f = cut ++ suf -> suf <> [] ->
  (is_control (opcode f) = true \/ (length cut < hlen f)%nat) ->
  exists s', advance_after_skip c s = (AErr (of_berror (BErr k)), s') /\ wlog s' = wlog s.
Proof.
  intros Hrinv Hwf Hacc Hp Henc Hsuf Hcase.
  pose proof Hrinv as (Hinv & Hbs & Hfl & Herr & Hoof & Hcs & Hrl & Hec).
  destruct (frame_acc_facts _ _ _ Hacc) as (Hr & Hm & Hcases).
  pose proof Hwf as (_ & _ & Hpl & Hkey).
  rewrite aas_unfold. subst k.
  assert (Henc2 : [hdr_b0 f; hdr_b1 f] ++ (ext_bytes f ++ (key_bytes f ++ wire_payload f)) = cut ++ suf).
  { rewrite <- Henc, encode_frame_decomp. reflexivity. }
  destruct (prefix_app_cases _ _ _ _ Henc2) as [(x & E1 & E2 & _)|(y & E1 & E2)].
  { (* fewer than two bytes *)
    pose proof (app_nonnil_length cut x E2) as Hl. rewrite <- E1 in Hl. cbn [length] in Hl.
    destruct (rd_short 2 s Hinv ltac:(lia) ltac:(rewrite Hp; exact Hl)) as (p & b' & Hrd & _).
    rewrite Hrd. eexists. split; [reflexivity|]. reflexivity. }
  assert (Hp0 : pending (br s) = [hdr_b0 f; hdr_b1 f] ++ y) by (rewrite Hp; exact E1).
  destruct (rd_app 2 s _ _ Hinv ltac:(lia) Hp0 eq_refl) as (b1 & Hrd & Hp1 & Hinv1 & Hbs1 & Hfl1).
  rewrite Hrd. cbv iota. cbn [nth].
  rewrite aas2_ok; [|exact Hwf|exact Hacc].
  set (s1 := hdr_state f (s <| br := b1 |>)).
  destruct (hdr_state_facts f (s <| br := b1 |>)) as (F1 & F2 & F3 & F4). fold s1 in F1, F2, F3, F4.
  rsimpl_in F1. rsimpl_in F2. rsimpl_in F3.
  destruct (prefix_app_cases _ _ _ _ E2) as [(x & E3 & E4 & _)|(z & E3 & E4)].
  { (* extended length incomplete *)
    destruct (aas3_short c (opcode f) (is_some (mkey f)) f s1 y x) as (b' & H3);
      [rewrite F1; exact Hinv1|rewrite F1; lia|rewrite F1; exact Hp1|exact E3|exact E4|].
    rewrite H3, F1, Hfl1. eexists. split; [reflexivity|]. rsimpl. exact F2. }
  destruct (aas3_ok c (opcode f) (is_some (mkey f)) f s1 z)
    as (b2 & H3 & Hp2 & Hinv2 & Hbs2 & Hfl2);
    [rewrite F1; exact Hinv1|rewrite F1; lia|exact Hpl|rewrite F1, Hp1; exact E3|].
  rewrite H3. rewrite F1 in Hbs2, Hfl2.
  destruct (prefix_app_cases _ _ _ _ E4) as [(x & E5 & E6 & _)|(w & E5 & E6)].
  { (* mask key incomplete *)
    destruct (mkey f) as [key|] eqn:Ek; [|exfalso; unfold key_bytes in E5; rewrite Ek in E5;
      symmetry in E5; apply app_eq_nil in E5; destruct E5; contradiction].
    cbn [is_some]. unfold key_bytes in E5. rewrite Ek in E5.
    destruct (aas4_short c (opcode f) (plen f) (s1 <| br := b2 |>) z x) as (b' & H4);
      [exact Hinv2|change (125 <= bsize b2)%nat; lia|exact Hp2|rewrite <- E5; exact Hkey|exact E6|].
    rewrite H4. change (fault (src (br (s1 <| br := b2 |>)))) with (fault (src b2)).
    rewrite Hfl2, Hfl1. eexists. split; [reflexivity|]. rsimpl. exact F2. }
  (* the header is complete: by hypothesis this is a control frame *)
  assert (Hctl : is_control (opcode f) = true).
  { destruct Hcase as [Hc|Hc]; [exact Hc|exfalso].
    rewrite E1, E3, E5 in Hc. unfold hlen, hdr_bytes in Hc. cbn [length app] in Hc.
    rewrite !app_length in Hc. lia. }
  assert (Hop : (opcode f = 9 \/ opcode f = 10) /\ fin f = true /\ plen f <= 125).
  { unfold is_control in Hctl. destruct Hcases as [H|[(Ho & _)|(Ho & _)]]; [exact H|lia|lia]. }
  destruct Hop as (Hop & Hfin & Hl125).
  assert (Hwlen : blen w < plen f).
  { rewrite <- wire_payload_blen, E6, blen_app. destruct suf; [congruence|]. unfold blen. cbn [length]. lia. }
  destruct (mkey f) as [key|] eqn:Ek.
  - cbn [is_some]. unfold key_bytes in E5. rewrite Ek in E5. rewrite E5 in Hp2.
    destruct (aas4_masked c (opcode f) (plen f) (s1 <| br := b2 |>) key w)
      as (b3 & H4 & Hp3 & Hinv3 & Hbs3 & Hfl3);
      [exact Hinv2|change (125 <= bsize b2)%nat; lia|exact Hkey|exact Hp2|].
    rewrite H4. change (bsize (br (s1 <| br := b2 |>))) with (bsize b2) in Hbs3.
    change (fault (src (br (s1 <| br := b2 |>)))) with (fault (src b2)) in Hfl3.
    set (s3 := s1 <| br := b2 |> <| rem := plen f |> <| mpos := 0 |> <| br := b3 |> <| rkey := key |>).
    destruct (aas5_ctl_short c (opcode f) (plen f) s3 w Hop) as (b' & H5);
      [subst s3; rsimpl; exact Hinv3|subst s3; rsimpl; lia|exact Hl125|subst s3; rsimpl; exact Hp3|exact Hwlen|].
    rewrite H5. replace (fault (src (br s3))) with (fault (src b3)) by reflexivity.
    rewrite Hfl3, Hfl2, Hfl1. eexists. split; [reflexivity|]. subst s3. rsimpl. exact F2.
  - cbn [is_some]. unfold key_bytes in E5. rewrite Ek in E5. cbn [app] in E5. rewrite E5 in Hp2.
    rewrite aas4_unmasked.
    set (s3 := s1 <| br := b2 |> <| rem := plen f |>).
    destruct (aas5_ctl_short c (opcode f) (plen f) s3 w Hop) as (b' & H5);
      [subst s3; rsimpl; exact Hinv2|subst s3; rsimpl; lia|exact Hl125|subst s3; rsimpl; exact Hp2|exact Hwlen|].
    rewrite H5. replace (fault (src (br s3))) with (fault (src b2)) by reflexivity.
    rewrite Hfl2, Hfl1. eexists. split; [reflexivity|]. subst s3. rsimpl. exact F2.
Qed.

(* a cut that contains the whole header of a non-control frame *)
Lemma cut_hdr_complete f cut suf :
  encode_frame f = cut ++ suf -> (hlen f <= length cut)%nat ->
  exists w, cut = hdr_bytes f ++ w /\ wire_payload f = w ++ suf.
Proof.
  intros H Hl. rewrite encode_frame_hdr in H.
  destruct (prefix_app_cases _ _ _ _ H) as [(x & E1 & E2 & _)|(w & E1 & E2)].
  - exfalso. pose proof (app_nonnil_length cut x E2) as Hx. rewrite <- E1 in Hx. unfold hlen in Hl. lia.
  - exists w. auto.
Qed.

(* ============================== CutA2.v ============================== *)
(* Part A2: io.ReadAll / ReadMessage over a message whose frames stop in the middle. *)

Lemma is_io_eof_berr k : is_io_eof (of_berror (BErr k)) = false.
Proof. destruct k; reflexivity. Qed.

Lemma ra_cont_err fa c len cp acc d e s : is_io_eof e = false ->
  ra_cont fa c len cp acc (d, Some e, s) = (acc ++ d, Some e, s).
Proof. intros H. unfold ra_cont. destruct e; try reflexivity. discriminate H. Qed.

Lemma eof_err_eq k : (if errk_eqb k EEOF then unexpected_eof else of_errk k) = of_berror (BErr k).
Proof. destruct k; reflexivity. Qed.

(* ---------- Read inside a frame of which the stream holds only a part ---------- *)
Lemma read_loop_chunk_cut k c m f s wp miss :
  rinv k s -> (0 < m)%nat -> wp <> [] -> rem s = blen wp + miss -> 0 < miss -> pending (br s) = wp ->
  exists w1 w2 e s', wp = w1 ++ w2 /\ w1 <> [] /\ blen w1 <= N.of_nat m /\
    read_loop (S f) c m s = (unmask c s w1, e, s') /\
    pending (br s') = w2 /\ rem s' = blen w2 + miss /\ rfin s' = rfin s /\
    wlog s' = wlog s /\ unmask c s wp = unmask c s w1 ++ unmask c s' w2 /\
    binv (br s') /\ bsize (br s') = bsize (br s) /\ fault (src (br s')) = k /\
    outoffuel s' = false /\ closesent s' = false /\ rlimit s' = 0 /\ rerror s' = e /\
    errcount s' = errcount s /\
    (e = None \/ (w2 = [] /\ e = Some (of_berror (BErr k)))).
Proof.
  intros Hrinv Hm Hne Hrem Hmiss Hp.
  pose proof Hrinv as (Hinv & Hbs & Hfl & Herr & Hoof & Hcs & Hrl & Hec).
  assert (Hwpos : 0 < blen wp) by (destruct wp; [congruence|unfold blen; cbn [length]; lia]).
  remember (N.to_nat (N.min (N.of_nat m) (rem s))) as sz eqn:Esz.
  assert (Hsz : (0 < sz)%nat) by lia.
  assert (Hpne : pending (br s) <> []) by (rewrite Hp; exact Hne).
  destruct (br_read_some sz (br s) Hinv Hsz Hpne)
    as (d & e & b' & Hbr & Hd & Hl & Hpd & Hinv' & Hbs' & Hfl' & He).
  rewrite Hp in Hpd.
  assert (Hbw : blen wp = blen d + blen (pending b')) by (rewrite Hpd; apply blen_app).
  exists d, (pending b').
  cbn [read_loop]. rewrite Herr. replace (0 <? rem s) with true by lia. cbv iota zeta.
  rewrite <- Esz, Hbr. cbv beta iota.
  unfold unmask.
  destruct (server c) eqn:Es.
  - assert (Hmask : maskl (rkey s) (mpos s) wp =
                    maskl (rkey s) (mpos s) d ++ maskl (rkey s) ((mpos s + blen d) mod 4) (pending b')).
    { rewrite Hpd at 1. rewrite maskl_app. f_equal. apply maskl_pos_mod4. lia. }
    destruct He as [-> | [-> Hpe]].
    + do 2 eexists. split; [exact Hpd|]. split; [exact Hd|]. split; [unfold blen; lia|].
      split; [reflexivity|]. rsimpl.
      split; [reflexivity|]. split; [lia|]. split; [reflexivity|].
      split; [reflexivity|]. split; [exact Hmask|]. split; [exact Hinv'|]. split; [exact Hbs'|].
      split; [congruence|]. split; [exact Hoof|]. split; [exact Hcs|]. split; [exact Hrl|].
      split; [reflexivity|]. split; [reflexivity|]. left. reflexivity.
    + do 2 eexists. split; [exact Hpd|]. split; [exact Hd|]. split; [unfold blen; lia|].
      split; [reflexivity|]. rsimpl.
      split; [reflexivity|]. split; [lia|]. split; [reflexivity|].
      split; [reflexivity|]. split; [exact Hmask|]. split; [exact Hinv'|]. split; [exact Hbs'|].
      split; [congruence|]. split; [exact Hoof|]. split; [exact Hcs|]. split; [exact Hrl|].
      split; [reflexivity|]. split; [reflexivity|].
      right. split; [exact Hpe|].
      rewrite Hrem, Hbw, Hpe, Hfl. change (blen []) with 0.
      replace (0 <? blen d + 0 + miss - blen d) with true by lia. cbn [orb andb].
      rewrite eof_err_eq. reflexivity.
  - destruct He as [-> | [-> Hpe]].
    + do 2 eexists. split; [exact Hpd|]. split; [exact Hd|]. split; [unfold blen; lia|].
      split; [reflexivity|]. rsimpl.
      split; [reflexivity|]. split; [lia|]. split; [reflexivity|].
      split; [reflexivity|]. split; [exact Hpd|]. split; [exact Hinv'|]. split; [exact Hbs'|].
      split; [congruence|]. split; [exact Hoof|]. split; [exact Hcs|]. split; [exact Hrl|].
      split; [reflexivity|]. split; [reflexivity|]. left. reflexivity.
    + do 2 eexists. split; [exact Hpd|]. split; [exact Hd|]. split; [unfold blen; lia|].
      split; [reflexivity|]. rsimpl.
      split; [reflexivity|]. split; [lia|]. split; [reflexivity|].
      split; [reflexivity|]. split; [exact Hpd|]. split; [exact Hinv'|]. split; [exact Hbs'|].
      split; [congruence|]. split; [exact Hoof|]. split; [exact Hcs|]. split; [exact Hrl|].
      split; [reflexivity|]. split; [reflexivity|].
      right. split; [exact Hpe|].
      rewrite Hrem, Hbw, Hpe, Hfl. change (blen []) with 0.
      replace (0 <? blen d + 0 + miss - blen d) with true by lia. cbn [orb andb].
      rewrite eof_err_eq. reflexivity.
Qed.

(* nothing left on the transport although the current frame announces more bytes *)
Lemma read_loop_starved k c m f s :
  rinv k s -> (0 < m)%nat -> 0 < rem s -> pending (br s) = [] ->
  exists s', read_loop (S f) c m s = ([], Some (of_berror (BErr k)), s') /\
    rerror s' = Some (of_berror (BErr k)) /\ wlog s' = wlog s /\ outoffuel s' = false /\
    pending (br s') = [] /\ closesent s' = false.
Proof.
  intros Hrinv Hm Hrem Hp.
  pose proof Hrinv as (Hinv & Hbs & Hfl & Herr & Hoof & Hcs & Hrl & Hec).
  remember (N.to_nat (N.min (N.of_nat m) (rem s))) as sz eqn:Esz.
  assert (Hsz : (0 < sz)%nat) by lia.
  destruct (br_read_empty sz (br s) Hinv Hsz Hp) as (b' & Hbr & Hp' & Hinv' & Hbs' & Hfl').
  cbn [read_loop]. rewrite Herr. replace (0 <? rem s) with true by lia. cbv iota zeta.
  rewrite <- Esz, Hbr. cbv beta iota. change (blen []) with 0.
  assert (He : forall s0 : rst, rem s0 = rem s ->
    (if ((0 <? rem s0 - 0) || negb (rfin s0)) && errk_eqb (fault (src (br s))) EEOF
     then unexpected_eof else of_errk (fault (src (br s)))) = of_berror (BErr k)).
  { intros s0 E. rewrite E. replace (0 <? rem s - 0) with true by lia. cbn [orb andb].
    rewrite Hfl. apply eof_err_eq. }
  destruct (server c); cbn [maskl]; rsimpl; rewrite (He s eq_refl) || idtac;
    eexists; (split; [reflexivity|]); rsimpl; auto 10.
Qed.

(* ---------- frames in the middle of an open message ---------- *)
Definition mid_ok (srv:bool) (fs:list frame) : bool :=
  forallb (fun g => frame_acc srv true g && (is_control (opcode g) || negb (fin g))) fs.
Definition mid_data (fs:list frame) : bytes :=
  flat_map (fun g => if is_control (opcode g) then [] else payload g) fs.

Definition cut_payload (f:frame) (n:nat) : bytes :=
  if is_control (opcode f) then [] else firstn (n - hlen f) (payload f).

Lemma cut_payload_hdr f (cut:bytes) : (is_control (opcode f) = true \/ (length cut < hlen f)%nat) ->
  cut_payload f (length cut) = [].
Proof.
  unfold cut_payload. intros [-> | H]; [reflexivity|]. destruct (is_control (opcode f)); [reflexivity|].
  replace (length cut - hlen f)%nat with 0%nat by lia. reflexivity.
Qed.

Lemma cut_case f cut suf : encode_frame f = cut ++ suf -> suf <> [] ->
  (is_control (opcode f) = true \/ (length cut < hlen f)%nat) \/
  (is_control (opcode f) = false /\ exists w, cut = hdr_bytes f ++ w /\ wire_payload f = w ++ suf /\
     cut_payload f (length cut) = firstn (length w) (payload f) /\ 0 < blen suf).
Proof.
  intros Henc Hsuf.
  destruct (is_control (opcode f)) eqn:Hc; [left; left; reflexivity|].
  destruct (Nat.lt_ge_cases (length cut) (hlen f)) as [Hl|Hl]; [left; right; exact Hl|].
  right. split; [reflexivity|].
  destruct (cut_hdr_complete f cut suf Henc Hl) as (w & E1 & E2).
  exists w. split; [exact E1|]. split; [exact E2|].
  split.
  - unfold cut_payload. rewrite Hc, E1, app_length. unfold hlen. f_equal. lia.
  - destruct suf; [congruence|]. unfold blen. cbn [length]. lia.
Qed.

Section Cut.
Variables (k:errk) (c:rcfg).
Hypothesis Hch : custom_handlers c = false.

Let e0 : rerr := of_berror (BErr k).

(* ---------- ReadAll inside the frame that is cut (mode 2) ---------- *)
Lemma ra_partial : forall n wp, length wp = n -> forall s fa fl len cp acc miss,
  rinv k s -> rem s = blen wp + miss -> 0 < miss -> pending (br s) = wp ->
  len < cp -> (length wp < fl)%nat -> (length wp <= fa)%nat ->
  exists s', ra_cont fa c len cp acc (read_loop fl c (N.to_nat (cp - len)) s)
             = (acc ++ unmask c s wp, Some e0, s') /\
    rerror s' = Some e0 /\ wlog s' = wlog s /\ outoffuel s' = false.
Proof.
  induction n as [n IHn] using lt_wf_ind.
  intros wp Hn s fa fl len cp acc miss Hrinv Hrem Hmiss Hp Hlc Hfl Hfa.
  destruct fl as [|fl]; [lia|].
  assert (Hm : (0 < N.to_nat (cp - len))%nat) by lia.
  destruct wp as [|x wp'] eqn:Ewp.
  - destruct (read_loop_starved k c _ fl s Hrinv Hm) as (s' & Hrl & H1 & H2 & H3 & _);
      [change (blen []) with 0 in Hrem; lia|exact Hp|].
    rewrite Hrl, ra_cont_err by apply is_io_eof_berr.
    exists s'. rewrite unmask_nil. auto.
  - rewrite <- Ewp in *.
    assert (Hwne : wp <> []) by (rewrite Ewp; discriminate).
    destruct (read_loop_chunk_cut k c _ fl s wp miss Hrinv Hm Hwne Hrem Hmiss Hp)
      as (w1 & w2 & e & s1 & Hw & Hw1 & Hb1 & Hrl1 & Hp1 & Hrem1 & Hfin1 & Hwl1 & Hun &
          Hinv1 & Hbs1 & Hfl1 & Hoof1 & Hcs1 & Hrlim1 & Herr1 & Hec1 & He).
    rewrite Hrl1.
    assert (Hbu : blen (unmask c s w1) = blen w1) by (unfold blen; rewrite unmask_length; reflexivity).
    assert (Hw1pos : (0 < length w1)%nat) by (destruct w1; [congruence|cbn [length]; lia]).
    assert (Hlw : (length wp = length w1 + length w2)%nat) by (rewrite Hw, app_length; reflexivity).
    destruct He as [-> | [Hw2 ->]].
    + cbn [ra_cont]. destruct fa as [|fa]; [lia|].
      rewrite read_all_S. unfold reader_read.
      pose proof Hrinv as (Hinv & Hbs & Hflt & Herr & Hoof & Hcs & Hrlim & Hecnt).
      assert (Hrinv1 : rinv k s1) by (unfold rinv; rewrite Hbs1, Hec1; auto 12).
      destruct (IHn (length w2) ltac:(lia) w2 eq_refl s1 fa
                  (fuel_of s1) (len + blen (unmask c s w1))
                  (if len + blen (unmask c s w1) =? cp then next_cap (caps c) cp else cp)
                  (acc ++ unmask c s w1) miss)
        as (s' & Hres & Hend);
        [exact Hrinv1|exact Hrem1|exact Hmiss|exact Hp1
        | rewrite Hbu; destruct (N.eqb_spec (len + blen w1) cp) as [Hq|Hq];
            [pose proof (next_cap_gt (caps c) cp ltac:(lia)); lia|lia]
        |unfold fuel_of; rewrite Hp1; lia|lia|].
      exists s'. split.
      { rewrite Hres. rewrite Hun, <- !app_assoc. reflexivity. }
      rewrite Hwl1 in Hend. exact Hend.
    + rewrite ra_cont_err by apply is_io_eof_berr.
      exists s1. split; [rewrite Hun, Hw2, unmask_nil, app_nil_r; reflexivity|]. auto.
Qed.

Variables (f:frame) (cut suf:bytes).
Hypothesis Hwff : wf_frame f.
Hypothesis Henc : encode_frame f = cut ++ suf.
Hypothesis Hsuf : suf <> [].

(* ---------- ReadAll from the middle of a frame of an open message, through the frames that
   are completely there, to the cut (mode 1) ---------- *)
Lemma ra_cut : forall fs n wp, length wp = n -> forall s fa fl len cp acc,
  rinv k s -> rem s = blen wp -> rfin s = false ->
  pending (br s) = wp ++ encode_frames fs ++ cut ->
  Forall wf_frame fs -> mid_ok (server c) fs = true -> frame_acc (server c) true f = true ->
  rlen s + blen (encode_frames fs) + plen f < 2^63 ->
  len < cp -> (length (pending (br s)) < fl)%nat -> (length (pending (br s)) <= fa)%nat ->
  exists s', ra_cont fa c len cp acc (read_loop fl c (N.to_nat (cp - len)) s)
             = (acc ++ unmask c s wp ++ mid_data fs ++ cut_payload f (length cut), Some e0, s') /\
    rerror s' = Some e0 /\ wlog s' = wlog s ++ map WPong (pings_of fs) /\ outoffuel s' = false.
Proof.
  induction fs as [|g fs IHfs].
  - (* no further complete frame *)
    induction n as [n IHn] using lt_wf_ind.
    intros wp Hn s fa fl len cp acc Hrinv Hrem Hfin Hp Hwf Hmid Haccf Hrl Hlc Hfl Hfa.
    pose proof Hrinv as (Hinv & Hbs & Hflt & Herr & Hoof & Hcs & Hrlim & Hecnt).
    cbn [encode_frames flat_map app mid_data pings_of map] in *. rewrite app_nil_r.
    destruct fl as [|fl]; [lia|].
    destruct wp as [|x wp'] eqn:Ewp.
    + (* at the cut *)
      cbn [app] in Hp. rewrite unmask_nil. cbn [app].
      assert (Haccs : frame_acc (server c) (negb (rfin s)) f = true) by (rewrite Hfin; exact Haccf).
      pose proof (advance_after_skip_good c s) as (Hpres & _).
      cbn [read_loop]. rewrite Herr. replace (0 <? rem s) with false by (change (blen []) with 0 in Hrem; lia).
      cbv iota. rewrite Hfin. rewrite advance_frame_rem0 by exact Hrem.
      destruct (cut_case f cut suf Henc Hsuf) as [Hcase|(Hctl & w & Ecut & Ewp2 & Ecp & Hsufpos)].
      * destruct (advance_cut_err k c s f cut suf Hrinv Hwff Haccs Hp Henc Hsuf Hcase) as (s1 & Hadv & Hwl1).
        rewrite Hadv in *. cbn [snd] in Hpres. cbv iota.
        destruct Hpres as (_ & _ & P3 & _).
        rewrite (read_loop_err_val fl c _ _ e0) by reflexivity.
        unfold e0 at 1. rewrite is_io_eof_berr. cbn [andb].
        rewrite ra_cont_err by apply is_io_eof_berr.
        eexists. split; [rewrite (cut_payload_hdr f cut Hcase); reflexivity|]. rsimpl.
        split; [reflexivity|]. split; [exact Hwl1|congruence].
      * assert (Hop : opcode f = 0).
        { destruct (acc_cases _ _ _ Haccf) as [(Hc & _)|(_ & [(_ & Hx)|(Ho & _)])];
            [congruence|discriminate Hx|exact Ho]. }
        rewrite Ecut in Hp.
        destruct (advance_cut_data k c s f w suf Hrinv Hwff Haccs Hctl Hp Ewp2)
          as (s1 & Hadv & Hrinv1 & Hrem1 & Hfin1 & Hp1 & Hun1 & _ & Hwl1);
          [rewrite Hop; change (0 =? 0) with true; cbv iota; lia|].
        rewrite Hadv. cbv iota. rewrite Hop.
        change ((0 =? c_TextMessage) || (0 =? c_BinaryMessage)) with false. cbv iota.
        assert (Hlc2 : (length (pending (br s)) = hlen f + length w)%nat)
          by (rewrite Hp, app_length; reflexivity).
        assert (Hh2 : (2 <= hlen f)%nat) by (unfold hlen, hdr_bytes; cbn [length]; lia).
        destruct (ra_partial (length w) w eq_refl s1 fa fl len cp acc (blen suf))
          as (s' & Hres & H1 & H2 & H3);
          [exact Hrinv1|exact Hrem1|exact Hsufpos|exact Hp1|exact Hlc|lia|lia|].
        exists s'. split; [rewrite Hres, Hun1, Ecp; reflexivity|].
        split; [exact H1|]. split; [congruence|exact H3].
    + rewrite <- Ewp in *.
      assert (Hwne : wp <> []) by (rewrite Ewp; discriminate).
      assert (Hm : (0 < N.to_nat (cp - len))%nat) by lia.
      destruct (read_loop_chunk k c _ fl s wp cut Hrinv Hm Hwne Hrem Hp)
        as (w1 & w2 & e & s1 & Hw & Hw1 & Hb1 & Hrl1 & Hp1 & Hrem1 & Hfin1 & Hrlen1 & Hwl1 & Hun &
            Hinv1 & Hbs1 & Hfl1 & Hoof1 & Hcs1 & Hrlim1 & Herr1 & Hec1 & He).
      rewrite Hrl1.
      assert (Hbu : blen (unmask c s w1) = blen w1) by (unfold blen; rewrite unmask_length; reflexivity).
      assert (Hlen1 : (length (pending (br s)) = length w1 + length (pending (br s1)))%nat).
      { rewrite Hp, Hp1, Hw, <- app_assoc, app_length. reflexivity. }
      assert (Hw1pos : (0 < length w1)%nat) by (destruct w1; [congruence|cbn [length]; lia]).
      destruct He as [-> | [Hnil ->]].
      * cbn [ra_cont]. destruct fa as [|fa]; [lia|].
        rewrite read_all_S. unfold reader_read.
        assert (Hrinv1 : rinv k s1) by (unfold rinv; rewrite Hbs1, Hec1; auto 12).
        destruct (IHn (length w2) ltac:(subst n; rewrite Hw, app_length; lia) w2 eq_refl s1 fa
                    (fuel_of s1) (len + blen (unmask c s w1))
                    (if len + blen (unmask c s w1) =? cp then next_cap (caps c) cp else cp)
                    (acc ++ unmask c s w1))
          as (s' & Hres & Hend);
          [exact Hrinv1|exact Hrem1|rewrite Hfin1; exact Hfin|exact Hp1|exact Hwf|exact Hmid|exact Haccf
          |rewrite Hrlen1; exact Hrl
          | rewrite Hbu; destruct (N.eqb_spec (len + blen w1) cp) as [Hq|Hq];
              [pose proof (next_cap_gt (caps c) cp ltac:(lia)); lia|lia]
          |unfold fuel_of; lia|lia|].
        exists s'. split.
        { rewrite Hres. rewrite Hun, <- !app_assoc. reflexivity. }
        rewrite Hwl1, app_nil_r in Hend. exact Hend.
      * (* the fault came with the last bytes: the stream ends exactly at a frame boundary *)
        apply app_eq_nil in Hnil. destruct Hnil as [Hw2 Hcut].
        rewrite Hfin. cbn [negb andb]. rewrite eof_err_eq.
        rewrite ra_cont_err by apply is_io_eof_berr.
        exists s1. split.
        { rewrite Hun, Hw2, unmask_nil, app_nil_r.
          rewrite cut_payload_hdr by (right; rewrite Hcut; unfold hlen, hdr_bytes; cbn [length]; lia).
          rewrite app_nil_r. reflexivity. }
        rewrite Hfin in Herr1. cbn [negb andb] in Herr1. rewrite eof_err_eq in Herr1. auto.
  - (* at least one more complete frame *)
    induction n as [n IHn] using lt_wf_ind.
    intros wp Hn s fa fl len cp acc Hrinv Hrem Hfin Hp Hwf Hmid Haccf Hrl Hlc Hfl Hfa.
    pose proof Hrinv as (Hinv & Hbs & Hflt & Herr & Hoof & Hcs & Hrlim & Hecnt).
    destruct fl as [|fl]; [lia|].
    inversion Hwf as [|g' fs' Hwfg Hwfs]; subst g' fs'.
    unfold mid_ok in Hmid. cbn [forallb] in Hmid. apply andb_true_iff in Hmid. destruct Hmid as [Hg Hmid].
    apply andb_true_iff in Hg. destruct Hg as [Hacc Hgnf]. fold (mid_ok (server c) fs) in Hmid.
    destruct wp as [|x wp'] eqn:Ewp.
    + (* frame boundary *)
      cbn [app] in Hp. rewrite encode_frames_cons, <- app_assoc in Hp.
      assert (Hlenp : (length (pending (br s)) =
                       length (encode_frame g) + length (encode_frames fs ++ cut))%nat)
        by (rewrite Hp, app_length; reflexivity).
      pose proof (encode_frame_length_ge2 g) as Hge2.
      assert (Hrlf : rlen s + plen g + blen (encode_frames fs) + plen f < 2^63).
      { rewrite encode_frames_cons, blen_app in Hrl. pose proof (encode_frame_ge_plen g). lia. }
      assert (Haccs : frame_acc (server c) (negb (rfin s)) g = true) by (rewrite Hfin; exact Hacc).
      destruct (acc_cases _ _ _ Hacc) as [(Hctl & Hop & _)|(Hctl & [(_ & Hxx)|(Hop & _)])];
        [| discriminate Hxx |].
      * (* ping / pong *)
        destruct (advance_ctl k c s g (encode_frames fs ++ cut) Hrinv Hch Hwfg Haccs Hctl Hp)
          as (s1 & Hadv & Hrinv1 & Hrem1 & Hfin1 & Hrlen1 & Hp1 & Hwl1).
        rewrite (read_loop_adv fl c _ s (opcode g) s1 Herr Hrem Hfin Hadv) by lia.
        destruct (IHfs 0%nat [] eq_refl s1 fa fl len cp acc) as (s' & Hres & Hend);
          [exact Hrinv1|exact Hrem1|rewrite Hfin1; exact Hfin|exact Hp1|exact Hwfs|exact Hmid|exact Haccf
          |rewrite Hrlen1; rewrite encode_frames_cons, blen_app in Hrl; lia
          |exact Hlc|rewrite Hp1; lia|rewrite Hp1; lia|].
        exists s'. split.
        { rewrite Hres, !unmask_nil. cbn [mid_data flat_map]. rewrite Hctl. reflexivity. }
        rewrite Hwl1, <- app_assoc, <- map_app in Hend. exact Hend.
      * (* continuation frame, FIN clear *)
        rewrite Hctl in Hgnf. cbn [orb] in Hgnf. apply negb_true_iff in Hgnf.
        destruct (advance_data k c s g (encode_frames fs ++ cut) Hrinv Hwfg Haccs Hctl Hp)
          as (s1 & Hadv & Hrinv1 & Hrem1 & Hfin1 & Hrlen1 & Hp1 & Hun1 & _ & Hwl1);
          [rewrite Hop; change (0 =? 0) with true; cbv iota; lia|].
        rewrite Hop in Hrlen1. change (0 =? 0) with true in Hrlen1. cbv iota in Hrlen1.
        rewrite (read_loop_adv fl c _ s (opcode g) s1 Herr Hrem Hfin Hadv) by lia.
        assert (Hwpl : (length (wire_payload g) <= length (encode_frame g) - 2)%nat).
        { rewrite encode_frame_decomp. cbn [length]. rewrite !app_length. lia. }
        destruct (IHfs (length (wire_payload g)) (wire_payload g) eq_refl s1 fa fl len cp acc)
          as (s' & Hres & Hend);
          [exact Hrinv1|rewrite Hrem1; symmetry; apply wire_payload_blen|rewrite Hfin1; exact Hgnf
          |exact Hp1|exact Hwfs|exact Hmid|exact Haccf|rewrite Hrlen1; exact Hrlf
          |exact Hlc|rewrite Hp1, app_length; lia|rewrite Hp1, app_length; lia|].
        exists s'. split.
        { rewrite Hres, Hun1, unmask_nil. cbn [mid_data flat_map app]. rewrite Hctl, <- app_assoc. reflexivity. }
        rewrite Hwl1 in Hend. rewrite pings_of_cons, ping1_nonctl by exact Hctl. exact Hend.
    + (* inside a frame *)
      rewrite <- Ewp in *.
      assert (Hwne : wp <> []) by (rewrite Ewp; discriminate).
      assert (Hm : (0 < N.to_nat (cp - len))%nat) by lia.
      destruct (read_loop_chunk k c _ fl s wp (encode_frames (g :: fs) ++ cut) Hrinv Hm Hwne Hrem Hp)
        as (w1 & w2 & e & s1 & Hw & Hw1 & Hb1 & Hrl1 & Hp1 & Hrem1 & Hfin1 & Hrlen1 & Hwl1 & Hun &
            Hinv1 & Hbs1 & Hfl1 & Hoof1 & Hcs1 & Hrlim1 & Herr1 & Hec1 & He).
      rewrite Hrl1.
      assert (Hbu : blen (unmask c s w1) = blen w1) by (unfold blen; rewrite unmask_length; reflexivity).
      assert (Hlen1 : (length (pending (br s)) = length w1 + length (pending (br s1)))%nat).
      { rewrite Hp, Hp1, Hw, <- app_assoc, app_length. reflexivity. }
      assert (Hw1pos : (0 < length w1)%nat) by (destruct w1; [congruence|cbn [length]; lia]).
      destruct He as [-> | [Hnil _]].
      * cbn [ra_cont]. destruct fa as [|fa]; [lia|].
        rewrite read_all_S. unfold reader_read.
        assert (Hrinv1 : rinv k s1) by (unfold rinv; rewrite Hbs1, Hec1; auto 12).
        destruct (IHn (length w2) ltac:(subst n; rewrite Hw, app_length; lia) w2 eq_refl s1 fa
                    (fuel_of s1) (len + blen (unmask c s w1))
                    (if len + blen (unmask c s w1) =? cp then next_cap (caps c) cp else cp)
                    (acc ++ unmask c s w1))
          as (s' & Hres & Hend);
          [exact Hrinv1|exact Hrem1|rewrite Hfin1; exact Hfin|exact Hp1|exact Hwf
          |unfold mid_ok; cbn [forallb]; rewrite Hacc, Hgnf; exact Hmid|exact Haccf
          |rewrite Hrlen1; exact Hrl
          | rewrite Hbu; destruct (N.eqb_spec (len + blen w1) cp) as [Hq|Hq];
              [pose proof (next_cap_gt (caps c) cp ltac:(lia)); lia|lia]
          |unfold fuel_of; lia|lia|].
        exists s'. split.
        { rewrite Hres. rewrite Hun, <- !app_assoc. reflexivity. }
        rewrite Hwl1 in Hend. exact Hend.
      * exfalso. apply app_eq_nil in Hnil. destruct Hnil as [_ Hnil].
        apply app_eq_nil in Hnil. destruct Hnil as [Hnil _].
        apply encode_frames_nil_inv in Hnil. discriminate Hnil.
Qed.

End Cut.

(* ============================== CutRead.v ============================== *)
(* Part B': the NextReader + Read API on a message that is cut: every Read returns bytes of the
   message or the transport error, never io.EOF. *)

(* Read never changes which reader is current, except when it reports io.EOF *)
Lemma read_loop_cur : forall fuel c m s d e s',
  read_loop fuel c m s = (d, e, s') -> cur s' = cur s \/ e = Some RIoEOF.
Proof.
  induction fuel as [|fu IH]; intros c m s d e s' H.
  - cbn [read_loop] in H. destruct (rerror s); inversion H; subst; left; reflexivity.
  - cbn [read_loop] in H. destruct (rerror s) as [e1|] eqn:He; [inversion H; subst; left; reflexivity|].
    destruct (0 <? rem s) eqn:Er.
    + cbv zeta in H.
      destruct (br_read (N.to_nat (N.min (N.of_nat m) (rem s))) (br s)) as [[d0 e0] b].
      inversion H; subst. left. destruct (server c); rsimpl; reflexivity.
    + destruct (rfin s); [inversion H; subst; right; reflexivity|].
      rewrite advance_frame_rem0 in H by lia.
      pose proof (advance_after_skip_good c s) as (Hp & _).
      destruct (advance_after_skip c s) as [a s1]. cbn [snd] in Hp. destruct Hp as (Hcur & _).
      destruct a as [e1|op]; [|destruct ((op =? c_TextMessage) || (op =? c_BinaryMessage))].
      * destruct (IH _ _ _ _ _ _ H) as [Hc|Hc]; [left; rewrite Hc; rsimpl; exact Hcur|right; exact Hc].
      * destruct (IH _ _ _ _ _ _ H) as [Hc|Hc]; [left; rewrite Hc; rsimpl; exact Hcur|right; exact Hc].
      * destruct (IH _ _ _ _ _ _ H) as [Hc|Hc]; [left; congruence|right; exact Hc].
Qed.

Lemma unmask_nonnil c s w : w <> [] -> unmask c s w <> [].
Proof.
  intros H E. apply H. apply length_zero_nil. rewrite <- (unmask_length c s w), E. reflexivity.
Qed.

Section ReadAPI.
Variables (k:errk) (c:rcfg).
Hypothesis Hch : custom_handlers c = false.
Variables (f:frame) (cut suf:bytes).
Hypothesis Hwff : wf_frame f.
Hypothesis Henc : encode_frame f = cut ++ suf.
Hypothesis Hsuf : suf <> [].

Let e0 : rerr := of_berror (BErr k).

(* mode 1: inside (or at the end of) a complete frame of the open message; [fs] complete frames
   follow, then the cut.  mode 2: inside the frame that is cut. *)
Definition mode1 (s:rst) (wp:bytes) (fs:list frame) : Prop :=
  rinv k s /\ rem s = blen wp /\ rfin s = false /\ pending (br s) = wp ++ encode_frames fs ++ cut /\
  Forall wf_frame fs /\ mid_ok (server c) fs = true /\ frame_acc (server c) true f = true /\
  rlen s + blen (encode_frames fs) + plen f < 2^63.
Definition mode2 (s:rst) (wp:bytes) (miss:N) : Prop :=
  rinv k s /\ rem s = blen wp + miss /\ 0 < miss /\ pending (br s) = wp.

(* [dr]: the bytes of the message still to be delivered; [pg]: pings still to be answered *)
Definition cutst (s:rst) (dr:bytes) (pg:list bytes) : Prop :=
  (exists wp fs, mode1 s wp fs /\ dr = unmask c s wp ++ mid_data fs ++ cut_payload f (length cut) /\
                 pg = pings_of fs) \/
  (exists wp miss, mode2 s wp miss /\ dr = unmask c s wp /\ pg = []).

(* io.ReadAll from such a state *)
Lemma read_all_cutst s dr pg : cutst s dr pg ->
  exists s2, read_all (fuel_of s) c 0 512 [] s = (dr, Some e0, s2) /\
    rerror s2 = Some e0 /\ wlog s2 = wlog s ++ map WPong pg /\ outoffuel s2 = false.
Proof.
  intros [(wp & fs & (H1 & H2 & H3 & H4 & H5 & H6 & H7 & H8) & -> & ->)|(wp & miss & (H1 & H2 & H3 & H4) & -> & ->)];
    unfold fuel_of at 1; rewrite read_all_S; unfold reader_read.
  - destruct (ra_cut k c Hch f cut suf Hwff Henc Hsuf fs (length wp) wp eq_refl s
                (S (length (pending (br s)))) (fuel_of s) 0 512 [])
      as (s2 & Hres & R1 & R2 & R3); try assumption; [lia|unfold fuel_of; lia|lia|].
    exists s2. rewrite Hres. auto.
  - destruct (ra_partial k c (length wp) wp eq_refl s (S (length (pending (br s)))) (fuel_of s) 0 512 [] miss)
      as (s2 & Hres & R1 & R2 & R3); try assumption; [lia|unfold fuel_of; rewrite H4; lia|rewrite H4; lia|].
    exists s2. rewrite Hres. cbn [map]. rewrite app_nil_r. auto.
Qed.

(* ---------- one Read ---------- *)
Definition step_ok (dr:bytes) (m:nat) (r : bytes * option rerr * rst) : Prop :=
  let '(d, e, s') := r in
  exists dr', dr = d ++ dr' /\ blen d <= N.of_nat m /\
   ((e = None /\ d <> [] /\ exists pg', cutst s' dr' pg') \/
    (e = Some e0 /\ dr' = [] /\ rerror s' = Some e0 /\ outoffuel s' = false)).

Lemma step_mode2 s wp miss m fl : mode2 s wp miss -> (0 < m)%nat -> (0 < fl)%nat ->
  step_ok (unmask c s wp) m (read_loop fl c m s).
Proof.
  intros (Hrinv & Hrem & Hmiss & Hp) Hm Hfl. destruct fl as [|fl]; [lia|].
  destruct wp as [|x wp'] eqn:Ewp.
  - destruct (read_loop_starved k c m fl s Hrinv Hm) as (s' & Hrl & H1 & _ & H3 & _);
      [change (blen []) with 0 in Hrem; lia|exact Hp|].
    rewrite Hrl. unfold step_ok. exists []. rewrite unmask_nil. split; [reflexivity|].
    split; [change (blen []) with 0; lia|]. right. auto.
  - rewrite <- Ewp in *.
    assert (Hwne : wp <> []) by (rewrite Ewp; discriminate).
    destruct (read_loop_chunk_cut k c m fl s wp miss Hrinv Hm Hwne Hrem Hmiss Hp)
      as (w1 & w2 & e & s1 & Hw & Hw1 & Hb1 & Hrl1 & Hp1 & Hrem1 & Hfin1 & Hwl1 & Hun &
          Hinv1 & Hbs1 & Hfl1 & Hoof1 & Hcs1 & Hrlim1 & Herr1 & Hec1 & He).
    rewrite Hrl1. unfold step_ok. exists (unmask c s1 w2). split; [exact Hun|].
    split; [unfold blen; rewrite unmask_length; exact Hb1|].
    destruct He as [-> | [Hw2 ->]].
    + left. split; [reflexivity|]. split; [apply unmask_nonnil; exact Hw1|].
      pose proof Hrinv as (Hinv & Hbs & Hflt & Herr & Hoof & Hcs & Hrlim & Hecnt).
      assert (Hrinv1 : rinv k s1) by (unfold rinv; rewrite Hbs1, Hec1; auto 12).
      exists []. right. exists w2, miss. unfold mode2. auto 10.
    + right. split; [reflexivity|]. split; [rewrite Hw2; apply unmask_nil|split; [exact Herr1|exact Hoof1]].
Qed.

Lemma step_mode1 m : (0 < m)%nat -> forall fs wp s fl, mode1 s wp fs ->
  (length (pending (br s)) < fl)%nat ->
  step_ok (unmask c s wp ++ mid_data fs ++ cut_payload f (length cut)) m (read_loop fl c m s).
Proof.
  intros Hm. induction fs as [|g fs IHfs]; intros wp s fl (Hrinv & Hrem & Hfin & Hp & Hwf & Hmid & Haccf & Hrl) Hfl;
    pose proof Hrinv as (Hinv & Hbs & Hflt & Herr & Hoof & Hcs & Hrlim & Hecnt);
    (destruct fl as [|fl]; [lia|]).
  - cbn [encode_frames flat_map app mid_data] in *.
    destruct wp as [|x wp'] eqn:Ewp.
    + cbn [app] in Hp. rewrite unmask_nil. cbn [app].
      assert (Haccs : frame_acc (server c) (negb (rfin s)) f = true) by (rewrite Hfin; exact Haccf).
      cbn [read_loop]. rewrite Herr. replace (0 <? rem s) with false by (change (blen []) with 0 in Hrem; lia).
      cbv iota. rewrite Hfin. rewrite advance_frame_rem0 by exact Hrem.
      destruct (cut_case f cut suf Henc Hsuf) as [Hcase|(Hctl & w & Ecut & Ewp2 & Ecp & Hsufpos)].
      * pose proof (advance_after_skip_good c s) as (Hpres & _).
        destruct (advance_cut_err k c s f cut suf Hrinv Hwff Haccs Hp Henc Hsuf Hcase) as (s1 & Hadv & Hwl1).
        rewrite Hadv in *. cbn [snd] in Hpres. destruct Hpres as (_ & _ & P3 & _). cbv iota.
        rewrite (read_loop_err_val fl c _ _ e0) by reflexivity.
        unfold e0 at 1. rewrite is_io_eof_berr. cbn [andb].
        unfold step_ok. exists []. rewrite (cut_payload_hdr f cut Hcase). split; [reflexivity|].
        split; [change (blen []) with 0; lia|]. right. rsimpl.
        split; [reflexivity|]. split; [reflexivity|]. split; [reflexivity|congruence].
      * assert (Hop : opcode f = 0).
        { destruct (acc_cases _ _ _ Haccf) as [(Hc & _)|(_ & [(_ & Hx)|(Ho & _)])];
            [congruence|discriminate Hx|exact Ho]. }
        rewrite Ecut in Hp.
        destruct (advance_cut_data k c s f w suf Hrinv Hwff Haccs Hctl Hp Ewp2)
          as (s1 & Hadv & Hrinv1 & Hrem1 & Hfin1 & Hp1 & Hun1 & _ & Hwl1);
          [rewrite Hop; change (0 =? 0) with true; cbv iota; change (blen []) with 0 in Hrl; lia|].
        rewrite Hadv. cbv iota. rewrite Hop.
        change ((0 =? c_TextMessage) || (0 =? c_BinaryMessage)) with false. cbv iota.
        assert (Hh2 : (2 <= hlen f)%nat) by (unfold hlen, hdr_bytes; cbn [length]; lia).
        rewrite Ecp, <- Hun1. apply (step_mode2 s1 w (blen suf)); [unfold mode2; auto|exact Hm|].
        rewrite Hp, app_length in Hfl. unfold hlen in Hh2. lia.
    + rewrite <- Ewp in *.
      assert (Hwne : wp <> []) by (rewrite Ewp; discriminate).
      destruct (read_loop_chunk k c m fl s wp cut Hrinv Hm Hwne Hrem Hp)
        as (w1 & w2 & e & s1 & Hw & Hw1 & Hb1 & Hrl1 & Hp1 & Hrem1 & Hfin1 & Hrlen1 & Hwl1 & Hun &
            Hinv1 & Hbs1 & Hfl1 & Hoof1 & Hcs1 & Hrlim1 & Herr1 & Hec1 & He).
      rewrite Hrl1. unfold step_ok. exists (unmask c s1 w2 ++ cut_payload f (length cut)).
      split; [rewrite Hun, <- app_assoc; reflexivity|].
      split; [unfold blen; rewrite unmask_length; exact Hb1|].
      destruct He as [-> | [Hnil ->]].
      * left. split; [reflexivity|]. split; [apply unmask_nonnil; exact Hw1|].
        assert (Hrinv1 : rinv k s1) by (unfold rinv; rewrite Hbs1, Hec1; auto 12).
        exists (pings_of []). left. exists w2, []. split; [|auto].
        unfold mode1. cbn [encode_frames flat_map app]. rewrite Hfin1, Hrlen1. auto 12.
      * right. apply app_eq_nil in Hnil. destruct Hnil as [Hw2 Hcut].
        rewrite Hfin. cbn [negb andb]. rewrite eof_err_eq. split; [reflexivity|].
        split.
        { rewrite Hw2, unmask_nil. cbn [app].
          apply cut_payload_hdr. right. rewrite Hcut. unfold hlen, hdr_bytes. cbn [length]. lia. }
        rewrite Hfin in Herr1. cbn [negb andb] in Herr1. rewrite eof_err_eq in Herr1. split; [exact Herr1|exact Hoof1].
  - inversion Hwf as [|g' fs' Hwfg Hwfs]; subst g' fs'.
    pose proof Hmid as Hmid0.
    unfold mid_ok in Hmid. cbn [forallb] in Hmid. apply andb_true_iff in Hmid. destruct Hmid as [Hg Hmid].
    apply andb_true_iff in Hg. destruct Hg as [Hacc Hgnf]. fold (mid_ok (server c) fs) in Hmid.
    destruct wp as [|x wp'] eqn:Ewp.
    + cbn [app] in Hp. rewrite encode_frames_cons, <- app_assoc in Hp.
      assert (Hlenp : (length (pending (br s)) =
                       length (encode_frame g) + length (encode_frames fs ++ cut))%nat)
        by (rewrite Hp, app_length; reflexivity).
      pose proof (encode_frame_length_ge2 g) as Hge2.
      assert (Hrlf : rlen s + plen g + blen (encode_frames fs) + plen f < 2^63).
      { rewrite encode_frames_cons, blen_app in Hrl. pose proof (encode_frame_ge_plen g). lia. }
      assert (Haccs : frame_acc (server c) (negb (rfin s)) g = true) by (rewrite Hfin; exact Hacc).
      rewrite unmask_nil. cbn [app mid_data flat_map]. fold (mid_data fs).
      destruct (acc_cases _ _ _ Hacc) as [(Hctl & Hop & _)|(Hctl & [(_ & Hxx)|(Hop & _)])];
        [| discriminate Hxx |].
      * destruct (advance_ctl k c s g (encode_frames fs ++ cut) Hrinv Hch Hwfg Haccs Hctl Hp)
          as (s1 & Hadv & Hrinv1 & Hrem1 & Hfin1 & Hrlen1 & Hp1 & Hwl1).
        rewrite (read_loop_adv fl c _ s (opcode g) s1 Herr Hrem Hfin Hadv) by lia.
        rewrite Hctl. cbn [app].
        replace (mid_data fs ++ cut_payload f (length cut))
          with (unmask c s1 [] ++ mid_data fs ++ cut_payload f (length cut))
          by (rewrite unmask_nil; reflexivity).
        apply IHfs; [|rewrite Hp1; lia].
        unfold mode1. rewrite Hfin1, Hrlen1. cbn [app].
        rewrite encode_frames_cons, blen_app in Hrl. split; [exact Hrinv1|]. split; [exact Hrem1|].
        split; [exact Hfin|]. split; [exact Hp1|]. split; [exact Hwfs|]. split; [exact Hmid|].
        split; [exact Haccf|lia].
      * rewrite Hctl in Hgnf. cbn [orb] in Hgnf. apply negb_true_iff in Hgnf.
        destruct (advance_data k c s g (encode_frames fs ++ cut) Hrinv Hwfg Haccs Hctl Hp)
          as (s1 & Hadv & Hrinv1 & Hrem1 & Hfin1 & Hrlen1 & Hp1 & Hun1 & _ & Hwl1);
          [rewrite Hop; change (0 =? 0) with true; cbv iota; lia|].
        rewrite Hop in Hrlen1. change (0 =? 0) with true in Hrlen1. cbv iota in Hrlen1.
        rewrite (read_loop_adv fl c _ s (opcode g) s1 Herr Hrem Hfin Hadv) by lia.
        rewrite Hctl, <- app_assoc, <- Hun1.
        assert (Hwpl : (length (wire_payload g) <= length (encode_frame g) - 2)%nat).
        { rewrite encode_frame_decomp. cbn [length]. rewrite !app_length. lia. }
        apply IHfs; [|rewrite Hp1, app_length; lia].
        unfold mode1. rewrite Hfin1, Hrlen1.
        split; [exact Hrinv1|]. split; [rewrite Hrem1; symmetry; apply wire_payload_blen|].
        split; [exact Hgnf|]. split; [exact Hp1|]. split; [exact Hwfs|]. split; [exact Hmid|].
        split; [exact Haccf|exact Hrlf].
    + rewrite <- Ewp in *.
      assert (Hwne : wp <> []) by (rewrite Ewp; discriminate).
      destruct (read_loop_chunk k c m fl s wp (encode_frames (g :: fs) ++ cut) Hrinv Hm Hwne Hrem Hp)
        as (w1 & w2 & e & s1 & Hw & Hw1 & Hb1 & Hrl1 & Hp1 & Hrem1 & Hfin1 & Hrlen1 & Hwl1 & Hun &
            Hinv1 & Hbs1 & Hfl1 & Hoof1 & Hcs1 & Hrlim1 & Herr1 & Hec1 & He).
      rewrite Hrl1. unfold step_ok.
      exists (unmask c s1 w2 ++ mid_data (g :: fs) ++ cut_payload f (length cut)).
      split; [rewrite Hun, <- app_assoc; reflexivity|].
      split; [unfold blen; rewrite unmask_length; exact Hb1|].
      destruct He as [-> | [Hnil _]].
      * left. split; [reflexivity|]. split; [apply unmask_nonnil; exact Hw1|].
        assert (Hrinv1 : rinv k s1) by (unfold rinv; rewrite Hbs1, Hec1; auto 12).
        exists (pings_of (g :: fs)). left. exists w2, (g :: fs). split; [|auto].
        unfold mode1. rewrite Hfin1, Hrlen1. auto 12.
      * exfalso. apply app_eq_nil in Hnil. destruct Hnil as [_ Hnil].
        apply app_eq_nil in Hnil. destruct Hnil as [Hnil _].
        apply encode_frames_nil_inv in Hnil. discriminate Hnil.
Qed.

Lemma step_cutst s dr pg m : cutst s dr pg -> (0 < m)%nat -> step_ok dr m (reader_read c m s).
Proof.
  intros [(wp & fs & Hm1 & -> & _)|(wp & miss & Hm2 & -> & _)] Hm; unfold reader_read.
  - apply step_mode1; [exact Hm|exact Hm1|unfold fuel_of; lia].
  - apply (step_mode2 s wp miss); [exact Hm2|exact Hm|unfold fuel_of; lia].
Qed.

Lemma cutst_opidx s dr pg n : cutst s dr pg -> cutst (s <| opidx := n |>) dr pg.
Proof.
  intros [(wp & fs & (H1 & H2) & Hd & Hg)|(wp & miss & (H1 & H2) & Hd & Hg)].
  - left. exists wp, fs. split; [|split; [exact Hd|exact Hg]].
    split; [apply (rinv_same k s); [exact H1|reflexivity ..]|exact H2].
  - right. exists wp, miss. split; [|split; [exact Hd|exact Hg]].
    split; [apply (rinv_same k s); [exact H1|reflexivity ..]|exact H2].
Qed.

(* ---------- any number of Reads ---------- *)
Variable inflate : bytes -> option bytes.

Definition rdata (r:rout) : bytes := match r with RData d _ => d | _ => [] end.
Definition read_out_ok (r:rout) : Prop :=
  exists d e, r = RData d e /\ e <> Some RIoEOF /\ (e = None \/ e = Some e0).

Lemma reads_after_error : forall l s, rerror s = Some e0 -> cur s <> None ->
  exists s', run_ops inflate c s (map ORead l) = (map (fun _ => RData [] (Some e0)) l, s') /\
             rerror s' = Some e0 /\ wlog s' = wlog s /\ outoffuel s' = outoffuel s.
Proof.
  induction l as [|m l IH]; intros s He Hc.
  - exists s. cbn [map run_ops]. auto.
  - cbn [map run_ops]. unfold rstep. destruct (cur s) as [i|] eqn:Ec; [|congruence].
    unfold reader_read. rewrite (read_loop_err_val _ c m s e0 He).
    unfold e0 at 1. rewrite is_io_eof_berr. cbn [andb].
    destruct (IH (s <| opidx := S (opidx s) |>)) as (s' & Hrun & H1 & H2 & H3);
      [exact He|change (cur (s <| opidx := S (opidx s) |>)) with (cur s); congruence|].
    rewrite Hrun. exists s'. auto.
Qed.

Theorem reads_on_cut_message : forall l s dr pg,
  cutst s dr pg -> cur s <> None -> Forall (fun m => (0 < m)%nat) l ->
  exists outs s', run_ops inflate c s (map ORead l) = (outs, s') /\
    Forall read_out_ok outs /\ (exists dr', dr = flat_map rdata outs ++ dr') /\
    outoffuel s' = false.
Proof.
  induction l as [|m l IH]; intros s dr pg Hst Hc Hl.
  - exists [], s. cbn [map run_ops flat_map app]. split; [reflexivity|]. split; [constructor|].
    split; [exists dr; reflexivity|].
    destruct Hst as [(wp & fs & (H1 & _) & _)|(wp & miss & (H1 & _) & _)]; apply H1.
  - inversion Hl as [|m' l' Hm Hl']; subst m' l'.
    cbn [map run_ops]. unfold rstep. destruct (cur s) as [i|] eqn:Ec; [|congruence].
    pose proof (step_cutst s dr pg m Hst Hm) as Hstep.
    pose proof (read_loop_cur (fuel_of s) c m s) as Hcur. unfold reader_read in *.
    destruct (read_loop (fuel_of s) c m s) as [[d e] s1]. specialize (Hcur d e s1 eq_refl).
    unfold step_ok in Hstep. destruct Hstep as (dr' & Hdr & Hb & [(-> & Hd & pg' & Hst1)|(-> & Hdr' & Herr1 & Hoof1)]).
    + destruct Hcur as [Hcur|Hx]; [|discriminate Hx].
      destruct (IH (s1 <| opidx := S (opidx s1) |>) dr' pg') as (outs & s' & Hrun & Hok & (dr2 & Hdr2) & Hoof);
        [apply cutst_opidx; exact Hst1|change (cur (s1 <| opidx := S (opidx s1) |>)) with (cur s1); congruence
        |exact Hl'|].
      rewrite Hrun. eexists _, s'. split; [reflexivity|].
      split; [constructor; [exists d, None; split; [reflexivity|]; split; [discriminate|left; reflexivity]|exact Hok]|].
      split; [|exact Hoof]. exists dr2. cbn [flat_map rdata]. rewrite Hdr, Hdr2, <- app_assoc. reflexivity.
    + assert (Hne : Some e0 <> Some RIoEOF) by (intros E; inversion E as [E1]; exact (of_berror_noeof _ E1)).
      destruct Hcur as [Hcur|Hx]; [|contradiction].
      destruct (reads_after_error l (s1 <| opidx := S (opidx s1) |>)) as (s' & Hrun & H1 & H2 & H3);
        [exact Herr1|change (cur (s1 <| opidx := S (opidx s1) |>)) with (cur s1); congruence|].
      rewrite Hrun. eexists _, s'. split; [reflexivity|].
      split.
      { constructor; [exists d, (Some e0); split; [reflexivity|]; split; [exact Hne|right; reflexivity]|].
        apply Forall_forall. intros r Hin. apply in_map_iff in Hin. destruct Hin as (m0 & <- & _).
        exists [], (Some e0). split; [reflexivity|]. split; [exact Hne|right; reflexivity]. }
      split.
      { exists []. cbn [flat_map rdata]. rewrite Hdr, Hdr'.
        assert (Hz : forall l0 : list nat, flat_map rdata (map (fun _ => RData [] (Some e0)) l0) = [])
          by (induction l0 as [|? ? IHl0]; [reflexivity|cbn [map flat_map rdata app]; exact IHl0]).
        rewrite Hz, !app_nil_r. reflexivity. }
      rewrite H3. exact Hoof1.
Qed.

End ReadAPI.

(* ============================== CutMain.v ============================== *)
(* Part A3 + C: the ReadMessage loop over a stream that stops in the middle of a message. *)

(* ---------- frame lists that may leave a fragmented message open ---------- *)
(* like [seq_ok], but returns the final [open] flag instead of requiring it to be false *)
Fixpoint seq_acc (srv open:bool) (fs:list frame) : option bool :=
  match fs with
  | [] => Some open
  | f :: r => if frame_acc srv open f then seq_acc srv (next_open open f) r else None
  end.

Lemma seq_ok_acc srv : forall fs o, seq_ok srv o fs = true <-> seq_acc srv o fs = Some false.
Proof.
  induction fs as [|f r IH]; intros o; cbn [seq_ok seq_acc].
  - destruct o; cbn [negb]; split; intros H; congruence.
  - destruct (frame_acc srv o f); cbn [andb]; [apply IH|split; intros H; discriminate H].
Qed.

Lemma seq_acc_app srv : forall a o b,
  seq_acc srv o (a ++ b) = match seq_acc srv o a with Some o' => seq_acc srv o' b | None => None end.
Proof.
  induction a as [|f a IH]; intros o b; cbn [app seq_acc]; [reflexivity|].
  destruct (frame_acc srv o f); [apply IH|reflexivity].
Qed.

Definition is_fin_data (f:frame) : bool := negb (is_control (opcode f)) && fin f.
Definition has_fin (fs:list frame) : bool := existsb is_fin_data fs.

(* [closed_part fs]: up to and including the last data frame with FIN; [open_part fs]: the rest *)
Fixpoint closed_part (fs:list frame) : list frame :=
  match fs with [] => [] | f :: r => if has_fin (f :: r) then f :: closed_part r else [] end.
Fixpoint open_part (fs:list frame) : list frame :=
  match fs with [] => [] | f :: r => if has_fin (f :: r) then open_part r else f :: r end.

Lemma parts_app fs : closed_part fs ++ open_part fs = fs.
Proof.
  induction fs as [|f r IH]; [reflexivity|]. cbn [closed_part open_part].
  destruct (has_fin (f :: r)); [cbn [app]; rewrite IH; reflexivity|reflexivity].
Qed.

Lemma open_part_nofin fs : has_fin (open_part fs) = false.
Proof.
  induction fs as [|f r IH]; [reflexivity|]. cbn [open_part].
  destruct (has_fin (f :: r)) eqn:E; [exact IH|exact E].
Qed.

Lemma closed_part_nil fs : closed_part fs = [] -> has_fin fs = false.
Proof.
  destruct fs as [|f r]; [reflexivity|]. cbn [closed_part].
  destruct (has_fin (f :: r)); [discriminate|reflexivity].
Qed.

Lemma closed_part_last fs :
  closed_part fs = [] \/ exists l f, closed_part fs = l ++ [f] /\ is_fin_data f = true.
Proof.
  induction fs as [|f r IH]; [left; reflexivity|]. cbn [closed_part].
  destruct (has_fin (f :: r)) eqn:E; [right|left; reflexivity].
  destruct IH as [Hn|(l & g & Hl & Hg)].
  - rewrite Hn. exists [], f. split; [reflexivity|].
    apply closed_part_nil in Hn. unfold has_fin in E, Hn. cbn [existsb] in E. rewrite Hn in E.
    rewrite orb_false_r in E. exact E.
  - rewrite Hl. exists (f :: l), g. auto.
Qed.

Lemma seq_acc_snoc_fin srv o l f o' :
  seq_acc srv o (l ++ [f]) = Some o' -> is_fin_data f = true -> o' = false.
Proof.
  rewrite seq_acc_app. destruct (seq_acc srv o l) as [o1|]; [|discriminate].
  cbn [seq_acc]. destruct (frame_acc srv o1 f); [|discriminate].
  unfold is_fin_data. intros H Hf. apply andb_true_iff in Hf. destruct Hf as [Hc Hfin].
  apply negb_true_iff in Hc. unfold next_open in H. rewrite Hc, Hfin in H. inversion H. reflexivity.
Qed.

Lemma closed_part_closed srv fs o :
  seq_acc srv false fs = Some o ->
  seq_acc srv false (closed_part fs) = Some false /\ seq_acc srv false (open_part fs) = Some o.
Proof.
  intros H. rewrite <- (parts_app fs), seq_acc_app in H.
  destruct (seq_acc srv false (closed_part fs)) as [o1|] eqn:E; [|discriminate].
  assert (o1 = false).
  { destruct (closed_part_last fs) as [Hn|(l & g & Hl & Hg)].
    - rewrite Hn in E. cbn [seq_acc] in E. congruence.
    - rewrite Hl in E. eapply seq_acc_snoc_fin; eassumption. }
  subst o1. auto.
Qed.

Lemma is_fin_data_false f : is_fin_data f = false -> is_control (opcode f) = false -> fin f = false.
Proof. unfold is_fin_data. intros H Hc. rewrite Hc in H. exact H. Qed.

(* the open flag is what the defragmenter's accumulator says *)
Lemma ev_open srv : forall fs acc o o',
  seq_acc srv o fs = Some o' -> is_some acc = o -> is_some (snd (events_from acc fs)) = o'.
Proof.
  induction fs as [|f r IH]; intros acc o o' H Ha.
  - cbn [seq_acc] in H. cbn [events_from snd]. congruence.
  - cbn [seq_acc] in H. destruct (frame_acc srv o f); [|discriminate].
    unfold next_open in H.
    destruct (is_control (opcode f)) eqn:Hc; [|destruct (fin f) eqn:Hf].
    + rewrite events_from_ctl by exact Hc. cbn [snd]. eapply IH; eassumption.
    + rewrite events_from_final by assumption. cbn [snd]. eapply IH; [exact H|reflexivity].
    + rewrite events_from_more by assumption. eapply IH; [exact H|reflexivity].
Qed.

Lemma nofin_msgs : forall fs acc, has_fin fs = false -> data_msgs (fst (events_from acc fs)) = [].
Proof.
  induction fs as [|f r IH]; intros acc H; [reflexivity|].
  unfold has_fin in H. cbn [existsb] in H. apply orb_false_iff in H. destruct H as [Hf Hr].
  destruct (is_control (opcode f)) eqn:Hc.
  - rewrite events_from_ctl by exact Hc. cbn [fst]. rewrite data_msgs_ctl. apply IH. exact Hr.
  - rewrite events_from_more by (try exact Hc; apply is_fin_data_false; assumption). apply IH. exact Hr.
Qed.

Lemma ev_mid : forall r ty cc d, has_fin r = false ->
  snd (events_from (Some (ty, cc, d)) r) = Some (ty, cc, d ++ mid_data r).
Proof.
  induction r as [|g r IH]; intros ty cc d H.
  - cbn [events_from snd mid_data flat_map]. rewrite app_nil_r. reflexivity.
  - unfold has_fin in H. cbn [existsb] in H. apply orb_false_iff in H. destruct H as [Hf Hr].
    cbn [mid_data flat_map]. fold (mid_data r).
    destruct (is_control (opcode g)) eqn:Hc.
    + rewrite events_from_ctl by exact Hc. cbn [snd app]. apply IH. exact Hr.
    + rewrite events_from_more by (try exact Hc; apply is_fin_data_false; assumption).
      cbn [acc_step]. rewrite IH by exact Hr. rewrite <- app_assoc. reflexivity.
Qed.

Lemma mid_of_acc srv : forall r o, seq_acc srv true r = Some o -> has_fin r = false ->
  mid_ok srv r = true /\ o = true.
Proof.
  induction r as [|g r IH]; intros o H Hn.
  - cbn [seq_acc] in H. inversion H. auto.
  - cbn [seq_acc] in H. destruct (frame_acc srv true g) eqn:Ha; [|discriminate].
    unfold has_fin in Hn. cbn [existsb] in Hn. apply orb_false_iff in Hn. destruct Hn as [Hf Hr].
    assert (Hno : next_open true g = true /\ (is_control (opcode g) || negb (fin g)) = true).
    { unfold next_open. destruct (is_control (opcode g)) eqn:Hc; [auto|].
      rewrite (is_fin_data_false g Hf Hc). auto. }
    destruct Hno as [Hno Hg]. rewrite Hno in H.
    destruct (IH o H Hr) as [Hm Ho]. split; [|exact Ho].
    unfold mid_ok. cbn [forallb]. rewrite Ha, Hg. exact Hm.
Qed.

(* ---------- what the failing ReadMessage returns: type and bytes ---------- *)
Definition base_result (f:frame) (n:nat) : N * bytes :=
  if is_control (opcode f) || (n <? hlen f)%nat then (0, []) else (opcode f, cut_payload f n).

(* in terms of the RFC defragmenter: the payload accumulated for the open message, plus the
   payload bytes of the cut frame that did arrive *)
Definition partial_of (fs:list frame) (f:frame) (n:nat) : N * bytes :=
  match snd (events_from None fs) with
  | Some (ty, _, d) => (ty, d ++ cut_payload f n)
  | None => base_result f n
  end.

Fixpoint tail_result (fs2:list frame) (f:frame) (n:nat) : N * bytes :=
  match fs2 with
  | [] => base_result f n
  | g :: r => if is_control (opcode g) then tail_result r f n
              else (opcode g, payload g ++ mid_data r ++ cut_payload f n)
  end.

Lemma ev_tail f n : forall fs2, has_fin fs2 = false -> partial_of fs2 f n = tail_result fs2 f n.
Proof.
  unfold partial_of. induction fs2 as [|g r IH]; intros H; [reflexivity|].
  unfold has_fin in H. cbn [existsb] in H. apply orb_false_iff in H. destruct H as [Hf Hr].
  cbn [tail_result]. destruct (is_control (opcode g)) eqn:Hc.
  - rewrite events_from_ctl by exact Hc. cbn [snd]. apply IH. exact Hr.
  - rewrite events_from_more by (try exact Hc; apply is_fin_data_false; assumption).
    cbn [acc_step]. rewrite ev_mid by exact Hr. rewrite <- app_assoc. reflexivity.
Qed.

Lemma partial_of_parts srv fs o f n : seq_acc srv false fs = Some o ->
  partial_of fs f n = tail_result (open_part fs) f n.
Proof.
  intros H. destruct (closed_part_closed srv fs o H) as [Hc _].
  rewrite <- ev_tail by apply open_part_nofin. unfold partial_of.
  rewrite <- (parts_app fs) at 1. rewrite events_from_app. cbn [snd].
  pose proof (ev_open srv (closed_part fs) None false false Hc eq_refl) as He.
  destruct (snd (events_from None (closed_part fs))); [discriminate He|reflexivity].
Qed.

Lemma msgs_parts srv fs o : seq_acc srv false fs = Some o -> msgs (closed_part fs) = msgs fs.
Proof.
  intros H. destruct (closed_part_closed srv fs o H) as [Hc _].
  rewrite <- (parts_app fs) at 2. unfold msgs.
  pose proof (ev_open srv (closed_part fs) None false false Hc eq_refl) as He.
  rewrite events_of_app_closed by (destruct (snd (events_from None (closed_part fs))); [discriminate He|reflexivity]).
  rewrite data_msgs_app. unfold events_of. rewrite (nofin_msgs (open_part fs)) by apply open_part_nofin.
  rewrite app_nil_r. reflexivity.
Qed.

Lemma closed_part_body fs : trailer (closed_part fs) = [] /\ body (closed_part fs) = closed_part fs.
Proof.
  destruct (closed_part_last fs) as [->|(l & g & -> & Hg)]; [auto|].
  unfold is_fin_data in Hg. apply andb_true_iff in Hg. destruct Hg as [Hc _]. apply negb_true_iff in Hc.
  split; [apply trailer_snoc|apply body_snoc]; exact Hc.
Qed.

Section LastRead.
Variables (inflate : bytes -> option bytes) (k:errk) (c:rcfg).
Hypothesis Hch : custom_handlers c = false.
Variables (f:frame) (cut suf:bytes).
Hypothesis Hwff : wf_frame f.
Hypothesis Henc : encode_frame f = cut ++ suf.
Hypothesis Hsuf : suf <> [].

Let e0 : rerr := of_berror (BErr k).

(* does a (partial) message start at all?  yes iff a message is open, or the cut frame is a data
   frame whose header is complete *)
Definition msg_started (o:bool) : Prop :=
  o = true \/ (is_control (opcode f) = false /\ (hlen f <= length cut)%nat).

Definition nl_outcome (o:bool) (r : option N * rst) (ty:N) (d:bytes) (wl:list wback) : Prop :=
  match r with
  | (None, s1) => ty = 0 /\ d = [] /\ rerror s1 = Some e0 /\ errcount s1 = 0%nat /\ wlog s1 = wl /\
                  outoffuel s1 = false /\ ~ msg_started o
  | (Some op, s1) => op = ty /\ rdecomp s1 = false /\ cur s1 <> None /\
      exists pg, cutst k c f cut s1 d pg /\ wl = wlog s1 ++ map WPong pg
  end.

Lemma base_result_A : (is_control (opcode f) = true \/ (length cut < hlen f)%nat) ->
  base_result f (length cut) = (0, []).
Proof.
  unfold base_result. intros [-> | H]; [reflexivity|].
  replace (length cut <? hlen f)%nat with true by (symmetry; apply Nat.ltb_lt; exact H).
  rewrite orb_true_r. reflexivity.
Qed.

(* NextReader's loop over the frames that follow the last complete message *)
Lemma next_loop_cut : forall fs2 o s fuel,
  Forall wf_frame fs2 -> seq_acc (server c) false fs2 = Some o -> has_fin fs2 = false ->
  frame_acc (server c) o f = true ->
  rinv k s -> rem s = 0 -> rfin s = true -> rlen s = 0 ->
  pending (br s) = encode_frames fs2 ++ cut ->
  blen (encode_frames fs2) + plen f < 2^63 -> (length (pending (br s)) < fuel)%nat ->
  nl_outcome o (next_loop fuel c s) (fst (tail_result fs2 f (length cut)))
             (snd (tail_result fs2 f (length cut))) (wlog s ++ map WPong (pings_of fs2)).
Proof.
  induction fs2 as [|g r IH]; intros o s fuel Hwf Hseq Hnf Haccf Hrinv Hrem Hfin Hrlen Hp Hlen Hfuel;
    pose proof Hrinv as (Hinv & Hbs & Hflt & Herr & Hoof & Hcs & Hrlim & Hecnt);
    (destruct fuel as [|fuel]; [lia|]);
    cbn [next_loop]; rewrite Herr; rewrite advance_frame_rem0 by exact Hrem.
  - (* only the cut frame is left; no message is open *)
    cbn [seq_acc] in Hseq. inversion Hseq; subst o. clear Hseq.
    cbn [encode_frames flat_map app] in Hp. cbn [tail_result pings_of flat_map map]. rewrite app_nil_r.
    assert (Haccs : frame_acc (server c) (negb (rfin s)) f = true) by (rewrite Hfin; exact Haccf).
    pose proof (advance_after_skip_good c s) as (Hpres & _).
    destruct (cut_case f cut suf Henc Hsuf) as [Hcase|(Hctl & w & Ecut & Ewp2 & Ecp & Hsufpos)].
    + destruct (advance_cut_err k c s f cut suf Hrinv Hwff Haccs Hp Henc Hsuf Hcase) as (s1 & Hadv & Hwl1).
      rewrite Hadv in *. cbn [snd] in Hpres. cbv iota.
      destruct Hpres as (_ & _ & P3 & P4 & _).
      rewrite (base_result_A Hcase). unfold nl_outcome. cbn [fst snd]. rsimpl.
      split; [reflexivity|]. split; [reflexivity|]. split; [reflexivity|].
      split; [congruence|]. split; [exact Hwl1|]. split; [congruence|].
      unfold msg_started. intros [Hx|(Hx1 & Hx2)]; [discriminate Hx|].
      destruct Hcase as [Hc|Hc]; [congruence|lia].
    + assert (Hop : opcode f = 1 \/ opcode f = 2).
      { destruct (acc_cases _ _ _ Haccf) as [(Hc & _)|(_ & [(Ho & _)|(_ & Hx)])];
          [congruence|exact Ho|discriminate Hx]. }
      assert (Hop0 : (opcode f =? 0) = false) by lia.
      rewrite Ecut in Hp.
      destruct (advance_cut_data k c s f w suf Hrinv Hwff Haccs Hctl Hp Ewp2)
        as (s1 & Hadv & Hrinv1 & Hrem1 & Hfin1 & Hp1 & Hun1 & Hdec1 & Hwl1);
        [rewrite Hop0; cbn [encode_frames flat_map] in Hlen; change (blen []) with 0 in Hlen; lia|].
      rewrite Hadv. cbv iota.
      unfold c_TextMessage, c_BinaryMessage.
      replace ((opcode f =? 1) || (opcode f =? 2)) with true by lia. cbv iota.
      set (s1' := s1 <| cur := Some (nextid s1) |> <| nextid := S (nextid s1) |>).
      assert (Hrinv1' : rinv k s1') by (apply (rinv_same k s1); [exact Hrinv1|reflexivity ..]).
      unfold base_result. rewrite Hctl.
      replace (length cut <? hlen f)%nat with false
        by (symmetry; apply Nat.ltb_ge; rewrite Ecut, app_length; unfold hlen; lia).
      cbn [orb fst snd]. unfold nl_outcome.
      split; [reflexivity|]. split; [exact Hdec1|]. split; [subst s1'; rsimpl; discriminate|].
      exists []. split.
      * right. exists w, (blen suf). split; [|split; [|reflexivity]].
        { unfold mode2. split; [exact Hrinv1'|]. split; [exact Hrem1|]. split; [exact Hsufpos|exact Hp1]. }
        rewrite Ecp, <- Hun1. reflexivity.
      * cbn [map]. rewrite app_nil_r. symmetry. exact Hwl1.
  - (* a complete frame *)
    inversion Hwf as [|g' r' Hwfg Hwfr]; subst g' r'.
    cbn [seq_acc] in Hseq. destruct (frame_acc (server c) false g) eqn:Hacc; [|discriminate Hseq].
    unfold has_fin in Hnf. cbn [existsb] in Hnf. apply orb_false_iff in Hnf. destruct Hnf as [Hgf Hnfr].
    fold (has_fin r) in Hnfr.
    rewrite encode_frames_cons, <- app_assoc in Hp.
    rewrite encode_frames_cons, blen_app in Hlen.
    pose proof (encode_frame_length_ge2 g) as Hge2.
    assert (Hlenp : (length (pending (br s)) =
                     length (encode_frame g) + length (encode_frames r ++ cut))%nat)
      by (rewrite Hp, app_length; reflexivity).
    assert (Haccs : frame_acc (server c) (negb (rfin s)) g = true) by (rewrite Hfin; exact Hacc).
    unfold next_open in Hseq. cbn [tail_result].
    destruct (is_control (opcode g)) eqn:Hctl.
    + destruct (advance_ctl k c s g (encode_frames r ++ cut) Hrinv Hch Hwfg Haccs Hctl Hp)
        as (s1 & Hadv & Hrinv1 & Hrem1 & Hfin1 & Hrlen1 & Hp1 & Hwl1).
      rewrite Hadv. cbv iota.
      destruct (acc_cases _ _ _ Hacc) as [(_ & Hop & _)|(Hc & _)]; [|congruence].
      unfold c_TextMessage, c_BinaryMessage.
      replace ((opcode g =? 1) || (opcode g =? 2)) with false by lia. cbv iota.
      rewrite pings_of_cons, map_app, app_assoc, <- Hwl1.
      apply (IH o s1 fuel); try assumption; [congruence|congruence|lia|rewrite Hp1; lia].
    + (* the first frame of a message that will stay open *)
      assert (Hfg : fin g = false) by (apply is_fin_data_false; assumption).
      rewrite Hfg in Hseq. cbn [negb] in Hseq.
      destruct (mid_of_acc (server c) r o Hseq Hnfr) as [Hmid Ho]. subst o.
      destruct (acc_cases _ _ _ Hacc) as [(Hc & _)|(_ & [(Hop & _)|(_ & Hxx)])];
        [congruence| |discriminate Hxx].
      assert (Hop0 : (opcode g =? 0) = false) by lia.
      pose proof (encode_frame_ge_plen g) as Hgp.
      destruct (advance_data k c s g (encode_frames r ++ cut) Hrinv Hwfg Haccs Hctl Hp)
        as (s1 & Hadv & Hrinv1 & Hrem1 & Hfin1 & Hrlen1 & Hp1 & Hun1 & Hdec1 & Hwl1);
        [rewrite Hop0; lia|].
      rewrite Hop0 in Hrlen1.
      rewrite Hadv. cbv iota.
      unfold c_TextMessage, c_BinaryMessage.
      replace ((opcode g =? 1) || (opcode g =? 2)) with true by lia. cbv iota.
      set (s1' := s1 <| cur := Some (nextid s1) |> <| nextid := S (nextid s1) |>).
      assert (Hrinv1' : rinv k s1') by (apply (rinv_same k s1); [exact Hrinv1|reflexivity ..]).
      cbn [fst snd]. unfold nl_outcome.
      split; [reflexivity|]. split; [exact Hdec1|]. split; [subst s1'; rsimpl; discriminate|].
      exists (pings_of r). split.
      * left. exists (wire_payload g), r. split; [|split; [|reflexivity]].
        { unfold mode1. split; [exact Hrinv1'|].
          split; [change (rem s1') with (rem s1); rewrite Hrem1; symmetry; apply wire_payload_blen|].
          split; [change (rfin s1') with (rfin s1); congruence|]. split; [exact Hp1|].
          split; [exact Hwfr|]. split; [exact Hmid|]. split; [exact Haccf|].
          change (rlen s1') with (rlen s1). rewrite Hrlen1. lia. }
        rewrite <- Hun1. reflexivity.
      * change (wlog s1') with (wlog s1). rewrite Hwl1, pings_of_cons, ping1_nonctl by exact Hctl.
        reflexivity.
Qed.

Section OneCall.
Variables (fs2:list frame) (o:bool) (s:rst).
Hypothesis Hwf : Forall wf_frame fs2.
Hypothesis Hseq : seq_acc (server c) false fs2 = Some o.
Hypothesis Hnf : has_fin fs2 = false.
Hypothesis Haccf : frame_acc (server c) o f = true.
Hypothesis Hrinv : rinv k s.
Hypothesis Hrem : rem s = 0.
Hypothesis Hfin : rfin s = true.
Hypothesis Hp : pending (br s) = encode_frames fs2 ++ cut.
Hypothesis Hlen : blen (encode_frames fs2) + plen f < 2^63.

Let s0 : rst := s <| cur := None |> <| rlen := 0 |>.

Lemma next_loop_cut0 :
  nl_outcome o (next_loop (fuel_of s0) c s0) (fst (tail_result fs2 f (length cut)))
             (snd (tail_result fs2 f (length cut))) (wlog s ++ map WPong (pings_of fs2)).
Proof.
  assert (Hrinv0 : rinv k s0) by (apply (rinv_same k s); [exact Hrinv|reflexivity ..]).
  exact (next_loop_cut fs2 o s0 (fuel_of s0) Hwf Hseq Hnf Haccf Hrinv0 Hrem Hfin eq_refl Hp Hlen
           ltac:(unfold fuel_of; lia)).
Qed.

(* the failing ReadMessage *)
Lemma read_message_cut :
  exists s', read_message inflate c s =
      (RMsg (fst (tail_result fs2 f (length cut))) (snd (tail_result fs2 f (length cut))) (Some e0), s') /\
    rerror s' = Some e0 /\ wlog s' = wlog s ++ map WPong (pings_of fs2) /\ outoffuel s' = false.
Proof.
  pose proof next_loop_cut0 as Hout.
  unfold read_message, next_reader. fold s0.
  destruct (next_loop (fuel_of s0) c s0) as [[op|] s1]; unfold nl_outcome in Hout.
  - destruct Hout as (Hty & Hdec & Hcur & pg & Hst & Hwl).
    destruct (read_all_cutst k c Hch f cut suf Hwff Henc Hsuf s1 _ pg Hst) as (s2 & Hra & H1 & H2 & H3).
    cbv iota. rewrite Hdec. cbv iota. rewrite Hra. subst op.
    exists s2. split; [reflexivity|]. split; [exact H1|]. split; [congruence|exact H3].
  - destruct Hout as (Hty & Hd & H1 & H2 & H3 & H4 & _).
    cbv iota zeta. rsimpl. rewrite H2. cbn [Nat.leb]. rewrite H1, Hty, Hd.
    eexists. split; [reflexivity|]. rsimpl. auto.
Qed.

(* NextReader on the partial message: it succeeds, and leaves the reader in a "cut" state *)
Lemma next_reader_cut : msg_started o ->
  exists s' pg, next_reader c s = (RNext (fst (tail_result fs2 f (length cut))) None, s') /\
    cur s' <> None /\ cutst k c f cut s' (snd (tail_result fs2 f (length cut))) pg /\
    wlog s' ++ map WPong pg = wlog s ++ map WPong (pings_of fs2).
Proof.
  intros Hst0. pose proof next_loop_cut0 as Hout.
  unfold next_reader. fold s0.
  destruct (next_loop (fuel_of s0) c s0) as [[op|] s1]; unfold nl_outcome in Hout.
  - destruct Hout as (Hty & Hdec & Hcur & pg & Hst & Hwl). subst op.
    exists s1, pg. split; [reflexivity|]. split; [exact Hcur|]. split; [exact Hst|]. symmetry. exact Hwl.
  - destruct Hout as (_ & _ & _ & _ & _ & _ & Hno). contradiction.
Qed.
End OneCall.
End LastRead.

(* ---------- the complete messages first ---------- *)
Lemma cut_prefix_run :
  forall inflate c b fs f cut suf o,
    custom_handlers c = false -> binv b -> (125 <= bsize b)%nat ->
    Forall wf_frame fs -> seq_acc (server c) false fs = Some o ->
    encode_frame f = cut ++ suf ->
    (cut <> [] \/ o = true) ->
    pending b = encode_frames fs ++ cut ->
    blen (encode_frames fs) + blen (encode_frame f) < 2^63 ->
    exists s1,
      run_ops inflate c (init_rst b) (repeat OReadMessage (length (data_msgs (events_of fs)))) =
        (map out_of (data_msgs (events_of fs)), s1) /\
      rinv (fault (src b)) s1 /\ rem s1 = 0 /\ rfin s1 = true /\
      pending (br s1) = encode_frames (open_part fs) ++ cut /\
      wlog s1 = map WPong (pings_of (closed_part fs)) /\
      Forall wf_frame (open_part fs) /\ seq_acc (server c) false (open_part fs) = Some o /\
      blen (encode_frames (open_part fs)) + plen f < 2^63.
Proof.
  intros inflate c b fs f cut suf o Hch Hinv Hbs Hwf Hseq Henc Hreal Hp Hlen.
  destruct (closed_part_closed (server c) fs o Hseq) as [Hc Ho].
  destruct (closed_part_body fs) as [Htr Hbody].
  set (fs1 := closed_part fs) in *. set (fs2 := open_part fs) in *.
  assert (Hfs : fs1 ++ fs2 = fs) by apply parts_app.
  assert (Hwf1 : Forall wf_frame fs1) by (rewrite <- Hfs in Hwf; apply Forall_app in Hwf; apply Hwf).
  assert (Hwf2 : Forall wf_frame fs2) by (rewrite <- Hfs in Hwf; apply Forall_app in Hwf; apply Hwf).
  pose proof (encode_frame_ge_plen f) as Hfp.
  assert (Hl12 : blen (encode_frames fs) = blen (encode_frames fs1) + blen (encode_frames fs2))
    by (rewrite <- Hfs, encode_frames_app, blen_app; reflexivity).
  assert (Hconf : conformant_frames c fs1).
  { split; [exact Hwf1|]. split; [apply seq_ok_acc; exact Hc|lia]. }
  set (extra := encode_frames fs2 ++ cut).
  assert (Hne : extra <> []).
  { subst extra. intros Hnil. apply app_eq_nil in Hnil. destruct Hnil as [H2 Hcut].
    apply encode_frames_nil_inv in H2. destruct Hreal as [Hr|Hr]; [contradiction|].
    subst o. rewrite H2 in Ho. cbn [seq_acc] in Ho. discriminate Ho. }
  assert (Hx : extra <> [] \/ fault (src b) = EEOF) by (left; exact Hne).
  destruct (run_msgs inflate (fault (src b)) c extra Hch Hx (length fs1) fs1 (le_n _)
              (init_rst b) (rinv_init b Hinv Hbs) eq_refl eq_refl) as (s1 & Hrun & Hend & Hrem & Hfin & Hpend & Hwl);
    [change (br (init_rst b)) with b; subst extra; rewrite app_assoc, <- encode_frames_app, Hfs; exact Hp
    |exact Hconf|].
  rewrite Htr in Hpend. cbn [encode_frames flat_map app] in Hpend. rewrite Hbody in Hwl.
  assert (Hrinv1 : rinv (fault (src b)) s1) by (apply rinv_end_rinv; [exact Hend|rewrite Hpend; exact Hne]).
  assert (Hms : msgs fs1 = data_msgs (events_of fs)) by (apply (msgs_parts (server c) fs o Hseq)).
  rewrite Hms in Hrun.
  exists s1. split; [exact Hrun|]. split; [exact Hrinv1|]. split; [exact Hrem|]. split; [exact Hfin|].
  split; [exact Hpend|]. split; [rewrite Hwl; reflexivity|]. split; [exact Hwf2|]. split; [exact Ho|lia].
Qed.

(* ------------------------------------------------------------------------------------------ *)
(* Theorem A.  The transport stream is [encode_frames fs ++ cut] where [fs] are accepted frames *)
(* (a fragmented message may still be open at the end) and [cut] is a STRICT prefix, possibly   *)
(* empty, of the encoding of a frame [f] that would have been accepted next.  The stream stops *)
(* inside a frame or between the fragments of a message.  How the transport reports the end    *)
(* (error kind, with or without the last bytes, chunking) is arbitrary: [binv b].              *)
(* ------------------------------------------------------------------------------------------ *)
Theorem cut_stream_read_messages :
  forall inflate c b fs f cut suf o,
    custom_handlers c = false -> binv b -> (125 <= bsize b)%nat ->
    Forall wf_frame fs -> seq_acc (server c) false fs = Some o ->
    wf_frame f -> frame_acc (server c) o f = true ->
    encode_frame f = cut ++ suf -> suf <> [] ->
    (cut <> [] \/ o = true) ->
    pending b = encode_frames fs ++ cut ->
    blen (encode_frames fs) + blen (encode_frame f) < 2^63 ->
    let ms := data_msgs (events_of fs) in
    let e := of_berror (BErr (fault (src b))) in
    let ty := fst (partial_of fs f (length cut)) in
    let d := snd (partial_of fs f (length cut)) in
    exists s',
      run_ops inflate c (init_rst b) (repeat OReadMessage (S (length ms))) =
        (map out_of ms ++ [RMsg ty d (Some e)], s') /\
      rerror s' = Some e /\ outoffuel s' = false /\ wlog s' = map WPong (pings_of fs).
Proof.
  intros inflate c b fs f cut suf o Hch Hinv Hbs Hwf Hseq Hwff Haccf Henc Hsuf Hreal Hp Hlen ms e ty d.
  destruct (cut_prefix_run inflate c b fs f cut suf o Hch Hinv Hbs Hwf Hseq Henc Hreal Hp Hlen)
    as (s1 & Hrun & Hrinv1 & Hrem & Hfin & Hpend & Hwl & Hwf2 & Ho & Hlen2).
  destruct (read_message_cut inflate (fault (src b)) c Hch f cut suf Hwff Henc Hsuf (open_part fs) o s1
              Hwf2 Ho (open_part_nofin fs) Haccf Hrinv1 Hrem Hfin Hpend Hlen2)
    as (s2 & Hrm & Herr2 & Hwl2 & Hoof2).
  fold ms in Hrun.
  cbn [repeat]. rewrite repeat_cons.
  rewrite (run_ops_app inflate c _ _ _ _ [OReadMessage] Hrun (out_of_not_panic _)).
  cbn [run_ops]. unfold rstep. rewrite Hrm. cbn [fst snd].
  subst ty d. rewrite (partial_of_parts (server c) fs o f (length cut) Hseq).
  eexists. split; [reflexivity|]. rsimpl.
  split; [exact Herr2|]. split; [exact Hoof2|].
  rewrite Hwl2, Hwl. rewrite <- map_app, <- pings_of_app, parts_app. reflexivity.
Qed.

(* ------------------------------------------------------------------------------------------ *)
(* Theorem B'.  The same stream read with NextReader + Read: after the complete messages,       *)
(* NextReader returns the partial message; then ANY sequence of Read calls (any buffer sizes)  *)
(* returns bytes of that message, in order, with a nil error, until one Read reports the        *)
(* transport error; io.EOF is never returned, so the message is never seen as complete.        *)
(* ------------------------------------------------------------------------------------------ *)
Theorem cut_stream_reader_api :
  forall inflate c b fs f cut suf o l,
    custom_handlers c = false -> binv b -> (125 <= bsize b)%nat ->
    Forall wf_frame fs -> seq_acc (server c) false fs = Some o ->
    wf_frame f -> frame_acc (server c) o f = true ->
    encode_frame f = cut ++ suf -> suf <> [] ->
    (cut <> [] \/ o = true) ->
    pending b = encode_frames fs ++ cut ->
    blen (encode_frames fs) + blen (encode_frame f) < 2^63 ->
    msg_started f cut o -> Forall (fun m => (0 < m)%nat) l ->
    let ms := data_msgs (events_of fs) in
    let ty := fst (partial_of fs f (length cut)) in
    let d := snd (partial_of fs f (length cut)) in
    exists outs s',
      run_ops inflate c (init_rst b) (repeat OReadMessage (length ms) ++ ONext :: map ORead l) =
        (map out_of ms ++ RNext ty None :: outs, s') /\
      Forall (read_out_ok (fault (src b))) outs /\
      (exists rest, d = flat_map rdata outs ++ rest) /\
      outoffuel s' = false.
Proof.
  intros inflate c b fs f cut suf o l Hch Hinv Hbs Hwf Hseq Hwff Haccf Henc Hsuf Hreal Hp Hlen Hst Hl ms ty d.
  destruct (cut_prefix_run inflate c b fs f cut suf o Hch Hinv Hbs Hwf Hseq Henc Hreal Hp Hlen)
    as (s1 & Hrun & Hrinv1 & Hrem & Hfin & Hpend & Hwl & Hwf2 & Ho & Hlen2).
  destruct (next_reader_cut inflate (fault (src b)) c Hch f cut suf Hwff Henc Hsuf (open_part fs) o s1
              Hwf2 Ho (open_part_nofin fs) Haccf Hrinv1 Hrem Hfin Hpend Hlen2 Hst)
    as (s2 & pg & Hnr & Hcur & Hcst & _).
  fold ms in Hrun.
  rewrite (run_ops_app inflate c _ _ _ _ (ONext :: map ORead l) Hrun (out_of_not_panic _)).
  cbn [run_ops]. unfold rstep. rewrite Hnr.
  destruct (reads_on_cut_message (fault (src b)) c Hch f cut suf Hwff Henc Hsuf inflate l
              (s2 <| opidx := S (opidx s2) |>) _ pg (cutst_opidx _ _ _ _ _ _ _ _ Hcst))
    as (outs & s3 & Hreads & Hok & Hpre & Hoof);
    [change (cur (s2 <| opidx := S (opidx s2) |>)) with (cur s2); exact Hcur|exact Hl|].
  rewrite Hreads. cbn [fst snd].
  subst ty d. rewrite (partial_of_parts (server c) fs o f (length cut) Hseq).
  exists outs, s3. split; [reflexivity|]. split; [exact Hok|]. split; [exact Hpre|exact Hoof].
Qed.

(* ---------- reading the statement: the open flag, the error, the bytes ---------- *)
Lemma open_flag_events srv fs o : seq_acc srv false fs = Some o ->
  o = is_some (snd (events_from None fs)).
Proof. intros H. symmetry. exact (ev_open srv fs None false o H eq_refl). Qed.

(* the error of the last call is never nil and never io.EOF *)
Lemma cut_error_real k : of_berror (BErr k) <> RIoEOF /\
  of_berror (BErr k) = match k with EEOF => unexpected_eof | ETimeout => RTimeout | EOther => ROther end.
Proof. split; [apply of_berror_noeof|destruct k; reflexivity]. Qed.

Lemma hlen_eq f : wf_frame f ->
  hlen f = (2 + (if (plen f <? 126)%N then 0 else if (plen f <? 65536)%N then 2 else 8)
              + match mkey f with Some _ => 4 | None => 0 end)%nat.
Proof.
  intros H. unfold hlen, hdr_bytes. cbn [length]. rewrite app_length, ext_bytes_length, (key_bytes_length f H).
  destruct (plen f <? 126); [|destruct (plen f <? 65536)]; destruct (mkey f); reflexivity.
Qed.

(* cases (i) (ii) (iv) (v): the cut lies in the header, or the cut frame is a control frame, or
   the cut is empty: nothing of the cut frame is delivered *)
Lemma partial_of_no_payload fs f n :
  (is_control (opcode f) = true \/ (n < hlen f)%nat) ->
  partial_of fs f n = match snd (events_from None fs) with
                      | Some (ty, _, d) => (ty, d)
                      | None => (0, [])
                      end.
Proof.
  intros H. unfold partial_of, base_result.
  assert (Hc : cut_payload f n = []).
  { unfold cut_payload. destruct H as [-> | H]; [reflexivity|]. destruct (is_control (opcode f)); [reflexivity|].
    replace (n - hlen f)%nat with 0%nat by lia. reflexivity. }
  assert (Hb : is_control (opcode f) || (n <? hlen f)%nat = true).
  { destruct H as [-> | H]; [reflexivity|]. apply orb_true_iff. right. apply Nat.ltb_lt. exact H. }
  destruct (snd (events_from None fs)) as [[[ty cc] d]|]; [rewrite Hc, app_nil_r|rewrite Hb]; reflexivity.
Qed.

(* case (iii): header of a data / continuation frame complete: exactly the payload bytes that
   arrived are delivered, unmasked, after the payloads of the earlier fragments *)
Lemma partial_of_payload fs f n :
  is_control (opcode f) = false -> (hlen f <= n)%nat ->
  partial_of fs f n = match snd (events_from None fs) with
                      | Some (ty, _, d) => (ty, d ++ firstn (n - hlen f) (payload f))
                      | None => (opcode f, firstn (n - hlen f) (payload f))
                      end.
Proof.
  intros Hc Hn. unfold partial_of, base_result, cut_payload.
  destruct (snd (events_from None fs)) as [[[ty cc] d]|]; rewrite Hc; [reflexivity|].
  replace (n <? hlen f)%nat with false by (symmetry; apply Nat.ltb_ge; exact Hn). reflexivity.
Qed.

(* what is delivered is a prefix of the payload of the message being received *)
Lemma partial_is_prefix fs f n ty cc d0 :
  snd (events_from None fs) = Some (ty, cc, d0) ->
  exists rest, d0 ++ (if is_control (opcode f) then [] else payload f) = snd (partial_of fs f n) ++ rest.
Proof.
  intros H. unfold partial_of, cut_payload. rewrite H. cbn [snd].
  destruct (is_control (opcode f)); [exists []; rewrite !app_nil_r; reflexivity|].
  exists (skipn (n - hlen f) (payload f)). rewrite <- app_assoc, firstn_skipn. reflexivity.
Qed.

(* ------------------------------------------------------------------------------------------ *)
(* Theorem C.  After the failing read every further operation fails and delivers nothing.      *)
(* ------------------------------------------------------------------------------------------ *)
Theorem cut_stream_errors_sticky :
  forall inflate c b fs f cut suf o ops,
    custom_handlers c = false -> binv b -> (125 <= bsize b)%nat ->
    Forall wf_frame fs -> seq_acc (server c) false fs = Some o ->
    wf_frame f -> frame_acc (server c) o f = true ->
    encode_frame f = cut ++ suf -> suf <> [] ->
    (cut <> [] \/ o = true) ->
    pending b = encode_frames fs ++ cut ->
    blen (encode_frames fs) + blen (encode_frame f) < 2^63 ->
    let ms := data_msgs (events_of fs) in
    let e := of_berror (BErr (fault (src b))) in
    let ty := fst (partial_of fs f (length cut)) in
    let d := snd (partial_of fs f (length cut)) in
    exists rs s',
      run_ops inflate c (init_rst b) (repeat OReadMessage (S (length ms)) ++ ops) =
        (map out_of ms ++ RMsg ty d (Some e) :: rs, s') /\
      Forall is_failure rs /\
      rerror s' = Some e /\ outoffuel s' = false /\ wlog s' = map WPong (pings_of fs).
Proof.
  intros inflate c b fs f cut suf o ops Hch Hinv Hbs Hwf Hseq Hwff Haccf Henc Hsuf Hreal Hp Hlen ms e ty d.
  destruct (cut_stream_read_messages inflate c b fs f cut suf o Hch Hinv Hbs Hwf Hseq Hwff Haccf Henc Hsuf
              Hreal Hp Hlen) as (s1 & Hrun & Herr & Hoof & Hwl).
  fold ms e ty d in Hrun, Herr.
  destruct (errors_are_permanent inflate c ops s1 e Herr) as (rs & s2 & Hrun2 & Hfr & Hfail).
  assert (Hnp : ~ In RPanic (map out_of ms ++ [RMsg ty d (Some e)])).
  { intros Hin. apply in_app_or in Hin. destruct Hin as [Hin|[Hin|[]]];
      [exact (out_of_not_panic ms Hin)|discriminate Hin]. }
  rewrite (run_ops_app inflate c _ _ _ _ ops Hrun Hnp), Hrun2. cbn [fst snd].
  exists rs, s2. split; [rewrite <- app_assoc; reflexivity|]. split; [exact Hfail|].
  destruct Hfr as (_ & _ & F3 & F4 & _ & F6). split; [congruence|]. split; congruence.
Qed.

(* ============================== CutDemo.v ============================== *)
(* Non-vacuity: the hypotheses of Theorem A are satisfiable and the prediction is what the model computes. *)

Definition dk1 := [1;2;3;4]. Definition dk2 := [9;8;7;6].
Definition demo_fs : list frame :=
 [ mkf true 9 0 (Some dk1) [104;105];
   mkf true 2 0 (Some dk1) [7;7;7];
   mkf true 9 0 (Some dk1) [1];
   mkf false 1 0 (Some dk2) [72;101;108];
   mkf true 10 0 (Some dk1) [];
   mkf false 0 0 (Some dk1) [5;6];
   mkf true 9 0 (Some dk2) [1;2;3] ].
Definition demo_cfg : rcfg :=
  {| server := true; negotiated := false; custom_handlers := false; handler_fail := []; caps := [3;7] |}.
Definition demo_f := mkf true 0 0 (Some dk2) [108;111;112].
Definition demo_cut := firstn 7 (encode_frame demo_f).
Definition demo_stream := encode_frames demo_fs ++ demo_cut.
Definition demo_b (flt:errk) (gl:bool) : bufio :=
  mk_bufio 125 [] {| chunks := [firstn 5 demo_stream; firstn 30 (skipn 5 demo_stream); skipn 35 demo_stream];
                     fault := flt; glued := gl |}.

Example demo_cut_stream flt gl :
  exists s',
    run_ops (fun _ => None) demo_cfg (init_rst (demo_b flt gl)) (repeat OReadMessage 2) =
      ([RMsg 2 [7;7;7] None; RMsg 1 [72;101;108;5;6;108] (Some (of_berror (BErr flt)))], s') /\
    rerror s' = Some (of_berror (BErr flt)) /\ outoffuel s' = false /\
    wlog s' = [WPong [104;105]; WPong [1]; WPong [1;2;3]].
Proof.
  assert (Hb : binv (demo_b flt gl)).
  { apply binv_mk; [lia|cbn [length]; lia|]. unfold wf_script. cbn [chunks].
    repeat (apply Forall_cons; [vm_compute; discriminate|]). apply Forall_nil. }
  pose proof (cut_stream_read_messages (fun _ => None) demo_cfg (demo_b flt gl) demo_fs demo_f
                demo_cut (skipn 7 (encode_frame demo_f)) true eq_refl Hb) as H.
  apply H; clear H.
  - cbn [demo_b mk_bufio bsize]. lia.
  - repeat (apply Forall_cons; [vm_compute; repeat split; reflexivity|]). apply Forall_nil.
  - vm_compute. reflexivity.
  - vm_compute. repeat split; reflexivity.
  - vm_compute. reflexivity.
  - unfold demo_cut. symmetry. apply firstn_skipn.
  - vm_compute. discriminate.
  - right. reflexivity.
  - vm_compute. reflexivity.
  - vm_compute. reflexivity.
Qed.

(* and the model run itself, for all three fault kinds, glued or not *)
Example demo_cut_run :
  forallb (fun flt => forallb (fun gl =>
     match fst (run_ops (fun _ => None) demo_cfg (init_rst (demo_b flt gl)) (repeat OReadMessage 2)) with
     | [RMsg 2 [7;7;7] None; RMsg 1 [72;101;108;5;6;108] (Some e)] => negb (is_io_eof e)
     | _ => false
     end) [true;false]) [EEOF;ETimeout;EOther] = true.
Proof. vm_compute. reflexivity. Qed.

(* the NextReader + Read API on the same stream: reads of 4, 1, 100, 3 bytes *)
Example demo_reader_api flt gl :
  exists outs s',
    run_ops (fun _ => None) demo_cfg (init_rst (demo_b flt gl))
            (repeat OReadMessage 1 ++ ONext :: map ORead [4;1;100;3]%nat) =
      ([RMsg 2 [7;7;7] None; RNext 1 None] ++ outs, s') /\
    Forall (read_out_ok flt) outs /\
    (exists rest, [72;101;108;5;6;108] = flat_map rdata outs ++ rest).
Proof.
  assert (Hb : binv (demo_b flt gl)).
  { apply binv_mk; [lia|cbn [length]; lia|]. unfold wf_script. cbn [chunks].
    repeat (apply Forall_cons; [vm_compute; discriminate|]). apply Forall_nil. }
  destruct (cut_stream_reader_api (fun _ => None) demo_cfg (demo_b flt gl) demo_fs demo_f
                demo_cut (skipn 7 (encode_frame demo_f)) true [4;1;100;3]%nat eq_refl Hb)
    as (outs & s' & H1 & H2 & H3 & _).
  - cbn [demo_b mk_bufio bsize]. lia.
  - repeat (apply Forall_cons; [vm_compute; repeat split; reflexivity|]). apply Forall_nil.
  - vm_compute. reflexivity.
  - vm_compute. repeat split; reflexivity.
  - vm_compute. reflexivity.
  - unfold demo_cut. symmetry. apply firstn_skipn.
  - vm_compute. discriminate.
  - right. reflexivity.
  - vm_compute. reflexivity.
  - vm_compute. reflexivity.
  - left. reflexivity.
  - repeat (apply Forall_cons; [lia|]). apply Forall_nil.
  - exists outs, s'. split; [exact H1|]. split; [exact H2|exact H3].
Qed.

Eval vm_compute in
  fst (run_ops (fun _ => None) demo_cfg (init_rst (demo_b EEOF true))
         (repeat OReadMessage 1 ++ ONext :: map ORead [4;1;100;3]%nat)).

Print Assumptions advance_after_skip_good.
Print Assumptions read_loop_eof_only_at_end.
Print Assumptions read_eof_means_complete.
Print Assumptions advance_cut_err.
Print Assumptions advance_cut_data.
Print Assumptions ra_partial.
Print Assumptions ra_cut.
Print Assumptions read_all_cutst.
Print Assumptions reads_on_cut_message.
Print Assumptions cut_stream_read_messages.
Print Assumptions cut_stream_errors_sticky.
Print Assumptions cut_stream_reader_api.
Print Assumptions demo_cut_stream.
Print Assumptions demo_reader_api.
Print Assumptions next_reader_cut.
Print Assumptions read_message_cut.
