(* The Sec-WebSocket-Extensions parser of util.go (parseExtensions) against the quoted-string
   aware list splitting of the Spec (Spec/Handshake.v: split_list_q, offers_pmd).

   Soundness (no side condition): every extension the parser reports was found inside ONE
   element of the RFC 7230 list -- an element ends at the first comma outside a quoted string,
   backslash escapes included -- and its name is what precedes the first ';' of that element,
   without the surrounding OWS.  Hence: the model finds a permessage-deflate extension only if
   the Spec predicate offers_pmd holds. *)
Require Import WS.Base.Bytes WS.gen.Consts WS.Model.Util WS.Spec.Handshake WS.Proofs.TokenP
               WS.Proofs.TotalP.

(* ------------------------------------------------------------------------------------ *)
(* 1. the splitter as an automaton: pieces it passes through without splitting           *)
(* ------------------------------------------------------------------------------------ *)
(* from state (i,e) the splitter reads g, does not split, and is outside quotes afterwards *)
Definition passes (i e:bool) (g:bytes) : Prop :=
  forall cur tail, split_list_q i e cur (g ++ tail) = split_list_q false false (rev g ++ cur) tail.
(* from state (i,e) the splitter reads g to the end of the line without splitting *)
Definition nosplit (i e:bool) (g:bytes) : Prop :=
  forall cur, split_list_q i e cur g = [rev cur ++ g].
(* one byte *)
Definition step (i e:bool) (b:N) (i' e':bool) : Prop :=
  forall cur x, split_list_q i e cur (b :: x) = split_list_q i' e' (b :: cur) x.

Lemma sq_nil i e cur : split_list_q i e cur [] = [rev cur].
Proof. cbn [split_list_q]. rewrite rev'_rev. reflexivity. Qed.

Lemma passes_nosplit i e g : passes i e g -> nosplit i e g.
Proof.
  intros H cur. specialize (H cur []). rewrite app_nil_r in H. rewrite H, sq_nil, rev_app_distr, rev_involutive.
  reflexivity.
Qed.

Lemma passes_nil : passes false false [].
Proof. intros cur tail. reflexivity. Qed.

Lemma nosplit_nil i e : nosplit i e [].
Proof. intros cur. rewrite sq_nil, app_nil_r. reflexivity. Qed.

Lemma passes_app i e g1 g2 : passes i e g1 -> passes false false g2 -> passes i e (g1 ++ g2).
Proof.
  intros H1 H2 cur tail. rewrite <- app_assoc, H1, H2, rev_app_distr, <- app_assoc. reflexivity.
Qed.

Lemma nosplit_app i e g1 g2 : passes i e g1 -> nosplit false false g2 -> nosplit i e (g1 ++ g2).
Proof.
  intros H1 H2 cur. rewrite H1, H2, rev_app_distr, rev_involutive, app_assoc. reflexivity.
Qed.

Lemma passes_cons i e b i' e' g : step i e b i' e' -> passes i' e' g -> passes i e (b :: g).
Proof.
  intros Hs Hp cur tail. cbn [app]. rewrite Hs, Hp. cbn [rev]. rewrite <- app_assoc. reflexivity.
Qed.

Lemma nosplit_cons i e b i' e' g : step i e b i' e' -> nosplit i' e' g -> nosplit i e (b :: g).
Proof.
  intros Hs Hp cur. rewrite Hs, Hp. cbn [rev]. rewrite <- app_assoc. reflexivity.
Qed.

Lemma step_esc i b : step i true b i false.
Proof. intros cur x. reflexivity. Qed.
Lemma step_q_bs : step true false 92 true true.
Proof. intros cur x. reflexivity. Qed.
Lemma step_q_other b : (b =? 92) = false -> (b =? 34) = false -> step true false b true false.
Proof. intros H1 H2 cur x. cbn [split_list_q]. rewrite H1, H2. reflexivity. Qed.
Lemma step_dq : step false false 34 true false.
Proof. intros cur x. reflexivity. Qed.
Lemma step_plain b : (b =? 34) = false -> (b =? 44) = false -> step false false b false false.
Proof. intros H1 H2 cur x. cbn [split_list_q]. rewrite H1, H2. reflexivity. Qed.
Lemma passes_q_dq : passes true false [34].
Proof. intros cur tail. reflexivity. Qed.

(* bytes that are neither DQUOTE nor comma *)
Definition plainb (b:N) : bool := negb (b =? 34) && negb (b =? 44).
Lemma passes_plain g : forallb plainb g = true -> passes false false g.
Proof.
  induction g as [|b g IH]; intros H; [apply passes_nil|].
  cbn [forallb] in H. apply andb_true_iff in H as [Hb Hg]. unfold plainb in Hb.
  apply andb_true_iff in Hb as [H1 H2]. apply negb_true_iff in H1, H2.
  eapply passes_cons; [apply step_plain; assumption|apply IH; exact Hg].
Qed.

Lemma tchar_plain b : tchar b = true -> plainb b = true.
Proof. unfold tchar, plainb. cbn [existsb]. lia. Qed.
Lemma ows_plain b : ows b = true -> plainb b = true.
Proof. unfold ows, plainb. lia. Qed.
Lemma forallb_impl (p q:N -> bool) l : (forall b, p b = true -> q b = true) ->
  forallb p l = true -> forallb q l = true.
Proof.
  intros Hpq. induction l as [|b l IH]; cbn [forallb]; [reflexivity|]. intros H.
  apply andb_true_iff in H as [H1 H2]. rewrite (Hpq _ H1), (IH H2). reflexivity.
Qed.
Lemma passes_token t : forallb is_token_octet t = true -> passes false false t.
Proof.
  intros H. apply passes_plain. rewrite forallb_tok_tchar in H.
  eapply forallb_impl; [exact tchar_plain|exact H].
Qed.
Lemma passes_ows a : forallb ows a = true -> passes false false a.
Proof. intros H. apply passes_plain. eapply forallb_impl; [exact ows_plain|exact H]. Qed.

(* what a scanner consumed (g) before [rest]: either the splitter is back outside quotes, or the
   line ended (inside an unterminated quoted string, possibly) *)
Definition okq (i e:bool) (g rest:bytes) : Prop := passes i e g \/ (rest = [] /\ nosplit i e g).
Definition ok := okq false false.

Lemma okq_nosplit i e g rest : okq i e g rest -> nosplit i e g.
Proof. intros [H|[_ H]]; [apply passes_nosplit|]; exact H. Qed.
Lemma okq_passes i e g rest : okq i e g rest -> rest <> [] -> passes i e g.
Proof. intros [H|[E _]] Hne; [exact H|contradiction]. Qed.
Lemma okq_cons i e b i' e' g rest : step i e b i' e' -> okq i' e' g rest -> okq i e (b :: g) rest.
Proof.
  intros Hs [H|[E H]]; [left; eapply passes_cons; eassumption|right; split; [exact E|]].
  eapply nosplit_cons; eassumption.
Qed.
Lemma ok_app i e g1 g2 rest : passes i e g1 -> ok g2 rest -> okq i e (g1 ++ g2) rest.
Proof.
  intros H1 [H|[E H]]; [left; apply passes_app; assumption|right; split; [exact E|]].
  apply nosplit_app; assumption.
Qed.
(* chaining two scanners *)
Lemma ok_trans i e g1 g2 rest : okq i e g1 (g2 ++ rest) -> ok g2 rest -> okq i e (g1 ++ g2) rest.
Proof.
  intros [H|[E H]] H2; [apply ok_app; assumption|].
  apply app_eq_nil in E as [-> ->]. right. split; [reflexivity|]. rewrite app_nil_r. exact H.
Qed.
Lemma ok_nil rest : ok [] rest.
Proof. left. apply passes_nil. Qed.

(* ------------------------------------------------------------------------------------ *)
(* 2. nextTokenOrQuoted consumes a quoted string exactly as the splitter skips it         *)
(* ------------------------------------------------------------------------------------ *)
Lemma quoted_esc_ok : forall s esc acc v rest, quoted_esc esc acc s = (v, rest) ->
  exists g, s = g ++ rest /\ okq true esc g rest.
Proof.
  induction s as [|b r IH]; intros esc acc v rest H; cbn [quoted_esc] in H.
  - inversion H; subst. exists []. split; [reflexivity|]. right. split; [reflexivity|apply nosplit_nil].
  - destruct esc.
    + apply IH in H as (g & -> & Hg). exists (b :: g). split; [reflexivity|].
      eapply okq_cons; [apply step_esc|exact Hg].
    + destruct (b =? 92) eqn:E92.
      * apply N.eqb_eq in E92. subst b. apply IH in H as (g & -> & Hg). exists (92 :: g).
        split; [reflexivity|]. eapply okq_cons; [apply step_q_bs|exact Hg].
      * destruct (b =? 34) eqn:E34.
        -- apply N.eqb_eq in E34. subst b. inversion H; subst. exists [34]. split; [reflexivity|].
           left. apply passes_q_dq.
        -- apply IH in H as (g & -> & Hg). exists (b :: g). split; [reflexivity|].
           eapply okq_cons; [apply step_q_other; assumption|exact Hg].
Qed.

Lemma quoted_plain_ok : forall s acc v rest, quoted_plain acc s = (v, rest) ->
  exists g, s = g ++ rest /\ okq true false g rest.
Proof.
  induction s as [|b r IH]; intros acc v rest H; cbn [quoted_plain] in H.
  - inversion H; subst. exists []. split; [reflexivity|]. right. split; [reflexivity|apply nosplit_nil].
  - destruct (b =? 34) eqn:E34.
    + apply N.eqb_eq in E34. subst b. inversion H; subst. exists [34]. split; [reflexivity|].
      left. apply passes_q_dq.
    + destruct (b =? 92) eqn:E92.
      * apply N.eqb_eq in E92. subst b. apply quoted_esc_ok in H as (g & -> & Hg). exists (92 :: g).
        split; [reflexivity|]. eapply okq_cons; [apply step_q_bs|exact Hg].
      * apply IH in H as (g & -> & Hg). exists (b :: g). split; [reflexivity|].
        eapply okq_cons; [apply step_q_other; assumption|exact Hg].
Qed.

Lemma next_token_ok s t rest : next_token s = (t, rest) -> s = t ++ rest /\ ok t rest.
Proof.
  intros H. apply next_token_spec in H as (E & Ht & _). split; [exact E|]. left. apply passes_token. exact Ht.
Qed.

Theorem next_token_or_quoted_ok s v rest : next_token_or_quoted s = (v, rest) ->
  exists g, s = g ++ rest /\ ok g rest.
Proof.
  rewrite ntq_unfold. destruct s as [|b r].
  - intros H. apply next_token_ok in H as (E & H). exists v. auto.
  - destruct (b =? 34) eqn:E34.
    + apply N.eqb_eq in E34. subst b. intros H. apply quoted_plain_ok in H as (g & -> & Hg).
      exists (34 :: g). split; [reflexivity|]. eapply okq_cons; [apply step_dq|exact Hg].
    + intros H. apply next_token_ok in H as (E & H). exists v. auto.
Qed.

(* ------------------------------------------------------------------------------------ *)
(* 3. the parameter loop                                                                  *)
(* ------------------------------------------------------------------------------------ *)
Lemma skip_space_ok s : exists a, s = a ++ skip_space s /\ forallb ows a = true.
Proof. destruct (skip_space_spec s) as (a & E & Ha & _). exists a. auto. Qed.

Lemma passes_one b : plainb b = true -> passes false false [b].
Proof. intros H. apply passes_plain. cbn [forallb]. rewrite H. reflexivity. Qed.

Lemma param_value_ok s v rest : param_value s = (v, rest) -> exists g, s = g ++ rest /\ ok g rest.
Proof.
  unfold param_value. destruct (starts_with 61 s) eqn:E61.
  - destruct (starts_with_cons _ _ E61) as (r & ->). cbn [tl].
    destruct (next_token_or_quoted (skip_space r)) as [v0 s'] eqn:Eq. intros H. inversion H; subst v0 rest.
    destruct (skip_space_ok r) as (a & Er & Ha).
    apply next_token_or_quoted_ok in Eq as (gq & Eq & Hq).
    destruct (skip_space_ok s') as (a' & Es' & Ha').
    exists ((61 :: a) ++ gq ++ a'). split.
    + rewrite Er at 1. rewrite Eq. rewrite Es' at 1. cbn [app]. rewrite <- !app_assoc. reflexivity.
    + apply ok_app.
      * apply (passes_app false false [61] a); [apply passes_one; reflexivity|apply passes_ows; exact Ha].
      * apply ok_trans; [rewrite <- Es'; exact Hq|left; apply passes_ows; exact Ha'].
  - intros H. inversion H; subst. exists []. split; [reflexivity|apply ok_nil].
Qed.

(* the consumed text is only OWS, or OWS followed by a semicolon *)
Definition hd_semi (g:bytes) : Prop := drop_ows g = [] \/ exists m, drop_ows g = 59 :: m.

Theorem ext_params_ok : forall f e s e' rest, ext_params f e s = Some (e', rest) ->
  exists g ps, s = g ++ rest /\ ok g rest /\ hd_semi g /\ e' = e ++ ps.
Proof.
  induction f as [|f IH]; intros e s e' rest H; [discriminate H|].
  rewrite ext_params_S in H. cbv zeta in H.
  destruct (skip_space_ok s) as (a & Es & Ha).
  destruct (negb (starts_with 59 (skip_space s))) eqn:E59.
  { inversion H; subst e' rest. exists a, []. repeat split.
    - exact Es.
    - left. apply passes_ows. exact Ha.
    - left. apply allows_drop_nil. exact Ha.
    - rewrite app_nil_r. reflexivity. }
  apply negb_false_iff in E59. destruct (starts_with_cons _ _ E59) as (r & Er). rewrite Er in H. cbn [tl] in H.
  destruct (next_token (skip_space r)) as [k s1] eqn:Ek.
  destruct (is_nil k); [discriminate H|].
  destruct (param_value (skip_space s1)) as [v s2] eqn:Ev.
  destruct (negb (is_nil s2) && negb (starts_with 44 s2) && negb (starts_with 59 s2)); [discriminate H|].
  apply IH in H as (g2 & ps & E2 & Hg2 & _ & Ee).
  destruct (skip_space_ok r) as (a1 & Er1 & Ha1).
  apply next_token_spec in Ek as (Ek & Hk & _).
  destruct (skip_space_ok s1) as (a2 & Es1 & Ha2).
  apply param_value_ok in Ev as (gv & Ev & Hv).
  exists ((a ++ 59 :: a1 ++ k ++ a2) ++ gv ++ g2), ((k, v) :: ps). repeat split.
  - rewrite Es at 1. rewrite Er. rewrite Er1 at 1. rewrite Ek. rewrite Es1 at 1. rewrite Ev, E2.
    rewrite <- !app_assoc. cbn [app]. rewrite <- !app_assoc. reflexivity.
  - apply ok_app.
    + apply passes_app; [apply passes_ows; exact Ha|].
      apply (passes_app false false [59]); [apply passes_one; reflexivity|].
      apply passes_app; [apply passes_ows; exact Ha1|].
      apply passes_app; [apply passes_token; exact Hk|apply passes_ows; exact Ha2].
    + apply ok_trans; [rewrite <- E2; exact Hv|exact Hg2].
  - right. rewrite <- app_assoc. rewrite drop_ows_allows by exact Ha. cbn [app drop_ows ows N.eqb Pos.eqb orb].
    eexists. reflexivity.
  - rewrite Ee, <- app_assoc. reflexivity.
Qed.

(* ------------------------------------------------------------------------------------ *)
(* 4. one extension = one list element; its name is the element's name                    *)
(* ------------------------------------------------------------------------------------ *)
Definition nosemi (g:bytes) : bool := forallb (fun b => negb (b =? 59)) g.
Definition semi_or_end (y:bytes) : Prop := y = [] \/ exists m, y = 59 :: m.

Lemma split_on_first x : forall cur y, nosemi x = true -> semi_or_end y ->
  first (split_on 59 cur (x ++ y)) = rev cur ++ x.
Proof.
  induction x as [|b x IH]; intros cur y Hx Hy; cbn [app].
  - rewrite app_nil_r. destruct Hy as [->|(m & ->)]; cbn [split_on N.eqb Pos.eqb first]; apply rev'_rev.
  - unfold nosemi in Hx. cbn [forallb] in Hx. apply andb_true_iff in Hx as [Hb Hx]. apply negb_true_iff in Hb.
    cbn [split_on]. rewrite Hb. rewrite (IH _ _ Hx Hy). cbn [rev]. rewrite <- app_assoc. reflexivity.
Qed.

Lemma tchar_nosemi t : forallb tchar t = true -> nosemi t = true.
Proof. apply forallb_impl. intros b. unfold tchar. cbn [existsb]. lia. Qed.
Lemma ows_nosemi a : forallb ows a = true -> nosemi a = true.
Proof. apply forallb_impl. intros b. unfold ows. lia. Qed.

Lemma elem_name_of a t b y :
  forallb ows a = true -> t <> [] -> forallb tchar t = true -> forallb ows b = true -> semi_or_end y ->
  ext_elem_name (a ++ t ++ b ++ y) = t.
Proof.
  intros Ha Hne Ht Hb Hy. unfold ext_elem_name.
  replace (a ++ t ++ b ++ y) with ((a ++ t ++ b) ++ y) by (rewrite <- !app_assoc; reflexivity).
  rewrite split_on_first; [|unfold nosemi; rewrite !forallb_app|exact Hy].
  - cbn [rev app]. apply trim_of_token; assumption.
  - fold (nosemi a) (nosemi t) (nosemi b).
    rewrite (ows_nosemi a Ha), (tchar_nosemi t Ht), (ows_nosemi b Hb). reflexivity.
Qed.

(* one round of the extension loop: the text it consumed is one element, whole *)
Lemma ext_round f s t s1 e s2 :
  next_token (skip_space s) = (t, s1) -> is_nil t = false -> ext_params f [([], t)] s1 = Some (e, s2) ->
  exists el, s = el ++ s2 /\ ok el s2 /\ ext_elem_name el = t /\ ext_name e = t.
Proof.
  intros Ht Hne Hp.
  destruct (skip_space_ok s) as (a & Es & Ha).
  apply next_token_spec in Ht as (Et & Htok & _).
  apply ext_params_ok in Hp as (g & ps & Eg & Hg & Hsemi & Ee).
  destruct (drop_ows_split g) as (b & Eb & Hb).
  exists ((a ++ t) ++ g). repeat split.
  - rewrite Es at 1. rewrite Et, Eg, <- !app_assoc. reflexivity.
  - apply ok_app; [|exact Hg]. apply passes_app; [apply passes_ows; exact Ha|apply passes_token; exact Htok].
  - rewrite Eb, <- app_assoc. apply elem_name_of; try assumption.
    + destruct t; [discriminate Hne|congruence].
    + rewrite <- forallb_tok_tchar. exact Htok.
  - rewrite Ee. reflexivity.
Qed.

Lemma not_nil_or_comma s : negb (is_nil s) && negb (starts_with 44 s) = false ->
  s = [] \/ exists r, s = 44 :: r.
Proof.
  destruct s as [|x r]; [auto|]. cbn [is_nil negb andb]. intros H. apply negb_false_iff in H.
  right. apply starts_with_cons in H. exact H.
Qed.

(* the extensions of one line correspond, in order, to the first elements of the quoted-string
   aware list (the rest of a line is dropped at the first malformed element) *)
Theorem ext_line_elements : forall f s acc,
  exists new, ext_line f s acc = acc ++ new /\
    Forall2 (fun e el => ext_name e = ext_elem_name el) new
            (firstn (length new) (split_list_q false false [] s)).
Proof.
  assert (Hnone : forall (acc:list ext) (s:bytes), exists new, acc = acc ++ new /\
            Forall2 (fun e el => ext_name e = ext_elem_name el) new
                    (firstn (length new) (split_list_q false false [] s))).
  { intros acc s. exists []. split; [rewrite app_nil_r; reflexivity|constructor]. }
  induction f as [|f IH]; intros s acc; cbn [ext_line]; [apply Hnone|].
  destruct (next_token (skip_space s)) as [t s1] eqn:Et.
  destruct (is_nil t) eqn:En; [apply Hnone|].
  destruct (ext_params (S (length s1)) [([], t)] s1) as [[e s2]|] eqn:Ep; [|apply Hnone].
  destruct (negb (is_nil s2) && negb (starts_with 44 s2)) eqn:Ec; [apply Hnone|].
  destruct (ext_round _ _ _ _ _ _ Et En Ep) as (el & Es & Hok & Hname & He).
  apply not_nil_or_comma in Ec as [->|(r & ->)].
  - exists [e]. split; [reflexivity|]. rewrite app_nil_r in Es. subst s.
    rewrite (okq_nosplit _ _ _ _ Hok []). cbn [rev app length firstn].
    constructor; [congruence|constructor].
  - destruct (IH r (acc ++ [e])) as (new & E & HF). exists (e :: new). split.
    + rewrite E, <- app_assoc. reflexivity.
    + subst s. rewrite (okq_passes _ _ _ _ Hok) by discriminate. rewrite app_nil_r.
      cbn [split_list_q N.eqb Pos.eqb]. rewrite rev'_rev, rev_involutive. cbn [length firstn].
      constructor; [congruence|exact HF].
Qed.

Lemma In_firstn {A} (y:A) : forall n l, In y (firstn n l) -> In y l.
Proof.
  induction n as [|n IH]; intros [|a l] H; cbn [firstn] in H; try (destruct H; fail).
  destruct H as [H|H]; [left; exact H|right; apply IH; exact H].
Qed.

Lemma Forall2_firstn_In {A B} (R:A -> B -> Prop) l n l' x :
  Forall2 R l (firstn n l') -> In x l -> exists y, In y l' /\ R x y.
Proof.
  intros HF Hx. revert HF Hx. generalize (fun y => In_firstn y n l'). generalize (firstn n l') as p.
  intros p Hp HF. induction HF as [|a b l p' Hab HF IH]; intros Hx; [destruct Hx|].
  destruct Hx as [->|Hx].
  - exists b. split; [apply Hp; left; reflexivity|exact Hab].
  - apply IH; [|exact Hx]. intros y Hy. apply Hp. right. exact Hy.
Qed.

Corollary ext_line_sound f s acc e : In e (ext_line f s acc) ->
  In e acc \/ exists el, In el (split_list_q false false [] s) /\ ext_elem_name el = ext_name e.
Proof.
  destruct (ext_line_elements f s acc) as (new & -> & HF). intros H. apply in_app_or in H as [H|H]; [left; exact H|].
  right. destruct (Forall2_firstn_In _ _ _ _ _ HF H) as (el & Hel & Hn). exists el. split; [exact Hel|congruence].
Qed.

(* ------------------------------------------------------------------------------------ *)
(* 5. all lines                                                                           *)
(* ------------------------------------------------------------------------------------ *)
Lemma parse_fold_sound : forall lines acc e,
  In e (fold_left (fun acc s => ext_line (S (length s)) s acc) lines acc) ->
  In e acc \/ exists l el, In l lines /\ In el (split_list_q false false [] l) /\ ext_elem_name el = ext_name e.
Proof.
  induction lines as [|s lines IH]; intros acc e H; cbn [fold_left] in H; [left; exact H|].
  apply IH in H as [H|(l & el & Hl & Hel & Hn)].
  - apply ext_line_sound in H as [H|(el & Hel & Hn)]; [left; exact H|].
    right. exists s, el. split; [left; reflexivity|auto].
  - right. exists l, el. split; [right; exact Hl|auto].
Qed.

(* every extension the parser reports is an element of the quoted-string aware list of some
   line, and its name is that element's name *)
Theorem parse_extensions_sound lines e : In e (parse_extensions lines) ->
  exists l el, In l lines /\ In el (split_list_q false false [] l) /\ ext_elem_name el = ext_name e.
Proof.
  unfold parse_extensions. intros H. apply parse_fold_sound in H as [[]|H]. exact H.
Qed.

Lemma pmd_token_is_model_literal : pmd_token = permessage_deflate.
Proof. reflexivity. Qed.

(* offers_pmd is, verbatim, the expression clause 111 of the correspondence check used *)
Lemma offers_pmd_is_the_judges lines :
  offers_pmd lines =
  existsb (fun l => existsb (fun e => beq (trim_ows (first (split_on 59 [] e))) permessage_deflate)
                            (split_list_q false false [] l)) lines.
Proof. reflexivity. Qed.

Lemma offers_pmd_iff lines :
  offers_pmd lines = true <->
  exists l el, In l lines /\ In el (split_list_q false false [] l) /\ ext_elem_name el = pmd_token.
Proof.
  unfold offers_pmd. rewrite existsb_exists. split.
  - intros (l & Hl & H). apply existsb_exists in H as (el & Hel & H). apply beq_eq in H. exists l, el. auto.
  - intros (l & el & Hl & Hel & H). exists l. split; [exact Hl|]. apply existsb_exists. exists el.
    split; [exact Hel|]. apply beq_eq. exact H.
Qed.

Theorem named_extension_offered lines e :
  In e (parse_extensions lines) -> ext_name e = permessage_deflate -> offers_pmd lines = true.
Proof.
  intros H Hn. apply offers_pmd_iff. apply parse_extensions_sound in H as (l & el & Hl & Hel & He).
  exists l, el. rewrite He, Hn. auto.
Qed.

(* MAIN: if the model finds a permessage-deflate extension, then the quoted-string aware Spec
   splitting finds an element with that name.  No side condition: every N is allowed in the
   lines (bytes or not), any number of lines, malformed lines included. *)
Theorem first_deflate_offers lines e :
  first_deflate (parse_extensions lines) = Some e -> offers_pmd lines = true.
Proof.
  unfold first_deflate. intros H. apply find_some in H as [Hin Hb]. apply beq_eq in Hb.
  eapply named_extension_offered; eassumption.
Qed.

(* ------------------------------------------------------------------------------------ *)
(* 6. the Upgrader (clause 111 of the correspondence check, on the model)                 *)
(* ------------------------------------------------------------------------------------ *)
Require Import WS.Model.Server WS.Proofs.ServerP.

Theorem upgrade_compression_offered url u q rh hj wr resp sub :
  upgrade url u q rh hj wr = Upgraded resp true sub ->
  u_compression u = true /\ offers_pmd (q_extensions q) = true.
Proof.
  intros H. destruct (compression_only_if_enabled_and_offered _ _ _ _ _ _ _ _ _ H eq_refl) as (Hc & e & He & Hn).
  split; [exact Hc|]. eapply named_extension_offered; eassumption.
Qed.

(* the same for the decision itself, whatever happens to the hijack and the write *)
Theorem want_compress_offered u q :
  want_compress u q = true -> u_compression u = true /\ offers_pmd (q_extensions q) = true.
Proof.
  unfold want_compress. intros H. apply andb_true_iff in H as [Hc H]. split; [exact Hc|].
  apply existsb_exists in H as (e & He & Hn). apply beq_eq in Hn. eapply named_extension_offered; eassumption.
Qed.

(* ------------------------------------------------------------------------------------ *)
(* 7. completeness on well-formed lines                                                   *)
(* ------------------------------------------------------------------------------------ *)
(* The grammar (RFC 6455 section 9.1 with the OWS of RFC 7230 lists; OWS is also tolerated
   around '='):
     line      = extension *( "," extension )
     extension = OWS token OWS *( ";" OWS token OWS [ "=" OWS ( token / quoted-string ) OWS ] )
     quoted-string = DQUOTE *( qdtext / quoted-pair ) DQUOTE
   qdtext: any octet but DQUOTE and backslash; quoted-pair: backslash, any octet. *)
Definition owss (a:bytes) : Prop := forallb ows a = true.

Inductive qd_body : bytes -> Prop :=
| qd_nil : qd_body []
| qd_text b r : b <> 34 -> b <> 92 -> qd_body r -> qd_body (b :: r)
| qd_pair b r : qd_body r -> qd_body (92 :: b :: r).

Inductive ext_value_g : bytes -> Prop :=
| ev_token t : is_token t = true -> ext_value_g t
| ev_quoted q : qd_body q -> ext_value_g (34 :: q ++ [34]).

Inductive ext_params_g : bytes -> Prop :=
| ep_nil : ext_params_g []
| ep_flag a k b r : owss a -> is_token k = true -> owss b -> ext_params_g r ->
    ext_params_g (59 :: a ++ k ++ b ++ r)
| ep_val a k b c v d r : owss a -> is_token k = true -> owss b -> owss c -> ext_value_g v -> owss d ->
    ext_params_g r -> ext_params_g (59 :: a ++ k ++ b ++ 61 :: c ++ v ++ d ++ r).

(* el is a well-formed extension named n *)
Definition ext_elem_g (el n:bytes) : Prop :=
  exists a b p, el = a ++ n ++ b ++ p /\ owss a /\ is_token n = true /\ owss b /\ ext_params_g p.

Inductive ext_list_g : bytes -> Prop :=
| el_one el n : ext_elem_g el n -> ext_list_g el
| el_more el n r : ext_elem_g el n -> ext_list_g r -> ext_list_g (el ++ 44 :: r).

(* what may follow a parameter: end of line, a comma, a semicolon *)
Definition sep_head (x:bytes) : Prop := x = [] \/ exists m, x = 44 :: m \/ x = 59 :: m.

Lemma params_sep_head r tail : ext_params_g r -> tail_ok tail -> sep_head (r ++ tail).
Proof.
  intros Hr Ht. destruct Hr; cbn [app].
  - destruct tail as [|c m]; [left; reflexivity|]. cbn in Ht. subst c. right. eexists. left. reflexivity.
  - right. eexists. right. reflexivity.
  - right. eexists. right. reflexivity.
Qed.

Lemma sep_stops_ows x : sep_head x -> stops_ows x.
Proof. intros [->|(m & [->| ->])]; cbn; auto. Qed.
Lemma sep_stops_tok x : sep_head x -> stops_tok x.
Proof. intros [->|(m & [->| ->])]; cbn; auto. Qed.
Lemma sep_not_eq x : sep_head x -> starts_with 61 x = false.
Proof. intros [->|(m & [->| ->])]; reflexivity. Qed.
Lemma sep_check x : sep_head x ->
  negb (is_nil x) && negb (starts_with 44 x) && negb (starts_with 59 x) = false.
Proof. intros [->|(m & [->| ->])]; reflexivity. Qed.

Lemma skip_ows_app a x : owss a -> stops_ows x -> skip_space (a ++ x) = x.
Proof. intros Ha Hx. rewrite skip_space_drop, drop_ows_allows by exact Ha. apply drop_ows_id. exact Hx. Qed.

Lemma ows_stops_tok b x : owss b -> stops_tok x -> stops_tok (b ++ x).
Proof.
  intros Hb Hx. destruct b as [|c b]; [exact Hx|]. cbn [app stops_tok]. unfold owss in Hb. cbn [forallb] in Hb.
  apply andb_true_iff in Hb as [Hc _]. rewrite tok_tchar. apply ows_not_tchar. exact Hc.
Qed.

Lemma is_token_inv t : is_token t = true ->
  forallb is_token_octet t = true /\ is_nil t = false /\ exists c t', t = c :: t' /\ tchar c = true.
Proof.
  unfold is_token. destruct t as [|c t']; [discriminate|]. intros H. rewrite forallb_tok_tchar.
  repeat split; [exact H|]. exists c, t'. split; [reflexivity|]. cbn [forallb] in H.
  apply andb_true_iff in H. tauto.
Qed.

Lemma token_stops_ows t x : is_token t = true -> stops_ows (t ++ x).
Proof.
  intros H. apply is_token_inv in H as (_ & _ & c & t' & -> & Hc). cbn [app stops_ows].
  apply tchar_not_ows. exact Hc.
Qed.

(* the quoted-string scanner on a well-formed body: stops right after the closing quote *)
Lemma quoted_esc_body q : qd_body q -> forall acc y, exists v, quoted_esc false acc (q ++ 34 :: y) = (v, y).
Proof.
  induction 1 as [|b r H34 H92 Hr IH|b r Hr IH]; intros acc y; cbn [app quoted_esc].
  - eexists. reflexivity.
  - apply N.eqb_neq in H34, H92. rewrite H92, H34. apply IH.
  - cbn [N.eqb Pos.eqb]. apply IH.
Qed.
Lemma quoted_plain_body q : qd_body q -> forall acc y, exists v, quoted_plain acc (q ++ 34 :: y) = (v, y).
Proof.
  induction 1 as [|b r H34 H92 Hr IH|b r Hr IH]; intros acc y; cbn [app quoted_plain].
  - eexists. reflexivity.
  - apply N.eqb_neq in H34, H92. rewrite H92, H34. apply IH.
  - cbn [N.eqb Pos.eqb quoted_esc]. apply quoted_esc_body. exact Hr.
Qed.

Lemma value_scan v y : ext_value_g v -> stops_tok y ->
  stops_ows (v ++ y) /\ exists v', next_token_or_quoted (v ++ y) = (v', y).
Proof.
  intros Hv Hy. destruct Hv as [t Ht|q Hq].
  - split; [apply token_stops_ows; exact Ht|]. rewrite ntq_unfold.
    pose proof (is_token_inv _ Ht) as (Htok & _ & c & t' & E & Hc).
    assert (Hn : next_token (t ++ y) = (t, y)) by (apply next_token_app; assumption).
    exists t. rewrite E in *. cbn [app] in *.
    assert (H34 : (c =? 34) = false) by (revert Hc; unfold tchar; cbn [existsb]; lia).
    rewrite H34. exact Hn.
  - split; [cbn; reflexivity|]. cbn [app]. unfold next_token_or_quoted. rewrite <- app_assoc. cbn [app].
    apply quoted_plain_body. exact Hq.
Qed.

(* the parameter loop on well-formed parameters consumes exactly them *)
Lemma ext_params_complete p : ext_params_g p -> forall tail, tail_ok tail ->
  forall f b e, owss b -> (length (b ++ p ++ tail) < f)%nat ->
  exists ps, ext_params f e (b ++ p ++ tail) = Some (e ++ ps, tail).
Proof.
  induction 1 as [|a k b r Ha Hk Hb Hr IH|a k b c v d r Ha Hk Hb Hc Hv Hd Hr IH];
    intros tail Ht f b0 e Hb0 Hf; (destruct f as [|f]; [lia|]); rewrite ext_params_S; cbv zeta.
  - cbn [app]. assert (Hs : sep_head tail) by (apply (params_sep_head [] tail); [constructor|exact Ht]).
    rewrite skip_ows_app by (try apply sep_stops_ows; assumption).
    assert (H59 : starts_with 59 tail = false).
    { destruct tail as [|x m]; [reflexivity|]. cbn in Ht. subst x. reflexivity. }
    rewrite H59. cbn [negb]. exists []. rewrite app_nil_r. reflexivity.
  - pose proof (params_sep_head r tail Hr Ht) as Hs.
    rewrite skip_ows_app by (first [exact Hb0|cbn; reflexivity]).
    cbn [app starts_with N.eqb Pos.eqb negb tl]. rewrite <- !app_assoc.
    rewrite skip_ows_app by (first [exact Ha|apply token_stops_ows; exact Hk]).
    pose proof (is_token_inv _ Hk) as (Htok & Hnil & _).
    rewrite next_token_app by (first [exact Htok|apply ows_stops_tok; [exact Hb|apply sep_stops_tok; exact Hs]]).
    rewrite Hnil. rewrite skip_ows_app by (first [exact Hb|apply sep_stops_ows; exact Hs]).
    unfold param_value. rewrite (sep_not_eq _ Hs), (sep_check _ Hs).
    destruct (IH tail Ht f [] (e ++ [(k, [])]) eq_refl) as (ps & E).
    { rewrite !app_length in Hf. cbn [length] in Hf. rewrite !app_length in Hf. cbn [app]. rewrite app_length. lia. }
    exists ((k, []) :: ps). rewrite <- app_assoc in E. exact E.
  - pose proof (params_sep_head r tail Hr Ht) as Hs.
    rewrite skip_ows_app by (first [exact Hb0|cbn; reflexivity]).
    cbn [app starts_with N.eqb Pos.eqb negb tl]. rewrite <- !app_assoc. cbn [app]. rewrite <- !app_assoc.
    rewrite skip_ows_app by (first [exact Ha|apply token_stops_ows; exact Hk]).
    pose proof (is_token_inv _ Hk) as (Htok & Hnil & _).
    rewrite next_token_app by (first [exact Htok|apply ows_stops_tok; [exact Hb|cbn; reflexivity]]).
    rewrite Hnil. rewrite skip_ows_app by (first [exact Hb|cbn; reflexivity]).
    unfold param_value. cbn [starts_with N.eqb Pos.eqb tl].
    assert (Hy : stops_tok (d ++ r ++ tail)) by (apply ows_stops_tok; [exact Hd|apply sep_stops_tok; exact Hs]).
    destruct (value_scan v (d ++ r ++ tail) Hv Hy) as (Hvo & v' & Ev).
    rewrite skip_ows_app by (try exact Hc; exact Hvo). rewrite Ev.
    rewrite skip_ows_app by (first [exact Hd|apply sep_stops_ows; exact Hs]).
    rewrite (sep_check _ Hs).
    destruct (IH tail Ht f [] (e ++ [(k, v')]) eq_refl) as (ps & E).
    { rewrite !app_length in Hf. cbn [length] in Hf. rewrite !app_length in Hf. cbn [length] in Hf.
      rewrite !app_length in Hf. cbn [app]. rewrite app_length. lia. }
    exists ((k, v') :: ps). rewrite <- app_assoc in E. exact E.
Qed.

(* one round of the extension loop on a well-formed element followed by the end or a comma *)
Lemma ext_round_complete el n tail : ext_elem_g el n -> tail_ok tail ->
  exists s1, next_token (skip_space (el ++ tail)) = (n, s1) /\ is_nil n = false /\
             exists e, ext_params (S (length s1)) [([], n)] s1 = Some (e, tail).
Proof.
  intros (a & b & p & -> & Ha & Hn & Hb & Hp) Ht.
  pose proof (params_sep_head p tail Hp Ht) as Hs.
  pose proof (is_token_inv _ Hn) as (Htok & Hnil & _).
  exists (b ++ p ++ tail). rewrite <- !app_assoc.
  rewrite skip_ows_app by (first [exact Ha|apply token_stops_ows; exact Hn]).
  rewrite next_token_app by (first [exact Htok|apply ows_stops_tok; [exact Hb|apply sep_stops_tok; exact Hs]]).
  repeat split; [exact Hnil|].
  destruct (ext_params_complete p Hp tail Ht (S (length (b ++ p ++ tail))) b [([], n)] Hb) as (ps & E); [lia|].
  eexists. exact E.
Qed.

(* on a well-formed line the parser reports exactly one extension per element, in order, with
   the element's name *)
Theorem ext_line_complete l : ext_list_g l -> forall f acc, (length l < f)%nat ->
  exists new, ext_line f l acc = acc ++ new /\
              map ext_name new = map ext_elem_name (split_list_q false false [] l).
Proof.
  induction 1 as [el n Hel|el n r Hel Hr IH]; intros f acc Hf; (destruct f as [|f]; [lia|]); cbn [ext_line].
  - destruct (ext_round_complete el n [] Hel I) as (s1 & Et & Hnil & e & Ep).
    rewrite app_nil_r in Et. rewrite Et, Hnil, Ep. cbn [is_nil negb andb].
    destruct (ext_round _ _ _ _ _ _ Et Hnil Ep) as (el' & E & Hok & Hname & He).
    rewrite app_nil_r in E. subst el'. exists [e]. split; [reflexivity|].
    rewrite (okq_nosplit _ _ _ _ Hok []). cbn [rev app map]. congruence.
  - destruct (ext_round_complete el n (44 :: r) Hel eq_refl) as (s1 & Et & Hnil & e & Ep).
    rewrite Et, Hnil, Ep. cbn [is_nil negb andb starts_with N.eqb Pos.eqb].
    destruct (ext_round _ _ _ _ _ _ Et Hnil Ep) as (el' & E & Hok & Hname & He).
    apply app_inv_tail in E. subst el'.
    destruct (IH f (acc ++ [e])) as (new & E & Hm).
    { rewrite app_length in Hf. cbn [length] in Hf. lia. }
    exists (e :: new). split; [rewrite E, <- app_assoc; reflexivity|].
    rewrite (okq_passes _ _ _ _ Hok) by discriminate. rewrite app_nil_r.
    cbn [split_list_q N.eqb Pos.eqb]. rewrite rev'_rev, rev_involutive. cbn [map]. rewrite Hm. congruence.
Qed.

Lemma ext_line_acc : forall f s acc, ext_line f s acc = acc ++ ext_line f s [].
Proof.
  induction f as [|f IH]; intros s acc; cbn [ext_line]; [rewrite app_nil_r; reflexivity|].
  destruct (next_token (skip_space s)) as [t s1].
  destruct (is_nil t); [rewrite app_nil_r; reflexivity|].
  destruct (ext_params (S (length s1)) [([], t)] s1) as [[e s2]|]; [|rewrite app_nil_r; reflexivity].
  destruct (negb (is_nil s2) && negb (starts_with 44 s2)); [rewrite app_nil_r; reflexivity|].
  destruct s2 as [|x r]; [reflexivity|].
  rewrite (IH r (acc ++ [e])), (IH r ([] ++ [e])), <- app_assoc. reflexivity.
Qed.

Lemma parse_fold_incl : forall lines acc l e, In l lines -> In e (ext_line (S (length l)) l []) ->
  In e (fold_left (fun acc s => ext_line (S (length s)) s acc) lines acc).
Proof.
  assert (Hmono : forall lines acc e, In e acc ->
            In e (fold_left (fun acc s => ext_line (S (length s)) s acc) lines acc)).
  { induction lines as [|s lines IH]; intros acc e H; cbn [fold_left]; [exact H|].
    apply IH. rewrite ext_line_acc. apply in_or_app. left. exact H. }
  induction lines as [|s lines IH]; intros acc l e Hl He; [destruct Hl|]. cbn [fold_left].
  destruct Hl as [->|Hl]; [|apply IH with l; assumption].
  apply Hmono. rewrite ext_line_acc. apply in_or_app. right. exact He.
Qed.

Theorem wf_line_extensions lines l n :
  In l lines -> ext_list_g l -> In n (map ext_elem_name (split_list_q false false [] l)) ->
  exists e, In e (parse_extensions lines) /\ ext_name e = n.
Proof.
  intros Hl Hg Hn. destruct (ext_line_complete l Hg (S (length l)) []) as (new & E & Hm); [lia|].
  rewrite <- Hm in Hn. apply in_map_iff in Hn as (e & He & Hin). exists e. split; [|exact He].
  unfold parse_extensions. apply parse_fold_incl with l; [exact Hl|]. rewrite E. exact Hin.
Qed.

(* COMPLETENESS: a well-formed line that offers permessage-deflate is recognised, whatever the
   other lines are *)
Theorem offer_recognised lines l :
  In l lines -> ext_list_g l -> offers_pmd [l] = true ->
  exists e, first_deflate (parse_extensions lines) = Some e.
Proof.
  intros Hl Hg Ho. apply offers_pmd_iff in Ho as (l' & el & [<-|[]] & Hel & Hn).
  destruct (wf_line_extensions lines l pmd_token Hl Hg) as (e & He & Hne).
  { apply in_map_iff. exists el. auto. }
  unfold first_deflate.
  destruct (find (fun e0 => beq (ext_name e0) permessage_deflate) (parse_extensions lines)) as [e0|] eqn:Ef.
  - exists e0. reflexivity.
  - exfalso. pose proof (find_none _ _ Ef e He) as Hb. cbv beta in Hb. rewrite Hne in Hb.
    rewrite pmd_token_is_model_literal, beq_refl in Hb. discriminate.
Qed.

Corollary first_deflate_iff_offers lines : Forall ext_list_g lines ->
  ((exists e, first_deflate (parse_extensions lines) = Some e) <-> offers_pmd lines = true).
Proof.
  intros Hwf. split; [intros (e & H); eapply first_deflate_offers; exact H|].
  intros Ho. apply offers_pmd_iff in Ho as (l & el & Hl & Hel & Hn).
  apply offer_recognised with l; [exact Hl|rewrite Forall_forall in Hwf; apply Hwf; exact Hl|].
  apply offers_pmd_iff. exists l, el. split; [left; reflexivity|auto].
Qed.

(* clause 111 as an equivalence when the offer lines are inside the grammar *)
Theorem upgrade_compression_iff_offered url u q rh hj wr resp c sub :
  upgrade url u q rh hj wr = Upgraded resp c sub -> Forall ext_list_g (q_extensions q) ->
  (c = true <-> u_compression u = true /\ offers_pmd (q_extensions q) = true).
Proof.
  intros H Hwf. rewrite (compression_iff _ _ _ _ _ _ _ _ _ H). split.
  - intros (Hc & e & He & Hn). split; [exact Hc|]. eapply named_extension_offered; eassumption.
  - intros (Hc & Ho). split; [exact Hc|]. apply offers_pmd_iff in Ho as (l & el & Hl & Hel & Hn).
    rewrite Forall_forall in Hwf.
    destruct (wf_line_extensions (q_extensions q) l pmd_token Hl (Hwf l Hl)) as (e & He & Hne).
    { apply in_map_iff. exists el. auto. }
    exists e. split; [exact He|]. rewrite Hne. reflexivity.
Qed.

(* ------------------------------------------------------------------------------------ *)
(* 8. concrete offers                                                                     *)
(* ------------------------------------------------------------------------------------ *)
Module ExtExamples.
Import Coq.Strings.String.
Local Open Scope string_scope.
(* in Coq string syntax a doubled DQUOTE stands for one DQUOTE; the byte lists are the reference *)
(* foo; x=DQ a BACKSLASH DQ , permessage-deflate, b BACKSLASH DQ DQ : the commas are inside the quoted string *)
Definition q_esc_quote : bytes :=
  [102;111;111;59;32;120;61;34;97;92;34;44;32;112;101;114;109;101;115;115;97;103;101;45;100;101;102;108;97;116;101;44;32;98;92;34;34].
(* foo; x=DQ a, permessage-deflate DQ *)
Definition q_comma : bytes :=
  [102;111;111;59;32;120;61;34;97;44;32;112;101;114;109;101;115;115;97;103;101;45;100;101;102;108;97;116;101;34].
(* foo; x=DQ a BACKSLASH BACKSLASH DQ , permessage-deflate : the escaped backslash does not escape the closing quote *)
Definition q_esc_backslash : bytes :=
  [102;111;111;59;32;120;61;34;97;92;92;34;44;32;112;101;114;109;101;115;115;97;103;101;45;100;101;102;108;97;116;101].
(* foo; x=DQ BACKSLASH DQ DQ , permessage-deflate; client_no_context_takeover *)
Definition q_only_quote : bytes :=
  [102;111;111;59;32;120;61;34;92;34;34;44;32;112;101;114;109;101;115;115;97;103;101;45;100;101;102;108;97;116;101;59;32;99;108;105;101;110;116;95;110;111;95;99;111;110;116;101;120;116;95;116;97;107;101;111;118;101;114].

Example offers_as_strings :
  q_esc_quote = bs "foo; x=""a\"", permessage-deflate, b\""""" /\
  q_comma = bs "foo; x=""a, permessage-deflate""" /\
  q_esc_backslash = bs "foo; x=""a\\"", permessage-deflate" /\
  q_only_quote = bs "foo; x=""\"""", permessage-deflate; client_no_context_takeover".
Proof. vm_compute. repeat split; reflexivity. Qed.

Definition model_finds (lines:list bytes) : bool :=
  match first_deflate (parse_extensions lines) with Some _ => true | None => false end.

Example ex_esc_quote : offers_pmd [q_esc_quote] = false /\ model_finds [q_esc_quote] = false.
Proof. vm_compute. auto. Qed.
Example ex_comma : offers_pmd [q_comma] = false /\ model_finds [q_comma] = false.
Proof. vm_compute. auto. Qed.
Example ex_esc_backslash : offers_pmd [q_esc_backslash] = true /\ model_finds [q_esc_backslash] = true.
Proof. vm_compute. auto. Qed.
Example ex_only_quote : offers_pmd [q_only_quote] = true /\ model_finds [q_only_quote] = true /\
  parse_extensions [q_only_quote] = [[([], bs "foo"); (bs "x", [34])]; [([], permessage_deflate); (client_nct, [])]].
Proof. vm_compute. auto. Qed.
(* a splitting that ignored quoted strings (split_on 44) would see an offer in the first one *)
Example naive_split_differs :
  existsb (fun e => beq (ext_elem_name e) pmd_token) (split_on 44 [] q_esc_quote) = true.
Proof. vm_compute. reflexivity. Qed.

(* the tricky offers are inside the grammar of section 7 *)
Example only_quote_wf : ext_list_g q_only_quote.
Proof.
  change (ext_list_g (([] ++ bs "foo" ++ [] ++ (59 :: [32] ++ bs "x" ++ [] ++ 61 :: [] ++ (34 :: [92;34] ++ [34]) ++ [] ++ []))
                      ++ 44 :: ([32] ++ permessage_deflate ++ [] ++ (59 :: [32] ++ client_nct ++ [] ++ [])))%list).
  eapply el_more; [|eapply el_one].
  - exists [], [], (59 :: [32] ++ bs "x" ++ [] ++ 61 :: [] ++ (34 :: [92;34] ++ [34]) ++ [] ++ [])%list.
    repeat split. apply ep_val; try reflexivity; [|constructor].
    apply ev_quoted. apply qd_pair. apply qd_nil.
  - exists [32], [], (59 :: [32] ++ client_nct ++ [] ++ [])%list. repeat split.
    apply ep_flag; try reflexivity. constructor.
Qed.

(* completeness needs the grammar: the parser drops a line at its first malformed element
   (here: two tokens without a separator; an empty element), the Spec predicate does not *)
Example outside_grammar_1 : offers_pmd [bs "a b, permessage-deflate"] = true /\
                            model_finds [bs "a b, permessage-deflate"] = false.
Proof. vm_compute. auto. Qed.
Example outside_grammar_2 : offers_pmd [bs ", permessage-deflate"] = true /\
                            model_finds [bs ", permessage-deflate"] = false.
Proof. vm_compute. auto. Qed.
(* an unterminated quoted string swallows the rest of the line on both sides *)
Example unterminated : offers_pmd [bs "foo; x=""a, permessage-deflate"] = false /\
                       model_finds [bs "foo; x=""a, permessage-deflate"] = false /\
                       offers_pmd [bs "permessage-deflate; x=""a, b"] = true /\
                       model_finds [bs "permessage-deflate; x=""a, b"] = true.
Proof. vm_compute. auto. Qed.
(* earlier elements of a line survive a later malformed one; other lines are unaffected *)
Example partial_line : model_finds [bs "permessage-deflate, a b"; bs "x y"] = true /\
                       offers_pmd [bs "permessage-deflate, a b"; bs "x y"] = true.
Proof. vm_compute. auto. Qed.
End ExtExamples.

Print Assumptions next_token_or_quoted_ok.
Print Assumptions ext_params_ok.
Print Assumptions ext_line_elements.
Print Assumptions parse_extensions_sound.
Print Assumptions first_deflate_offers.
Print Assumptions upgrade_compression_offered.
Print Assumptions want_compress_offered.
Print Assumptions ext_line_complete.
Print Assumptions offer_recognised.
Print Assumptions first_deflate_iff_offers.
Print Assumptions upgrade_compression_iff_offered.
Print Assumptions ExtExamples.only_quote_wf.
