(* messageWriter.ReadFrom after the repair (one byte of lookahead when the buffer is full; the
   full buffer is flushed only when the source has more data).

   - [read_from_fuel_irrel], [app_read_from_fuel]: every iteration of the repaired loop consumes
     a byte or a chunk of the source, so [length (concat chunks) + length chunks + 1] units of
     fuel are enough; the fuel given by [app_read_from] (unchanged) is more than that, and the
     result does not depend on it.
   - [read_from_fits]: a source whose data fits in the room left is copied into the buffer and
     nothing is flushed, whatever the chunking -- including when it fills the buffer exactly and
     reports io.EOF separately.
   - [control_read_from_accepted]: the theorem that motivated the repair.  On a connection made
     by newConn (capacity >= 125), NextWriter(control type), ReadFrom(source of <= 125 bytes, any
     chunking), Close all succeed and the wire gains exactly one frame: the control message with
     that payload (byte for byte what WriteControl sends).
   - Examples for capacity exactly 125 and a 125-byte payload whose source reports io.EOF
     separately: accepted now; the loop before the repair ([read_from_v0], kept here for the
     comparison only) refused it with errInvalidControlFrame.  A data message that fills the
     buffer exactly no longer gets an empty final frame. *)
Require Import WS.Base.Bytes WS.gen.Consts WS.Spec.Frame WS.Proofs.FrameP WS.Model.Writer.
From RecordUpdate Require Import RecordSet.
Import RecordSetNotations.
Require Import WS.Proofs.WWBase WS.Proofs.WWInv.
Require Import WS.Proofs.PrepBase WS.Proofs.PrepFrames WS.Proofs.PrepLoop WS.Proofs.PrepMsg.
Ltac Zify.zify_post_hook ::= Z.div_mod_to_equations.

(* ------------------------------------------------------------------------------------------ *)
(* fuel                                                                                       *)
(* ------------------------------------------------------------------------------------------ *)
Lemma read_from_fuel_irrel c : forall f1 f2 chunks s,
  (length (concat chunks) + length chunks < f1)%nat ->
  (length (concat chunks) + length chunks < f2)%nat ->
  read_from f1 c chunks s = read_from f2 c chunks s.
Proof.
  induction f1 as [|f1 IH]; intros f2 chunks s H1 H2; [lia|].
  destruct f2 as [|f2]; [lia|].
  cbn [read_from]. destruct (cur s) as [m|]; [|reflexivity].
  destruct (cap c - blen (m_buf m) =? 0) eqn:ER.
  - destruct chunks as [|[|b ch'] rest]; [reflexivity| |].
    + destruct rest as [|r1 rest1]; [reflexivity|].
      apply IH; cbn [concat length List.app] in *; lia.
    + destruct (flush_frame c false [] m s) as [e1 s1]. destruct e1 as [e1|]; [reflexivity|].
      cbn [concat length List.app] in H1, H2. rewrite app_length in H1, H2.
      destruct ch' as [|b1 ch1]; [destruct rest as [|r1 rest1]|].
      * reflexivity.
      * apply IH; cbn [length] in *; lia.
      * apply IH; cbn [concat length] in *; rewrite app_length; cbn [length]; lia.
  - destruct chunks as [|ch rest]; [reflexivity|]. cbv zeta.
    set (n := N.min (cap c - blen (m_buf m)) (blen ch)).
    pose proof (blen_dropN n ch) as HD. unfold blen in HD at 1 2.
    cbn [concat length] in H1, H2. rewrite app_length in H1, H2.
    destruct (dropN n ch) as [|r0 rem]; [destruct rest as [|r1 rest1]|].
    + reflexivity.
    + apply IH; lia.
    + assert (Hn : 1 <= n).
      { cbn [length] in HD. unfold blen in *. lia. }
      cbn [length] in HD. unfold blen in HD, Hn.
      apply IH; cbn [concat length]; rewrite app_length; cbn [length]; lia.
Qed.

(* the fuel of [app_read_from] suffices: any larger amount gives the same result *)
Lemma app_read_from_fuel c chunks s id extra :
  Writer.app s = Some id -> app_flate s = false -> is_cur id s = true ->
  app_read_from c chunks s =
  read_from (length (concat chunks) + length chunks + 1 + extra) c chunks s.
Proof.
  intros HA HF HC. unfold app_read_from. rewrite HA, HF, HC.
  apply read_from_fuel_irrel; unfold bytes; lia.
Qed.

(* ------------------------------------------------------------------------------------------ *)
(* a source that fits: no flush                                                               *)
(* ------------------------------------------------------------------------------------------ *)
Lemma set_buf_same s m : cur s = Some m -> s <| cur := Some (m <| m_buf := m_buf m ++ [] |>) |> = s.
Proof.
  intros H. rewrite app_nil_r. destruct s, m. cbn in *. rewrite H. reflexivity.
Qed.

Lemma read_from_fits c : forall fuel chunks s m,
  cur s = Some m -> blen (m_buf m) + blen (concat chunks) <= cap c ->
  (length (concat chunks) + length chunks < fuel)%nat ->
  read_from fuel c chunks s = (None, s <| cur := Some (m <| m_buf := m_buf m ++ concat chunks |>) |>).
Proof.
  induction fuel as [|fuel IH]; intros chunks s m HC HB HF; [lia|].
  cbn [read_from]. rewrite HC.
  destruct (cap c - blen (m_buf m) =? 0) eqn:ER.
  - (* full: the source has nothing more, so the lookahead never sees a byte *)
    destruct chunks as [|[|b ch'] rest].
    + cbn [concat]. rewrite (set_buf_same s m HC). reflexivity.
    + destruct rest as [|r1 rest1].
      * cbn [concat List.app]. rewrite (set_buf_same s m HC). reflexivity.
      * cbn [concat List.app] in *. apply (IH (r1 :: rest1) s m HC HB). cbn [concat length] in *. lia.
    + exfalso. cbn [concat] in HB. rewrite blen_app in HB. unfold blen in HB at 2. cbn [length] in HB. lia.
  - destruct chunks as [|ch rest].
    + cbn [concat]. rewrite (set_buf_same s m HC). reflexivity.
    + cbv zeta. cbn [concat] in HB, HF |- *. rewrite blen_app in HB. rewrite app_length in HF. cbn [length] in HF.
      set (n := N.min (cap c - blen (m_buf m)) (blen ch)).
      assert (Hn : n = blen ch) by (unfold n; lia).
      assert (HT : takeN n ch = ch).
      { rewrite <- (takeN_app_dropN n ch) at 2.
        assert (X : dropN n ch = []).
        { pose proof (blen_dropN n ch) as Y. destruct (dropN n ch); [reflexivity|].
          unfold blen in Y at 1. cbn [length] in Y. lia. }
        rewrite X, app_nil_r. reflexivity. }
      assert (HD : dropN n ch = []).
      { pose proof (blen_dropN n ch) as Y. destruct (dropN n ch); [reflexivity|].
        unfold blen in Y at 1. cbn [length] in Y. lia. }
      rewrite HD, HT.
      destruct rest as [|r1 rest1].
      * cbn [concat]. rewrite app_nil_r. reflexivity.
      * set (m2 := m <| m_buf := m_buf m ++ ch |>).
        assert (HC2 : cur (s <| cur := Some m2 |>) = Some m2) by reflexivity.
        rewrite (IH (r1 :: rest1) (s <| cur := Some m2 |>) m2 HC2).
        -- unfold m2. wsimpl. rewrite <- app_assoc. destruct s, m. reflexivity.
        -- unfold m2. wsimpl. rewrite blen_app. lia.
        -- lia.
Qed.

(* ------------------------------------------------------------------------------------------ *)
(* a control message through NextWriter / ReadFrom / Close                                    *)
(* ------------------------------------------------------------------------------------------ *)
Theorem control_read_from_accepted c ty chunks ic cc s :
  139 <= w_bufsize c ->
  cur s = None -> werr s = None -> fail_at s = None -> Forall len4 (keys s) ->
  is_control_ty ty = true -> blen (concat chunks) <= 125 ->
  exists s' f,
    wrun c s [WNext ty ic; WReadFrom chunks; WClose cc] = ([None; None; None], s') /\
    f = mkf true ty 0 (role_mkey c s) (concat chunks) /\
    wire s' = wire s ++ encode_frame f /\
    encode_frame f = control_frame (w_server c) ty (next_key s) (concat chunks) /\
    wf_frame f /\
    wf_wire (negb (w_server c)) (w_negotiated c) (tag [f]) = true /\
    open_after false (tag [f]) = false /\
    events_of [f] = [ECtl ty (concat chunks)] /\
    werr s' = (if ty =? c_CloseMessage then Some WCloseSent else None) /\ cur s' = None.
Proof.
  intros HB HC HW HF HK HT HL.
  assert (Hcap : 125 <= cap c) by (unfold cap, c_maxFrameHeaderSize; lia).
  assert (HnD : is_data_ty ty = false).
  { destruct (is_data_ty ty) eqn:E; [|reflexivity]. rewrite (data_not_control _ E) in HT. discriminate HT. }
  (* NextWriter *)
  destruct (acquire_proj s) as (A1 & A2 & A3 & A4 & A5 & A6 & A7 & A8).
  set (m := {| m_id := nextid (acquire s); m_buf := []; m_ftype := ty; m_compress := false; m_err := None |}).
  set (s1 := acquire s <| nextid := S (nextid (acquire s)) |> <| cur := Some m |> <| cur_flate := false |>
               <| Writer.app := Some (nextid (acquire s)) |> <| app_flate := false |>).
  assert (E1 : next_writer c ty ic s = (None, s1)).
  { unfold next_writer. rewrite (begin_message_nf c ty ic s HC HW). rewrite HT. cbn [negb andb].
    unfold new_mw. cbv beta iota zeta. wsimpl. rewrite HnD, andb_false_r. reflexivity. }
  assert (S1 : werr s1 = None /\ fail_at s1 = None /\ keys s1 = keys s /\ wire s1 = wire s /\
               cur s1 = Some m /\ Writer.app s1 = Some (m_id m) /\ app_flate s1 = false).
  { unfold s1, wire, evs in *. wsimpl. rewrite A2, A3, A4. repeat split; congruence. }
  destruct S1 as (S1w & S1f & S1k & S1wi & S1c & S1a & S1af).
  (* ReadFrom: everything fits, nothing is flushed *)
  set (m2 := m <| m_buf := m_buf m ++ concat chunks |>).
  set (s2 := s1 <| cur := Some m2 |>).
  assert (E2 : app_read_from c chunks s1 = (None, s2)).
  { unfold app_read_from. rewrite S1a, S1af. unfold is_cur. rewrite S1c, Nat.eqb_refl.
    apply (read_from_fits c _ chunks s1 m S1c).
    - change (blen (m_buf m)) with 0. lia.
    - unfold bytes. lia. }
  assert (S2 : werr s2 = None /\ fail_at s2 = None /\ keys s2 = keys s /\ wire s2 = wire s /\
               cur s2 = Some m2 /\ Writer.app s2 = Some (m_id m2) /\ app_flate s2 = false).
  { unfold s2, wire, evs in *. wsimpl. repeat split; assumption. }
  destruct S2 as (S2w & S2f & S2k & S2wi & S2c & S2a & S2af).
  (* Close: one final frame *)
  assert (Hchk : is_control_ty (m_ftype m2) &&
                 (negb true || (c_maxControlFramePayloadSize <? blen (m_buf m2) + blen [])) = false).
  { change (m_ftype m2) with ty. change (m_buf m2) with (concat chunks). change (blen []) with 0.
    rewrite HT. unfold c_maxControlFramePayloadSize. cbn [negb orb andb]. lia. }
  destruct (flush_frame_nf c true [] m2 s2 S2w S2f eq_refl Hchk (fun _ => eq_refl))
    as (s3 & E & F1 & F2 & F3 & F4 & _ & F6 & F7 & F8).
  assert (E3 : app_close c cc s2 = (None, s3)).
  { unfold app_close. rewrite S2a, S2af. unfold is_cur. rewrite S2c, Nat.eqb_refl.
    unfold mw_close. rewrite S2c. exact E. }
  assert (HR : role_mkey c s2 = role_mkey c s) by (unfold role_mkey, next_key; rewrite S2k; reflexivity).
  change (m_ftype m2) with ty in F2, F8. change (m_compress m2) with false in F8.
  change (m_buf m2) with (concat chunks) in F8. rewrite app_nil_r, HR, S2wi in F8.
  set (f := mkf true ty 0 (role_mkey c s) (concat chunks)) in *.
  destruct (wf_ctl (negb (w_server c)) (w_negotiated c) ty (role_mkey c s) (concat chunks)
                   (control_ty_ok ty HT) (role_mkey_ok c s HK) HL) as (W1 & W2 & W3).
  exists s3, f.
  split. { cbn [wrun wstep]. rewrite E1, E2, E3. reflexivity. }
  split; [reflexivity|]. split; [exact F8|].
  split. { unfold f, role_mkey. symmetry. apply control_frame_enc. exact HL. }
  split; [inversion W1; assumption|]. split; [exact W2|]. split; [exact W3|].
  split; [exact (events_ctl ty (role_mkey c s) (concat chunks) (control_is_control ty HT))|].
  split; [exact F2|exact F4].
Qed.
Print Assumptions control_read_from_accepted.

(* ------------------------------------------------------------------------------------------ *)
(* capacity exactly 125, a 125-byte payload, io.EOF reported separately                       *)
(* ------------------------------------------------------------------------------------------ *)
Definition cfg125 (server:bool) : wcfg :=
  {| w_server := server; w_bufsize := eff_wbuf 1; w_pooled := false; w_negotiated := false |}.
Definition pay125 : bytes := map N.of_nat (seq 0 125).
Definition key1 : bytes := [1; 2; 3; 4].

Example cap125 : cap (cfg125 true) = 125 /\ blen pay125 = 125.
Proof. vm_compute. split; reflexivity. Qed.

(* accepted: a single ping frame with the whole payload (server and client) *)
Example ping125_eof_separately_server :
  let r := wrun (cfg125 true) (init_wst (cfg125 true) [] None)
                [WNext c_PingMessage []; WReadFrom [pay125; []]; WClose []] in
  fst r = [None; None; None] /\
  wire_of (evs (snd r)) = control_frame true c_PingMessage [] pay125 /\
  oracle_short (snd r) = false.
Proof. vm_compute. repeat split; reflexivity. Qed.

(* the same, self-contained (the statement quoted in Props/C01.v) *)
Example ping125_eof_separately :
  let c := {| w_server := true; w_bufsize := eff_wbuf 1; w_pooled := false; w_negotiated := false |} in
  let pay := map N.of_nat (seq 0 125) in
  let r := wrun c (init_wst c [] None) [WNext c_PingMessage []; WReadFrom [pay; []]; WClose []] in
  cap c = 125 /\ blen pay = 125 /\
  fst r = [None; None; None] /\
  wire_of (evs (snd r)) = control_frame true c_PingMessage [] pay /\
  oracle_short (snd r) = false.
Proof. vm_compute. repeat split; reflexivity. Qed.

Example ping125_eof_separately_client :
  let r := wrun (cfg125 false) (init_wst (cfg125 false) [key1] None)
                [WNext c_PingMessage []; WReadFrom [pay125; []]; WClose []] in
  fst r = [None; None; None] /\
  wire_of (evs (snd r)) = control_frame false c_PingMessage key1 pay125 /\
  oracle_short (snd r) = false.
Proof. vm_compute. repeat split; reflexivity. Qed.

(* the same with the payload trickling in one byte per Read and empty Reads in between *)
Example ping125_bytewise :
  let chunks := flat_map (fun b => [[b]; []]) pay125 in
  let r := wrun (cfg125 true) (init_wst (cfg125 true) [] None)
                [WNext c_PingMessage []; WReadFrom chunks; WClose []] in
  fst r = [None; None; None] /\
  wire_of (evs (snd r)) = control_frame true c_PingMessage [] pay125 /\
  oracle_short (snd r) = false.
Proof. vm_compute. repeat split; reflexivity. Qed.

(* one byte more than the buffer: the lookahead byte arrives, the flush is attempted and the
   message is refused, as it must be (a control message cannot be fragmented) *)
Example ping126_refused :
  let r := wrun (cfg125 true) (init_wst (cfg125 true) [] None)
                [WNext c_PingMessage []; WReadFrom [pay125 ++ [7]]; WClose []] in
  fst r = [None; Some WInvalidControl; Some WInvalidControl] /\ wire_of (evs (snd r)) = [].
Proof. vm_compute. split; reflexivity. Qed.

(* The loop before the repair, for comparison only: a full buffer was flushed before the next
   Read, whether or not the source had more data. *)
Fixpoint read_from_v0 (fuel:nat) (c:wcfg) (chunks:list bytes) (s:wst) : option werror * wst :=
  match fuel with
  | O => (None, s <| oracle_short := true |>)
  | S f =>
    match cur s with
    | None => (Some WWriteClosed, s)
    | Some m =>
      let room := cap c - blen (m_buf m) in
      if room =? 0 then
        let '(e, s) := flush_frame c false [] m s in
        match e with Some e => (Some e, s) | None => read_from_v0 f c chunks s end
      else
        match chunks with
        | [] => (None, s)
        | ch :: rest =>
          let n := N.min room (blen ch) in
          let s := s <| cur := Some (m <| m_buf := m_buf m ++ takeN n ch |>) |> in
          let rem := dropN n ch in
          match rem, rest with
          | [], [] => (None, s)
          | [], _ => read_from_v0 f c rest s
          | _, _ => read_from_v0 f c (rem :: rest) s
          end
        end
    end
  end.

Example ping125_eof_separately_was_refused :
  let c := cfg125 true in
  let s1 := snd (wstep c (init_wst c [] None) (WNext c_PingMessage [])) in
  fst (read_from_v0 600 c [pay125; []] s1) = Some WInvalidControl /\
  fst (read_from 600 c [pay125; []] s1) = None.
Proof. vm_compute. split; reflexivity. Qed.

(* a data message that fills the buffer exactly: one final frame now; before the repair a
   non-final frame with the data followed by an empty final frame *)
Example text125_single_frame :
  let c := cfg125 true in
  let s0 := init_wst c [] None in
  let s1 := snd (wstep c s0 (WNext c_TextMessage [])) in
  let new := snd (wstep c (snd (read_from 600 c [pay125; []] s1)) (WClose [])) in
  let old := snd (wstep c (snd (read_from_v0 600 c [pay125; []] s1)) (WClose [])) in
  wire_of (evs new) = encode_frame (mkf true 1 0 None pay125) /\
  wire_of (evs old) = encode_frame (mkf false 1 0 None pay125) ++ encode_frame (mkf true 0 0 None []).
Proof. vm_compute. split; reflexivity. Qed.

(* Why the wire invariant (WWInv.mok) now bounds the buffer by [N.max 1 (cap c)] instead of
   [cap c]: with no room for payload at all (cap c = 0, a configuration newConn never builds and
   on which the Go code would index out of range) the model still stores the lookahead byte.
   The theorems of Props/C02 carry no lower bound on the buffer size, so the invariant has to
   cover this configuration. *)
Example cap0_lookahead_byte_is_stored :
  let c := {| w_server := true; w_bufsize := 14; w_pooled := false; w_negotiated := false |} in
  let r := wrun c (init_wst c [] None) [WNext c_TextMessage []; WReadFrom [[1; 2]]] in
  cap c = 0 /\ fst r = [None; None] /\
  option_map m_buf (cur (snd r)) = Some [2] /\
  wire_of (evs (snd r)) = encode_frame (mkf false 1 0 None []) ++ encode_frame (mkf false 0 0 None [1]).
Proof. vm_compute. repeat split; reflexivity. Qed.
