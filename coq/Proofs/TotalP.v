(* ========================================================================================== *)
(* C07 "untrusted network input never panics, hangs or allocates out of proportion"            *)
(*                                                                                            *)
(* The models are total Gallina functions; every loop carries fuel derived from the remaining  *)
(* input and records in [outoffuel] when that fuel is exhausted.  Here we prove, for ARBITRARY  *)
(* input bytes, chunking, transport fault, configuration and operation sequence, that          *)
(*   1. the fuel is never exhausted (every loop iteration consumes input or exits),            *)
(*   2. the only panic is the documented one (1000 failed reads on a failed connection),       *)
(*   3. sizes requested / data returned are bounded by the input received,                     *)
(*   4. the header-value scanners never depend on their fuel beyond the input length.          *)
(* ========================================================================================== *)
Require Import WS.Base.Bytes WS.gen.Consts WS.Model.Bufio WS.Model.Reader WS.Proofs.BufioP
  WS.Proofs.ReaderBasicP.
From RecordUpdate Require Import RecordSet.
Import RecordSetNotations.
Require Import WS.Proofs.ReaderP1 WS.Proofs.ReaderP2 WS.Proofs.ReaderP3 WS.Proofs.CutP WS.Proofs.LimitP.
Require Import WS.Model.Util WS.Proofs.TokenP.
Ltac Zify.zify_post_hook ::= Z.div_mod_to_equations.

(* ============================== part 0: the bufio layer ============================== *)
(* one step of the buffered reader: invariant kept, buffer size kept, the logical stream still
   to come never grows *)
Definition bstep (b b':bufio) : Prop :=
  binv b' /\ bsize b' = bsize b /\ (length (pending b') <= length (pending b))%nat.

Lemma bstep_refl b : binv b -> bstep b b.
Proof. intros H. unfold bstep. auto. Qed.

Lemma bstep_trans a b c : bstep a b -> bstep b c -> bstep a c.
Proof. intros (A1 & A2 & A3) (B1 & B2 & B3). unfold bstep. split; [exact B1|]. split; [congruence|lia]. Qed.

(* Peek(n)+Discard for ANY n (also n > bsize): never grows the stream; when it succeeds it has
   consumed exactly n bytes *)
Lemma peek_discard_gen n b : binv b ->
  bstep b (snd (br_peek_discard n b)) /\
  (snd (fst (br_peek_discard n b)) = None ->
   (length (pending (snd (br_peek_discard n b))) + n = length (pending b))%nat).
Proof.
  intros Hinv.
  destruct (peek_discard_binv n b Hinv) as (Hb' & Hs' & _).
  destruct (peek_loop_pres (S n) n b Hinv) as (Hinv1 & Hp1 & Hb1 & Hf1).
  unfold bstep. rewrite Hs'.
  assert (Hlen : (length (pending (snd (br_peek_discard n b))) <= length (pending b))%nat /\
    (snd (fst (br_peek_discard n b)) = None ->
     (length (pending (snd (br_peek_discard n b))) + n = length (pending b))%nat)).
  { unfold br_peek_discard. cbv zeta.
    remember (peek_loop (S n) n b) as b1 eqn:Eb1. clear Eb1.
    rewrite <- Hp1. unfold pending.
    destruct (Nat.ltb (bsize b1) n); [|destruct (Nat.leb n (length (bbuf b1))) eqn:El];
      cbn [fst snd bsize bbuf berr src]; rewrite ?app_length; cbn [length app].
    - split; [lia|intros H; discriminate H].
    - apply Nat.leb_le in El. rewrite skipn_length. split; [lia|intros _; lia].
    - split; [lia|intros H; discriminate H]. }
  destruct Hlen as [H1 H2]. auto.
Qed.

(* br.Read(p) for ANY len(p) (also 0): the bytes returned are a prefix of the stream *)
Lemma br_read_gen m b d e b' : binv b -> br_read m b = (d, e, b') ->
  binv b' /\ bsize b' = bsize b /\ pending b = d ++ pending b' /\ (length d <= m)%nat.
Proof.
  intros Hinv H. pose proof Hinv as (Hpos & Hlen & Hwf & Herr).
  destruct (Nat.eq_dec m 0) as [Hm0|Hm0].
  { (* zero-length read: the transport is not touched *)
    subst m. unfold br_read in H. destruct (bbuf b) as [|x r] eqn:Ebuf.
    - inversion H; subst d e b'. unfold binv, pending; rewrite Ebuf; cbn [bsize bbuf berr src app length].
      split; [|split; [reflexivity|split; [reflexivity|lia]]].
      split; [exact Hpos|]. split; [lia|]. split; [exact Hwf|]. intros k0 Hk; discriminate Hk.
    - inversion H; subst d e b'. cbn [app length].
      split; [exact Hinv|]. split; [reflexivity|]. split; [reflexivity|lia]. }
  rewrite br_read_pos in H by lia.
  unfold br_read_nz in H. destruct (bbuf b) as [|x r] eqn:Ebuf.
  - assert (Hps: pending b = stream_of (src b)) by (unfold pending; rewrite Ebuf; reflexivity).
    destruct (berr b) as [k|] eqn:Eb.
    { inversion H; subst d e b'. rewrite Hps. unfold binv, pending; cbn [bsize bbuf berr src app length].
      split; [|split; [reflexivity|split; [reflexivity|lia]]].
      split; [exact Hpos|]. split; [lia|]. split; [exact Hwf|]. intros k0 Hk; discriminate Hk. }
    destruct (Nat.leb (bsize b) m) eqn:Elm.
    + apply Nat.leb_le in Elm.
      destruct (tread (src b) m) as [[d0 e0] s'] eqn:Et.
      apply tread_spec in Et; [|exact Hwf|lia].
      destruct Et as (Hs & Hwf' & Hf & Hl & Hne & Hemp & He).
      inversion H; subst d e b'. rewrite Hps. unfold binv, pending; cbn [bsize bbuf berr src app length].
      split; [|split; [reflexivity|split; [exact Hs|exact Hl]]].
      split; [exact Hpos|]. split; [lia|]. split; [exact Hwf'|]. intros k0 Hk; discriminate Hk.
    + apply Nat.leb_gt in Elm.
      destruct (tread (src b) (bsize b)) as [[d0 e0] s'] eqn:Et.
      apply tread_spec in Et; [|exact Hwf|exact Hpos].
      destruct Et as (Hs & Hwf' & Hf & Hl & Hne & Hemp & He).
      destruct d0 as [|y d0'] eqn:Ed.
      * inversion H; subst d e b'. rewrite Hps. unfold binv, pending; cbn [bsize bbuf berr src app length].
        split; [|split; [reflexivity|split; [exact Hs|lia]]].
        split; [exact Hpos|]. split; [lia|]. split; [exact Hwf'|]. intros k0 Hk; discriminate Hk.
      * rewrite <- Ed in *. clear Ed.
        inversion H; subst d e b'. rewrite Hps. unfold binv, pending; cbn [bsize bbuf berr src].
        split; [|split; [reflexivity|split]].
        -- split; [exact Hpos|]. split; [rewrite skipn_length; lia|]. split; [exact Hwf'|].
           intros k0 Hk. destruct (He k0 Hk) as [Hk1 Hk2]. split; [exact Hk2|congruence].
        -- rewrite Hs, app_assoc, firstn_skipn. reflexivity.
        -- rewrite firstn_length. lia.
  - rewrite <- Ebuf in *.
    inversion H; subst d e b'. unfold binv, pending; cbn [bsize bbuf berr src].
    split; [|split; [reflexivity|split]].
    + split; [exact Hpos|]. split; [rewrite skipn_length; lia|]. split; [exact Hwf|exact Herr].
    + rewrite app_assoc, firstn_skipn. reflexivity.
    + rewrite firstn_length. lia.
Qed.

(* ... and a Read with len(p) > 0 returns at least one byte or an error *)
Lemma br_read_progress m b d e b' : binv b -> (0 < m)%nat -> br_read m b = (d, e, b') ->
  d <> [] \/ e <> None.
Proof.
  intros Hinv Hm H. destruct (pending b) as [|x r] eqn:Ep.
  - destruct (br_read_empty m b Hinv Hm Ep) as (b1 & E & _). rewrite E in H.
    inversion H; subst. right. discriminate.
  - assert (Hne : pending b <> []) by (rewrite Ep; discriminate).
    destruct (br_read_some m b Hinv Hm Hne) as (d1 & e1 & b1 & E & Hd & _). rewrite E in H.
    inversion H; subst. left. exact Hd.
Qed.

(* io.CopyN(io.Discard, br, n) with the model's fuel: never out of fuel *)
Lemma copyn_total n b : binv b ->
  exists e b', copyn_discard (S (length (pending b))) n b = (e, b', false) /\ bstep b b'.
Proof.
  intros Hinv. destruct (N.le_gt_cases n (blen (pending b))) as [Hle|Hgt].
  - destruct (copyn_enough (S (length (pending b))) n b Hinv Hle ltac:(lia))
      as (b' & E & Hp & Hi & Hs & _).
    exists None, b'. split; [exact E|]. unfold bstep. split; [exact Hi|]. split; [exact Hs|].
    rewrite Hp. unfold dropN. rewrite skipn_length. lia.
  - destruct (copyn_short (S (length (pending b))) n b Hinv Hgt ltac:(lia))
      as (b' & E & Hp & Hi & Hs & _).
    exists (Some (fault (src b))), b'. split; [exact E|]. unfold bstep. split; [exact Hi|].
    split; [exact Hs|]. rewrite Hp. cbn [length]. lia.
Qed.

(* ============================== part 1: advanceFrame ============================== *)
(* what every stage of advanceFrame guarantees about the buffered reader, for ANY input:
   the invariant is kept and the stream never grows; the stages after the first two header
   bytes do not touch the "compressed" flag *)
Definition bm (s s':rst) : Prop := binv (br s) -> bstep (br s) (br s').
Definition keep (s s':rst) : Prop := bm s s' /\ rdecomp s' = rdecomp s.

Lemma keep_refl s : keep s s.
Proof. split; [intros H; apply bstep_refl; exact H|reflexivity]. Qed.

Lemma keep_trans a b c : keep a b -> keep b c -> keep a c.
Proof.
  intros (A1 & A2) (B1 & B2). split; [|congruence].
  intros H. pose proof (A1 H) as HA. eapply bstep_trans; [exact HA|]. apply B1. exact (proj1 HA).
Qed.

Lemma keep_same s s' : br s' = br s -> rdecomp s' = rdecomp s -> keep s s'.
Proof. intros E1 E2. split; [|exact E2]. intros H. rewrite E1. apply bstep_refl. exact H. Qed.

Lemma rd_keep n s : keep s (snd (rd n s)).
Proof.
  unfold rd. pose proof (peek_discard_gen n (br s)) as H.
  destruct (br_peek_discard n (br s)) as [[p e] b]. cbn [fst snd] in *.
  split; [|reflexivity]. intros Hb. rsimpl. exact (proj1 (H Hb)).
Qed.

Lemma rd_exact n s p s' : binv (br s) -> rd n s = (p, None, s') ->
  (length (pending (br s')) + n = length (pending (br s)))%nat.
Proof.
  intros Hb. unfold rd. pose proof (peek_discard_gen n (br s) Hb) as H.
  destruct (br_peek_discard n (br s)) as [[p0 [e0|]] b]; cbn [fst snd] in *; intros E; inversion E; subst.
  rsimpl. apply H. reflexivity.
Qed.

Lemma send_br w s : br (send w s) = br s.
Proof. unfold send. destruct (closesent s); reflexivity. Qed.
Lemma send_rdecomp w s : rdecomp (send w s) = rdecomp s.
Proof. unfold send. destruct (closesent s); reflexivity. Qed.
Lemma send_keep w s : keep s (send w s).
Proof. apply keep_same; [apply send_br|apply send_rdecomp]. Qed.

Lemma handler_result_keep c s : keep s (snd (handler_result c s)).
Proof.
  unfold handler_result. cbv zeta. destruct (existsb _ _); cbn [snd]; apply keep_same; reflexivity.
Qed.

Ltac keep_fin :=
  cbn [fst snd];
  repeat (eapply keep_trans; [eassumption|]);
  repeat (eapply keep_trans; [|apply send_keep]);
  apply keep_same; rsimpl; reflexivity.

Transparent aas2 aas3 aas4 aas5.

Lemma keep_aas5 c op len s : keep s (snd (aas5 c op len s)).
Proof.
  unfold aas5. cbv zeta.
  destruct ((op =? c_continuationFrame) || ((op =? c_TextMessage) || (op =? c_BinaryMessage))).
  { destruct (2 ^ 63 <=? rlen s + len); [keep_fin|].
    destruct ((0 <? rlimit (s <| rlen := rlen s + len |>)) &&
              (rlimit (s <| rlen := rlen s + len |>) <? rlen s + len)); keep_fin. }
  assert (Hrd : exists pl e s1, (if 0 <? len then rd (N.to_nat len) s else ([], None, s)) = (pl, e, s1) /\
                  keep s s1).
  { destruct (0 <? len).
    - destruct (rd (N.to_nat len) s) as [[pl e] s1] eqn:E. exists pl, e, s1. split; [reflexivity|].
      pose proof (rd_keep (N.to_nat len) s) as H; rewrite E in H; exact H.
    - exists [], None, s. split; [reflexivity|apply keep_refl]. }
  destruct Hrd as (pl & e & s1 & -> & Hp1).
  destruct e as [e0|]; [keep_fin|].
  set (s2 := s1 <| rem := 0 |>).
  assert (Hp2 : keep s s2) by (eapply keep_trans; [exact Hp1|]; apply keep_same; reflexivity).
  clearbody s2. clear Hp1 s1.
  set (pl' := if server c then maskl (rkey s2) 0 pl else pl). clearbody pl'.
  assert (Hh : forall ev (s3:rst) (a2:adv), keep s s3 ->
     keep s (snd (let '(r, s4) := handler_result c (s3 <| hlog := hlog s3 ++ [ev] |>) in
             match r with Some e => (AErr e, s4) | None => (a2, s4) end))).
  { intros ev s3 a2 H3.
    pose proof (handler_result_keep c (s3 <| hlog := hlog s3 ++ [ev] |>)) as Hhr.
    destruct (handler_result c (s3 <| hlog := hlog s3 ++ [ev] |>)) as [[e1|] s4]; cbn [snd] in *;
      (eapply keep_trans; [exact H3|]); (eapply keep_trans; [|exact Hhr]); apply keep_same; reflexivity. }
  destruct (op =? c_PongMessage).
  { destruct (custom_handlers c); [apply (Hh _ _ (AFrame op)); exact Hp2|keep_fin]. }
  destruct (op =? c_PingMessage).
  { destruct (custom_handlers c); [apply (Hh _ _ (AFrame op)); exact Hp2|keep_fin]. }
  unfold protocol_error.
  destruct ((2 <=? blen pl') && negb (is_valid_received_close_code _)); [keep_fin|].
  destruct ((2 <=? blen pl') && negb (Utf8.utf8_valid _)); [keep_fin|].
  destruct (custom_handlers c); [apply Hh; exact Hp2|keep_fin].
Qed.

Lemma keep_aas4 c op mask len s : keep s (snd (aas4 c op mask len s)).
Proof.
  unfold aas4. cbv zeta. destruct mask.
  - match goal with |- context [rd ?n ?st] => pose proof (rd_keep n st) as Hp;
      destruct (rd n st) as [[p [e|]] s1] eqn:E end; cbn [snd] in Hp.
    + cbn [snd]. eapply keep_trans; [|exact Hp]. apply keep_same; reflexivity.
    + eapply keep_trans; [|apply keep_aas5].
      eapply keep_trans; [|eapply keep_trans; [exact Hp|]]; apply keep_same; reflexivity.
  - eapply keep_trans; [|apply keep_aas5]. apply keep_same; reflexivity.
Qed.

Lemma keep_aas3 c op mask l7 s : keep s (snd (aas3 c op mask l7 s)).
Proof.
  unfold aas3. destruct (l7 =? 126); [|destruct (l7 =? 127)].
  - pose proof (rd_keep 2 s) as Hp; destruct (rd 2 s) as [[p [e|]] s1] eqn:E; cbn [snd] in Hp.
    + exact Hp.
    + eapply keep_trans; [exact Hp|apply keep_aas4].
  - pose proof (rd_keep 8 s) as Hp; destruct (rd 8 s) as [[p [e|]] s1] eqn:E; cbn [snd] in Hp.
    + exact Hp.
    + destruct (2 ^ 63 <=? be_dec p).
      * cbn [snd]. eapply keep_trans; [exact Hp|apply send_keep].
      * eapply keep_trans; [exact Hp|apply keep_aas4].
  - apply keep_aas4.
Qed.

(* the header stage sets the "compressed" flag from RSV1 and the negotiation result *)
Lemma bm_aas2 c b0 b1 s :
  bm s (snd (aas2 c b0 b1 s)) /\
  rdecomp (snd (aas2 c b0 b1 s)) = bit b0 c_rsv1Bit && negotiated c.
Proof.
  unfold aas2. cbv zeta.
  match goal with |- context [if hdr_reject ?a ?b ?c ?d then _ else _] => destruct (hdr_reject a b c d) end.
  - unfold protocol_error. cbn [snd]. rewrite send_rdecomp.
    split; [intros Hb; rewrite send_br|];
    (destruct ((N.land b0 15 =? c_TextMessage) || (N.land b0 15 =? c_BinaryMessage));
      [|destruct (N.land b0 15 =? c_continuationFrame)]); rsimpl; try reflexivity;
      apply bstep_refl; exact Hb.
  - match goal with |- context [aas3 ?c ?o ?m ?l ?st] =>
      pose proof (keep_aas3 c o m l st) as [K1 K2]; set (s1 := st) in * end.
    assert (E : br s1 = br s /\ rdecomp s1 = bit b0 c_rsv1Bit && negotiated c).
    { subst s1. destruct ((N.land b0 15 =? c_TextMessage) || (N.land b0 15 =? c_BinaryMessage));
        [|destruct (N.land b0 15 =? c_continuationFrame)]; rsimpl; auto. }
    destruct E as [E1 E2]. split; [|congruence].
    intros Hb. rewrite <- E1. apply K1. rewrite E1. exact Hb.
Qed.

Opaque aas2 aas3 aas4 aas5.

(* advanceFrame steps 2-7 on ARBITRARY input: keeps the bufio invariant, never runs out of
   fuel (it has no loop), and a frame is only reported after at least two bytes were consumed *)
Theorem advance_after_skip_total c s a s' :
  binv (br s) -> advance_after_skip c s = (a, s') ->
  bstep (br s) (br s') /\ pres s s' /\
  (forall op, a = AFrame op -> (length (pending (br s')) + 2 <= length (pending (br s)))%nat) /\
  (negotiated c = false -> rdecomp s = false -> rdecomp s' = false).
Proof.
  intros Hb H.
  pose proof (advance_after_skip_good c s) as (Hpres & _). rewrite H in Hpres. cbn [snd] in Hpres.
  split; [|split; [exact Hpres|]]; rewrite aas_unfold in H;
    pose proof (rd_keep 2 s) as [Hk Hk2]; pose proof (rd_exact 2 s) as Hx;
    destruct (rd 2 s) as [[p [e|]] s1] eqn:E; cbn [snd] in Hk, Hk2.
  - inversion H; subst. apply Hk. exact Hb.
  - pose proof (Hk Hb) as Hs1. destruct (bm_aas2 c (nth 0 p 0) (nth 1 p 0) s1) as [Hm _].
    rewrite H in Hm. cbn [snd] in Hm. eapply bstep_trans; [exact Hs1|]. apply Hm. exact (proj1 Hs1).
  - inversion H; subst. split; [intros op Hop; discriminate Hop|]. intros _ Hr. congruence.
  - pose proof (Hk Hb) as Hs1. destruct (bm_aas2 c (nth 0 p 0) (nth 1 p 0) s1) as [Hm Hr].
    rewrite H in Hm, Hr. cbn [snd] in Hm, Hr.
    pose proof (Hm (proj1 Hs1)) as (_ & _ & Hl). pose proof (Hx p s1 Hb eq_refl) as Hx2.
    split; [intros op _; lia|]. intros Hn _. rewrite Hr, Hn. apply andb_false_r.
Qed.

(* advanceFrame proper: the skip of the rest of the previous frame never runs out of fuel *)
Theorem advance_frame_total c s a s' :
  binv (br s) -> outoffuel s = false -> advance_frame c s = (a, s') ->
  bstep (br s) (br s') /\ pres s s' /\
  (forall op, a = AFrame op -> (length (pending (br s')) + 2 <= length (pending (br s)))%nat) /\
  (negotiated c = false -> rdecomp s = false -> rdecomp s' = false).
Proof.
  intros Hb Hoof H. unfold advance_frame in H.
  destruct (0 <? rem s); [|eapply advance_after_skip_total; eassumption].
  destruct (copyn_total (rem s) (br s) Hb) as (e & b' & E & Hst). rewrite E in H.
  set (s1 := s <| br := b' |>) in *.
  assert (Hp1 : pres s s1) by (unfold pres, s1; rsimpl; auto 10).
  destruct e as [k|].
  - inversion H; subst. split; [exact Hst|]. split; [exact Hp1|].
    split; [intros op Hop; discriminate Hop|]. intros _ Hr. exact Hr.
  - destruct (advance_after_skip_total c s1 a s' (proj1 Hst) H) as (H1 & H2 & H3 & H4).
    change (br s1) with b' in *.
    split; [exact (bstep_trans _ _ _ Hst H1)|]. split; [exact (pres_trans _ _ _ Hp1 H2)|].
    split; [|exact H4]. intros op Hop. pose proof (H3 op Hop). destruct Hst as (_ & _ & Hl). lia.
Qed.

(* ============================== part 2: the loops ============================== *)
(* the step relation carried through every reader operation *)
Definition ok (c:rcfg) (s s':rst) : Prop :=
  bstep (br s) (br s') /\ outoffuel s' = false /\
  (negotiated c = false -> rdecomp s = false -> rdecomp s' = false).

Lemma ok_trans c s1 s2 s3 : ok c s1 s2 -> ok c s2 s3 -> ok c s1 s3.
Proof.
  intros (A1 & A2 & A3) (B1 & B2 & B3). split; [eapply bstep_trans; eassumption|].
  split; [exact B2|]. auto.
Qed.

Lemma ok_same c s s' : binv (br s) -> br s' = br s -> outoffuel s' = false -> rdecomp s' = rdecomp s ->
  ok c s s'.
Proof.
  intros Hb E1 E2 E3. split; [rewrite E1; apply bstep_refl; exact Hb|]. split; [exact E2|].
  intros _ H. congruence.
Qed.

Lemma ok_len c s s' : ok c s s' -> (length (pending (br s')) <= length (pending (br s)))%nat.
Proof. intros ((_ & _ & H) & _). exact H. Qed.

(* NextReader's loop: each iteration that continues has consumed at least two bytes, so
   fuel > bytes left is never exhausted *)
Lemma next_loop_total c : forall fuel s r s',
  binv (br s) -> outoffuel s = false -> (length (pending (br s)) < fuel)%nat ->
  next_loop fuel c s = (r, s') ->
  ok c s s' /\ errcount s' = errcount s /\
  match r with None => rerror s' <> None | Some _ => rerror s' = None end.
Proof.
  induction fuel as [|f IH]; intros s r s' Hb Hoof Hf H; cbn [next_loop] in H;
    destruct (rerror s) as [e0|] eqn:Er.
  - inversion H; subst. split; [apply ok_same; auto|]. split; [reflexivity|congruence].
  - lia.
  - inversion H; subst. split; [apply ok_same; auto|]. split; [reflexivity|congruence].
  - destruct (advance_frame c s) as [a s1] eqn:Ea.
    destruct (advance_frame_total c s a s1 Hb Hoof Ea) as (H1 & H2 & H3 & H4).
    destruct H2 as (P1 & P2 & P3 & P4 & _).
    assert (Hok1 : ok c s s1) by (split; [exact H1|split; [congruence|exact H4]]).
    destruct a as [e|op].
    + inversion H; subst. rsimpl. split; [|split; [exact P4|discriminate]].
      eapply ok_trans; [exact Hok1|]. apply ok_same; [exact (proj1 H1)|reflexivity|rsimpl; congruence|reflexivity].
    + destruct ((op =? c_TextMessage) || (op =? c_BinaryMessage)).
      * inversion H; subst. rsimpl. split; [|split; [exact P4|congruence]].
        eapply ok_trans; [exact Hok1|]. apply ok_same; [exact (proj1 H1)|reflexivity|rsimpl; congruence|reflexivity].
      * pose proof (H3 op eq_refl) as Hl.
        destruct (IH s1 r s' (proj1 H1) ltac:(congruence) ltac:(lia) H) as (K1 & K2 & K3).
        split; [eapply ok_trans; eassumption|]. split; [congruence|exact K3].
Qed.

(* NextReader: never out of fuel; the error counter moves by exactly one on a failed call and
   not at all on a successful one; the panic is the 1000th failed call on a failed connection *)
Theorem next_reader_total c s r s' :
  binv (br s) -> outoffuel s = false -> next_reader c s = (r, s') ->
  ok c s s' /\
  match r with
  | RNext _ None => errcount s' = errcount s /\ rerror s' = None
  | RNext _ (Some e) => errcount s' = S (errcount s) /\ rerror s' = Some e /\ (errcount s' < 1000)%nat
  | RPanic => errcount s' = S (errcount s) /\ rerror s' <> None /\ (1000 <= errcount s')%nat
  | _ => False
  end.
Proof.
  intros Hb Hoof H. unfold next_reader in H. cbv zeta in H.
  set (s0 := s <| cur := None |> <| rlen := 0 |>) in *.
  destruct (next_loop (fuel_of s0) c s0) as [r0 s1] eqn:El.
  destruct (next_loop_total c (fuel_of s0) s0 r0 s1 Hb Hoof ltac:(unfold fuel_of; lia) El)
    as (K1 & K2 & K3).
  change (errcount s0) with (errcount s) in K2.
  assert (K1' : ok c s s1) by exact K1.
  destruct r0 as [op|].
  - inversion H; subst. split; [exact K1'|]. split; assumption.
  - destruct (Nat.leb 1000 (errcount (s1 <| errcount := S (errcount s1) |>))) eqn:E1k;
      inversion H; subst; rsimpl; rsimpl_in E1k.
    + apply Nat.leb_le in E1k.
      split; [|split; [congruence|split; [exact K3|exact E1k]]].
      eapply ok_trans; [exact K1'|]. destruct K1' as (B1 & B2 & _).
      apply ok_same; [exact (proj1 B1)|reflexivity|exact B2|reflexivity].
    + apply Nat.leb_gt in E1k.
      split.
      { eapply ok_trans; [exact K1'|]. destruct K1' as (B1 & B2 & _).
        apply ok_same; [exact (proj1 B1)|reflexivity|exact B2|reflexivity]. }
      destruct (rerror s1) as [e|] eqn:Ee; [|congruence].
      split; [congruence|]. split; [reflexivity|lia].
Qed.

(* messageReader.Read: never out of fuel; returns at most len(p) bytes, each of which was
   consumed from the stream; with len(p) > 0 it returns a byte or an error *)
Lemma read_loop_total c m : forall fuel s d e s',
  binv (br s) -> outoffuel s = false -> (length (pending (br s)) < fuel)%nat ->
  read_loop fuel c m s = (d, e, s') ->
  ok c s s' /\ errcount s' = errcount s /\ (length d <= m)%nat /\
  (length d + length (pending (br s')) <= length (pending (br s)))%nat /\
  ((0 < m)%nat -> d = [] -> e <> None).
Proof.
  induction fuel as [|f IH]; intros s d e s' Hb Hoof Hf H; [lia|].
  destruct (rerror s) as [e0|] eqn:Er.
  { rewrite (read_loop_err_val _ c m s e0 Er) in H. inversion H; subst.
    split; [apply ok_same; auto|]. split; [reflexivity|]. cbn [length].
    split; [lia|]. split; [lia|]. intros _ _. discriminate. }
  cbn [read_loop] in H. rewrite Er in H.
  destruct (0 <? rem s) eqn:Erem.
  - cbv zeta in H.
    destruct (br_read (N.to_nat (N.min (N.of_nat m) (rem s))) (br s)) as [[d0 e1] b] eqn:Ebr.
    destruct (br_read_gen _ _ _ _ _ Hb Ebr) as (Hb' & Hs' & Hp' & Hl').
    assert (Hprog : (0 < m)%nat -> d0 <> [] \/ e1 <> None).
    { intros Hm. eapply br_read_progress; [exact Hb| |exact Ebr]. lia. }
    assert (Hlen : length (pending (br s)) = (length d0 + length (pending b))%nat)
      by (rewrite Hp', app_length; reflexivity).
    destruct (server c); inversion H; subst d e s'; clear H; unfold ok, bstep; rsimpl.
    + rewrite maskl_length.
      split; [split; [split; [exact Hb'|split; [exact Hs'|lia]]|split; [exact Hoof|auto]]|].
      split; [reflexivity|]. split; [lia|]. split; [lia|].
      intros Hm Hd. assert (Hd0 : d0 = []).
      { apply length_zero_nil. rewrite <- (maskl_length (rkey s) (mpos s) d0), Hd. reflexivity. }
      destruct (Hprog Hm) as [Hx|Hx]; [contradiction|]. destruct e1; [discriminate|congruence].
    + split; [split; [split; [exact Hb'|split; [exact Hs'|lia]]|split; [exact Hoof|auto]]|].
      split; [reflexivity|]. split; [lia|]. split; [lia|].
      intros Hm Hd. destruct (Hprog Hm) as [Hx|Hx]; [contradiction|]. destruct e1; [discriminate|congruence].
  - destruct (rfin s).
    { inversion H; subst. split; [apply ok_same; auto|]. split; [reflexivity|]. cbn [length].
      split; [lia|]. split; [rsimpl; lia|]. intros _ _. discriminate. }
    destruct (advance_frame c s) as [a s1] eqn:Ea.
    destruct (advance_frame_total c s a s1 Hb Hoof Ea) as (H1 & H2 & H3 & H4).
    destruct H2 as (P1 & P2 & P3 & P4 & _).
    assert (Hok1 : ok c s s1) by (split; [exact H1|split; [congruence|exact H4]]).
    pose proof (ok_len _ _ _ Hok1) as Hl1.
    assert (Herrcase : forall e2, read_loop f c m (s1 <| rerror := Some e2 |>) = (d, e, s') ->
      ok c s s' /\ errcount s' = errcount s /\ (length d <= m)%nat /\
      (length d + length (pending (br s')) <= length (pending (br s)))%nat /\
      ((0 < m)%nat -> d = [] -> e <> None)).
    { intros e2 H'. rewrite (read_loop_err_val f c m _ e2) in H' by reflexivity.
      inversion H'; subst. rsimpl. split.
      { eapply ok_trans; [exact Hok1|].
        apply ok_same; [exact (proj1 H1)|reflexivity|rsimpl; congruence|reflexivity]. }
      split; [exact P4|]. cbn [length]. split; [lia|]. split; [lia|]. intros _ _. discriminate. }
    destruct a as [e2|op]; [exact (Herrcase _ H)|].
    destruct ((op =? c_TextMessage) || (op =? c_BinaryMessage)); [exact (Herrcase _ H)|].
    pose proof (H3 op eq_refl) as Hl.
    destruct (IH s1 d e s' (proj1 H1) ltac:(congruence) ltac:(lia) H) as (K1 & K2 & K3 & K4 & K5).
    split; [eapply ok_trans; eassumption|]. split; [congruence|]. split; [exact K3|].
    split; [lia|exact K5].
Qed.

Theorem reader_read_total c m s d e s' :
  binv (br s) -> outoffuel s = false -> reader_read c m s = (d, e, s') ->
  ok c s s' /\ errcount s' = errcount s /\ (length d <= m)%nat /\
  (length d + length (pending (br s')) <= length (pending (br s)))%nat /\
  ((0 < m)%nat -> d = [] -> e <> None).
Proof.
  intros Hb Hoof H. unfold reader_read in H.
  eapply read_loop_total; [exact Hb|exact Hoof| |exact H]. unfold fuel_of. lia.
Qed.

(* io.ReadAll over the message reader: the request cp - len is positive throughout (the
   capacity schedule only ever grows the buffer), so every iteration that continues has
   consumed at least one byte *)
Lemma read_all_total c : forall fuel len cp acc s d e s',
  binv (br s) -> outoffuel s = false -> (length (pending (br s)) < fuel)%nat -> len < cp ->
  read_all fuel c len cp acc s = (d, e, s') ->
  ok c s s' /\ errcount s' = errcount s /\
  exists d1, d = acc ++ d1 /\
    (length d1 + length (pending (br s')) <= length (pending (br s)))%nat.
Proof.
  induction fuel as [|f IH]; intros len cp acc s d e s' Hb Hoof Hf Hcp H; [lia|].
  cbn [read_all] in H.
  destruct (reader_read c (N.to_nat (cp - len)) s) as [[d0 e0] s1] eqn:Er.
  destruct (reader_read_total c _ s d0 e0 s1 Hb Hoof Er) as (K1 & K2 & K3 & K4 & K5).
  destruct e0 as [e0|].
  - destruct e0; inversion H; subst;
      (split; [exact K1|split; [exact K2|exists d0; split; [reflexivity|exact K4]]]).
  - assert (Hd0 : d0 <> []) by (intros Hd; apply (K5 ltac:(lia) Hd); reflexivity).
    apply length_pos in Hd0.
    pose proof K1 as ((Hb1 & _) & Hoof1 & _).
    assert (Hf1 : (length (pending (br s1)) < f)%nat) by lia.
    assert (Hcp1 : len + blen d0 < (if len + blen d0 =? cp then next_cap (caps c) cp else cp)).
    { unfold blen. destruct (N.eqb_spec (len + N.of_nat (length d0)) cp) as [Hq|Hq];
        [pose proof (next_cap_gt (caps c) cp ltac:(lia)); lia|lia]. }
    destruct (IH _ _ _ _ _ _ _ Hb1 Hoof1 Hf1 Hcp1 H) as (J1 & J2 & d1 & J3 & J4).
    split; [eapply ok_trans; eassumption|]. split; [congruence|].
    exists (d0 ++ d1). split; [rewrite J3, app_assoc; reflexivity|]. rewrite app_length. lia.
Qed.

(* the raw bytes of a compressed message, pulled in 4096-byte reads *)
Lemma read_raw_total c : forall fuel acc s d e s',
  binv (br s) -> outoffuel s = false -> (length (pending (br s)) < fuel)%nat ->
  read_raw fuel c acc s = (d, e, s') ->
  ok c s s' /\ errcount s' = errcount s /\
  exists d1, d = acc ++ d1 /\
    (length d1 + length (pending (br s')) <= length (pending (br s)))%nat.
Proof.
  induction fuel as [|f IH]; intros acc s d e s' Hb Hoof Hf H; [lia|].
  cbn [read_raw] in H.
  destruct (reader_read c 4096 s) as [[d0 e0] s1] eqn:Er.
  destruct (reader_read_total c _ s d0 e0 s1 Hb Hoof Er) as (K1 & K2 & K3 & K4 & K5).
  destruct e0 as [e0|].
  - destruct e0; inversion H; subst;
      (split; [exact K1|split; [exact K2|exists d0; split; [reflexivity|exact K4]]]).
  - assert (Hd0 : d0 <> []) by (intros Hd; apply (K5 ltac:(lia) Hd); reflexivity).
    apply length_pos in Hd0.
    pose proof K1 as ((Hb1 & _) & Hoof1 & _).
    assert (Hf1 : (length (pending (br s1)) < f)%nat) by lia.
    destruct (IH _ _ _ _ _ Hb1 Hoof1 Hf1 H) as (J1 & J2 & d1 & J3 & J4).
    split; [eapply ok_trans; eassumption|]. split; [congruence|].
    exists (d0 ++ d1). split; [rewrite J3, app_assoc; reflexivity|]. rewrite app_length. lia.
Qed.

(* ============================== part 3: operations ============================== *)
(* bytes handed to the application by one operation / does the operation report a failure *)
Definition out_len (r:rout) : nat :=
  match r with RData d _ | RMsg _ d _ => length d | _ => 0%nat end.
Definition fail_out (r:rout) : nat :=
  match r with RNext _ (Some _) | RMsg _ _ (Some _) | RPanic => 1%nat | _ => 0%nat end.
(* is the operation a NextReader / ReadMessage call *)
Definition nr (o:rop) : nat := match o with ONext | OReadMessage => 1%nat | _ => 0%nat end.

Definition step_post (c:rcfg) (s:rst) (r:rout) (s':rst) : Prop :=
  ok c s s' /\
  (errcount s' <= errcount s + fail_out r)%nat /\
  (r = RPanic -> errcount s' = S (errcount s) /\ (1000 <= errcount s')%nat /\ rerror s' <> None) /\
  (negotiated c = false -> rdecomp s = false ->
   (out_len r + length (pending (br s')) <= length (pending (br s)))%nat).

Section Ops.
Variable inflate : bytes -> option bytes.

Theorem read_message_total c s r s' :
  binv (br s) -> outoffuel s = false -> read_message inflate c s = (r, s') -> step_post c s r s'.
Proof.
  intros Hb Hoof H. unfold read_message in H.
  destruct (next_reader c s) as [r0 s1] eqn:En.
  destruct (next_reader_total c s r0 s1 Hb Hoof En) as (K1 & K2).
  pose proof K1 as ((Hb1 & _) & Hoof1 & Hrd1).
  pose proof (ok_len _ _ _ K1) as Hl1.
  destruct r0 as [ty [e0|]|dd ee|ty dd ee| |]; try contradiction.
  - (* NextReader failed *)
    inversion H; subst. destruct K2 as (E1 & E2 & E3). unfold step_post. cbn [fail_out out_len length].
    split; [exact K1|]. split; [lia|]. split; [intros Hx; discriminate Hx|]. intros _ _. lia.
  - destruct K2 as (E1 & E2).
    assert (Hf1 : (length (pending (br s1)) < fuel_of s1)%nat) by (unfold fuel_of; lia).
    destruct (rdecomp s1) eqn:Erd.
    + destruct (read_raw (fuel_of s1) c [] s1) as [[raw e1] s2] eqn:Err.
      destruct (read_raw_total c _ _ _ _ _ _ Hb1 Hoof1 Hf1 Err) as (J1 & J2 & _).
      assert (Hok : ok c s s2) by (eapply ok_trans; eassumption).
      assert (Hneg : negotiated c = false -> rdecomp s = false -> False).
      { intros A B. discriminate (Hrd1 A B). }
      destruct e1 as [e1|]; [|destruct (inflate (raw ++ ws_tail))]; inversion H; subst;
        unfold step_post; cbn [fail_out];
        (split; [exact Hok|]); (split; [lia|]); (split; [intros Hx; discriminate Hx|]);
        intros A B; destruct (Hneg A B).
    + destruct (read_all (fuel_of s1) c 0 512 [] s1) as [[d e1] s2] eqn:Era.
      destruct (read_all_total c _ 0 512 [] s1 d e1 s2 Hb1 Hoof1 Hf1 ltac:(lia) Era)
        as (J1 & J2 & d1 & J3 & J4).
      assert (Hok : ok c s s2) by (eapply ok_trans; eassumption).
      inversion H; subst. unfold step_post. cbn [out_len app].
      split; [exact Hok|]. split; [lia|]. split; [intros Hx; discriminate Hx|]. intros _ _. lia.
  - (* the documented panic *)
    inversion H; subst. destruct K2 as (E1 & E2 & E3). unfold step_post. cbn [fail_out out_len].
    split; [exact K1|]. split; [lia|]. split; [intros _; auto|]. intros _ _. lia.
Qed.

Theorem rstep_total c s o r s' :
  binv (br s) -> outoffuel s = false -> rstep inflate c s o = (r, s') ->
  step_post c s r s' /\ (fail_out r <= nr o)%nat.
Proof.
  intros Hb Hoof H. unfold rstep in H.
  assert (Hlift : forall r1 s1, step_post c s r1 s1 -> step_post c s r1 (s1 <| opidx := S (opidx s1) |>)).
  { intros r1 s1 (A1 & A2 & A3 & A4). unfold step_post, ok. rsimpl. auto. }
  assert (Hid : forall r1, fail_out r1 = 0%nat -> out_len r1 = 0%nat -> r1 <> RPanic -> step_post c s r1 s).
  { intros r1 F1 F2 F3. unfold step_post. rewrite F1, F2.
    split; [apply ok_same; auto|]. split; [lia|]. split; [intros Hx; contradiction|]. intros _ _. lia. }
  destruct o as [|m|m| |l].
  - destruct (next_reader c s) as [r0 s1] eqn:En. inversion H; subst.
    destruct (next_reader_total c s r s1 Hb Hoof En) as (K1 & K2).
    pose proof (ok_len _ _ _ K1) as Hl1.
    split; [apply Hlift|destruct r as [ty [e0|]|dd ee|ty dd ee| |]; cbn [fail_out nr]; lia].
    unfold step_post. split; [exact K1|].
    destruct r as [ty [e0|]|dd ee|ty dd ee| |]; try contradiction; cbn [fail_out out_len].
    + destruct K2 as (E1 & E2 & E3). split; [lia|]. split; [intros Hx; discriminate Hx|]. intros _ _; lia.
    + destruct K2 as (E1 & E2). split; [lia|]. split; [intros Hx; discriminate Hx|]. intros _ _; lia.
    + destruct K2 as (E1 & E2 & E3). split; [lia|]. split; [intros _; auto|]. intros _ _; lia.
  - destruct (cur s).
    + destruct (reader_read c m s) as [[d e] s1] eqn:Er. inversion H; subst.
      destruct (reader_read_total c m s d e s1 Hb Hoof Er) as (K1 & K2 & K3 & K4 & K5).
      split; [apply Hlift|cbn [fail_out nr]; lia].
      unfold step_post. cbn [fail_out out_len]. split; [exact K1|]. split; [lia|].
      split; [intros Hx; discriminate Hx|]. intros _ _. exact K4.
    + inversion H; subst. split; [apply Hlift, Hid; [reflexivity|reflexivity|discriminate]|cbn [fail_out nr]; lia].
  - inversion H; subst. split; [apply Hlift, Hid; [reflexivity|reflexivity|discriminate]|cbn [fail_out nr]; lia].
  - destruct (read_message inflate c s) as [r0 s1] eqn:Em. inversion H; subst.
    split; [apply Hlift; eapply read_message_total; eassumption|].
    cbn [nr]. destruct r as [ty [e0|]|dd ee|ty dd [e0|]| |]; cbn [fail_out]; lia.
  - inversion H; subst. split; [|cbn [fail_out nr]; lia].
    unfold step_post, ok. rsimpl. cbn [fail_out out_len].
    split; [split; [apply bstep_refl; exact Hb|auto]|]. split; [lia|].
    split; [intros Hx; discriminate Hx|]. intros _ _. lia.
Qed.

(* any sequence of operations *)
Theorem run_ops_total c : forall ops s rs s',
  binv (br s) -> outoffuel s = false -> run_ops inflate c s ops = (rs, s') ->
  ok c s s' /\
  (errcount s' <= errcount s + list_sum (map fail_out rs))%nat /\
  (list_sum (map fail_out rs) <= list_sum (map nr ops))%nat /\
  (In RPanic rs -> (1000 <= errcount s')%nat /\ rerror s' <> None) /\
  (negotiated c = false -> rdecomp s = false ->
   (list_sum (map out_len rs) + length (pending (br s')) <= length (pending (br s)))%nat).
Proof.
  induction ops as [|o ops IH]; intros s rs s' Hb Hoof H; cbn [run_ops] in H.
  - inversion H; subst. unfold list_sum in *; cbn [map fold_right In].
    split; [apply ok_same; auto|]. split; [lia|]. split; [lia|]. split; [intros []|]. intros _ _; lia.
  - destruct (rstep inflate c s o) as [x s1] eqn:Es.
    destruct (rstep_total c s o x s1 Hb Hoof Es) as ((K1 & K2 & K3 & K4) & K5).
    pose proof K1 as ((Hb1 & _) & Hoof1 & Hrd1).
    assert (Hpanic : x = RPanic -> rs = [x] /\ s' = s1).
    { intros ->. inversion H; subst. auto. }
    assert (Hcont : x <> RPanic -> exists xs, run_ops inflate c s1 ops = (xs, s') /\ rs = x :: xs).
    { intros Hx. destruct (run_ops inflate c s1 ops) as [xs s2].
      destruct x; try congruence; inversion H; subst; eexists; split; reflexivity. }
    clear H.
    assert (Hdec : x = RPanic \/ x <> RPanic) by (destruct x; auto; right; discriminate).
    destruct Hdec as [Hx|Hx].
    + destruct (Hpanic Hx) as [-> ->]. destruct (K3 Hx) as (E1 & E2 & E3).
      unfold list_sum in *; cbn [map fold_right In]. split; [exact K1|]. split; [lia|]. split; [lia|].
      split; [intros _; auto|]. intros A B. pose proof (K4 A B). lia.
    + destruct (Hcont Hx) as (xs & Hr & ->).
      destruct (IH s1 xs s' Hb1 Hoof1 Hr) as (J1 & J2 & J3 & J4 & J5).
      unfold list_sum in *; cbn [map fold_right In]. split; [eapply ok_trans; eassumption|]. split; [lia|]. split; [lia|].
      split; [intros [Hin|Hin]; [congruence|exact (J4 Hin)]|].
      intros A B. pose proof (K4 A B). pose proof (J5 A (Hrd1 A B)). lia.
Qed.
End Ops.

(* ============================== part 4: main theorems, frame stream ============================== *)
Section Main.
Variable inflate : bytes -> option bytes.

(* 1. No sequence of bytes, however chunked and however the transport fails, makes any loop of
   the read path run out of the fuel the model derives from the bytes still to come: every
   iteration consumes input or exits.  ANY configuration, ANY operation sequence.
   (The hypothesis [125 <= bsize b] of the usual invariant is not needed.) *)
Theorem frame_stream_total c b ops :
  binv b ->
  outoffuel (snd (run_ops inflate c (init_rst b) ops)) = false /\
  binv (br (snd (run_ops inflate c (init_rst b) ops))) /\
  bsize (br (snd (run_ops inflate c (init_rst b) ops))) = bsize b /\
  (length (pending (br (snd (run_ops inflate c (init_rst b) ops)))) <= length (pending b))%nat.
Proof.
  intros Hb. destruct (run_ops inflate c (init_rst b) ops) as [rs s'] eqn:E.
  destruct (run_ops_total inflate c ops (init_rst b) rs s' Hb eq_refl E) as (((B1 & B2 & B3) & O & _) & _).
  cbn [snd]. auto.
Qed.

Corollary frame_stream_never_out_of_fuel c b ops :
  binv b -> (125 <= bsize b)%nat ->
  outoffuel (snd (run_ops inflate c (init_rst b) ops)) = false.
Proof. intros Hb _. exact (proj1 (frame_stream_total c b ops Hb)). Qed.

(* the same from any reachable state *)
Corollary run_ops_never_out_of_fuel c s ops :
  binv (br s) -> outoffuel s = false ->
  outoffuel (snd (run_ops inflate c s ops)) = false /\ binv (br (snd (run_ops inflate c s ops))).
Proof.
  intros Hb Hoof. destruct (run_ops inflate c s ops) as [rs s'] eqn:E.
  destruct (run_ops_total inflate c ops s rs s' Hb Hoof E) as (((B1 & _) & O & _) & _).
  cbn [snd]. auto.
Qed.

(* 2. The only panic is the documented one: it is produced by a NextReader / ReadMessage call
   on a connection whose read side has failed ([rerror] set), when the counter of failed calls
   reaches 1000; that counter moves only on failed NextReader / ReadMessage calls (one each).
   Hence at least 1000 outputs are failures, and at least 1000 operations are NextReader /
   ReadMessage calls. *)
Theorem next_reader_panic_documented c s s' :
  binv (br s) -> outoffuel s = false -> next_reader c s = (RPanic, s') ->
  errcount s' = S (errcount s) /\ (1000 <= errcount s')%nat /\ rerror s' <> None.
Proof.
  intros Hb Hoof H. destruct (next_reader_total c s RPanic s' Hb Hoof H) as (_ & E1 & E2 & E3). auto.
Qed.

Theorem only_documented_panic c b ops :
  binv b -> In RPanic (fst (run_ops inflate c (init_rst b) ops)) ->
  (1000 <= list_sum (map fail_out (fst (run_ops inflate c (init_rst b) ops))))%nat /\
  (1000 <= list_sum (map nr ops))%nat /\
  rerror (snd (run_ops inflate c (init_rst b) ops)) <> None.
Proof.
  intros Hb Hin. destruct (run_ops inflate c (init_rst b) ops) as [rs s'] eqn:E.
  destruct (run_ops_total inflate c ops (init_rst b) rs s' Hb eq_refl E) as (_ & J2 & J3 & J4 & _).
  cbn [fst snd] in *. destruct (J4 Hin) as [H1 H2]. cbn [errcount init_rst] in J2.
  split; [lia|]. split; [lia|exact H2].
Qed.

(* 3. Allocation, model level.
   (a) every size the reader passes to the bufio layer is at most max(125, len(p), 8192):
       re-exported from LimitP (instrumented loops [next_loopI] / [read_loopI] log each size) *)
Definition request_sizes_bounded_reexport := request_sizes_bounded.
Definition next_reader_request_sizes_bounded_reexport := next_reader_request_sizes_bounded.

(* (b) Read(p) returns at most len(p) bytes and each of them was consumed from the stream *)
Theorem reader_read_bounded c m s d e s' :
  binv (br s) -> outoffuel s = false -> reader_read c m s = (d, e, s') ->
  (length d <= m)%nat /\ (length d + length (pending (br s')) <= length (pending (br s)))%nat.
Proof.
  intros Hb Hoof H. destruct (reader_read_total c m s d e s' Hb Hoof H) as (_ & _ & H1 & H2 & _). auto.
Qed.

(* (c) without compression, all data handed to the application by any operation sequence is
       bounded by the bytes received: every delivered byte was consumed from the stream *)
Theorem delivered_bounded_by_received c b ops :
  binv b -> negotiated c = false ->
  (list_sum (map out_len (fst (run_ops inflate c (init_rst b) ops))) +
   length (pending (br (snd (run_ops inflate c (init_rst b) ops)))) <= length (pending b))%nat.
Proof.
  intros Hb Hn. destruct (run_ops inflate c (init_rst b) ops) as [rs s'] eqn:E.
  destruct (run_ops_total inflate c ops (init_rst b) rs s' Hb eq_refl E) as (_ & _ & _ & _ & J5).
  cbn [fst snd]. exact (J5 Hn eq_refl).
Qed.
End Main.

(* ============================== part 5: header value scanners ============================== *)
(* handshake header values (client request headers at the server, the server's reply at the
   client) are scanned by loops whose fuel is the length of the value + 1.  The scanners are
   independent of that fuel once it exceeds the input length: every iteration consumes at
   least one byte (the comma / the semicolon / a non-empty token) or stops. *)
Lemma skip_space_len s : (length (skip_space s) <= length s)%nat.
Proof.
  induction s as [|b r IH]; cbn [skip_space length]; [lia|].
  destruct ((b =? 32) || (b =? 9)); cbn [length]; lia.
Qed.

Lemma next_token_len s t rest : next_token s = (t, rest) ->
  (length t + length rest = length s)%nat.
Proof. intros E. apply next_token_spec in E as (E & _). subst s. rewrite app_length. reflexivity. Qed.

Lemma quoted_esc_len : forall s esc acc,
  (length (snd (quoted_esc esc acc s)) <= length s)%nat /\
  (length (fst (quoted_esc esc acc s)) <= length acc + length s)%nat.
Proof.
  induction s as [|b r IH]; intros esc acc; cbn [quoted_esc].
  - cbn [fst snd length]. lia.
  - destruct esc.
    + specialize (IH false (acc ++ [b])). rewrite app_length in IH. cbn [length] in *. lia.
    + destruct (b =? 92).
      * specialize (IH true acc). cbn [length]. lia.
      * destruct (b =? 34).
        -- cbn [fst snd length]. lia.
        -- specialize (IH false (acc ++ [b])). rewrite app_length in IH. cbn [length] in *. lia.
Qed.

Lemma quoted_plain_len : forall s acc,
  (length (snd (quoted_plain acc s)) <= length s)%nat /\
  (length (fst (quoted_plain acc s)) <= length acc + length s)%nat.
Proof.
  induction s as [|b r IH]; intros acc; cbn [quoted_plain].
  - cbn [fst snd length]. lia.
  - destruct (b =? 34).
    + cbn [fst snd length]. lia.
    + destruct (b =? 92).
      * pose proof (quoted_esc_len r true acc). cbn [length]. lia.
      * specialize (IH (acc ++ [b])). rewrite app_length in IH. cbn [length] in *. lia.
Qed.

Lemma ntq_unfold s :
  next_token_or_quoted s =
  match s with
  | b :: r => if b =? 34 then quoted_plain [] r else next_token s
  | [] => next_token s
  end.
Proof.
  destruct s as [|b r]; [reflexivity|].
  destruct (N.eqb_spec b 34) as [->|Hne]; [reflexivity|].
  unfold next_token_or_quoted. destruct b as [|p]; [reflexivity|].
  do 6 (try (destruct p as [p|p|]; try reflexivity)).
  exfalso. apply Hne. reflexivity.
Qed.

(* quoted strings with escapes, unterminated quotes, a trailing backslash: total, and neither
   the value nor the rest is longer than the input *)
Theorem next_token_or_quoted_len s :
  (length (snd (next_token_or_quoted s)) <= length s)%nat /\
  (length (fst (next_token_or_quoted s)) <= length s)%nat.
Proof.
  rewrite ntq_unfold.
  assert (Hnt : forall s0, (length (snd (next_token s0)) <= length s0)%nat /\
                           (length (fst (next_token s0)) <= length s0)%nat).
  { intros s0. destruct (next_token s0) as [t rest] eqn:E. apply next_token_len in E. cbn [fst snd]. lia. }
  destruct s as [|b r]; [apply Hnt|].
  destruct (b =? 34); [|apply Hnt].
  pose proof (quoted_plain_len r []). cbn [length] in *. lia.
Qed.

Theorem next_token_or_quoted_unterminated_plain : forall s acc,
  forallb (fun b => negb (b =? 34) && negb (b =? 92)) s = true -> quoted_plain acc s = ([], []).
Proof.
  induction s as [|b r IH]; intros acc H; cbn [quoted_plain]; [reflexivity|].
  cbn [forallb] in H. apply andb_true_iff in H as [Hb Hr]. apply andb_true_iff in Hb as [H1 H2].
  apply negb_true_iff in H1, H2. rewrite H1, H2. apply IH. exact Hr.
Qed.

(* ---------- tokenListContainsValue ---------- *)
Theorem line_contains_fuel s v fuel :
  (length s < fuel)%nat -> line_contains fuel s v = line_contains (S (length s)) s v.
Proof. intros H. rewrite line_contains_exact. apply line_contains_scan. exact H. Qed.

Corollary token_list_contains_value_fuel (g : bytes -> nat) lines v :
  (forall s, (length s < g s)%nat) ->
  existsb (fun s => line_contains (g s) s v) lines = token_list_contains_value lines v.
Proof.
  intros Hg. unfold token_list_contains_value.
  induction lines as [|s r IH]; cbn [existsb]; [reflexivity|].
  rewrite IH, (line_contains_fuel s v (g s) (Hg s)). reflexivity.
Qed.

(* ---------- parseExtensions ---------- *)
Lemma starts_with_cons c s : starts_with c s = true -> exists r, s = c :: r.
Proof.
  destruct s as [|b r]; cbn [starts_with]; [discriminate|]. intros H. apply N.eqb_eq in H. subst b.
  exists r. reflexivity.
Qed.

(* the optional "= value" part of one parameter *)
Definition param_value (s:bytes) : bytes * bytes :=
  if starts_with 61 s
  then let '(v, s') := next_token_or_quoted (skip_space (tl s)) in (v, skip_space s')
  else ([], s).

Lemma param_value_len s : (length (snd (param_value s)) <= length s)%nat.
Proof.
  unfold param_value. destruct (starts_with 61 s) eqn:E; [|cbn [snd]; lia].
  destruct (starts_with_cons _ _ E) as (r & ->). cbn [tl].
  pose proof (next_token_or_quoted_len (skip_space r)) as [H _].
  destruct (next_token_or_quoted (skip_space r)) as [v s'] eqn:Ev. cbn [fst snd length] in *.
  pose proof (skip_space_len s'). pose proof (skip_space_len r). lia.
Qed.

Lemma ext_params_S f e s :
  ext_params (S f) e s =
  let s := skip_space s in
  if negb (starts_with 59 s) then Some (e, s) else
  let '(k, s) := next_token (skip_space (tl s)) in
  if is_nil k then None else
  let '(v, s) := param_value (skip_space s) in
  if negb (is_nil s) && negb (starts_with 44 s) && negb (starts_with 59 s) then None
  else ext_params f (e ++ [(k, v)]) s.
Proof. reflexivity. Qed.

(* each round of the parameter loop consumes at least the ';' *)
Lemma ext_params_round s k s1 v s2 :
  starts_with 59 (skip_space s) = true ->
  next_token (skip_space (tl (skip_space s))) = (k, s1) ->
  param_value (skip_space s1) = (v, s2) ->
  (length s2 < length s)%nat.
Proof.
  intros H59 Hk Hv. destruct (starts_with_cons _ _ H59) as (r & Er).
  pose proof (skip_space_len s) as L0. rewrite Er in *. cbn [tl length] in *.
  apply next_token_len in Hk. pose proof (skip_space_len r) as L1.
  pose proof (skip_space_len s1) as L2.
  pose proof (param_value_len (skip_space s1)) as L3. rewrite Hv in L3. cbn [snd] in L3. lia.
Qed.

Theorem ext_params_fuel_any : forall f1 f2 e s,
  (length s < f1)%nat -> (length s < f2)%nat -> ext_params f1 e s = ext_params f2 e s.
Proof.
  induction f1 as [|f1 IH]; intros f2 e s H1 H2; [lia|]. destruct f2 as [|f2]; [lia|].
  rewrite !ext_params_S. cbv zeta.
  destruct (negb (starts_with 59 (skip_space s))) eqn:E59; [reflexivity|].
  apply negb_false_iff in E59.
  destruct (next_token (skip_space (tl (skip_space s)))) as [k s1] eqn:Ek.
  destruct (is_nil k); [reflexivity|].
  destruct (param_value (skip_space s1)) as [v s2] eqn:Ev.
  destruct (negb (is_nil s2) && negb (starts_with 44 s2) && negb (starts_with 59 s2)); [reflexivity|].
  pose proof (ext_params_round s k s1 v s2 E59 Ek Ev).
  apply IH; lia.
Qed.

Theorem ext_params_fuel e s fuel :
  (length s < fuel)%nat -> ext_params fuel e s = ext_params (S (length s)) e s.
Proof. intros H. apply ext_params_fuel_any; lia. Qed.

(* what is left after the parameters is never longer than the input *)
Lemma ext_params_rest : forall f e s e' rest,
  ext_params f e s = Some (e', rest) -> (length rest <= length s)%nat.
Proof.
  induction f as [|f IH]; intros e s e' rest H; [discriminate H|].
  rewrite ext_params_S in H. cbv zeta in H.
  destruct (negb (starts_with 59 (skip_space s))) eqn:E59.
  { inversion H; subst. apply skip_space_len. }
  apply negb_false_iff in E59.
  destruct (next_token (skip_space (tl (skip_space s)))) as [k s1] eqn:Ek.
  destruct (is_nil k); [discriminate H|].
  destruct (param_value (skip_space s1)) as [v s2] eqn:Ev.
  destruct (negb (is_nil s2) && negb (starts_with 44 s2) && negb (starts_with 59 s2)); [discriminate H|].
  pose proof (ext_params_round s k s1 v s2 E59 Ek Ev). apply IH in H. lia.
Qed.

(* each round of the extension loop consumes at least the (non-empty) extension name *)
Theorem ext_line_fuel_any : forall f1 f2 s acc,
  (length s < f1)%nat -> (length s < f2)%nat -> ext_line f1 s acc = ext_line f2 s acc.
Proof.
  induction f1 as [|f1 IH]; intros f2 s acc H1 H2; [lia|]. destruct f2 as [|f2]; [lia|].
  cbn [ext_line].
  destruct (next_token (skip_space s)) as [t s1] eqn:Et.
  destruct (is_nil t) eqn:En; [reflexivity|].
  destruct (ext_params (S (length s1)) [([], t)] s1) as [[e s2]|] eqn:Ep; [|reflexivity].
  destruct (negb (is_nil s2) && negb (starts_with 44 s2)); [reflexivity|].
  destruct s2 as [|x r]; [reflexivity|].
  apply next_token_len in Et. pose proof (skip_space_len s). apply ext_params_rest in Ep.
  cbn [length] in Ep. apply IH; lia.
Qed.

Theorem ext_line_fuel s acc fuel :
  (length s < fuel)%nat -> ext_line fuel s acc = ext_line (S (length s)) s acc.
Proof. intros H. apply ext_line_fuel_any; lia. Qed.

Corollary parse_extensions_fuel (g : bytes -> nat) lines :
  (forall s, (length s < g s)%nat) ->
  fold_left (fun acc s => ext_line (g s) s acc) lines [] = parse_extensions lines.
Proof.
  intros Hg. unfold parse_extensions. generalize (@nil ext).
  induction lines as [|s r IH]; intros acc; cbn [fold_left]; [reflexivity|].
  rewrite (ext_line_fuel s acc (g s) (Hg s)). apply IH.
Qed.


(* ============================== part 6: hostile inputs, by computation ============================== *)
Module Examples.
(* --- header values --- *)
Definition semis : bytes := repeat 59 3000.                         (* 3000 semicolons *)
Fixpoint rep_app (n:nat) (x:bytes) : bytes := match n with O => [] | S k => x ++ rep_app k x end.
Definition many_params : bytes := 120 :: rep_app 1000 [59;112].      (* x;p;p;p;... 1000 parameters *)
Definition many_exts : bytes := 120 :: rep_app 1000 [44;120].        (* x,x,x,... 1001 extensions *)
Definition open_quote : bytes := [120;59;97;61;34;97;98;99;92].      (* x;a=DQUOTE abc BACKSLASH : unterminated quoted string, trailing backslash *)

Example semis_ext : parse_extensions [semis] = [].
Proof. vm_compute. reflexivity. Qed.
Example semis_tok : token_list_contains_value [semis] [120] = false.
Proof. vm_compute. reflexivity. Qed.
(* the fuel chosen by the model is not what stops these scans: ten times the fuel, same result *)
Example semis_ext_fuel : ext_line (10 * 3001)%nat semis [] = ext_line (S (length semis)) semis [].
Proof. vm_compute. reflexivity. Qed.
Example many_params_all : map (fun e => length e) (parse_extensions [many_params]) = [1001%nat].
Proof. vm_compute. reflexivity. Qed.
Example many_params_fuel :
  ext_line (10 * 3001)%nat many_params [] = ext_line (S (length many_params)) many_params [].
Proof. vm_compute. reflexivity. Qed.
Example many_exts_all : length (parse_extensions [many_exts]) = 1001%nat.
Proof. vm_compute. reflexivity. Qed.
Example many_exts_tok : token_list_contains_value [many_exts ++ [44;121]] [121] = true.
Proof. vm_compute. reflexivity. Qed.
Example open_quote_value : next_token_or_quoted [34;97;98;99;92] = ([], []).
Proof. vm_compute. reflexivity. Qed.
Example open_quote_ext : parse_extensions [open_quote] = [[([], [120]); ([97], [])]].
Proof. vm_compute. reflexivity. Qed.
Example open_quote_only : next_token_or_quoted [34] = ([], []).
Proof. vm_compute. reflexivity. Qed.

(* --- frame streams --- *)
(* 200 pseudo-random bytes (linear congruential generator) *)
Fixpoint lcg (n:nat) (x:N) : bytes :=
  match n with
  | O => []
  | S k => let x' := (x * 1103515245 + 12345) mod 2147483648 in (x' / 65536) mod 256 :: lcg k x'
  end.
Definition noise (seed:N) : bytes := lcg 200 seed.

Definition mkcfg (srv neg cust:bool) : rcfg :=
  {| server := srv; negotiated := neg; custom_handlers := cust; handler_fail := [1%nat]; caps := [] |}.
(* delivered in chunks of 7 bytes, then the transport reports EOF *)
Fixpoint chunk7 (fuel:nat) (l:bytes) : list bytes :=
  match fuel with O => [] | S k => match l with [] => [] | _ => firstn 7 l :: chunk7 k (skipn 7 l) end end.
Definition buf_of (l:bytes) (k:errk) : bufio :=
  mk_bufio 4096 [] {| chunks := chunk7 (length l) l; fault := k; glued := false |}.
Definition run (c:rcfg) (l:bytes) (k:errk) (ops:list rop) :=
  run_ops (fun _ => None) c (init_rst (buf_of l k)) ops.
Definition ten_msgs : list rop := repeat OReadMessage 10.

Definition oofs : list bool :=
  flat_map (fun seed =>
    flat_map (fun c => [outoffuel (snd (run c (noise seed) EEOF ten_msgs));
                        outoffuel (snd (run c (noise seed) ETimeout ten_msgs))])
      [mkcfg true false false; mkcfg false false false; mkcfg true true true; mkcfg false true true])
    [1; 2; 3; 42; 2024; 65535; 99991; 123456789].

Example noise_never_out_of_fuel : forallb negb oofs = true /\ length oofs = 64%nat.
Proof. vm_compute. split; reflexivity. Qed.

(* bytes that do form frames: noise with the first header forced to an unmasked binary frame
   of 126 + extended length, and 100 empty pings (2 bytes each: the tightest case for the fuel
   of NextReader's loop, which consumes exactly two bytes per iteration) *)
Definition pings : bytes := rep_app 100 [137; 0].
Example pings_consumed :
  let r := run (mkcfg false false false) pings EEOF [ONext] in
  fst r = [RNext 0 (Some unexpected_eof)] /\ outoffuel (snd r) = false /\
  length (wlog (snd r)) = 100%nat /\ pending (br (snd r)) = [].
Proof. vm_compute. repeat split; reflexivity. Qed.

Definition framed : bytes := [130; 126; 0; 190] ++ lcg 196 7.
Example framed_message_then_noise :
  let r := run (mkcfg false false false) framed EEOF ten_msgs in
  outoffuel (snd r) = false /\ length (fst r) = 10%nat /\
  match fst r with RMsg 2 d None :: RMsg _ [] (Some RProto) :: _ => length d = 190%nat | _ => False end.
Proof. vm_compute. repeat split; reflexivity. Qed.

(* the documented panic, and only there: 1000 NextReader calls on a dead connection *)
(* the same header announcing 250 bytes: the stream ends inside the frame *)
Definition framed_cut : bytes := [130; 126; 0; 250] ++ lcg 196 7.
Example framed_cut_message :
  let r := run (mkcfg false false false) framed_cut EEOF ten_msgs in
  outoffuel (snd r) = false /\ length (fst r) = 10%nat /\
  match fst r with RMsg 2 d (Some e) :: _ => length d = 196%nat /\ e = unexpected_eof | _ => False end.
Proof. vm_compute. repeat split; reflexivity. Qed.

Example panic_at_1000 :
  let r := run (mkcfg true false false) [] EEOF (repeat ONext 1005) in
  length (fst r) = 1000%nat /\ last (fst r) RUnit = RPanic /\
  existsb (fun x => match x with RPanic => true | _ => false end) (removelast (fst r)) = false /\
  outoffuel (snd r) = false.
Proof. vm_compute. repeat split; reflexivity. Qed.
End Examples.

(* ============================== assumptions ============================== *)
Print Assumptions frame_stream_total.
Print Assumptions frame_stream_never_out_of_fuel.
Print Assumptions run_ops_never_out_of_fuel.
Print Assumptions advance_after_skip_total.
Print Assumptions advance_frame_total.
Print Assumptions next_reader_total.
Print Assumptions reader_read_total.
Print Assumptions run_ops_total.
Print Assumptions next_reader_panic_documented.
Print Assumptions only_documented_panic.
Print Assumptions request_sizes_bounded_reexport.
Print Assumptions next_reader_request_sizes_bounded_reexport.
Print Assumptions reader_read_bounded.
Print Assumptions delivered_bounded_by_received.
Print Assumptions next_token_or_quoted_len.
Print Assumptions line_contains_fuel.
Print Assumptions token_list_contains_value_fuel.
Print Assumptions ext_params_fuel.
Print Assumptions ext_line_fuel.
Print Assumptions parse_extensions_fuel.
Print Assumptions Examples.noise_never_out_of_fuel.
Print Assumptions Examples.pings_consumed.
Print Assumptions Examples.panic_at_1000.
Print Assumptions Examples.semis_ext.
Print Assumptions Examples.open_quote_ext.
