(* Part 1 (Z): pure frame-list facts for streams that may carry permessage-deflate messages.
   [frame_accZ] / [seq_okZ] are [ReaderP1.frame_acc] / [seq_ok] with the "compression
   negotiated" flag of Spec.Conformance.violates left as a parameter instead of being fixed to
   [false].  For [ng = false] they coincide with the old definitions.  Everything that follows
   mirrors ReaderP1.v; the only new information is the RSV1 flag of the first frame of a
   message, which is what Spec.Frame.events_of records as [compressed]. *)
Require Import WS.Base.Bytes WS.Spec.Frame WS.Spec.Conformance WS.Proofs.FrameP WS.Proofs.ReaderP1.
Ltac Zify.zify_post_hook ::= Z.div_mod_to_equations.

Definition frame_accZ (srv ng open:bool) (f:frame) : bool :=
  negb (violates srv ng open f) && negb (opcode f =? 8).

Fixpoint seq_okZ (srv ng open:bool) (fs:list frame) : bool :=
  match fs with
  | [] => negb open
  | f :: r => frame_accZ srv ng open f && seq_okZ srv ng (next_open open f) r
  end.

(* ---------- relation with the uncompressed definitions ---------- *)
Lemma frame_accZ_false srv open f : frame_accZ srv false open f = frame_acc srv open f.
Proof. reflexivity. Qed.

Lemma seq_okZ_false srv : forall fs open, seq_okZ srv false open fs = seq_ok srv open fs.
Proof. induction fs as [|f r IH]; intros open; [reflexivity|]. cbn [seq_okZ seq_ok]. rewrite IH. reflexivity. Qed.

Lemma frame_accZ_facts srv ng open f : frame_accZ srv ng open f = true ->
  (rsv f = 0 \/ (ng = true /\ rsv f = 4)) /\ is_some (mkey f) = srv /\
  ( ((opcode f = 9 \/ opcode f = 10) /\ fin f = true /\ plen f <= 125)
   \/ ((opcode f = 1 \/ opcode f = 2) /\ open = false)
   \/ (opcode f = 0 /\ open = true)).
Proof.
  unfold frame_accZ, violates, violates_hdr, is_control, is_data_op, is_some.
  intros H.
  destruct (mkey f), srv, open, (fin f), ng; cbn [xorb negb andb orb] in H;
  repeat split; try reflexivity; try lia.
Qed.

Lemma frame_accZ_intro srv ng open f :
  (rsv f = 0 \/ (ng = true /\ rsv f = 4)) -> is_some (mkey f) = srv ->
  ( ((opcode f = 9 \/ opcode f = 10) /\ fin f = true /\ plen f <= 125)
   \/ ((opcode f = 1 \/ opcode f = 2) /\ open = false)
   \/ (opcode f = 0 /\ open = true)) ->
  frame_accZ srv ng open f = true.
Proof.
  unfold frame_accZ, violates, violates_hdr, is_control, is_data_op, is_some.
  intros Hr Hm Hc.
  assert (Hr' : ((rsv f =? 0) || ng && (rsv f =? 4)) = true).
  { destruct Hr as [Hr|[Hn Hr]]; rewrite Hr; [reflexivity|]. rewrite Hn. reflexivity. }
  rewrite Hr'. clear Hr Hr'.
  destruct (mkey f), srv, open, (fin f); try discriminate Hm; cbn [xorb negb andb orb];
    destruct Hc as [(Ho & Hf & Hl)|[(Ho & Hop)|(Ho & Hop)]];
    try discriminate Hf; try discriminate Hop; lia.
Qed.

(* a frame acceptable without compression is acceptable with it ... *)
Lemma frame_acc_accZ srv ng open f : frame_acc srv open f = true -> frame_accZ srv ng open f = true.
Proof.
  intros H. destruct (frame_acc_facts _ _ _ H) as (Hr & Hm & Hc).
  apply frame_accZ_intro; auto.
Qed.

(* ... and conversely when RSV1 is not set *)
Lemma frame_accZ_rsv0 srv ng open f : frame_accZ srv ng open f = true -> rsv f = 0 ->
  frame_acc srv open f = true.
Proof.
  intros H Hr. destruct (frame_accZ_facts _ _ _ _ H) as (_ & Hm & Hc).
  apply frame_acc_intro; auto.
Qed.

Lemma seq_ok_okZ srv ng : forall fs open, seq_ok srv open fs = true -> seq_okZ srv ng open fs = true.
Proof.
  induction fs as [|f r IH]; intros open H; [exact H|].
  cbn [seq_ok seq_okZ] in *. apply andb_true_iff in H. destruct H as [H1 H2].
  rewrite (frame_acc_accZ srv ng open f H1), (IH _ H2). reflexivity.
Qed.

Lemma acc_casesZ srv ng open f : frame_accZ srv ng open f = true ->
  (is_control (opcode f) = true /\ (opcode f = 9 \/ opcode f = 10) /\ fin f = true /\ plen f <= 125)
  \/ (is_control (opcode f) = false /\
      (((opcode f = 1 \/ opcode f = 2) /\ open = false) \/ (opcode f = 0 /\ open = true))).
Proof.
  intros H. destruct (frame_accZ_facts _ _ _ _ H) as (_ & _ & [(Ho & Hf & Hl)|[(Ho & Hop)|(Ho & Hop)]]).
  - left. unfold is_control. repeat split; try assumption. lia.
  - right. unfold is_control. split; [lia|]. left. auto.
  - right. unfold is_control. split; [lia|]. right. auto.
Qed.

(* the RSV1 flag that [events_of] records for a message equals the flag the reader computes *)
Lemma accZ_rsv4 srv ng open f : frame_accZ srv ng open f = true -> ((rsv f =? 4) && ng) = (rsv f =? 4).
Proof.
  intros H. destruct (frame_accZ_facts _ _ _ _ H) as ([Hr|[Hn Hr]] & _); rewrite Hr; [reflexivity|].
  rewrite Hn. reflexivity.
Qed.

(* ---------- what one ReadMessage consumes ---------- *)
Lemma cont_msg_specZ srv ng : forall r ty cc d0 d p a,
  seq_okZ srv ng true r = true -> cont_msg r = (d, p, a) ->
  all_ctl r = false /\ trailer r = trailer a /\ pings_of (body r) = p ++ pings_of (body a) /\
  data_msgs (fst (events_from (Some (ty, cc, d0)) r)) = (ty, cc, d0 ++ d) :: msgs a /\
  seq_okZ srv ng false a = true /\ exists pre, r = pre ++ a.
Proof.
  induction r as [|f r IH]; intros ty cc d0 d p a Hs Hc; [cbn in Hs; discriminate Hs|].
  cbn [seq_okZ] in Hs. apply andb_true_iff in Hs. destruct Hs as [Hacc Hs].
  destruct (acc_casesZ _ _ _ _ Hacc) as [(Hctl & _)|(Hctl & [(_ & Hx)|(Hop & _)])]; [| discriminate Hx |].
  - (* control frame *)
    cbn [cont_msg] in Hc. rewrite Hctl in Hc.
    destruct (cont_msg r) as [[d1 p1] a1] eqn:Ec. inversion Hc; subst d1 p a1. clear Hc.
    unfold next_open in Hs. rewrite Hctl in Hs.
    destruct (IH ty cc d0 d p1 a Hs eq_refl) as (H1 & H2 & H3 & H4 & H5 & (pre & H6)).
    assert (Hall : all_ctl (f :: r) = false) by (rewrite all_ctl_cons, H1; apply andb_false_r).
    split; [exact Hall|].
    cbn [trailer body]. rewrite Hall.
    split; [exact H2|].
    split.
    { unfold pings_of in *. cbn [flat_map]. rewrite H3, app_assoc. reflexivity. }
    split.
    { rewrite events_from_ctl by exact Hctl. cbn [fst]. rewrite data_msgs_ctl. exact H4. }
    split; [exact H5|]. exists (f :: pre). rewrite H6. reflexivity.
  - (* continuation frame *)
    assert (Hall : all_ctl (f :: r) = false) by (rewrite all_ctl_cons, Hctl; reflexivity).
    cbn [cont_msg] in Hc. rewrite Hctl in Hc.
    unfold next_open in Hs. rewrite Hctl in Hs.
    destruct (fin f) eqn:Ef.
    + inversion Hc; subst d p a. clear Hc. cbn [negb] in Hs.
      split; [exact Hall|]. cbn [trailer body]. rewrite Hall.
      split; [reflexivity|].
      split. { unfold pings_of. cbn [flat_map app]. rewrite ping1_nonctl by exact Hctl. reflexivity. }
      split.
      { rewrite events_from_final by assumption. cbn [fst acc_step emsg_of].
        rewrite data_msgs_msg. reflexivity. }
      split; [exact Hs|]. exists [f]. reflexivity.
    + destruct (cont_msg r) as [[d1 p1] a1] eqn:Ec. inversion Hc; subst d p1 a1. clear Hc.
      cbn [negb] in Hs.
      destruct (IH ty cc (d0 ++ payload f) d1 p a Hs eq_refl) as (H1 & H2 & H3 & H4 & H5 & (pre & H6)).
      split; [exact Hall|]. cbn [trailer body]. rewrite Hall.
      split; [exact H2|].
      split. { unfold pings_of in *. cbn [flat_map]. rewrite ping1_nonctl by exact Hctl. exact H3. }
      split.
      { rewrite events_from_more by assumption. cbn [acc_step]. rewrite <- app_assoc in H4. exact H4. }
      split; [exact H5|]. exists (f :: pre). rewrite H6. reflexivity.
Qed.

Lemma find_data_noneZ srv ng : forall fs, seq_okZ srv ng false fs = true -> find_data fs = None ->
  all_ctl fs = true.
Proof.
  induction fs as [|f r IH]; intros Hs Hf; [reflexivity|].
  cbn [seq_okZ] in Hs. apply andb_true_iff in Hs. destruct Hs as [Hacc Hs].
  cbn [find_data] in Hf. destruct (is_control (opcode f)) eqn:Hctl; [|discriminate Hf].
  unfold next_open in Hs. rewrite Hctl in Hs.
  destruct (find_data r) as [[[p d] a]|] eqn:Er; [discriminate Hf|].
  rewrite all_ctl_cons, Hctl. apply IH; [exact Hs|reflexivity].
Qed.

(* the first message, now with its RSV1 flag *)
Definition first_msgZ (fs:list frame) : option (N * bool * bytes * list bytes * list frame) :=
  match find_data fs with
  | None => None
  | Some (p, f, r) =>
    let '(more, p2, a) := msg_tail (fin f) r in
    Some (opcode f, rsv f =? 4, payload f ++ more, p ++ p2, a)
  end.

Lemma first_msgZ_first_msg fs ty cz d p a :
  first_msgZ fs = Some (ty, cz, d, p, a) -> first_msg fs = Some (ty, d, p, a).
Proof.
  unfold first_msgZ, first_msg. destruct (find_data fs) as [[[p1 f] r]|]; [|discriminate].
  destruct (msg_tail (fin f) r) as [[more p2] a2]. intros H. inversion H. reflexivity.
Qed.

Lemma first_msg_noneZ srv ng fs : seq_okZ srv ng false fs = true -> first_msgZ fs = None ->
  all_ctl fs = true /\ msgs fs = [].
Proof.
  intros Hs Hf. unfold first_msgZ in Hf.
  destruct (find_data fs) as [[[p d] r]|] eqn:Efd.
  - destruct (msg_tail (fin d) r) as [[more p2] a]. discriminate Hf.
  - pose proof (find_data_noneZ srv ng fs Hs Efd) as H. split; [exact H|apply events_from_all_ctl; exact H].
Qed.

Lemma find_data_specZ srv ng : forall fs p f r,
  seq_okZ srv ng false fs = true -> find_data fs = Some (p, f, r) ->
  exists cs, fs = cs ++ f :: r /\ all_ctl cs = true /\ pings_of cs = p /\
    is_control (opcode f) = false /\ (opcode f = 1 \/ opcode f = 2) /\
    frame_accZ srv ng false f = true /\
    seq_okZ srv ng (negb (fin f)) r = true.
Proof.
  induction fs as [|g fs IH]; intros p f r Hs Hf; [discriminate Hf|].
  cbn [seq_okZ] in Hs. apply andb_true_iff in Hs. destruct Hs as [Hacc Hs].
  cbn [find_data] in Hf. unfold next_open in Hs.
  destruct (is_control (opcode g)) eqn:Hctl.
  - destruct (find_data fs) as [[[p1 d1] a1]|] eqn:Er; [|discriminate Hf].
    inversion Hf; subst p d1 a1. clear Hf.
    destruct (IH p1 f r Hs eq_refl) as (cs & H1 & H2 & H3 & H4 & H5 & H6 & H7).
    exists (g :: cs). rewrite H1. split; [reflexivity|].
    split; [rewrite all_ctl_cons, Hctl, H2; reflexivity|].
    split; [unfold pings_of in *; cbn [flat_map]; rewrite H3; reflexivity|].
    auto.
  - inversion Hf; subst p g fs. clear Hf.
    exists []. split; [reflexivity|]. split; [reflexivity|]. split; [reflexivity|].
    split; [exact Hctl|].
    destruct (acc_casesZ _ _ _ _ Hacc) as [(Hc & _)|(_ & [(Ho & _)|(_ & Hx)])];
      [congruence| |discriminate Hx].
    split; [exact Ho|]. split; [exact Hacc|exact Hs].
Qed.

Lemma data_msgs_ctl_evs_app l ev : all_ctl l = true -> data_msgs (ctl_evs l ++ ev) = data_msgs ev.
Proof. intros _. rewrite data_msgs_app, data_msgs_ctl_evs. reflexivity. Qed.

Lemma first_msg_someZ srv ng fs ty cz d p a :
  seq_okZ srv ng false fs = true -> first_msgZ fs = Some (ty, cz, d, p, a) ->
  trailer fs = trailer a /\ pings_of (body fs) = p ++ pings_of (body a) /\
  msgs fs = (ty, cz, d) :: msgs a /\ seq_okZ srv ng false a = true /\
  exists pre, fs = pre ++ a /\ pre <> [].
Proof.
  intros Hs Hf. unfold first_msgZ in Hf.
  destruct (find_data fs) as [[[p1 f] r]|] eqn:Efd; [|discriminate Hf].
  destruct (find_data_specZ srv ng fs p1 f r Hs Efd) as (cs & Hfs & Hcs & Hp & Hctl & Hop & _ & Hsr).
  assert (Hall : all_ctl (f :: r) = false) by (rewrite all_ctl_cons, Hctl; reflexivity).
  unfold msg_tail in Hf. destruct (fin f) eqn:Ef.
  - inversion Hf; subst ty cz d p a. clear Hf. cbn [negb] in Hsr.
    rewrite Hfs.
    split; [rewrite trailer_ctl_app by assumption; cbn [trailer]; rewrite Hall; reflexivity|].
    split.
    { rewrite body_ctl_app by assumption. cbn [body]. rewrite Hall.
      rewrite pings_of_app, Hp, pings_of_cons.
      rewrite ping1_nonctl by exact Hctl. rewrite app_nil_r. reflexivity. }
    split.
    { unfold msgs, events_of. rewrite events_from_ctls by exact Hcs. cbn [fst].
      rewrite events_from_final by assumption. cbn [fst acc_step emsg_of].
      rewrite app_nil_r.
      rewrite data_msgs_ctl_evs_app by exact Hcs. rewrite data_msgs_msg. reflexivity. }
    split; [exact Hsr|]. exists (cs ++ [f]). rewrite <- app_assoc. split; [reflexivity|].
    intros Hx. apply app_eq_nil in Hx. destruct Hx as [_ Hx]. discriminate Hx.
  - destruct (cont_msg r) as [[more p2] a2] eqn:Ec. inversion Hf; subst ty cz d p a2. clear Hf.
    cbn [negb] in Hsr.
    destruct (cont_msg_specZ srv ng r (opcode f) (rsv f =? 4) (payload f) more p2 a Hsr Ec)
      as (H1 & H2 & H3 & H4 & H5 & (pre & H6)).
    rewrite Hfs.
    split; [rewrite trailer_ctl_app by assumption; cbn [trailer]; rewrite Hall; exact H2|].
    split.
    { rewrite body_ctl_app by assumption. cbn [body]. rewrite Hall.
      rewrite pings_of_app, Hp, pings_of_cons.
      rewrite ping1_nonctl by exact Hctl. cbn [app].
      rewrite H3, app_assoc. reflexivity. }
    split.
    { unfold msgs, events_of. rewrite events_from_ctls by exact Hcs. cbn [fst].
      rewrite events_from_more by assumption. cbn [acc_step].
      rewrite data_msgs_ctl_evs_app by exact Hcs. exact H4. }
    split; [exact H5|]. exists (cs ++ f :: pre). rewrite H6, <- app_assoc. split; [reflexivity|].
    intros Hx. apply app_eq_nil in Hx. destruct Hx as [_ Hx]. discriminate Hx.
Qed.

(* ---------- body / trailer of a Z-conformant stream ---------- *)
Lemma seq_okZ_all_ctl srv ng o cs : all_ctl cs = true -> seq_okZ srv ng o cs = true -> o = false.
Proof.
  revert o. induction cs as [|c cs IH]; intros o Hc Hs.
  - cbn [seq_okZ] in Hs. destruct o; [discriminate Hs|reflexivity].
  - rewrite all_ctl_cons in Hc. apply andb_true_iff in Hc. destruct Hc as [Hc1 Hc2].
    cbn [seq_okZ] in Hs. apply andb_true_iff in Hs. destruct Hs as [_ Hs].
    unfold next_open in Hs. rewrite Hc1 in Hs. apply IH; assumption.
Qed.

Lemma seq_okZ_app_ctl srv ng : forall a o cs, all_ctl cs = true ->
  seq_okZ srv ng o (a ++ cs) = true -> seq_okZ srv ng o a = true.
Proof.
  induction a as [|f a IH]; intros o cs Hc Hs.
  - cbn [app] in Hs. rewrite (seq_okZ_all_ctl srv ng o cs Hc Hs). reflexivity.
  - cbn [app seq_okZ] in *. apply andb_true_iff in Hs. destruct Hs as [Hacc Hs].
    rewrite Hacc. cbn [andb]. apply (IH _ cs); assumption.
Qed.

Lemma seq_okZ_body srv ng fs : seq_okZ srv ng false fs = true -> seq_okZ srv ng false (body fs) = true.
Proof.
  intros H. apply (seq_okZ_app_ctl srv ng (body fs) false (trailer fs)); [apply trailer_all_ctl|].
  rewrite body_trailer. exact H.
Qed.

Lemma seq_okZ_app_tail srv ng : forall a o b,
  seq_okZ srv ng o (a ++ b) = true -> seq_okZ srv ng o a = true -> seq_okZ srv ng false b = true.
Proof.
  induction a as [|f a IH]; intros o b Hab Ha.
  - cbn [seq_okZ] in Ha. destruct o; [discriminate Ha|exact Hab].
  - cbn [app seq_okZ] in *. apply andb_true_iff in Hab. apply andb_true_iff in Ha.
    destruct Hab as [_ Hab]. destruct Ha as [_ Ha]. exact (IH _ _ Hab Ha).
Qed.

Lemma seq_okZ_trailer srv ng fs : seq_okZ srv ng false fs = true -> seq_okZ srv ng false (trailer fs) = true.
Proof.
  intros H. apply (seq_okZ_app_tail srv ng (body fs) false (trailer fs)).
  - rewrite body_trailer. exact H.
  - apply seq_okZ_body. exact H.
Qed.

(* every message of a stream acceptable WITHOUT compression is flagged uncompressed *)
Lemma msgs_uncompressed srv : forall n fs, (length fs <= n)%nat -> seq_ok srv false fs = true ->
  Forall (fun m => snd (fst m) = false) (msgs fs).
Proof.
  induction n as [|n IH]; intros fs Hn Hs.
  - destruct fs; [|cbn [length] in Hn; lia]. constructor.
  - destruct (first_msg fs) as [[[[ty d] p] a]|] eqn:Efm.
    + destruct (first_msg_some srv fs ty d p a Hs Efm) as (_ & _ & Hms & Hsa & (pre & Hfs & Hpre)).
      rewrite Hms. constructor; [reflexivity|]. apply IH; [|exact Hsa].
      pose proof (suffix_shorter pre a Hpre) as Hl. rewrite <- Hfs in Hl. lia.
    + destruct (first_msg_none srv fs Hs Efm) as (_ & Hms). rewrite Hms. constructor.
Qed.

Print Assumptions frame_accZ_facts.
Print Assumptions frame_accZ_intro.
Print Assumptions seq_okZ_false.
Print Assumptions cont_msg_specZ.
Print Assumptions first_msg_someZ.
Print Assumptions first_msg_noneZ.
Print Assumptions msgs_uncompressed.
