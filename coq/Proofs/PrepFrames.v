(* Spec-side facts about the frame sequence of ONE message: non-final frames (the first with the
   message opcode, the others continuations) followed by one final frame. *)
Require Import WS.Base.Bytes WS.gen.Consts WS.Spec.Frame WS.Proofs.FrameP WS.Model.Writer.
Require Import WS.Proofs.WWBase WS.Proofs.WWInv.
Ltac Zify.zify_post_hook ::= Z.div_mod_to_equations.

Definition kc := (option bytes * bytes)%type.

(* open (non-final) frames: type [t] / rsv [r] on the first, continuations after it *)
Fixpoint ofr (t r:N) (l:list kc) : list frame :=
  match l with
  | [] => []
  | x :: rest => mkf false t r (fst x) (snd x) :: ofr 0 0 rest
  end.
Definition after (t:N) (l:list kc) : N := match l with [] => t | _ => 0 end.

(* the whole message *)
Definition msgfs (t r:N) (l:list kc) (k:option bytes) (c:bytes) : list frame :=
  ofr t r l ++ [mkf true (after t l) (after r l) k c].

Lemma ofr_cons t r x l : ofr t r (x :: l) = mkf false t r (fst x) (snd x) :: ofr 0 0 l.
Proof. reflexivity. Qed.

Lemma msgfs_cons t r x l k c :
  msgfs t r (x :: l) k c = mkf false t r (fst x) (snd x) :: msgfs 0 0 l k c.
Proof. unfold msgfs. cbn [ofr List.app after]. destruct l; reflexivity. Qed.

(* ---- events ---- *)
Lemma events_cont l : forall ty cmp d k c,
  events_from (Some (ty, cmp, d)) (msgfs 0 0 l k c) = ([EMsg ty cmp (d ++ concat (map snd l) ++ c)], None).
Proof.
  induction l as [|x l IH]; intros ty cmp d k c.
  - unfold msgfs. cbn [ofr List.app after map concat].
    rewrite events_from_final by reflexivity. reflexivity.
  - rewrite msgfs_cons. rewrite events_from_more by reflexivity.
    cbn [acc_step mkf payload]. rewrite IH. cbn [map concat]. rewrite <- !app_assoc. reflexivity.
Qed.

Lemma events_msgfs t r l k c : is_control t = false ->
  events_of (msgfs t r l k c) = [EMsg t (r =? 4) (concat (map snd l) ++ c)].
Proof.
  intros Ht. unfold events_of. destruct l as [|x l].
  - unfold msgfs. cbn [ofr List.app after map concat].
    rewrite events_from_final by (cbn [mkf opcode fin]; auto). reflexivity.
  - rewrite msgfs_cons. rewrite events_from_more by (cbn [mkf opcode fin]; auto).
    cbn [acc_step mkf payload opcode rsv]. rewrite events_cont. cbn [map concat fst]. rewrite <- app_assoc. reflexivity.
Qed.

Lemma events_ctl t k c : is_control t = true -> events_of (msgfs t 0 [] k c) = [ECtl t c].
Proof.
  intros Ht. unfold events_of, msgfs. cbn [ofr List.app after].
  rewrite events_from_ctl by exact Ht. reflexivity.
Qed.

(* ---- well-formedness ---- *)
Definition kc_ok (client:bool) (x:option bytes) : Prop :=
  if client then exists key, x = Some key /\ len4 key else x = None.

Lemma kc_ok_key client x : kc_ok client x -> key_ok x.
Proof. unfold kc_ok, key_ok. destruct client; [intros (key & -> & H); exact H|intros ->; exact I]. Qed.

Lemma kc_ok_masked client x : kc_ok client x ->
  (if client then match x with Some _ => true | None => false end
   else match x with Some _ => false | None => true end) = true.
Proof. unfold kc_ok. destruct client; [intros (key & -> & _)|intros ->]; reflexivity. Qed.

Lemma wf_cont client ng l k c :
  Forall (fun x : kc => kc_ok client (fst x) /\ blen (snd x) < 2^63) l -> kc_ok client k -> blen c < 2^63 ->
  Forall wf_frame (msgfs 0 0 l k c) /\
  wf_wire_from client ng true (tag (msgfs 0 0 l k c)) = true /\
  open_after true (tag (msgfs 0 0 l k c)) = false.
Proof.
  intros HL HK HC. induction HL as [|x l [Hx1 Hx2] HL IH].
  - unfold msgfs. cbn [ofr List.app after tag map wf_wire_from open_after].
    split; [constructor; [apply wf_mkf; [lia|lia|exact HC|apply (kc_ok_key _ _ HK)]|constructor]|].
    unfold frame_ok, next_open. cbn [mkf opcode fin rsv mkey payload is_control is_data_op plen].
    rewrite (kc_ok_masked _ _ HK). split; reflexivity.
  - rewrite msgfs_cons. destruct IH as (I1 & I2 & I3).
    cbn [tag map wf_wire_from open_after]. fold (tag (msgfs 0 0 l k c)).
    split; [constructor; [apply wf_mkf; [lia|lia|exact Hx2|apply (kc_ok_key _ _ Hx1)]|exact I1]|].
    unfold frame_ok at 1. unfold next_open at 1 2.
    cbn [mkf opcode fin rsv mkey payload is_control is_data_op plen].
    rewrite (kc_ok_masked _ _ Hx1).
    change (8 <=? 0) with false. cbv iota. cbn [negb andb N.eqb orb].
    split; [exact I2|exact I3].
Qed.

Definition ty_ok (t:N) : Prop := t = 1 \/ t = 2.

Lemma wf_msgfs client ng t r l k c : ty_ok t -> (r = 0 \/ (ng = true /\ r = 4)) ->
  Forall (fun x : kc => kc_ok client (fst x) /\ blen (snd x) < 2^63) l -> kc_ok client k -> blen c < 2^63 ->
  Forall wf_frame (msgfs t r l k c) /\
  wf_wire client ng (tag (msgfs t r l k c)) = true /\
  open_after false (tag (msgfs t r l k c)) = false.
Proof.
  intros Ht Hr HL HK HC.
  assert (Hr8 : r < 8) by (destruct Hr as [->|[_ ->]]; lia).
  assert (Ht16 : t < 16) by (destruct Ht as [->| ->]; lia).
  assert (Hrs : (r =? 0) || ng && (r =? 4) = true).
  { destruct Hr as [->|[-> ->]]; reflexivity. }
  assert (Hctl : is_control t = false) by (destruct Ht as [->| ->]; reflexivity).
  assert (Hdat : is_data_op t = true) by (destruct Ht as [->| ->]; reflexivity).
  unfold wf_wire. destruct l as [|x l].
  - unfold msgfs. cbn [ofr List.app after tag map wf_wire_from open_after].
    split; [constructor; [apply wf_mkf; [lia|lia|exact HC|apply (kc_ok_key _ _ HK)]|constructor]|].
    unfold frame_ok, next_open. cbn [mkf opcode fin rsv mkey payload plen].
    rewrite (kc_ok_masked _ _ HK), Hctl, Hdat, Hrs. split; reflexivity.
  - inversion HL as [|x' l' [Hx1 Hx2] HL']; subst.
    rewrite msgfs_cons. destruct (wf_cont client ng l k c HL' HK HC) as (I1 & I2 & I3).
    cbn [tag map wf_wire_from open_after]. fold (tag (msgfs 0 0 l k c)).
    split; [constructor; [apply wf_mkf; [lia|lia|exact Hx2|apply (kc_ok_key _ _ Hx1)]|exact I1]|].
    unfold frame_ok at 1. unfold next_open at 1 2.
    cbn [mkf opcode fin rsv mkey payload plen].
    rewrite (kc_ok_masked _ _ Hx1), Hctl, Hdat, Hrs. cbn [negb andb].
    split; [exact I2|exact I3].
Qed.

Definition ctl_ok (t:N) : Prop := t = 8 \/ t = 9 \/ t = 10.

Lemma wf_ctl client ng t k c : ctl_ok t -> kc_ok client k -> blen c <= 125 ->
  Forall wf_frame (msgfs t 0 [] k c) /\
  wf_wire client ng (tag (msgfs t 0 [] k c)) = true /\
  open_after false (tag (msgfs t 0 [] k c)) = false.
Proof.
  intros Ht HK HC. unfold wf_wire, msgfs. cbn [ofr List.app after tag map wf_wire_from open_after].
  split; [constructor; [apply wf_mkf; [lia|destruct Ht as [->|[->| ->]]; lia|lia|apply (kc_ok_key _ _ HK)]|constructor]|].
  unfold frame_ok, next_open, plen. cbn [mkf opcode fin rsv mkey payload].
  rewrite (kc_ok_masked _ _ HK).
  replace (blen c <=? 125) with true by lia.
  destruct Ht as [->|[->| ->]]; split; reflexivity.
Qed.

Lemma chunk_le (l:list kc) : Forall (fun x : kc => blen (snd x) <= blen (concat (map snd l))) l.
Proof.
  induction l as [|x l IH]; [constructor|]. cbn [map concat]. constructor.
  - rewrite blen_app. lia.
  - eapply Forall_impl; [|exact IH]. cbv beta. intros a H. rewrite blen_app. lia.
Qed.

