(* Non-vacuity and sanity checks by computation for ReaderFlateP.v: a concrete conformant stream
   for a server that negotiated permessage-deflate -- a compressed text message ("Hello", stored
   block) fragmented in three frames (the middle one empty) with a ping, an empty pong and a
   ping carrying RSV1 interleaved; an uncompressed binary message with a 16-bit length; a
   compressed message whose payload is NOT a deflate stream; a last compressed message; a
   trailing ping -- cut into awkward chunks with a glued non-EOF fault, read with the minimal
   125-byte buffer.  The model's run (with the Spec inflate) agrees with what the theorems
   predict; in particular the flate error of the third message does not stop the reader. *)
Require Import WS.Base.Bytes WS.gen.Consts WS.Spec.Frame WS.Spec.Conformance WS.Model.Bufio
  WS.Model.Reader WS.Proofs.BufioP WS.Proofs.FrameP.
Require Import WS.Proofs.ReaderP1 WS.Proofs.ReaderP2 WS.Proofs.ReaderP3 WS.Proofs.ReaderP.
Require Import WS.Proofs.ReaderZ1 WS.Proofs.ReaderZ2 WS.Proofs.ReaderZ3 WS.Proofs.ReaderFlateP.
Require WS.Spec.Inflate WS.Proofs.InflateP.

Definition k1 := [1;2;3;4]. Definition k2 := [9;8;7;6].
Definition hello : bytes := [72;101;108;108;111].
Definition zhello : bytes := Inflate.trunc4 (Inflate.deflate0 hello).
Definition zbye : bytes := Inflate.trunc4 (Inflate.deflate0 [98;121;101]).

Definition sampleZ_fs : list frame :=
 [ mkf true 9 0 (Some k1) [104;105];
   mkf false 1 4 (Some k2) (firstn 4 zhello);          (* RSV1: compressed text message *)
   mkf true 10 0 (Some k1) [];
   mkf false 0 0 (Some k1) [];
   mkf true 9 4 (Some k2) [1;2;3];                     (* RSV1 on a control frame: tolerated *)
   mkf true 0 0 (Some k2) (skipn 4 zhello);
   mkf true 2 0 (Some k1) (repeat 7 200);              (* uncompressed, 16-bit length *)
   mkf true 2 4 (Some k2) [7;7;7];                     (* compressed flag, garbage payload *)
   mkf true 1 4 (Some k1) zbye;
   mkf true 9 0 (Some k1) [5] ].
Definition sampleZ_cfg : rcfg :=
  {| server := true; negotiated := true; custom_handlers := false; handler_fail := []; caps := [3;7] |}.

Example sampleZ_conformant : conformant_framesZ sampleZ_cfg sampleZ_fs.
Proof.
  split; [|split].
  - repeat (apply Forall_cons; [vm_compute; repeat split; reflexivity|]). apply Forall_nil.
  - vm_compute. reflexivity.
  - vm_compute. reflexivity.
Qed.

(* the same frames are NOT acceptable to a reader that did not negotiate compression *)
Example sampleZ_not_conformant_without_negotiation :
  seq_okZ true false false sampleZ_fs = false.
Proof. vm_compute. reflexivity. Qed.

Definition streamZ := encode_frames sampleZ_fs.
Definition sampleZ_b : bufio :=
  mk_bufio 125 [] {| chunks := [firstn 5 streamZ; firstn 30 (skipn 5 streamZ); skipn 35 streamZ];
                     fault := EOther; glued := true |}.

Example sampleZ_msgs :
  data_msgs (events_of sampleZ_fs) =
  [(1, true, zhello); (2, false, repeat 7 200); (2, true, [7;7;7]); (1, true, zbye)].
Proof. vm_compute. reflexivity. Qed.

Example sampleZ_run :
  let r := run_ops Inflate.inflate sampleZ_cfg (init_rst sampleZ_b) (repeat OReadMessage 4) in
  fst r = map (out_ofZ Inflate.inflate) (data_msgs (events_of sampleZ_fs)) /\
  fst r = [RMsg 1 hello None; RMsg 2 (repeat 7 200) None; RMsg 2 [] (Some RFlate);
           RMsg 1 [98;121;101] None] /\
  wlog (snd r) = map WPong (pings_of (body sampleZ_fs)) /\
  pending (br (snd r)) = encode_frames (trailer sampleZ_fs) /\
  rerror (snd r) = None /\ outoffuel (snd r) = false /\
  pings_of (body sampleZ_fs) = [[104;105]; [1;2;3]] /\ length (trailer sampleZ_fs) = 1%nat.
Proof. vm_compute. repeat split; reflexivity. Qed.

(* one more call: the trailing ping is answered and the end of the stream is reported *)
Example sampleZ_then_end :
  let r := run_ops Inflate.inflate sampleZ_cfg (init_rst sampleZ_b) (repeat OReadMessage 5) in
  nth 4 (fst r) RUnit = RMsg 0 [] (Some ROther) /\
  wlog (snd r) = map WPong (pings_of sampleZ_fs).
Proof. vm_compute. split; reflexivity. Qed.

(* the general theorem instantiated on the sample (no computation of the run) *)
Example sampleZ_by_theorem :
  exists s',
    run_ops Inflate.inflate sampleZ_cfg (init_rst sampleZ_b) (repeat OReadMessage 4)
    = (map (out_ofZ Inflate.inflate) (data_msgs (events_of sampleZ_fs)), s') /\
    wlog s' = map WPong (pings_of (body sampleZ_fs)).
Proof.
  destruct (read_messages_generalZ Inflate.inflate sampleZ_cfg sampleZ_b sampleZ_fs [])
    as (s' & Hrun & _ & _ & _ & _ & Hwl & _).
  - reflexivity.
  - apply binv_mk; [unfold Nat.lt; repeat constructor|cbn [length]; apply Nat.le_0_l|].
    unfold wf_script. cbn [chunks]. repeat (apply Forall_cons; [vm_compute; discriminate|]). apply Forall_nil.
  - change (bsize sampleZ_b) with 125%nat. apply le_n.
  - exact sampleZ_conformant.
  - vm_compute. reflexivity.
  - intros H. vm_compute in H. discriminate H.
  - exists s'. split; [exact Hrun|exact Hwl].
Qed.

(* the two extra hypotheses of read_messages_independentZ (w.r.t. read_messages_independent)
   are forced: a reader that did not negotiate compression refuses the very same bytes ... *)
Definition sampleZ_cfg_nonego : rcfg :=
  {| server := true; negotiated := false; custom_handlers := false; handler_fail := []; caps := [3;7] |}.
Example independence_needs_same_negotiated :
  fst (run_ops Inflate.inflate sampleZ_cfg_nonego (init_rst sampleZ_b) (repeat OReadMessage 4))
  <> fst (run_ops Inflate.inflate sampleZ_cfg (init_rst sampleZ_b) (repeat OReadMessage 4)) /\
  hd RUnit (fst (run_ops Inflate.inflate sampleZ_cfg_nonego (init_rst sampleZ_b) (repeat OReadMessage 4)))
  = RMsg 0 [] (Some RProto).
Proof. vm_compute. split; [discriminate|reflexivity]. Qed.

(* ... and the messages returned do depend on the inflate function *)
Example independence_needs_same_inflate :
  fst (run_ops (fun _ => None) sampleZ_cfg (init_rst sampleZ_b) (repeat OReadMessage 4))
  = [RMsg 1 [] (Some RFlate); RMsg 2 (repeat 7 200) None; RMsg 2 [] (Some RFlate);
     RMsg 1 [] (Some RFlate)] /\
  fst (run_ops (fun _ => None) sampleZ_cfg (init_rst sampleZ_b) (repeat OReadMessage 4))
  <> fst (run_ops Inflate.inflate sampleZ_cfg (init_rst sampleZ_b) (repeat OReadMessage 4)).
Proof. vm_compute. split; [reflexivity|discriminate]. Qed.

Print Assumptions sampleZ_conformant.
Print Assumptions independence_needs_same_negotiated.
Print Assumptions independence_needs_same_inflate.
Print Assumptions sampleZ_run.
Print Assumptions sampleZ_then_end.
