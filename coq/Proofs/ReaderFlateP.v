(* Correctness of the read path on conformant peer streams that may carry permessage-deflate
   (RSV1) messages, for a reader that negotiated compression or not (default handlers, no read
   limit): n ReadMessage calls return exactly the n data messages of the stream -- the payload
   itself for an uncompressed message, [inflate (payload ++ 00 00 ff ff 01 00 00 ff ff)] for a
   compressed one (or the flate error, after which reading simply goes on with the next
   message) -- answer every ping with a pong, never run out of fuel, and stop exactly after the
   last data frame.  Every theorem of ReaderP.v is the RSV = 0 instance of the theorem of the
   same name + "Z" here (see the "instances" section below).

   Definitions (ReaderZ1.v, ReaderZ3.v):
   - [frame_accZ srv ng open f] := negb (violates srv ng open f) && negb (opcode f =? 8)
       Spec.Conformance.violates with the negotiated flag [ng] left free.  NOTE: as
       Spec.Conformance.violates_hdr is written, with [ng = true] RSV1 is tolerated on EVERY
       frame (also continuation and control frames), exactly like conn.go's advanceFrame; only
       the RSV1 bit of the FIRST frame of a message decides whether the message is inflated
       (this is what Spec.Frame.events_of records, and what the model does).
   - [seq_okZ], [conformant_framesZ c fs] with [ng := negotiated c];
   - [out_ofZ inflate (ty, compressed, payload)]: the expected ReadMessage result.             *)
Require Import WS.Base.Bytes WS.gen.Consts WS.Spec.Frame WS.Spec.Conformance WS.Model.Bufio
  WS.Model.Reader WS.Proofs.BufioP WS.Proofs.FrameP.
From RecordUpdate Require Import RecordSet.
Import RecordSetNotations.
Require Import WS.Proofs.ReaderP1 WS.Proofs.ReaderP2 WS.Proofs.ReaderP3 WS.Proofs.ReaderP.
Require Import WS.Proofs.ReaderZ1 WS.Proofs.ReaderZ2 WS.Proofs.ReaderZ3.
Require WS.Spec.Inflate WS.Proofs.InflateP.
Ltac Zify.zify_post_hook ::= Z.div_mod_to_equations.

Definition conformant_framesZ (c:rcfg) (fs:list frame) : Prop :=
  Forall wf_frame fs /\ seq_okZ (server c) (negotiated c) false fs = true /\
  blen (encode_frames fs) < 2^63.

(* ---------- relation with the uncompressed notion ---------- *)
Lemma conformant_framesZ_false c fs : negotiated c = false ->
  (conformant_framesZ c fs <-> conformant_frames c fs).
Proof.
  intros Hn. unfold conformant_framesZ, conformant_frames. rewrite Hn, seq_okZ_false. tauto.
Qed.

Lemma conformant_frames_Z c fs : conformant_frames c fs -> conformant_framesZ c fs.
Proof.
  intros (H1 & H2 & H3). split; [exact H1|]. split; [apply seq_ok_okZ; exact H2|exact H3].
Qed.

Lemma out_ofZ_uncompressed inflate m : snd (fst m) = false -> out_ofZ inflate m = out_of m.
Proof. destruct m as [[ty cz] d]. cbn [fst snd]. intros ->. reflexivity. Qed.

Lemma map_out_ofZ_uncompressed inflate ms :
  Forall (fun m => snd (fst m) = false) ms -> map (out_ofZ inflate) ms = map out_of ms.
Proof.
  induction 1 as [|m ms Hm _ IH]; [reflexivity|]. cbn [map].
  rewrite IH, (out_ofZ_uncompressed inflate m Hm). reflexivity.
Qed.

Lemma conformant_frames_uncompressed c fs : conformant_frames c fs ->
  Forall (fun m => snd (fst m) = false) (data_msgs (events_of fs)).
Proof. intros (_ & H & _). exact (msgs_uncompressed (server c) (length fs) fs (le_n _) H). Qed.

Lemma conformantZ_suffix c pre a :
  conformant_framesZ c (pre ++ a) -> seq_okZ (server c) (negotiated c) false a = true ->
  conformant_framesZ c a.
Proof.
  intros (Hwf & _ & Hlen) Hs. split; [exact (Forall_app_r _ _ _ Hwf)|]. split; [exact Hs|].
  pose proof (encode_frames_suffix_blen pre a). lia.
Qed.

Lemma conformantZ_body c fs : conformant_framesZ c fs -> conformant_framesZ c (body fs).
Proof.
  intros (Hwf & Hs & Hlen). rewrite <- (body_trailer fs) in Hwf, Hlen.
  split; [apply Forall_app in Hwf; apply Hwf|]. split; [apply seq_okZ_body; exact Hs|].
  rewrite encode_frames_app, blen_app in Hlen. lia.
Qed.

Section Run.
Variables (inflate : bytes -> option bytes) (k:errk) (c:rcfg) (extra:bytes).
Hypothesis Hch : custom_handlers c = false.
Hypothesis Hx : extra <> [] \/ k = EEOF.

Lemma run_msgsZ : forall n fs, (length fs <= n)%nat -> forall s,
  rinv k s -> rem s = 0 -> rfin s = true ->
  pending (br s) = encode_frames fs ++ extra -> conformant_framesZ c fs ->
  exists s', run_ops inflate c s (repeat OReadMessage (length (msgs fs)))
             = (map (out_ofZ inflate) (msgs fs), s') /\
    rinv_end k s' /\ rem s' = 0 /\ rfin s' = true /\
    pending (br s') = encode_frames (trailer fs) ++ extra /\
    wlog s' = wlog s ++ map WPong (pings_of (body fs)).
Proof.
  induction n as [|n IH]; intros fs Hn s Hrinv Hrem Hfin Hp Hconf.
  - destruct fs; [|cbn [length] in Hn; lia].
    exists s. cbn. rewrite app_nil_r. split; [reflexivity|].
    split; [apply rinv_rinv_end; exact Hrinv|]. auto.
  - pose proof Hconf as (Hwf & Hseq & Hlen).
    destruct (first_msgZ fs) as [[[[[ty cz] d] p] a]|] eqn:Efm.
    + destruct (first_msg_someZ (server c) (negotiated c) fs ty cz d p a Hseq Efm)
        as (Htr & Hpg & Hms & Hseqa & (pre & Hfs & Hpre)).
      destruct (read_message_oneZ k c extra Hch Hx inflate fs s ty cz d p a Hrinv Hrem Hfin Hp Hwf Hseq Hlen Efm)
        as (s1 & Hrm & Hend1 & Hrem1 & Hfin1 & Hp1 & Hwl1).
      rewrite Hms. cbn [length repeat map run_ops]. unfold rstep. rewrite Hrm.
      assert (Hnp : forall (X:Type) (u v:X),
                 match out_ofZ inflate (ty, cz, d) with RPanic => u | _ => v end = v).
      { intros X u v. unfold out_ofZ. destruct cz; [destruct (inflate (d ++ ws_tail))|]; reflexivity. }
      cbv beta iota. rewrite Hnp.
      set (s2 := s1 <| opidx := S (opidx s1) |>).
      assert (Hconfa : conformant_framesZ c a)
        by (apply (conformantZ_suffix c pre); [rewrite <- Hfs; exact Hconf|exact Hseqa]).
      assert (Hla : (length a <= n)%nat).
      { pose proof (suffix_shorter pre a Hpre). rewrite <- Hfs in H. lia. }
      pose proof Hend1 as (E1 & E2 & E3 & [E4|(E4 & E5 & E6)] & E7 & E8 & E9 & E10).
      * (* no remembered error: go on with the next message *)
        assert (Hrinv2 : rinv k s2) by (unfold rinv; subst s2; rsimpl; auto 12).
        destruct (IH a Hla s2 Hrinv2 Hrem1 Hfin1 Hp1 Hconfa)
          as (s' & Hrun & Hend' & Hrem' & Hfin' & Hp' & Hwl').
        rewrite Hrun. exists s'. split; [reflexivity|].
        split; [exact Hend'|]. split; [exact Hrem'|]. split; [exact Hfin'|].
        split; [rewrite Htr; exact Hp'|].
        rewrite Hwl'. subst s2. rsimpl. rewrite Hwl1, Hpg, map_app, app_assoc. reflexivity.
      * (* the whole stream has been consumed, its last bytes came with EOF *)
        rewrite Hp1 in E5. apply app_eq_nil in E5. destruct E5 as [Ea Eextra].
        apply encode_frames_nil_inv in Ea. subst a.
        cbn [msgs events_of events_from fst data_msgs flat_map length repeat run_ops map].
        exists s2. split; [reflexivity|]. subst s2. rsimpl.
        split; [unfold rinv_end; rsimpl; rewrite Hp1; auto 12|].
        split; [exact Hrem1|]. split; [exact Hfin1|].
        split; [rewrite Htr; exact Hp1|].
        rewrite Hwl1, Hpg. cbn [body pings_of flat_map]. rewrite app_nil_r. reflexivity.
    + destruct (first_msg_noneZ (server c) (negotiated c) fs Hseq Efm) as (Hall & Hms).
      rewrite Hms. cbn [length repeat run_ops map].
      exists s. split; [reflexivity|]. split; [apply rinv_rinv_end; exact Hrinv|].
      rewrite (all_ctl_trailer fs Hall), (all_ctl_body fs Hall). cbn [pings_of flat_map map].
      rewrite app_nil_r. auto.
Qed.
End Run.

(* ------------------------------------------------------------------------------------------ *)
(* General theorem (same shape and same side condition as ReaderP.read_messages_general).      *)
(* ------------------------------------------------------------------------------------------ *)
Theorem read_messages_generalZ :
  forall inflate c b fs extra,
    custom_handlers c = false -> binv b -> (125 <= bsize b)%nat ->
    conformant_framesZ c fs -> pending b = encode_frames fs ++ extra ->
    (trailer fs = [] -> extra = [] -> fault (src b) = EEOF) ->
    let ms := data_msgs (events_of fs) in
    exists s',
      run_ops inflate c (init_rst b) (repeat OReadMessage (length ms))
        = (map (out_ofZ inflate) ms, s') /\
      outoffuel s' = false /\ closesent s' = false /\ rem s' = 0 /\ rfin s' = true /\
      wlog s' = map WPong (pings_of (body fs)) /\
      pending (br s') = encode_frames (trailer fs) ++ extra /\
      binv (br s') /\
      (rerror s' = None \/ (rerror s' = Some RIoEOF /\ trailer fs = [] /\ extra = [])).
Proof.
  intros inflate c b fs extra Hch Hinv Hbs Hconf Hp Hside ms.
  set (extra' := encode_frames (trailer fs) ++ extra).
  assert (Hx : extra' <> [] \/ fault (src b) = EEOF).
  { destruct (trailer fs) as [|t tr] eqn:Et.
    - destruct extra as [|x extra0] eqn:Ee; [right; apply Hside; reflexivity|].
      left. subst extra'. cbn [encode_frames flat_map app]. discriminate.
    - left. subst extra'. rewrite encode_frames_cons, encode_frame_decomp. cbn [app]. discriminate. }
  assert (Hp' : pending (br (init_rst b)) = encode_frames (body fs) ++ extra').
  { subst extra'. rewrite app_assoc, <- encode_frames_app, body_trailer. exact Hp. }
  destruct (run_msgsZ inflate (fault (src b)) c extra' Hch Hx (length (body fs)) (body fs) (le_n _)
              (init_rst b) (rinv_init b Hinv Hbs) eq_refl eq_refl Hp' (conformantZ_body c fs Hconf))
    as (s' & Hrun & Hend & Hrem & Hfin & Hpend & Hwl).
  rewrite msgs_body in Hrun. rewrite trailer_body in Hpend. rewrite body_body in Hwl.
  cbn [encode_frames flat_map app] in Hpend.
  exists s'. split; [exact Hrun|].
  destruct Hend as (E1 & E2 & E3 & E4 & E5 & E6 & E7 & E8).
  split; [exact E5|]. split; [exact E6|]. split; [exact Hrem|]. split; [exact Hfin|].
  split; [exact Hwl|]. split; [exact Hpend|]. split; [exact E1|].
  destruct E4 as [E4|(E4 & E4' & _)]; [left; exact E4|right].
  rewrite Hpend in E4'. subst extra'. apply app_eq_nil in E4'. destruct E4' as [Et Ee].
  apply encode_frames_nil_inv in Et. auto.
Qed.

(* ------------------------------------------------------------------------------------------ *)
(* Flagship: the stream is followed by at least one more byte (e.g. the next frames).          *)
(* No hypothesis on chunking, buffer size (beyond 125), capacity schedule, transport fault, or *)
(* the inflate function (a message that does not inflate is returned as the flate error and    *)
(* the following messages are still returned).                                                 *)
(* ------------------------------------------------------------------------------------------ *)
Theorem read_messages_conformantZ :
  forall inflate c b fs extra,
    custom_handlers c = false -> binv b -> (125 <= bsize b)%nat ->
    conformant_framesZ c fs -> pending b = encode_frames fs ++ extra -> extra <> [] ->
    let ms := data_msgs (events_of fs) in
    exists s',
      run_ops inflate c (init_rst b) (repeat OReadMessage (length ms))
        = (map (out_ofZ inflate) ms, s') /\
      outoffuel s' = false /\ rerror s' = None /\ closesent s' = false /\
      rem s' = 0 /\ rfin s' = true /\
      wlog s' = map WPong (pings_of (body fs)) /\
      pending (br s') = encode_frames (trailer fs) ++ extra.
Proof.
  intros inflate c b fs extra Hch Hinv Hbs Hconf Hp Hne ms.
  destruct (read_messages_generalZ inflate c b fs extra Hch Hinv Hbs Hconf Hp)
    as (s' & Hrun & H1 & H2 & H3 & H4 & H5 & H6 & H7 & H8); [intros _ E; contradiction|].
  exists s'. split; [exact Hrun|].
  destruct H8 as [H8|(_ & _ & H8)]; [|contradiction]. auto 10.
Qed.

(* the hypothesis in the form "something follows, or the transport ends with EOF" *)
Theorem read_messages_conformantZ_or :
  forall inflate c b fs extra,
    custom_handlers c = false -> binv b -> (125 <= bsize b)%nat ->
    conformant_framesZ c fs -> pending b = encode_frames fs ++ extra ->
    (extra <> [] \/ fault (src b) = EEOF) ->
    let ms := data_msgs (events_of fs) in
    exists s',
      run_ops inflate c (init_rst b) (repeat OReadMessage (length ms))
        = (map (out_ofZ inflate) ms, s') /\
      outoffuel s' = false /\ closesent s' = false /\ rem s' = 0 /\ rfin s' = true /\
      wlog s' = map WPong (pings_of (body fs)) /\
      pending (br s') = encode_frames (trailer fs) ++ extra /\
      (rerror s' = None \/ (rerror s' = Some RIoEOF /\ trailer fs = [] /\ extra = [])).
Proof.
  intros inflate c b fs extra Hch Hinv Hbs Hconf Hp Hor ms.
  destruct (read_messages_generalZ inflate c b fs extra Hch Hinv Hbs Hconf Hp)
    as (s' & Hrun & H1 & H2 & H3 & H4 & H5 & H6 & H7 & H8).
  { intros _ E. destruct Hor as [Hne|He]; [contradiction|exact He]. }
  exists s'. auto 10.
Qed.

(* ------------------------------------------------------------------------------------------ *)
(* The stream is exactly [encode_frames fs] and the transport then reports EOF.                *)
(* ------------------------------------------------------------------------------------------ *)
Theorem read_messages_conformant_eofZ :
  forall inflate c b fs,
    custom_handlers c = false -> binv b -> (125 <= bsize b)%nat ->
    conformant_framesZ c fs -> pending b = encode_frames fs -> fault (src b) = EEOF ->
    let ms := data_msgs (events_of fs) in
    exists s',
      run_ops inflate c (init_rst b) (repeat OReadMessage (length ms))
        = (map (out_ofZ inflate) ms, s') /\
      outoffuel s' = false /\ closesent s' = false /\ rem s' = 0 /\ rfin s' = true /\
      wlog s' = map WPong (pings_of (body fs)) /\
      pending (br s') = encode_frames (trailer fs) /\
      (rerror s' = None \/ (rerror s' = Some RIoEOF /\ trailer fs = [])).
Proof.
  intros inflate c b fs Hch Hinv Hbs Hconf Hp Hf ms.
  destruct (read_messages_generalZ inflate c b fs [] Hch Hinv Hbs Hconf)
    as (s' & Hrun & H1 & H2 & H3 & H4 & H5 & H6 & H7 & H8);
    [rewrite app_nil_r; exact Hp|intros _ _; exact Hf|].
  exists s'. split; [exact Hrun|]. rewrite app_nil_r in H6.
  split; [exact H1|]. split; [exact H2|]. split; [exact H3|]. split; [exact H4|].
  split; [exact H5|]. split; [exact H6|].
  destruct H8 as [H8|(H8 & H9 & _)]; [left; exact H8|right; auto].
Qed.

(* Independence of chunking, buffering, ReadAll's capacity schedule, the transport fault and the
   (ignored) handler configuration: two runs over the same byte stream by readers of the same
   role, with the same negotiated flag and the same inflate function, return the same messages
   and send the same pongs. *)
Corollary read_messages_independentZ :
  forall inflate c1 c2 b1 b2 fs extra,
    custom_handlers c1 = false -> custom_handlers c2 = false -> server c1 = server c2 ->
    negotiated c1 = negotiated c2 ->
    binv b1 -> binv b2 -> (125 <= bsize b1)%nat -> (125 <= bsize b2)%nat ->
    conformant_framesZ c1 fs -> extra <> [] ->
    pending b1 = encode_frames fs ++ extra -> pending b2 = encode_frames fs ++ extra ->
    let ops := repeat OReadMessage (length (data_msgs (events_of fs))) in
    fst (run_ops inflate c1 (init_rst b1) ops) = fst (run_ops inflate c2 (init_rst b2) ops) /\
    wlog (snd (run_ops inflate c1 (init_rst b1) ops)) = wlog (snd (run_ops inflate c2 (init_rst b2) ops)) /\
    pending (br (snd (run_ops inflate c1 (init_rst b1) ops))) =
    pending (br (snd (run_ops inflate c2 (init_rst b2) ops))).
Proof.
  intros i c1 c2 b1 b2 fs extra Hc1 Hc2 Hsrv Hng Hi1 Hi2 Hs1 Hs2 Hconf Hne Hp1 Hp2 ops.
  assert (Hconf2 : conformant_framesZ c2 fs).
  { destruct Hconf as (A & B & C). unfold conformant_framesZ. rewrite <- Hsrv, <- Hng. auto. }
  destruct (read_messages_conformantZ i c1 b1 fs extra Hc1 Hi1 Hs1 Hconf Hp1 Hne)
    as (s1 & R1 & _ & _ & _ & _ & _ & W1 & P1).
  destruct (read_messages_conformantZ i c2 b2 fs extra Hc2 Hi2 Hs2 Hconf2 Hp2 Hne)
    as (s2 & R2 & _ & _ & _ & _ & _ & W2 & P2).
  subst ops. rewrite R1, R2. cbn [fst snd]. rewrite W1, W2, P1, P2. auto.
Qed.

(* ------------------------------------------------------------------------------------------ *)
(* n ReadMessage calls return the n messages; ONE MORE call consumes the trailing control     *)
(* frames (answering their pings) and reports the end of the stream.                           *)
(* ------------------------------------------------------------------------------------------ *)
Lemma out_ofZ_not_panic inflate ms : ~ In RPanic (map (out_ofZ inflate) ms).
Proof.
  intros H. apply in_map_iff in H. destruct H as ([[ty cz] d] & Hm & _).
  unfold out_ofZ in Hm. destruct cz; [destruct (inflate (d ++ ws_tail))|]; discriminate Hm.
Qed.

Theorem read_messages_then_endZ :
  forall inflate c b fs,
    custom_handlers c = false -> binv b -> (125 <= bsize b)%nat ->
    conformant_framesZ c fs -> pending b = encode_frames fs ->
    (trailer fs = [] -> fault (src b) = EEOF) ->
    let ms := data_msgs (events_of fs) in
    exists e s',
      run_ops inflate c (init_rst b) (repeat OReadMessage (S (length ms))) =
        (map (out_ofZ inflate) ms ++ [RMsg 0 [] (Some e)], s') /\
      (e = of_berror (BErr (fault (src b))) \/ (e = RIoEOF /\ trailer fs = [])) /\
      rerror s' = Some e /\ outoffuel s' = false /\ closesent s' = false /\
      wlog s' = map WPong (pings_of fs) /\
      pending (br s') = [].
Proof.
  intros inflate c b fs Hch Hinv Hbs Hconf Hp Hside ms.
  destruct (run_msgsZ inflate (fault (src b)) c (encode_frames (trailer fs)) Hch) with
    (n := length (body fs)) (fs := body fs) (s := init_rst b)
    as (s1 & Hrun & Hend & Hrem & Hfin & Hpend & Hwl).
  { destruct (trailer fs) as [|t tr] eqn:Et; [right; apply Hside; reflexivity|left].
    rewrite encode_frames_cons, encode_frame_decomp. cbn [app]. discriminate. }
  { apply le_n. }
  { apply rinv_init; assumption. }
  { reflexivity. }
  { reflexivity. }
  { change (br (init_rst b)) with b. rewrite <- encode_frames_app, body_trailer. exact Hp. }
  { apply conformantZ_body. exact Hconf. }
  rewrite msgs_body in Hrun. rewrite trailer_body in Hpend. rewrite body_body in Hwl.
  cbn [encode_frames flat_map app] in Hpend. fold (encode_frames (trailer fs)) in Hpend.
  subst ms. change (data_msgs (events_of fs)) with (msgs fs).
  cbn [repeat]. rewrite repeat_cons.
  rewrite (run_ops_app inflate c _ _ _ _ [OReadMessage] Hrun (out_ofZ_not_panic inflate _)).
  cbn [run_ops]. unfold rstep.
  destruct Hconf as (Hwf & Hseq & Hlen).
  assert (Hwft : Forall wf_frame (trailer fs)).
  { rewrite <- (body_trailer fs) in Hwf. apply Forall_app in Hwf. apply Hwf. }
  pose proof (seq_okZ_trailer (server c) (negotiated c) fs Hseq) as Hseqt.
  pose proof Hend as (E1 & E2 & E3 & [E4|(E4 & E5 & E6)] & E7 & E8 & E9 & E10).
  - (* the reader has no sticky error: it works through the trailing control frames *)
    assert (Hrinv1 : rinv (fault (src b)) s1) by (unfold rinv; auto 12).
    destruct (read_message_endZ (fault (src b)) c Hch inflate (trailer fs) s1 (trailer_all_ctl fs)
                Hrinv1 Hrem Hfin Hpend Hwft Hseqt)
      as (s2 & Hrm & Herr2 & Hwl2 & Hoof2 & Hcs2 & Hp2 & _).
    rewrite Hrm. cbn [fst snd].
    eexists. eexists. split; [reflexivity|]. rsimpl.
    split; [left; reflexivity|]. split; [exact Herr2|]. split; [exact Hoof2|]. split; [exact Hcs2|].
    split; [|exact Hp2].
    rewrite Hwl2, Hwl. cbn [init_rst wlog app]. rewrite <- map_app, pings_body_trailer. reflexivity.
  - (* io.EOF is already sticky: nothing is left on the transport *)
    rewrite Hpend in E5. apply encode_frames_nil_inv in E5.
    rewrite (read_message_sticky c inflate s1 RIoEOF E4 E10). cbn [fst snd].
    eexists. eexists. split; [reflexivity|]. rsimpl.
    split; [right; auto|]. split; [exact E4|]. split; [exact E7|]. split; [exact E8|].
    split; [|rewrite Hpend, E5; reflexivity].
    rewrite Hwl. cbn [init_rst wlog app]. rewrite <- (pings_body_trailer fs), E5.
    cbn [pings_of flat_map]. rewrite app_nil_r. reflexivity.
Qed.

(* ------------------------------------------------------------------------------------------ *)
(* When every compressed message of the stream inflates, no ReadMessage returns an error.      *)
(* ------------------------------------------------------------------------------------------ *)
Definition inflates (inflate : bytes -> option bytes) (m : N * bool * bytes) : Prop :=
  snd (fst m) = true -> inflate (snd m ++ ws_tail) <> None.

Definition out_ok (o:rout) : Prop := exists ty d, o = RMsg ty d None.

Lemma out_ofZ_ok inflate ms : Forall (inflates inflate) ms -> Forall out_ok (map (out_ofZ inflate) ms).
Proof.
  induction 1 as [|[[ty cz] d] ms Hm _ IH]; [constructor|]. cbn [map]. constructor; [|exact IH].
  unfold inflates in Hm. cbn [fst snd] in Hm. unfold out_ofZ, out_ok.
  destruct cz; [|eauto].
  destruct (inflate (d ++ ws_tail)) as [x|]; [eauto|]. exfalso. apply Hm; reflexivity.
Qed.

Corollary read_messages_conformantZ_inflating :
  forall inflate c b fs extra,
    custom_handlers c = false -> binv b -> (125 <= bsize b)%nat ->
    conformant_framesZ c fs -> pending b = encode_frames fs ++ extra ->
    (extra <> [] \/ fault (src b) = EEOF) ->
    let ms := data_msgs (events_of fs) in
    Forall (inflates inflate) ms ->
    exists outs s',
      run_ops inflate c (init_rst b) (repeat OReadMessage (length ms)) = (outs, s') /\
      outs = map (out_ofZ inflate) ms /\ Forall out_ok outs /\
      outoffuel s' = false /\ closesent s' = false /\
      wlog s' = map WPong (pings_of (body fs)) /\
      pending (br s') = encode_frames (trailer fs) ++ extra /\
      (rerror s' = None \/ (rerror s' = Some RIoEOF /\ trailer fs = [] /\ extra = [])).
Proof.
  intros inflate c b fs extra Hch Hinv Hbs Hconf Hp Hor ms Hinf.
  destruct (read_messages_conformantZ_or inflate c b fs extra Hch Hinv Hbs Hconf Hp Hor)
    as (s' & Hrun & H1 & H2 & H3 & H4 & H5 & H6 & H7).
  exists (map (out_ofZ inflate) ms), s'. split; [exact Hrun|]. split; [reflexivity|].
  split; [apply out_ofZ_ok; exact Hinf|]. auto 10.
Qed.

(* ------------------------------------------------------------------------------------------ *)
(* Instances: the theorems of ReaderP.v are the RSV = 0 case of the ones above.                *)
(* ------------------------------------------------------------------------------------------ *)
Theorem read_messages_general_from_Z :
  forall inflate c b fs extra,
    custom_handlers c = false -> binv b -> (125 <= bsize b)%nat ->
    conformant_frames c fs -> pending b = encode_frames fs ++ extra ->
    (trailer fs = [] -> extra = [] -> fault (src b) = EEOF) ->
    let ms := data_msgs (events_of fs) in
    exists s',
      run_ops inflate c (init_rst b) (repeat OReadMessage (length ms)) = (map out_of ms, s') /\
      outoffuel s' = false /\ closesent s' = false /\ rem s' = 0 /\ rfin s' = true /\
      wlog s' = map WPong (pings_of (body fs)) /\
      pending (br s') = encode_frames (trailer fs) ++ extra /\
      binv (br s') /\
      (rerror s' = None \/ (rerror s' = Some RIoEOF /\ trailer fs = [] /\ extra = [])).
Proof.
  intros inflate c b fs extra Hch Hinv Hbs Hconf Hp Hside ms.
  destruct (read_messages_generalZ inflate c b fs extra Hch Hinv Hbs (conformant_frames_Z c fs Hconf) Hp Hside)
    as (s' & Hrun & H).
  exists s'. split; [|exact H].
  rewrite (map_out_ofZ_uncompressed inflate _ (conformant_frames_uncompressed c fs Hconf)) in Hrun.
  exact Hrun.
Qed.

Theorem read_messages_conformant_from_Z :
  forall inflate c b fs extra,
    custom_handlers c = false -> binv b -> (125 <= bsize b)%nat ->
    conformant_frames c fs -> pending b = encode_frames fs ++ extra -> extra <> [] ->
    let ms := data_msgs (events_of fs) in
    exists s',
      run_ops inflate c (init_rst b) (repeat OReadMessage (length ms)) = (map out_of ms, s') /\
      outoffuel s' = false /\ rerror s' = None /\ closesent s' = false /\
      rem s' = 0 /\ rfin s' = true /\
      wlog s' = map WPong (pings_of (body fs)) /\
      pending (br s') = encode_frames (trailer fs) ++ extra.
Proof.
  intros inflate c b fs extra Hch Hinv Hbs Hconf Hp Hne ms.
  destruct (read_messages_conformantZ inflate c b fs extra Hch Hinv Hbs (conformant_frames_Z c fs Hconf) Hp Hne)
    as (s' & Hrun & H).
  exists s'. split; [|exact H].
  rewrite (map_out_ofZ_uncompressed inflate _ (conformant_frames_uncompressed c fs Hconf)) in Hrun.
  exact Hrun.
Qed.

Theorem read_messages_then_end_from_Z :
  forall inflate c b fs,
    custom_handlers c = false -> binv b -> (125 <= bsize b)%nat ->
    conformant_frames c fs -> pending b = encode_frames fs ->
    (trailer fs = [] -> fault (src b) = EEOF) ->
    let ms := data_msgs (events_of fs) in
    exists e s',
      run_ops inflate c (init_rst b) (repeat OReadMessage (S (length ms))) =
        (map out_of ms ++ [RMsg 0 [] (Some e)], s') /\
      (e = of_berror (BErr (fault (src b))) \/ (e = RIoEOF /\ trailer fs = [])) /\
      rerror s' = Some e /\ outoffuel s' = false /\ closesent s' = false /\
      wlog s' = map WPong (pings_of fs) /\
      pending (br s') = [].
Proof.
  intros inflate c b fs Hch Hinv Hbs Hconf Hp Hside ms.
  destruct (read_messages_then_endZ inflate c b fs Hch Hinv Hbs (conformant_frames_Z c fs Hconf) Hp Hside)
    as (e & s' & Hrun & H).
  exists e, s'. split; [|exact H].
  rewrite (map_out_ofZ_uncompressed inflate _ (conformant_frames_uncompressed c fs Hconf)) in Hrun.
  exact Hrun.
Qed.

(* ------------------------------------------------------------------------------------------ *)
(* Composition with the Spec decoder: if the compressed messages of the stream were produced   *)
(* by the stored-block deflater [deflate0] (sync flush, last four bytes removed, RFC 7692      *)
(* 7.2.1), ReadMessage with Spec.Inflate.inflate returns the original payloads.                *)
(* ------------------------------------------------------------------------------------------ *)
(* an application message (type, compress?, plaintext) and what travels as message payload *)
Definition wire_msg (o : N * bool * bytes) : N * bool * bytes :=
  let '(ty, cz, d) := o in (ty, cz, if cz then Inflate.trunc4 (Inflate.deflate0 d) else d).
Definition plain_out (o : N * bool * bytes) : rout := let '(ty, _, d) := o in RMsg ty d None.

Lemma out_ofZ_deflate0 o : (snd (fst o) = true -> bytes_ok (snd o)) ->
  out_ofZ Inflate.inflate (wire_msg o) = plain_out o.
Proof.
  destruct o as [[ty cz] d]. cbn [fst snd]. intros Hok. unfold wire_msg, out_ofZ, plain_out.
  destruct cz; [|reflexivity].
  change ws_tail with Inflate.ws_tail.
  rewrite (InflateP.inflate_deflate0 d (Hok eq_refl)). reflexivity.
Qed.

Lemma map_out_ofZ_deflate0 os : Forall (fun o => snd (fst o) = true -> bytes_ok (snd o)) os ->
  map (out_ofZ Inflate.inflate) (map wire_msg os) = map plain_out os.
Proof.
  induction 1 as [|o os Ho _ IH]; [reflexivity|]. cbn [map]. rewrite IH, (out_ofZ_deflate0 o Ho). reflexivity.
Qed.

Theorem read_messages_deflate0 :
  forall c b fs extra os,
    custom_handlers c = false -> binv b -> (125 <= bsize b)%nat ->
    conformant_framesZ c fs -> pending b = encode_frames fs ++ extra ->
    (trailer fs = [] -> extra = [] -> fault (src b) = EEOF) ->
    data_msgs (events_of fs) = map wire_msg os ->
    Forall (fun o => snd (fst o) = true -> bytes_ok (snd o)) os ->
    exists s',
      run_ops Inflate.inflate c (init_rst b) (repeat OReadMessage (length os))
        = (map plain_out os, s') /\
      outoffuel s' = false /\ closesent s' = false /\ rem s' = 0 /\ rfin s' = true /\
      wlog s' = map WPong (pings_of (body fs)) /\
      pending (br s') = encode_frames (trailer fs) ++ extra /\
      binv (br s') /\
      (rerror s' = None \/ (rerror s' = Some RIoEOF /\ trailer fs = [] /\ extra = [])).
Proof.
  intros c b fs extra os Hch Hinv Hbs Hconf Hp Hside Hms Hok.
  destruct (read_messages_generalZ Inflate.inflate c b fs extra Hch Hinv Hbs Hconf Hp Hside)
    as (s' & Hrun & H).
  cbv zeta in Hrun. rewrite Hms, map_length, (map_out_ofZ_deflate0 os Hok) in Hrun.
  exists s'. split; [exact Hrun|exact H].
Qed.

Print Assumptions read_messages_generalZ.
Print Assumptions read_messages_conformantZ.
Print Assumptions read_messages_conformantZ_or.
Print Assumptions read_messages_conformant_eofZ.
Print Assumptions read_messages_independentZ.
Print Assumptions read_messages_then_endZ.
Print Assumptions read_messages_conformantZ_inflating.
Print Assumptions read_messages_general_from_Z.
Print Assumptions read_messages_conformant_from_Z.
Print Assumptions read_messages_then_end_from_Z.
Print Assumptions read_messages_deflate0.
Print Assumptions conformant_framesZ_false.
