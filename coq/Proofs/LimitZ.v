(* C06 with permessage-deflate: the read-limit theorems of LimitP.v generalised to streams
   that may carry compressed (RSV1) messages, for a reader that negotiated compression
   ([frame_accZ] / [seq_okZ] with [ng := negotiated c], see ReaderZ1.v).

   The limit counts WIRE payload bytes: for a compressed message, the compressed size.

   Main results (all closed under the global context):
     1. data_frame_step_limitZ                               one data frame (RSV1 allowed)
     2. read_message_limitZ                                   the engine: ReadMessage from ANY
        point of the previous message, result computed by the pure functions
        tail_lim / first_limZ (and the place where the reader stops by tail_cross / first_cross)
     3. within_limit_message_readZ, abandoned_then_next_message_readZ      completeness
     4. over_limit_never_completeZ(_general), delivered_at_most_limitZ      soundness
   The theorems of LimitP.v are the RSV = 0 instances (section "instances").               *)
Require Import WS.Base.Bytes WS.gen.Consts WS.Spec.Frame WS.Spec.Conformance WS.Model.Bufio
  WS.Model.Reader WS.Proofs.BufioP WS.Proofs.FrameP.
From RecordUpdate Require Import RecordSet.
Import RecordSetNotations.
Require Import WS.Proofs.ReaderP1 WS.Proofs.ReaderP2 WS.Proofs.ReaderP3 WS.Proofs.ReaderBasicP.
Require Import WS.Proofs.ReaderZ1 WS.Proofs.ReaderZ2 WS.Proofs.ReaderZ3 WS.Proofs.LimitP.
Ltac Zify.zify_post_hook ::= Z.div_mod_to_equations.

(* ============================== part A ============================== *)
(* ---------- the header of a data / continuation frame: steps 2-4, RSV1 tolerated ---------- *)
Lemma advance_data_hdrZ L k c s f rest :
  rinvL L k s -> wf_frame f -> frame_accZ (server c) (negotiated c) (negb (rfin s)) f = true ->
  is_control (opcode f) = false ->
  pending (br s) = encode_frame f ++ rest ->
  exists s5, advance_after_skip c s = aas5 c (opcode f) (plen f) s5 /\
    rinvL L k s5 /\ rem s5 = plen f /\ rfin s5 = fin f /\
    rlen s5 = (if opcode f =? 0 then rlen s else 0) /\
    pending (br s5) = wire_payload f ++ rest /\
    unmask c s5 (wire_payload f) = payload f /\
    rdecomp s5 = (rsv f =? 4) /\ wlog s5 = wlog s /\
    (opcode f = 0 \/ opcode f = 1 \/ opcode f = 2).
Proof.
  intros Hrinv Hwf Hacc Hctl Hp.
  pose proof Hrinv as (Hinv & Hbs & Hfl & Herr & Hoof & Hcs & Hrl & Hec).
  destruct (frame_accZ_facts _ _ _ _ Hacc) as (Hr & Hm & Hcases).
  assert (Hop : opcode f = 0 \/ opcode f = 1 \/ opcode f = 2).
  { unfold is_control in Hctl. destruct Hcases as [(Ho & _)|[(Ho & _)|(Ho & _)]]; lia. }
  pose proof Hwf as (_ & _ & Hpl & Hkey).
  rewrite encode_frame_split in Hp.
  rewrite aas_unfold.
  destruct (rd_app 2 s _ _ Hinv ltac:(lia) Hp eq_refl) as (b1 & Hrd & Hp1 & Hinv1 & Hbs1 & Hfl1).
  rewrite Hrd. cbv iota. cbn [nth].
  rewrite aas2_okZ; [|exact Hwf|exact Hacc].
  set (s1 := hdr_stateZ f (s <| br := b1 |>)).
  assert (Es1 : br s1 = b1 /\ rfin s1 = fin f /\ rlen s1 = (if opcode f =? 0 then rlen s else 0) /\
                rlimit s1 = rlimit s /\ rerror s1 = None /\ outoffuel s1 = false /\ closesent s1 = false /\
                wlog s1 = wlog s /\ rdecomp s1 = (rsv f =? 4) /\ errcount s1 = errcount s).
  { subst s1. unfold hdr_stateZ. cbv zeta.
    destruct Hop as [Ho|[Ho|Ho]]; rewrite Ho;
      [change ((0 =? 1) || (0 =? 2)) with false; change (0 =? 0) with true
      |change ((1 =? 1) || (1 =? 2)) with true; change (1 =? 0) with false
      |change ((2 =? 1) || (2 =? 2)) with true; change (2 =? 0) with false];
      cbv iota; rsimpl; auto 12. }
  destruct Es1 as (E1 & E2 & E3 & E4 & E5 & E6 & E7 & E8 & E9 & E10).
  destruct (aas3_ok c (opcode f) (is_some (mkey f)) f s1 (key_bytes f ++ (wire_payload f ++ rest)))
    as (b2 & H3 & Hp2 & Hinv2 & Hbs2 & Hfl2);
    [rewrite E1; exact Hinv1|rewrite E1; lia|exact Hpl|rewrite E1; exact Hp1|].
  rewrite H3. rewrite E1 in Hbs2, Hfl2.
  destruct (mkey f) as [key|] eqn:Ek.
  - (* masked *)
    cbn [is_some]. unfold key_bytes in Hp2. rewrite Ek in Hp2.
    destruct (aas4_masked c (opcode f) (plen f) (s1 <| br := b2 |>) key (wire_payload f ++ rest))
      as (b3 & H4 & Hp3 & Hinv3 & Hbs3 & Hfl3);
      [exact Hinv2|change (125 <= bsize b2)%nat; lia|exact Hkey|exact Hp2|].
    rewrite H4. change (bsize (br (s1 <| br := b2 |>))) with (bsize b2) in Hbs3.
    change (fault (src (br (s1 <| br := b2 |>)))) with (fault (src b2)) in Hfl3.
    eexists. split; [reflexivity|].
    split.
    { apply (rinvL_upd L k s); [exact Hrinv| | | |rsimpl; congruence ..]; rsimpl;
        [exact Hinv3|congruence|congruence]. }
    rsimpl. rewrite E2, E3, E8, E9.
    split; [reflexivity|]. split; [reflexivity|]. split; [reflexivity|]. split; [exact Hp3|].
    split; [|auto].
    unfold unmask. rsimpl. cbn [is_some] in Hm. rewrite <- Hm. apply unmask_wire. exact Ek.
  - (* unmasked *)
    cbn [is_some]. unfold key_bytes in Hp2. rewrite Ek in Hp2. cbn [app] in Hp2.
    rewrite aas4_unmasked.
    eexists. split; [reflexivity|].
    split.
    { apply (rinvL_upd L k s); [exact Hrinv| | | |rsimpl; congruence ..]; rsimpl;
        [exact Hinv2|congruence|congruence]. }
    rsimpl. rewrite E2, E3, E8, E9.
    split; [reflexivity|]. split; [reflexivity|]. split; [reflexivity|]. split; [exact Hp2|].
    split; [|auto].
    unfold unmask. cbn [is_some] in Hm. rewrite <- Hm. apply wire_payload_unmasked. exact Ek.
Qed.

(* ---------- outcome 1: within the limit ---------- *)
Lemma advance_data_withinZ L k c s f rest :
  rinvL L k s -> wf_frame f -> frame_accZ (server c) (negotiated c) (negb (rfin s)) f = true ->
  is_control (opcode f) = false ->
  pending (br s) = encode_frame f ++ rest ->
  (if opcode f =? 0 then rlen s else 0) + plen f < 2^63 ->
  within L ((if opcode f =? 0 then rlen s else 0) + plen f) ->
  exists s', advance_after_skip c s = (AFrame (opcode f), s') /\
    rinvL L k s' /\ rem s' = plen f /\ rfin s' = fin f /\
    rlen s' = (if opcode f =? 0 then rlen s else 0) + plen f /\
    pending (br s') = wire_payload f ++ rest /\
    unmask c s' (wire_payload f) = payload f /\
    rdecomp s' = (rsv f =? 4) /\ wlog s' = wlog s.
Proof.
  intros Hrinv Hwf Hacc Hctl Hp Hlen Hw.
  destruct (advance_data_hdrZ L k c s f rest Hrinv Hwf Hacc Hctl Hp)
    as (s5 & Hadv & Hrinv5 & Hrem5 & Hfin5 & Hrlen5 & Hp5 & Hun5 & Hdec5 & Hwl5 & Hop).
  pose proof Hrinv5 as (_ & _ & _ & _ & _ & _ & Hrl5 & _).
  rewrite Hadv, aas5_data_ok; [|exact Hop|rewrite Hrlen5; exact Hlen|rewrite Hrl5, Hrlen5; exact Hw].
  eexists. split; [reflexivity|].
  split; [apply (rinvL_same L k s5); [exact Hrinv5|reflexivity ..]|].
  rewrite unmask_rlen. rsimpl. rewrite Hrlen5. auto 10.
Qed.

(* ---------- outcome 2: the frame crosses the limit ---------- *)
Lemma advance_data_toobigZ L k c s f rest :
  rinvL L k s -> wf_frame f -> frame_accZ (server c) (negotiated c) (negb (rfin s)) f = true ->
  is_control (opcode f) = false ->
  pending (br s) = encode_frame f ++ rest ->
  (if opcode f =? 0 then rlen s else 0) + plen f < 2^63 ->
  0 < L -> L < (if opcode f =? 0 then rlen s else 0) + plen f ->
  exists s', advance_after_skip c s = (AErr RReadLimit, s') /\
    wlog s' = wlog s ++ [WCloseTooBig] /\ closesent s' = true /\
    pending (br s') = wire_payload f ++ rest /\
    rlen s' = (if opcode f =? 0 then rlen s else 0) + plen f /\
    rem s' = plen f /\ rerror s' = None /\ outoffuel s' = false /\ errcount s' = 0%nat /\
    binv (br s') /\ rlimit s' = L.
Proof.
  intros Hrinv Hwf Hacc Hctl Hp Hlen Hpos Hbig.
  destruct (advance_data_hdrZ L k c s f rest Hrinv Hwf Hacc Hctl Hp)
    as (s5 & Hadv & Hrinv5 & Hrem5 & Hfin5 & Hrlen5 & Hp5 & Hun5 & Hdec5 & Hwl5 & Hop).
  pose proof Hrinv5 as (Hinv5 & _ & _ & Herr5 & Hoof5 & Hcs5 & Hrl5 & Hec5).
  rewrite Hadv, aas5_data_toobig;
    [|exact Hop|rewrite Hrlen5; exact Hlen|rewrite Hrl5; exact Hpos|rewrite Hrl5, Hrlen5; exact Hbig].
  eexists. split; [reflexivity|].
  unfold send.
  replace (closesent (s5 <| rlen := rlen s5 + plen f |>)) with (closesent s5) by reflexivity.
  rewrite Hcs5. rsimpl. rewrite Hwl5, Hrlen5. auto 12.
Qed.

(* ---------- outcome 3: the running sum leaves the int64 range ---------- *)
Lemma advance_data_overflowZ L k c s f rest :
  rinvL L k s -> wf_frame f -> frame_accZ (server c) (negotiated c) (negb (rfin s)) f = true ->
  is_control (opcode f) = false ->
  pending (br s) = encode_frame f ++ rest ->
  2^63 <= (if opcode f =? 0 then rlen s else 0) + plen f ->
  exists s', advance_after_skip c s = (AErr RReadLimit, s') /\
    wlog s' = wlog s ++ [WCloseTooBig] /\ closesent s' = true /\
    pending (br s') = wire_payload f ++ rest /\
    rem s' = plen f /\ binv (br s').
Proof.
  intros Hrinv Hwf Hacc Hctl Hp Hlen.
  destruct (advance_data_hdrZ L k c s f rest Hrinv Hwf Hacc Hctl Hp)
    as (s5 & Hadv & Hrinv5 & Hrem5 & Hfin5 & Hrlen5 & Hp5 & Hun5 & Hdec5 & Hwl5 & Hop).
  pose proof Hrinv5 as (Hinv5 & _ & _ & Herr5 & Hoof5 & Hcs5 & Hrl5 & Hec5).
  rewrite Hadv, aas5_data_overflow; [|exact Hop|rewrite Hrlen5; exact Hlen].
  eexists. split; [reflexivity|].
  unfold send.
  replace (closesent (s5 <| rlen := rlen s5 + plen f |>)) with (closesent s5) by reflexivity.
  rewrite Hcs5. rsimpl. rewrite Hwl5. auto 10.
Qed.

(* ---------- advanceFrame on a ping / pong, any read limit, RSV1 tolerated ---------- *)
Lemma advance_ctlLZ L k c s f rest :
  rinvL L k s -> custom_handlers c = false -> wf_frame f ->
  frame_accZ (server c) (negotiated c) (negb (rfin s)) f = true ->
  is_control (opcode f) = true ->
  pending (br s) = encode_frame f ++ rest ->
  exists s', advance_after_skip c s = (AFrame (opcode f), s') /\
    rinvL L k s' /\ rem s' = 0 /\ rfin s' = rfin s /\ rlen s' = rlen s /\
    pending (br s') = rest /\ wlog s' = wlog s ++ map WPong (ping1 f).
Proof.
  intros Hrinv Hch Hwf Hacc Hctl Hp.
  pose proof Hrinv as (Hinv & Hbs & Hfl & Herr & Hoof & Hcs & Hrl & Hec).
  destruct (frame_accZ_facts _ _ _ _ Hacc) as (Hr & Hm & Hcases).
  assert (Hop : (opcode f = 9 \/ opcode f = 10) /\ fin f = true /\ plen f <= 125).
  { unfold is_control in Hctl. destruct Hcases as [H|[(Ho & _)|(Ho & _)]]; [exact H|lia|lia]. }
  destruct Hop as (Hop & Hfin & Hl125).
  pose proof Hwf as (_ & _ & Hpl & Hkey).
  rewrite encode_frame_split in Hp.
  rewrite aas_unfold.
  destruct (rd_app 2 s _ _ Hinv ltac:(lia) Hp eq_refl) as (b1 & Hrd & Hp1 & Hinv1 & Hbs1 & Hfl1).
  rewrite Hrd. cbv iota. cbn [nth].
  rewrite aas2_okZ; [|exact Hwf|exact Hacc].
  set (s1 := hdr_stateZ f (s <| br := b1 |>)).
  assert (Es1 : br s1 = b1 /\ rfin s1 = rfin s /\ rlen s1 = rlen s /\
                rlimit s1 = rlimit s /\ rerror s1 = None /\ outoffuel s1 = false /\ closesent s1 = false /\
                wlog s1 = wlog s /\ errcount s1 = errcount s).
  { subst s1. unfold hdr_stateZ. cbv zeta.
    destruct Hop as [Ho|Ho]; rewrite Ho;
      [change ((9 =? 1) || (9 =? 2)) with false; change (9 =? 0) with false
      |change ((10 =? 1) || (10 =? 2)) with false; change (10 =? 0) with false];
      cbv iota; rsimpl; auto 12. }
  destruct Es1 as (E1 & E2 & E3 & E4 & E5 & E6 & E7 & E8 & E10).
  destruct (aas3_ok c (opcode f) (is_some (mkey f)) f s1 (key_bytes f ++ (wire_payload f ++ rest)))
    as (b2 & H3 & Hp2 & Hinv2 & Hbs2 & Hfl2);
    [rewrite E1; exact Hinv1|rewrite E1; lia|exact Hpl|rewrite E1; exact Hp1|].
  rewrite H3. rewrite E1 in Hbs2, Hfl2.
  assert (Hwl : blen (wire_payload f) = plen f) by apply wire_payload_blen.
  destruct (mkey f) as [key|] eqn:Ek.
  - (* masked: the reader is a server *)
    cbn [is_some] in *. unfold key_bytes in Hp2. rewrite Ek in Hp2.
    destruct (aas4_masked c (opcode f) (plen f) (s1 <| br := b2 |>) key (wire_payload f ++ rest))
      as (b3 & H4 & Hp3 & Hinv3 & Hbs3 & Hfl3);
      [exact Hinv2|change (125 <= bsize b2)%nat; lia|exact Hkey|exact Hp2|].
    rewrite H4. change (bsize (br (s1 <| br := b2 |>))) with (bsize b2) in Hbs3.
    change (fault (src (br (s1 <| br := b2 |>)))) with (fault (src b2)) in Hfl3.
    set (s3 := s1 <| br := b2 |> <| rem := plen f |> <| mpos := 0 |> <| br := b3 |> <| rkey := key |>).
    destruct (aas5_ctl c (opcode f) (plen f) s3 (wire_payload f) rest Hop Hch)
      as (b4 & Hp4 & Hinv4 & Hbs4 & Hfl4 & H5);
      [subst s3; rsimpl; exact E7|subst s3; rsimpl; exact Hinv3|subst s3; rsimpl; lia
      |exact Hl125|exact Hwl|subst s3; rsimpl; exact Hp3|].
    rewrite H5. cbv zeta.
    eexists. split; [reflexivity|].
    replace (bsize (br s3)) with (bsize b3) in Hbs4 by reflexivity.
    replace (fault (src (br s3))) with (fault (src b3)) in Hfl4 by reflexivity.
    replace (rkey s3) with key by reflexivity.
    replace (wlog s3) with (wlog s1) by reflexivity.
    rewrite <- Hm. rewrite (unmask_wire f key Ek).
    unfold ping1.
    destruct (opcode f =? 9); subst s3; rsimpl.
    + split.
      { apply (rinvL_upd L k s); [exact Hrinv| | | |rsimpl; congruence ..]; rsimpl;
          [exact Hinv4|congruence|congruence]. }
      rewrite E8. repeat split; try reflexivity; try assumption.
    + split.
      { apply (rinvL_upd L k s); [exact Hrinv| | | |rsimpl; congruence ..]; rsimpl;
          [exact Hinv4|congruence|congruence]. }
      rewrite E8, app_nil_r. repeat split; try reflexivity; try assumption.
  - (* unmasked: the reader is a client *)
    cbn [is_some] in *. unfold key_bytes in Hp2. rewrite Ek in Hp2. cbn [app] in Hp2.
    rewrite aas4_unmasked.
    set (s3 := s1 <| br := b2 |> <| rem := plen f |>).
    destruct (aas5_ctl c (opcode f) (plen f) s3 (wire_payload f) rest Hop Hch)
      as (b4 & Hp4 & Hinv4 & Hbs4 & Hfl4 & H5);
      [subst s3; rsimpl; exact E7|subst s3; rsimpl; exact Hinv2|subst s3; rsimpl; lia
      |exact Hl125|exact Hwl|subst s3; rsimpl; exact Hp2|].
    rewrite H5. cbv zeta.
    eexists. split; [reflexivity|].
    replace (bsize (br s3)) with (bsize b2) in Hbs4 by reflexivity.
    replace (fault (src (br s3))) with (fault (src b2)) in Hfl4 by reflexivity.
    replace (wlog s3) with (wlog s1) by reflexivity.
    rewrite <- Hm. rewrite (wire_payload_unmasked f Ek).
    unfold ping1.
    destruct (opcode f =? 9); subst s3; rsimpl.
    + split.
      { apply (rinvL_upd L k s); [exact Hrinv| | | |rsimpl; congruence ..]; rsimpl;
          [exact Hinv4|congruence|congruence]. }
      rewrite E8. repeat split; try reflexivity; try assumption.
    + split.
      { apply (rinvL_upd L k s); [exact Hrinv| | | |rsimpl; congruence ..]; rsimpl;
          [exact Hinv4|congruence|congruence]. }
      rewrite E8, app_nil_r. repeat split; try reflexivity; try assumption.
Qed.

(* ============================== part B ============================== *)
(* ---------- where the reader stops when a frame crosses the limit (pure) ---------- *)
(* [cont_lim] of LimitP.v says WHAT is delivered; [cont_cross] says WHERE the crossing happens:
   the frame whose header takes the running wire total over the limit, and the frames after it *)
Fixpoint cont_cross (L used:N) (fs:list frame) : option (frame * list frame) :=
  match fs with
  | [] => None
  | f :: r =>
    if is_control (opcode f) then cont_cross L used r
    else if crosses L (used + plen f) then Some (f, r)
    else if fin f then None
    else cont_cross L (used + plen f) r
  end.

Definition tail_cross (L used:N) (final:bool) (fs:list frame) : option (frame * list frame) :=
  if final then None else cont_cross L used fs.

(* what holds after the driver (io.ReadAll or the flate reader's pull) has returned *)
Definition rg_post (L:N) (k:errk) (extra:bytes) (s':rst) (after:option (list frame))
    (x:option (frame * list frame)) : Prop :=
  match after with
  | Some a => rinvL_end L k s' /\ rem s' = 0 /\ rfin s' = true /\
              pending (br s') = encode_frames a ++ extra
  | None => rerror s' = Some RReadLimit /\ closesent s' = true /\ outoffuel s' = false /\
            errcount s' = 0%nat /\ binv (br s') /\ rlimit s' = L /\
            exists f r, x = Some (f, r) /\ rem s' = plen f /\
              pending (br s') = wire_payload f ++ encode_frames r ++ extra
  end.

Lemma rg_cont_err {P} (psize : P -> nat) pnext fa c p acc d e s : is_io_eof e = false ->
  rg_cont psize pnext fa c p acc (d, Some e, s) = (acc ++ d, Some e, s).
Proof. intros H. cbn [rg_cont]. destruct e; try reflexivity. discriminate H. Qed.

Section MainLZ.
Variables (L:N) (k:errk) (c:rcfg) (extra:bytes).
Hypothesis Hch : custom_handlers c = false.
Hypothesis Hx : extra <> [] \/ k = EEOF.

Section Gen.
Variable P : Type.
Variable psize : P -> nat.
Variable pnext : P -> bytes -> P.
Variable pinv : P -> Prop.
Hypothesis psize_pos : forall p, pinv p -> (0 < psize p)%nat.
Hypothesis pnext_inv : forall p d, pinv p -> d <> [] -> blen d <= N.of_nat (psize p) -> pinv (pnext p d).

Lemma rg_mainL : forall fs n wp, length wp = n -> forall s fa fl p acc more pings after,
  rinvL L k s -> rem s = blen wp -> pending (br s) = wp ++ encode_frames fs ++ extra ->
  Forall wf_frame fs -> seq_okZ (server c) (negotiated c) (negb (rfin s)) fs = true ->
  rlen s + blen (encode_frames fs) < 2^63 ->
  pinv p -> (length (pending (br s)) < fl)%nat -> (length (pending (br s)) <= fa)%nat ->
  tail_lim L (rlen s) (rfin s) fs = (more, pings, after) ->
  exists s', rg_cont psize pnext fa c p acc (read_loop fl c (psize p) s)
             = (acc ++ unmask c s wp ++ more, lim_err after, s') /\
    wlog s' = wlog s ++ map WPong pings ++ lim_close after /\
    rg_post L k extra s' after (tail_cross L (rlen s) (rfin s) fs).
Proof.
  induction fs as [|f fs IHfs].
  - (* no further frame: we are in the final frame of the message *)
    induction n as [n IHn] using lt_wf_ind.
    intros wp Hn s fa fl p acc more pings after Hrinv Hrem Hp Hwf Hseq Hrl Hpi Hfl Hfa Hmt.
    cbn [seq_okZ] in Hseq. apply negb_true_iff in Hseq. apply negb_false_iff in Hseq.
    rewrite Hseq in Hmt. cbn [tail_lim] in Hmt. inversion Hmt; subst more pings after. clear Hmt.
    pose proof Hrinv as (Hinv & Hbs & Hflt & Herr & Hoof & Hcs & Hrlim & Hecnt).
    destruct fl as [|fl]; [lia|].
    destruct wp as [|x wp'] eqn:Ewp.
    + rewrite (read_loop_eof fl c _ s Herr Hrem Hseq). cbn [rg_cont].
      eexists. split; [rewrite unmask_nil; reflexivity|]. cbn [rg_post lim_close map]. rsimpl.
      split; [rewrite !app_nil_r; reflexivity|].
      split; [apply rinvL_rinvL_end; apply (rinvL_upd L k s); auto|].
      cbn [encode_frames flat_map app map] in *. auto.
    + rewrite <- Ewp in *.
      assert (Hwne : wp <> []) by (rewrite Ewp; discriminate).
      pose proof (psize_pos p Hpi) as Hm.
      destruct (read_loop_chunkL L k c _ fl s wp (encode_frames [] ++ extra) Hrinv Hm Hwne Hrem Hp)
        as (w1 & w2 & e & s1 & Hw & Hw1 & Hb1 & Hrl1 & Hp1 & Hrem1 & Hfin1 & Hrlen1 & Hwl1 & Hun &
            Hinv1 & Hbs1 & Hfl1 & Hoof1 & Hcs1 & Hrlim1 & Herr1 & Hec1 & He).
      rewrite Hrl1. cbn [rg_cont].
      assert (Hbu : blen (unmask c s w1) = blen w1) by (unfold blen; rewrite unmask_length; reflexivity).
      assert (Hlen1 : (length (pending (br s)) = length w1 + length (pending (br s1)))%nat).
      { rewrite Hp, Hp1, Hw, <- app_assoc, app_length. reflexivity. }
      assert (Hw1pos : (0 < length w1)%nat) by (destruct w1; [congruence|cbn [length]; lia]).
      assert (Hune : unmask c s w1 <> []).
      { intros Hq. apply (f_equal (@length N)) in Hq. rewrite unmask_length in Hq. cbn [length] in Hq. lia. }
      destruct He as [-> | [Hnil ->]].
      * (* more to read *)
        destruct fa as [|fa]; [lia|].
        rewrite read_gen_S. unfold reader_read.
        assert (Hrinv1 : rinvL L k s1) by (unfold rinvL; rewrite Hbs1, Hec1; auto 12).
        destruct (IHn (length w2) ltac:(subst n; rewrite Hw, app_length; lia) w2 eq_refl s1 fa
                    (fuel_of s1) (pnext p (unmask c s w1))
                    (acc ++ unmask c s w1) [] [] (Some []))
          as (s' & Hres & Hwl' & Hend);
          [exact Hrinv1|exact Hrem1|exact Hp1|exact Hwf|rewrite Hfin1, Hseq; reflexivity
          |rewrite Hrlen1; exact Hrl
          |apply pnext_inv; [exact Hpi|exact Hune|rewrite Hbu; exact Hb1]
          |unfold fuel_of; lia|lia|rewrite Hfin1, Hseq; reflexivity|].
        exists s'. split.
        { rewrite Hres. rewrite Hun, <- !app_assoc. reflexivity. }
        rewrite Hwl1 in Hwl'. split; [exact Hwl'|exact Hend].
      * (* the transport fault came with the last bytes of the stream *)
        apply app_eq_nil in Hnil. destruct Hnil as [Hw2 Hnil]. cbn [encode_frames flat_map app] in Hnil.
        destruct Hx as [Hx1|Hx1]; [contradiction|].
        rewrite Hseq, Hx1. cbn [negb andb errk_eqb of_errk].
        eexists. split.
        { rewrite Hw, Hw2, !app_nil_r. reflexivity. }
        cbn [rg_post lim_close map]. rewrite !app_nil_r.
        split; [exact Hwl1|].
        split.
        { unfold rinvL_end. rewrite Hbs1.
          split; [exact Hinv1|]. split; [exact Hbs|]. split; [congruence|].
          split; [|split; [exact Hoof1|split; [exact Hcs1|split; [exact Hrlim1|rewrite Hec1; exact Hecnt]]]].
          right. rewrite Herr1, Hp1, Hw2, Hnil, Hseq, ?Hx1.
          cbn [negb andb errk_eqb of_errk app encode_frames flat_map]. auto. }
        rewrite Hrem1, Hw2, Hfin1, Hp1, Hw2. cbn [map app]. auto.
  - (* at least one more frame *)
    induction n as [n IHn] using lt_wf_ind.
    intros wp Hn s fa fl p acc more pings after Hrinv Hrem Hp Hwf Hseq Hrl Hpi Hfl Hfa Hmt.
    pose proof Hrinv as (Hinv & Hbs & Hflt & Herr & Hoof & Hcs & Hrlim & Hecnt).
    destruct fl as [|fl]; [lia|].
    inversion Hwf as [|f' fs' Hwff Hwfs]; subst f' fs'.
    cbn [seq_okZ] in Hseq. apply andb_true_iff in Hseq. destruct Hseq as [Hacc Hseq].
    destruct wp as [|x wp'] eqn:Ewp.
    + (* frame boundary *)
      cbn [app] in Hp. rewrite encode_frames_cons, <- app_assoc in Hp.
      destruct (rfin s) eqn:Efin.
      * (* the message is complete *)
        cbn [tail_lim] in Hmt. inversion Hmt; subst more pings after. clear Hmt.
        rewrite (read_loop_eof fl c _ s Herr Hrem Efin). cbn [rg_cont].
        eexists. split; [rewrite unmask_nil; reflexivity|]. cbn [rg_post lim_close map]. rsimpl.
        split; [rewrite !app_nil_r; reflexivity|].
        split; [apply rinvL_rinvL_end; apply (rinvL_upd L k s); auto|].
        rewrite encode_frames_cons, <- app_assoc. auto.
      * (* open message: the next frame is a control frame or a continuation *)
        cbn [negb] in Hacc, Hseq. cbn [tail_lim cont_lim] in Hmt. cbn [tail_cross cont_cross].
        assert (Hlenp : (length (pending (br s)) =
                         length (encode_frame f) + length (encode_frames fs ++ extra))%nat)
          by (rewrite Hp, app_length; reflexivity).
        pose proof (encode_frame_length_ge2 f) as Hge2.
        assert (Hrlf : rlen s + plen f + blen (encode_frames fs) < 2^63).
        { rewrite encode_frames_cons, blen_app in Hrl. pose proof (encode_frame_ge_plen f). lia. }
        assert (Haccs : frame_accZ (server c) (negotiated c) (negb (rfin s)) f = true)
          by (rewrite Efin; exact Hacc).
        destruct (acc_casesZ _ _ _ _ Hacc) as [(Hctl & Hop & _)|(Hctl & [(_ & Hxx)|(Hop & _)])];
          [| discriminate Hxx |].
        -- (* ping / pong *)
           rewrite Hctl in Hmt. rewrite Hctl. unfold next_open in Hseq. rewrite Hctl in Hseq.
           destruct (cont_lim L (rlen s) fs) as [[d1 p1] a1] eqn:Ecm. inversion Hmt; subst more pings after. clear Hmt.
           destruct (advance_ctlLZ L k c s f (encode_frames fs ++ extra) Hrinv Hch Hwff Haccs Hctl Hp)
             as (s1 & Hadv & Hrinv1 & Hrem1 & Hfin1 & Hrlen1 & Hp1 & Hwl1).
           rewrite (read_loop_adv fl c _ s (opcode f) s1 Herr Hrem Efin Hadv) by lia.
           destruct (IHfs 0%nat [] eq_refl s1 fa fl p acc d1 p1 a1) as (s' & Hres & Hwl' & Hend);
             [exact Hrinv1|exact Hrem1|exact Hp1|exact Hwfs|rewrite Hfin1, Efin; exact Hseq
             |rewrite Hrlen1; rewrite encode_frames_cons, blen_app in Hrl; lia
             |exact Hpi|rewrite Hp1; lia|rewrite Hp1; lia
             |rewrite Hfin1, Efin, Hrlen1; exact Ecm|].
           exists s'. split; [rewrite Hres, !unmask_nil; reflexivity|].
           split; [rewrite Hwl', Hwl1, map_app, <- !app_assoc; reflexivity|].
           rewrite Hfin1, Efin, Hrlen1 in Hend. exact Hend.
        -- (* continuation frame *)
           rewrite Hctl in Hmt. rewrite Hctl. unfold next_open in Hseq. rewrite Hctl in Hseq.
           assert (Hop0 : (opcode f =? 0) = true) by lia.
           destruct (crosses L (rlen s + plen f)) eqn:Ecr.
           ++ (* this frame takes the message over the limit *)
              inversion Hmt; subst more pings after. clear Hmt.
              apply crosses_true in Ecr. destruct Ecr as [HLpos HLlt].
              destruct (advance_data_toobigZ L k c s f (encode_frames fs ++ extra) Hrinv Hwff Haccs Hctl Hp)
                as (s1 & Hadv & Hwl1 & Hcs1 & Hp1 & Hrlen1 & Hrem1 & Herr1 & Hoof1 & Hec1 & Hinv1 & Hrlim1);
                [rewrite Hop0; lia|exact HLpos|rewrite Hop0; exact HLlt|].
              rewrite (read_loop_adv_err fl c _ s RReadLimit s1 Herr Hrem Efin Hadv eq_refl).
              rewrite rg_cont_err by reflexivity.
              eexists. split; [rewrite unmask_nil; reflexivity|].
              cbn [rg_post lim_close map app]. rsimpl.
              split; [exact Hwl1|]. split; [reflexivity|]. split; [exact Hcs1|]. split; [exact Hoof1|].
              split; [exact Hec1|]. split; [exact Hinv1|]. split; [exact Hrlim1|].
              exists f, fs. auto.
           ++ pose proof Ecr as Ecr'. apply crosses_false in Ecr.
           destruct (advance_data_withinZ L k c s f (encode_frames fs ++ extra) Hrinv Hwff Haccs Hctl Hp)
             as (s1 & Hadv & Hrinv1 & Hrem1 & Hfin1 & Hrlen1 & Hp1 & Hun1 & _ & Hwl1);
             [rewrite Hop0; lia|rewrite Hop0; exact Ecr|].
           rewrite Hop0 in Hrlen1.
           rewrite (read_loop_adv fl c _ s (opcode f) s1 Herr Hrem Efin Hadv) by lia.
           assert (Hwpl : (length (wire_payload f) <= length (encode_frame f) - 2)%nat).
           { rewrite encode_frame_decomp. cbn [length]. rewrite !app_length. lia. }
           assert (Hmt1 : exists more1, tail_lim L (rlen s + plen f) (fin f) fs = (more1, pings, after) /\
                                        more = payload f ++ more1).
           { destruct (fin f).
             - inversion Hmt; subst. exists []. rewrite app_nil_r. auto.
             - cbn [tail_lim]. destruct (cont_lim L (rlen s + plen f) fs) as [[d1 p1] a1]. inversion Hmt; subst.
               exists d1. auto. }
           destruct Hmt1 as (more1 & Hmt1 & ->).
           destruct (IHfs (length (wire_payload f)) (wire_payload f) eq_refl s1 fa fl p acc
                       more1 pings after) as (s' & Hres & Hwl' & Hend);
             [exact Hrinv1|rewrite Hrem1; symmetry; apply wire_payload_blen|exact Hp1|exact Hwfs
             |rewrite Hfin1; exact Hseq|rewrite Hrlen1; exact Hrlf
             |exact Hpi|rewrite Hp1, app_length; lia|rewrite Hp1, app_length; lia
             |rewrite Hfin1, Hrlen1; exact Hmt1|].
           exists s'. split; [rewrite Hres, Hun1, unmask_nil; reflexivity|].
           rewrite Hwl1 in Hwl'. split; [exact Hwl'|].
           rewrite Hfin1, Hrlen1 in Hend. unfold tail_cross in Hend.
           destruct (fin f); exact Hend.
    + (* inside a frame *)
      rewrite <- Ewp in *.
      assert (Hwne : wp <> []) by (rewrite Ewp; discriminate).
      pose proof (psize_pos p Hpi) as Hm.
      destruct (read_loop_chunkL L k c _ fl s wp (encode_frames (f :: fs) ++ extra) Hrinv Hm Hwne Hrem Hp)
        as (w1 & w2 & e & s1 & Hw & Hw1 & Hb1 & Hrl1 & Hp1 & Hrem1 & Hfin1 & Hrlen1 & Hwl1 & Hun &
            Hinv1 & Hbs1 & Hfl1 & Hoof1 & Hcs1 & Hrlim1 & Herr1 & Hec1 & He).
      rewrite Hrl1. cbn [rg_cont].
      assert (Hbu : blen (unmask c s w1) = blen w1) by (unfold blen; rewrite unmask_length; reflexivity).
      assert (Hlen1 : (length (pending (br s)) = length w1 + length (pending (br s1)))%nat).
      { rewrite Hp, Hp1, Hw, <- app_assoc, app_length. reflexivity. }
      assert (Hw1pos : (0 < length w1)%nat) by (destruct w1; [congruence|cbn [length]; lia]).
      assert (Hune : unmask c s w1 <> []).
      { intros Hq. apply (f_equal (@length N)) in Hq. rewrite unmask_length in Hq. cbn [length] in Hq. lia. }
      destruct He as [-> | [Hnil _]].
      * destruct fa as [|fa]; [lia|].
        rewrite read_gen_S. unfold reader_read.
        assert (Hrinv1 : rinvL L k s1) by (unfold rinvL; rewrite Hbs1, Hec1; auto 12).
        destruct (IHn (length w2) ltac:(subst n; rewrite Hw, app_length; lia) w2 eq_refl s1 fa
                    (fuel_of s1) (pnext p (unmask c s w1))
                    (acc ++ unmask c s w1) more pings after)
          as (s' & Hres & Hwl' & Hend);
          [exact Hrinv1|exact Hrem1|exact Hp1|exact Hwf
          |rewrite Hfin1; cbn [seq_okZ]; rewrite Hacc, Hseq; reflexivity
          |rewrite Hrlen1; exact Hrl
          |apply pnext_inv; [exact Hpi|exact Hune|rewrite Hbu; exact Hb1]
          |unfold fuel_of; lia|lia|rewrite Hfin1, Hrlen1; exact Hmt|].
        exists s'. split.
        { rewrite Hres. rewrite Hun, <- !app_assoc. reflexivity. }
        rewrite Hwl1 in Hwl'. split; [exact Hwl'|].
        rewrite Hfin1, Hrlen1 in Hend. exact Hend.
      * (* impossible: a whole frame is still pending *)
        exfalso. apply app_eq_nil in Hnil. destruct Hnil as [_ Hnil].
        apply app_eq_nil in Hnil. destruct Hnil as [Hnil _].
        apply encode_frames_nil_inv in Hnil. discriminate Hnil.
Qed.
End Gen.
End MainLZ.

(* ---------- the two instances: io.ReadAll and the flate reader's raw pull ---------- *)
Section InstancesLZ.
Variables (L:N) (k:errk) (c:rcfg) (extra:bytes).
Hypothesis Hch : custom_handlers c = false.
Hypothesis Hx : extra <> [] \/ k = EEOF.

Lemma ra_mainLZ fs wp s fa fl len cp acc more pings after :
  rinvL L k s -> rem s = blen wp -> pending (br s) = wp ++ encode_frames fs ++ extra ->
  Forall wf_frame fs -> seq_okZ (server c) (negotiated c) (negb (rfin s)) fs = true ->
  rlen s + blen (encode_frames fs) < 2^63 ->
  len < cp -> (length (pending (br s)) < fl)%nat -> (length (pending (br s)) <= fa)%nat ->
  tail_lim L (rlen s) (rfin s) fs = (more, pings, after) ->
  exists s', ra_cont fa c len cp acc (read_loop fl c (N.to_nat (cp - len)) s)
             = (acc ++ unmask c s wp ++ more, lim_err after, s') /\
    wlog s' = wlog s ++ map WPong pings ++ lim_close after /\
    rg_post L k extra s' after (tail_cross L (rlen s) (rfin s) fs).
Proof.
  intros Hrinv Hrem Hp Hwf Hseq Hrl Hlc Hfl Hfa Hmt.
  destruct (rg_mainL L k c extra Hch Hx (N*N) psizeA (pnextA c) pinvA psizeA_pos (pnextA_inv c)
              fs (length wp) wp eq_refl s fa fl (len, cp) acc more pings after
              Hrinv Hrem Hp Hwf Hseq Hrl Hlc Hfl Hfa Hmt) as (s' & Hres & Hend).
  exists s'. split; [|exact Hend].
  rewrite <- Hres. change (psizeA (len, cp)) with (N.to_nat (cp - len)).
  destruct (read_loop fl c (N.to_nat (cp - len)) s) as [[d e] s1].
  unfold ra_cont, rg_cont. destruct e as [e|]; [destruct e; reflexivity|].
  rewrite read_all_gen. reflexivity.
Qed.

Lemma rr_mainLZ fs wp s fa fl acc more pings after :
  rinvL L k s -> rem s = blen wp -> pending (br s) = wp ++ encode_frames fs ++ extra ->
  Forall wf_frame fs -> seq_okZ (server c) (negotiated c) (negb (rfin s)) fs = true ->
  rlen s + blen (encode_frames fs) < 2^63 ->
  (length (pending (br s)) < fl)%nat -> (length (pending (br s)) <= fa)%nat ->
  tail_lim L (rlen s) (rfin s) fs = (more, pings, after) ->
  exists s', rr_cont fa c acc (read_loop fl c 4096 s)
             = (acc ++ unmask c s wp ++ more, lim_err after, s') /\
    wlog s' = wlog s ++ map WPong pings ++ lim_close after /\
    rg_post L k extra s' after (tail_cross L (rlen s) (rfin s) fs).
Proof.
  intros Hrinv Hrem Hp Hwf Hseq Hrl Hfl Hfa Hmt.
  destruct (rg_mainL L k c extra Hch Hx unit psizeR pnextR (fun _ => True) psizeR_pos (fun _ _ _ _ _ => I)
              fs (length wp) wp eq_refl s fa fl tt acc more pings after
              Hrinv Hrem Hp Hwf Hseq Hrl I Hfl Hfa Hmt) as (s' & Hres & Hend).
  exists s'. split; [|exact Hend].
  rewrite <- Hres. change (psizeR tt) with 4096%nat.
  destruct (read_loop fl c 4096 s) as [[d e] s1].
  unfold rr_cont, rg_cont. destruct e as [e|]; [destruct e; reflexivity|].
  rewrite read_raw_gen. reflexivity.
Qed.
End InstancesLZ.

(* ============================== part C ============================== *)
(* the first message of a frame list under a limit, with its RSV1 flag.  When the very first
   frame is refused the application sees no message type (NextReader fails): (0, false, []) *)
Definition first_limZ (L:N) (fs:list frame)
  : option (N * bool * bytes * list bytes * option (list frame)) :=
  match find_data fs with
  | None => None
  | Some (p, f, r) =>
    if crosses L (plen f) then Some (0, false, [], p, None)
    else let '(more, p2, a) := tail_lim L (plen f) (fin f) r in
         Some (opcode f, rsv f =? 4, payload f ++ more, p ++ p2, a)
  end.

(* the frame at which reading the first message stops, and the frames after it *)
Definition first_cross (L:N) (fs:list frame) : option (frame * list frame) :=
  match find_data fs with
  | None => None
  | Some (p, f, r) =>
    if crosses L (plen f) then Some (f, r) else tail_cross L (plen f) (fin f) r
  end.

(* what ReadMessage returns: [d] is the WIRE payload collected from the message's frames *)
Definition lim_outZ (inflate : bytes -> option bytes) (ty:N) (cz:bool) (d:bytes)
    (a:option (list frame)) : rout :=
  match a with
  | Some _ => out_ofZ inflate (ty, cz, d)
  | None => RMsg ty (if cz then [] else d) (Some RReadLimit)
  end.

Section NextLZ.
Variables (L:N) (k:errk) (c:rcfg) (extra:bytes).
Hypothesis Hch : custom_handlers c = false.
Hypothesis Hx : extra <> [] \/ k = EEOF.

(* what NextReader's loop returns when [f] is the first data frame it meets *)
Definition nl_postZ (wl:list wback) (res:option N * rst) (f:frame) (r:list frame) : Prop :=
  (within L (plen f) ->
   exists s', res = (Some (opcode f), s') /\
    rinvL L k s' /\ rem s' = plen f /\ rfin s' = fin f /\ rlen s' = plen f /\
    pending (br s') = wire_payload f ++ encode_frames r ++ extra /\
    unmask c s' (wire_payload f) = payload f /\ rdecomp s' = (rsv f =? 4) /\
    wlog s' = wl /\
    Forall wf_frame r /\ seq_okZ (server c) (negotiated c) (negb (fin f)) r = true /\
    plen f + blen (encode_frames r) < 2^63 /\ (opcode f = 1 \/ opcode f = 2)) /\
  (0 < L -> L < plen f ->
   exists s', res = (None, s') /\ rerror s' = Some RReadLimit /\
    wlog s' = wl ++ [WCloseTooBig] /\ closesent s' = true /\ outoffuel s' = false /\
    errcount s' = 0%nat /\ binv (br s') /\ rlimit s' = L /\ rem s' = plen f /\
    pending (br s') = wire_payload f ++ encode_frames r ++ extra).

Lemma next_loopLZ : forall fs s w fuel more0 pings0 fs1 p f r,
  rinvL L k s -> rem s = blen w -> pending (br s) = w ++ encode_frames fs ++ extra ->
  Forall wf_frame fs -> seq_okZ (server c) (negotiated c) (negb (rfin s)) fs = true ->
  rlen s + blen (encode_frames fs) < 2^63 -> (length (pending (br s)) < fuel)%nat ->
  tail_lim L (rlen s) (rfin s) fs = (more0, pings0, Some fs1) ->
  find_data fs1 = Some (p, f, r) ->
  nl_postZ (wlog s ++ map WPong (pings0 ++ p)) (next_loop fuel c s) f r.
Proof.
  induction fs as [|g fs IH];
    intros s w fuel more0 pings0 fs1 p f r Hrinv Hrem Hp Hwf Hseq Hlen Hfuel Hmt Hfd.
  { (* no frame: there is no next message *)
    exfalso. unfold tail_lim in Hmt. cbn [cont_lim] in Hmt.
    destruct (rfin s); inversion Hmt; subst fs1; discriminate Hfd. }
  pose proof Hrinv as (Hinv & Hbs & Hflt & Herr & Hoof & Hcs & Hrlim & Hecnt).
  inversion Hwf as [|g' fs' Hwfg Hwfs]; subst g' fs'.
  cbn [seq_okZ] in Hseq. apply andb_true_iff in Hseq. destruct Hseq as [Hacc Hseq].
  destruct (advance_frame_skip L k c s w (encode_frames (g :: fs) ++ extra) Hrinv Hrem Hp)
    as (b' & Hskip & Hpb & Hrinvb).
  set (sb := s <| br := b' |>) in *.
  assert (Hpsb : pending (br sb) = encode_frame g ++ encode_frames fs ++ extra).
  { subst sb. rsimpl. rewrite Hpb, encode_frames_cons, <- app_assoc. reflexivity. }
  assert (Hlsb : (length (pending (br s)) = length w + length (pending (br sb)))%nat).
  { rewrite Hp, Hpsb, encode_frames_cons, <- app_assoc, app_length. reflexivity. }
  rewrite encode_frames_cons, blen_app in Hlen.
  pose proof (encode_frame_length_ge2 g) as Hge2.
  assert (Hlenp : (length (pending (br sb)) =
                   length (encode_frame g) + length (encode_frames fs ++ extra))%nat)
    by (rewrite Hpsb, app_length; reflexivity).
  assert (Haccs : frame_accZ (server c) (negotiated c) (negb (rfin sb)) g = true) by exact Hacc.
  destruct fuel as [|fuel]; [lia|].
  unfold next_open in Hseq.
  destruct (acc_casesZ _ _ _ _ Hacc) as [(Hctl & Hop & _)|(Hctl & [(Hop & Hopen)|(Hop & Hopen)])].
  - (* ping / pong: answered, the loop goes on *)
    rewrite Hctl in Hseq.
    destruct (advance_ctlLZ L k c sb g (encode_frames fs ++ extra) Hrinvb Hch Hwfg Haccs Hctl Hpsb)
      as (s1 & Hadv & Hrinv1 & Hrem1 & Hfin1 & Hrlen1 & Hp1 & Hwl1).
    rewrite <- Hskip in Hadv.
    rewrite (next_loop_step_more fuel c s (opcode g) s1 Herr Hadv) by lia.
    change (rfin sb) with (rfin s) in Hfin1. change (rlen sb) with (rlen s) in Hrlen1.
    change (wlog sb) with (wlog s) in Hwl1.
    destruct (rfin s) eqn:Efin.
    + (* idle: looking for the first frame of the next message *)
      cbn [tail_lim] in Hmt. inversion Hmt; subst more0 pings0 fs1. clear Hmt.
      cbn [find_data] in Hfd. rewrite Hctl in Hfd.
      destruct (find_data fs) as [[[p1 d1] a1]|] eqn:Efd; [|discriminate Hfd].
      inversion Hfd; subst p d1 a1. clear Hfd.
      replace (wlog s ++ map WPong ([] ++ ping1 g ++ p1)) with (wlog s1 ++ map WPong ([] ++ p1))
        by (cbn [app]; rewrite Hwl1, map_app, app_assoc; reflexivity).
      apply (IH s1 [] fuel [] [] fs p1 f r Hrinv1 Hrem1 Hp1 Hwfs);
        [rewrite Hfin1; exact Hseq|rewrite Hrlen1; lia|rewrite Hp1; lia
        |rewrite Hfin1; reflexivity|exact Efd].
    + (* skipping the rest of an abandoned message *)
      cbn [tail_lim cont_lim] in Hmt. rewrite Hctl in Hmt.
      destruct (cont_lim L (rlen s) fs) as [[d1 p1] a1] eqn:Ecm.
      inversion Hmt; subst more0 pings0 a1. clear Hmt.
      replace (wlog s ++ map WPong ((ping1 g ++ p1) ++ p)) with (wlog s1 ++ map WPong (p1 ++ p))
        by (rewrite Hwl1, <- (app_assoc (ping1 g)), (map_app _ (ping1 g)), app_assoc; reflexivity).
      apply (IH s1 [] fuel d1 p1 fs1 p f r Hrinv1 Hrem1 Hp1 Hwfs);
        [rewrite Hfin1; exact Hseq|rewrite Hrlen1; lia|rewrite Hp1; lia
        |rewrite Hfin1, Hrlen1; exact Ecm|exact Hfd].
  - (* a text / binary frame: the next message starts here *)
    assert (Efin : rfin s = true) by (destruct (rfin s); [reflexivity|discriminate Hopen]).
    rewrite Efin in Hmt. cbn [tail_lim] in Hmt. inversion Hmt; subst more0 pings0 fs1. clear Hmt.
    cbn [find_data] in Hfd. rewrite Hctl in Hfd. inversion Hfd; subst p g fs. clear Hfd.
    rewrite Hctl in Hseq.
    assert (Hop0 : (opcode f =? 0) = false) by lia.
    pose proof (encode_frame_ge_plen f) as Hgep.
    cbn [app map]. rewrite app_nil_r.
    split.
    + intros Hwithin.
      destruct (advance_data_withinZ L k c sb f (encode_frames r ++ extra) Hrinvb Hwfg Haccs Hctl Hpsb)
        as (s1 & Hadv & Hrinv1 & Hrem1 & Hfin1 & Hrlen1 & Hp1 & Hun1 & Hdec1 & Hwl1);
        [rewrite Hop0; lia|rewrite Hop0; exact Hwithin|].
      rewrite Hop0 in Hrlen1. rewrite <- Hskip in Hadv.
      rewrite (next_loop_step_data fuel c s (opcode f) s1 Herr Hadv Hop).
      eexists. split; [reflexivity|]. unfold unmask in *. rsimpl.
      split; [apply (rinvL_same L k s1); [exact Hrinv1|reflexivity ..]|].
      change (wlog sb) with (wlog s) in Hwl1.
      repeat split; try assumption; try lia.
    + intros HLpos HLlt.
      destruct (advance_data_toobigZ L k c sb f (encode_frames r ++ extra) Hrinvb Hwfg Haccs Hctl Hpsb)
        as (s1 & Hadv & Hwl1 & Hcs1 & Hp1 & Hrlen1 & Hrem1 & Herr1 & Hoof1 & Hec1 & Hinv1 & Hrlim1);
        [rewrite Hop0; lia|exact HLpos|rewrite Hop0; exact HLlt|].
      rewrite <- Hskip in Hadv.
      rewrite (next_loop_step_err fuel c s RReadLimit s1 Herr Hadv).
      eexists. split; [reflexivity|]. rsimpl.
      change (wlog sb) with (wlog s) in Hwl1. auto 12.
  - (* a continuation frame of the abandoned message *)
    assert (Efin : rfin s = false) by (destruct (rfin s); [discriminate Hopen|reflexivity]).
    rewrite Efin in Hmt. cbn [tail_lim cont_lim] in Hmt. rewrite Hctl in Hmt.
    rewrite Hctl in Hseq.
    assert (Hop0 : (opcode g =? 0) = true) by lia.
    destruct (crosses L (rlen s + plen g)) eqn:Ecr; [discriminate Hmt|].
    apply crosses_false in Ecr.
    pose proof (encode_frame_ge_plen g) as Hgep.
    destruct (advance_data_withinZ L k c sb g (encode_frames fs ++ extra) Hrinvb Hwfg Haccs Hctl Hpsb)
      as (s1 & Hadv & Hrinv1 & Hrem1 & Hfin1 & Hrlen1 & Hp1 & Hun1 & Hdec1 & Hwl1);
      [rewrite Hop0; change (rlen sb) with (rlen s); lia|rewrite Hop0; exact Ecr|].
    rewrite Hop0 in Hrlen1. change (rlen sb) with (rlen s) in Hrlen1.
    change (wlog sb) with (wlog s) in Hwl1.
    rewrite <- Hskip in Hadv.
    rewrite (next_loop_step_more fuel c s (opcode g) s1 Herr Hadv) by lia.
    assert (Hwpl : (length (wire_payload g) <= length (encode_frame g) - 2)%nat).
    { rewrite encode_frame_decomp. cbn [length]. rewrite !app_length. lia. }
    assert (Hmt1 : exists more1, tail_lim L (rlen s + plen g) (fin g) fs = (more1, pings0, Some fs1)).
    { destruct (fin g).
      - inversion Hmt; subst. exists []. reflexivity.
      - cbn [tail_lim]. destruct (cont_lim L (rlen s + plen g) fs) as [[d1 p1] a1]. inversion Hmt; subst.
        exists d1. reflexivity. }
    destruct Hmt1 as (more1 & Hmt1).
    rewrite <- Hwl1.
    apply (IH s1 (wire_payload g) fuel more1 pings0 fs1 p f r Hrinv1);
      [rewrite Hrem1; symmetry; apply wire_payload_blen|exact Hp1|exact Hwfs
      |rewrite Hfin1; exact Hseq|rewrite Hrlen1; lia|rewrite Hp1, app_length; lia
      |rewrite Hfin1, Hrlen1; exact Hmt1|exact Hfd].
Qed.

(* ---------- ReadMessage under a read limit, from any state of the previous message ---------- *)
(* [x] = the frame at which reading stops and what follows it, when a frame crosses the limit *)
Definition rm_postZ (s':rst) (after:option (list frame)) (x:option (frame * list frame)) : Prop :=
  match after with
  | Some a => rinvL_end L k s' /\ rem s' = 0 /\ rfin s' = true /\
              pending (br s') = encode_frames a ++ extra
  | None => rerror s' = Some RReadLimit /\ closesent s' = true /\ outoffuel s' = false /\
            binv (br s') /\ rlimit s' = L /\
            exists f r, x = Some (f, r) /\ rem s' = plen f /\
              pending (br s') = wire_payload f ++ encode_frames r ++ extra
  end.

(* The state [s'] and everything said about it do not depend on [inflate]: the flate reader is
   only consulted (once, on the complete wire payload) when the whole message has been read. *)
Theorem read_message_limitZ fs s w more0 pings0 fs1 ty cz d p a :
  rinvL L k s -> rem s = blen w -> pending (br s) = w ++ encode_frames fs ++ extra ->
  Forall wf_frame fs -> seq_okZ (server c) (negotiated c) (negb (rfin s)) fs = true ->
  blen (encode_frames fs) < 2^63 ->
  tail_lim L 0 (rfin s) fs = (more0, pings0, Some fs1) ->
  first_limZ L fs1 = Some (ty, cz, d, p, a) ->
  exists s', (forall inflate, read_message inflate c s = (lim_outZ inflate ty cz d a, s')) /\
    wlog s' = wlog s ++ map WPong (pings0 ++ p) ++ lim_close a /\
    rm_postZ s' a (first_cross L fs1).
Proof.
  intros Hrinv Hrem Hp Hwf Hseq Hlen Hmt Hfl.
  unfold first_limZ in Hfl. unfold first_cross.
  destruct (find_data fs1) as [[[p1 f] r]|] eqn:Efd; [|discriminate Hfl].
  set (s0 := s <| cur := None |> <| rlen := 0 |>).
  assert (Hrinv0 : rinvL L k s0) by (apply (rinvL_same L k s); [exact Hrinv|reflexivity ..]).
  destruct (next_loopLZ fs s0 w (fuel_of s0) more0 pings0 fs1 p1 f r Hrinv0 Hrem Hp Hwf Hseq)
    as [Hok Hbig]; [exact Hlen|unfold fuel_of; lia|exact Hmt|exact Efd|].
  change (wlog s0) with (wlog s) in Hok, Hbig.
  unfold read_message, next_reader. fold s0.
  destruct (crosses L (plen f)) eqn:Ecr.
  - (* the very first frame of the message is over the limit *)
    inversion Hfl; subst ty cz d p a. clear Hfl.
    apply crosses_true in Ecr. destruct Ecr as [HLpos HLlt].
    destruct (Hbig HLpos HLlt) as (s1 & Hnl & Herr1 & Hwl1 & Hcs1 & Hoof1 & Hec1 & Hinv1 & Hrlim1 & Hrem1 & Hp1).
    rewrite Hnl. cbv iota zeta. rsimpl. rewrite Hec1. cbn [Nat.leb]. rewrite Herr1.
    eexists. split; [intros inflate; reflexivity|]. cbn [lim_close rm_postZ]. rsimpl.
    split; [rewrite Hwl1, app_assoc; reflexivity|].
    split; [exact Herr1|]. split; [exact Hcs1|]. split; [exact Hoof1|]. split; [exact Hinv1|].
    split; [exact Hrlim1|]. exists f, r. auto.
  - apply crosses_false in Ecr.
    destruct (tail_lim L (plen f) (fin f) r) as [[more p2] a2] eqn:Emt.
    inversion Hfl; subst ty cz d p a2. clear Hfl.
    destruct (Hok Ecr) as
      (s1 & Hnl & Hrinv1 & Hrem1 & Hfin1 & Hrlen1 & Hp1 & Hun1 & Hdec1 & Hwl1 & Hwfr & Hseqr & Hlenr & Hop).
    rewrite Hnl. cbv iota. rewrite Hdec1.
    destruct (rsv f =? 4); cbv iota.
    + (* compressed: the flate reader pulls the raw bytes of the whole message *)
      unfold fuel_of at 1. rewrite read_raw_S. unfold reader_read.
      destruct (rr_mainLZ L k c extra Hch Hx r (wire_payload f) s1
                  (S (length (pending (br s1)))) (fuel_of s1) [] more p2 a)
        as (s' & Hres & Hwl' & Hend);
        [exact Hrinv1|rewrite Hrem1; symmetry; apply wire_payload_blen|exact Hp1|exact Hwfr
        |rewrite Hfin1; exact Hseqr|rewrite Hrlen1; exact Hlenr|unfold fuel_of; lia|lia
        |rewrite Hfin1, Hrlen1; exact Emt|].
      rewrite Hres. cbn [app]. rewrite Hun1.
      exists s'. split.
      { intros inflate. destruct a as [a|]; cbn [lim_err lim_outZ out_ofZ]; [|reflexivity].
        destruct (inflate ((payload f ++ more) ++ ws_tail)); reflexivity. }
      split.
      { rewrite Hwl', Hwl1, !map_app, <- !app_assoc. reflexivity. }
      rewrite Hfin1, Hrlen1 in Hend.
      destruct a as [a|]; cbn [rg_post rm_postZ] in *; [exact Hend|].
      destruct Hend as (E1 & E2 & E3 & E4 & E5 & E6 & E7). auto 10.
    + (* uncompressed: io.ReadAll *)
      unfold fuel_of at 1. rewrite read_all_S. unfold reader_read.
      destruct (ra_mainLZ L k c extra Hch Hx r (wire_payload f) s1
                  (S (length (pending (br s1)))) (fuel_of s1) 0 512 [] more p2 a)
        as (s' & Hres & Hwl' & Hend);
        [exact Hrinv1|rewrite Hrem1; symmetry; apply wire_payload_blen|exact Hp1|exact Hwfr
        |rewrite Hfin1; exact Hseqr|rewrite Hrlen1; exact Hlenr|lia|unfold fuel_of; lia|lia
        |rewrite Hfin1, Hrlen1; exact Emt|].
      rewrite Hres. cbn [app]. rewrite Hun1.
      exists s'. split.
      { intros inflate. destruct a as [a|]; reflexivity. }
      split.
      { rewrite Hwl', Hwl1, !map_app, <- !app_assoc. reflexivity. }
      rewrite Hfin1, Hrlen1 in Hend.
      destruct a as [a|]; cbn [rg_post rm_postZ] in *; [exact Hend|].
      destruct Hend as (E1 & E2 & E3 & E4 & E5 & E6 & E7). auto 10.
Qed.
End NextLZ.

(* ============================== part D ============================== *)
(* ---------- pure facts: the limited view vs the unlimited view of a frame list ---------- *)
Lemma first_limZ_first_lim L fs ty cz d p a :
  first_limZ L fs = Some (ty, cz, d, p, a) -> first_lim L fs = Some (ty, d, p, a).
Proof.
  unfold first_limZ, first_lim. destruct (find_data fs) as [[[p1 f] r]|]; [|discriminate].
  destruct (crosses L (plen f)); [intros H; inversion H; reflexivity|].
  destruct (tail_lim L (plen f) (fin f) r) as [[more p2] a2]. intros H. inversion H. reflexivity.
Qed.

Lemma first_limZ_within L fs ty cz d p a :
  first_msgZ fs = Some (ty, cz, d, p, a) -> within L (blen d) ->
  first_limZ L fs = Some (ty, cz, d, p, Some a).
Proof.
  unfold first_msgZ, first_limZ. intros H Hw.
  destruct (find_data fs) as [[[p1 f] r]|]; [|discriminate H].
  destruct (msg_tail (fin f) r) as [[more p2] a2] eqn:Emt. inversion H; subst ty cz d p a2. clear H.
  rewrite blen_app in Hw.
  replace (crosses L (plen f)) with false
    by (symmetry; apply crosses_false; apply (within_mono L _ _ Hw); unfold plen; lia).
  rewrite (tail_lim_within L (plen f) (fin f) r more p2 a Emt Hw). reflexivity.
Qed.

Lemma first_limZ_bound L fs ty cz d p a :
  0 < L -> first_limZ L fs = Some (ty, cz, d, p, a) -> blen d <= L.
Proof. intros HL H. exact (first_lim_bound L fs ty d p a HL (first_limZ_first_lim _ _ _ _ _ _ _ H)). Qed.

Lemma first_limZ_over L fs ty cz d p a :
  0 < L -> first_msgZ fs = Some (ty, cz, d, p, a) -> L < blen d ->
  exists ty' cz' d' p' x y, first_limZ L fs = Some (ty', cz', d', p', None) /\
    d = d' ++ x /\ p = p' ++ y /\
    ((ty' = ty /\ cz' = cz) \/ (ty' = 0 /\ cz' = false /\ d' = [])).
Proof.
  intros HL H Hbig. unfold first_msgZ in H. unfold first_limZ.
  destruct (find_data fs) as [[[p1 f] r]|]; [|discriminate H].
  destruct (msg_tail (fin f) r) as [[more p2] a2] eqn:Emt. inversion H; subst ty cz d p a2. clear H.
  destruct (crosses L (plen f)) eqn:Ecr.
  - exists 0, false, [], p1, (payload f ++ more), p2. auto 10.
  - apply crosses_false in Ecr. destruct Ecr as [Ecr|Ecr]; [lia|].
    rewrite blen_app in Hbig. unfold msg_tail in Emt. unfold tail_lim. destruct (fin f).
    + inversion Emt; subst more. change (blen []) with 0 in Hbig. unfold plen in Ecr. lia.
    + destruct (cont_lim_over L HL r (plen f) more p2 a Emt Ecr Hbig) as (d' & p' & x & y & H1 & H2 & H3).
      rewrite H1. exists (opcode f), (rsv f =? 4), (payload f ++ d'), (p1 ++ p'), x, y.
      rewrite H2, H3, !app_assoc. auto 10.
Qed.

(* ---------- where the reader stops: characterisation of [cont_cross] / [first_cross] -------- *)
(* wire payload of the data frames of a frame list (control frames do not count) *)
Definition dpay (fs:list frame) : bytes :=
  flat_map (fun g => if is_control (opcode g) then [] else payload g) fs.

Lemma dpay_cons g fs : dpay (g :: fs) = (if is_control (opcode g) then [] else payload g) ++ dpay fs.
Proof. reflexivity. Qed.

Lemma dpay_app a b : dpay (a ++ b) = dpay a ++ dpay b.
Proof. unfold dpay. apply flat_map_app. Qed.

Lemma dpay_all_ctl cs : all_ctl cs = true -> dpay cs = [].
Proof.
  induction cs as [|g cs IH]; intros H; [reflexivity|].
  rewrite all_ctl_cons in H. apply andb_true_iff in H. destruct H as [H1 H2].
  rewrite dpay_cons, H1, (IH H2). reflexivity.
Qed.

Lemma cont_cross_spec L : forall fs used f r, cont_cross L used fs = Some (f, r) ->
  exists pre, fs = pre ++ f :: r /\ is_control (opcode f) = false /\
    0 < L /\ L < used + blen (dpay pre) + plen f /\ (used <= L -> used + blen (dpay pre) <= L) /\
    cont_lim L used fs = (dpay pre, pings_of pre, None).
Proof.
  induction fs as [|g fs IH]; intros used f r H; [discriminate H|].
  cbn [cont_cross] in H. cbn [cont_lim].
  destruct (is_control (opcode g)) eqn:Hctl.
  - destruct (IH used f r H) as (pre & H1 & H2 & H3 & H4 & H5 & H6).
    exists (g :: pre). rewrite dpay_cons, Hctl, H6, pings_of_cons. cbn [app].
    split; [rewrite H1; reflexivity|]. auto 10.
  - destruct (crosses L (used + plen g)) eqn:Ecr.
    + inversion H; subst g fs. clear H. apply crosses_true in Ecr. destruct Ecr as [HL Hlt].
      exists []. cbn [dpay flat_map app pings_of]. change (blen []) with 0.
      split; [reflexivity|]. split; [exact Hctl|]. split; [exact HL|].
      split; [lia|]. split; [lia|reflexivity].
    + destruct (fin g); [discriminate H|].
      destruct (IH (used + plen g) f r H) as (pre & H1 & H2 & H3 & H4 & H5 & H6).
      apply crosses_false in Ecr.
      exists (g :: pre). rewrite dpay_cons, Hctl, H6, pings_of_cons, (ping1_nonctl g Hctl), blen_app.
      cbn [app]. fold (plen g).
      split; [rewrite H1; reflexivity|]. split; [exact H2|]. split; [exact H3|].
      split; [lia|]. split; [|reflexivity].
      intros Hu. destruct Ecr as [Ecr|Ecr]; lia.
Qed.

Lemma find_data_split : forall fs p f r, find_data fs = Some (p, f, r) ->
  exists cs, fs = cs ++ f :: r /\ all_ctl cs = true /\ pings_of cs = p /\
    is_control (opcode f) = false.
Proof.
  induction fs as [|g fs IH]; intros p f r H; [discriminate H|].
  cbn [find_data] in H. destruct (is_control (opcode g)) eqn:Hctl.
  - destruct (find_data fs) as [[[p1 d1] a1]|] eqn:Er; [|discriminate H].
    inversion H; subst p d1 a1. clear H.
    destruct (IH p1 f r eq_refl) as (cs & H1 & H2 & H3 & H4).
    exists (g :: cs). rewrite H1, all_ctl_cons, Hctl, H2, pings_of_cons, H3. auto.
  - inversion H; subst p g fs. exists []. auto.
Qed.

(* The frame [f] at which reading the first message stops is a data / continuation frame; the
   wire payload of the message's frames before it ([dpay pre]) is within the limit, with [f]'s
   declared length it is over the limit; [dpay pre] is exactly what has been collected. *)
Theorem first_cross_spec L fs f r : first_cross L fs = Some (f, r) ->
  exists pre, fs = pre ++ f :: r /\ is_control (opcode f) = false /\
    0 < L /\ blen (dpay pre) <= L /\ L < blen (dpay pre) + plen f /\
    exists ty cz, first_limZ L fs = Some (ty, cz, dpay pre, pings_of pre, None).
Proof.
  unfold first_cross, first_limZ. intros H.
  destruct (find_data fs) as [[[p1 f0] r0]|] eqn:Efd; [|discriminate H].
  destruct (find_data_split fs p1 f0 r0 Efd) as (cs & Hfs & Hcs & Hp & Hctl0).
  destruct (crosses L (plen f0)) eqn:Ecr.
  - inversion H; subst f0 r0. clear H. apply crosses_true in Ecr. destruct Ecr as [HL Hlt].
    exists cs. rewrite (dpay_all_ctl cs Hcs), Hp. change (blen []) with 0.
    split; [exact Hfs|]. split; [exact Hctl0|]. split; [exact HL|]. split; [lia|]. split; [lia|].
    exists 0, false. reflexivity.
  - unfold tail_cross in H. unfold tail_lim. destruct (fin f0); [discriminate H|].
    destruct (cont_cross_spec L r0 (plen f0) f r H) as (pre & H1 & H2 & H3 & H4 & H5 & H6).
    apply crosses_false in Ecr.
    assert (Hle : plen f0 <= L) by (destruct Ecr as [Ecr|Ecr]; lia).
    exists (cs ++ f0 :: pre).
    rewrite dpay_app, (dpay_all_ctl cs Hcs), dpay_cons, Hctl0, H6. cbn [app]. rewrite blen_app.
    fold (plen f0). pose proof (H5 Hle) as H7.
    split; [rewrite Hfs, H1, <- app_assoc; reflexivity|]. split; [exact H2|]. split; [exact H3|].
    split; [exact H7|]. split; [lia|].
    exists (opcode f0), (rsv f0 =? 4).
    rewrite pings_of_app, pings_of_cons, (ping1_nonctl f0 Hctl0), Hp. reflexivity.
Qed.

(* ============================================================================================ *)
(* 1. One data frame under a read limit, RSV1 allowed                                           *)
(* ============================================================================================ *)
Lemma data_opcodeZ srv ng open f : frame_accZ srv ng open f = true -> is_control (opcode f) = false ->
  opcode f = 0 \/ opcode f = 1 \/ opcode f = 2.
Proof.
  intros Hacc Hctl. destruct (acc_casesZ _ _ _ _ Hacc) as [(Hc & _)|(_ & [(Ho & _)|(Ho & _)])];
    [congruence|lia|lia].
Qed.

Theorem data_frame_step_limitZ L k c s f rest :
  rinvL L k s -> wf_frame f -> frame_accZ (server c) (negotiated c) (negb (rfin s)) f = true ->
  is_control (opcode f) = false -> rem s = 0 ->
  pending (br s) = encode_frame f ++ rest ->
  let rl := (if is_data_op (opcode f) then 0 else rlen s) + plen f in
  (* within the limit (or no limit): the frame is accepted; RSV1 is recorded for the message *)
  (rl < 2^63 -> L = 0 \/ rl <= L ->
   exists s', advance_frame c s = (AFrame (opcode f), s') /\
     rinvL L k s' /\ rem s' = plen f /\ rfin s' = fin f /\ rlen s' = rl /\
     pending (br s') = wire_payload f ++ rest /\
     unmask c s' (wire_payload f) = payload f /\ rdecomp s' = (rsv f =? 4) /\ wlog s' = wlog s) /\
  (* over the limit: ErrReadLimit, close 1009, and only the header has been consumed *)
  (rl < 2^63 -> 0 < L -> L < rl ->
   exists s', advance_frame c s = (AErr RReadLimit, s') /\
     wlog s' = wlog s ++ [WCloseTooBig] /\ closesent s' = true /\
     pending (br s') = wire_payload f ++ rest /\ rlen s' = rl /\ rem s' = plen f) /\
  (* the running sum leaves the int64 range: the same *)
  (2^63 <= rl ->
   exists s', advance_frame c s = (AErr RReadLimit, s') /\
     wlog s' = wlog s ++ [WCloseTooBig] /\ closesent s' = true /\
     pending (br s') = wire_payload f ++ rest /\ rem s' = plen f).
Proof.
  intros Hrinv Hwf Hacc Hctl Hrem Hp rl.
  pose proof (data_opcodeZ _ _ _ _ Hacc Hctl) as Hop.
  subst rl. rewrite (rl_form f (rlen s) Hop). rewrite (advance_frame_rem0 c s Hrem).
  split; [|split].
  - intros Hlt Hw. exact (advance_data_withinZ L k c s f rest Hrinv Hwf Hacc Hctl Hp Hlt Hw).
  - intros Hlt HL Hbig.
    destruct (advance_data_toobigZ L k c s f rest Hrinv Hwf Hacc Hctl Hp Hlt HL Hbig)
      as (s' & H1 & H2 & H3 & H4 & H5 & H6 & _).
    exists s'. auto 10.
  - intros Hov.
    destruct (advance_data_overflowZ L k c s f rest Hrinv Hwf Hacc Hctl Hp Hov)
      as (s' & H1 & H2 & H3 & H4 & H5 & _).
    exists s'. auto 10.
Qed.

Section TheoremsZ.
Variables (L:N) (k:errk) (c:rcfg) (extra:bytes).
Hypothesis Hch : custom_handlers c = false.
Hypothesis Hx : extra <> [] \/ k = EEOF.

(* ============================================================================================ *)
(* 2. Completeness: a message whose WIRE payload is within the limit is read in full            *)
(*    (and inflated when its first frame carries RSV1), whatever was done with earlier messages *)
(* ============================================================================================ *)
Theorem abandoned_then_next_message_readZ fs s w more0 pings0 fs1 ty cz d p a :
  rinvL L k s -> rem s = blen w -> pending (br s) = w ++ encode_frames fs ++ extra ->
  Forall wf_frame fs -> seq_okZ (server c) (negotiated c) (negb (rfin s)) fs = true ->
  blen (encode_frames fs) < 2^63 ->
  msg_tail (rfin s) fs = (more0, pings0, fs1) -> L = 0 \/ blen more0 <= L ->
  first_msgZ fs1 = Some (ty, cz, d, p, a) -> L = 0 \/ blen d <= L ->
  exists s', (forall inflate, read_message inflate c s = (out_ofZ inflate (ty, cz, d), s')) /\
    rinvL_end L k s' /\ rem s' = 0 /\ rfin s' = true /\
    pending (br s') = encode_frames a ++ extra /\ wlog s' = wlog s ++ map WPong (pings0 ++ p).
Proof.
  intros Hrinv Hrem Hp Hwf Hseq Hlen Hmt Hw0 Hfm Hw.
  destruct (read_message_limitZ L k c extra Hch Hx fs s w more0 pings0 fs1 ty cz d p (Some a) Hrinv)
    as (s' & Hrm & Hwl & (E1 & E2 & E3 & E4));
    [exact Hrem|exact Hp|exact Hwf|exact Hseq|exact Hlen
    |apply tail_lim_within; [exact Hmt|exact Hw0]|apply first_limZ_within; assumption|].
  exists s'. cbn [lim_err lim_close lim_outZ app] in *. rewrite app_nil_r in Hwl. auto 10.
Qed.

Corollary within_limit_message_readZ fs s ty cz d p a :
  rinvL L k s -> rem s = 0 -> rfin s = true ->
  pending (br s) = encode_frames fs ++ extra ->
  Forall wf_frame fs -> seq_okZ (server c) (negotiated c) false fs = true ->
  blen (encode_frames fs) < 2^63 ->
  first_msgZ fs = Some (ty, cz, d, p, a) -> L = 0 \/ blen d <= L ->
  exists s', (forall inflate, read_message inflate c s = (out_ofZ inflate (ty, cz, d), s')) /\
    rinvL_end L k s' /\ rem s' = 0 /\ rfin s' = true /\
    pending (br s') = encode_frames a ++ extra /\ wlog s' = wlog s ++ map WPong p.
Proof.
  intros Hrinv Hrem Hfin Hp Hwf Hseq Hlen Hfm Hw.
  apply (abandoned_then_next_message_readZ fs s [] [] [] fs ty cz d p a Hrinv);
    [exact Hrem|exact Hp|exact Hwf|rewrite Hfin; exact Hseq|exact Hlen|rewrite Hfin; reflexivity
    |right; change (blen []) with 0; lia|exact Hfm|exact Hw].
Qed.

(* ============================================================================================ *)
(* 3. Soundness: a message whose wire payload exceeds the limit is never read in full.          *)
(*    [fj] is the frame at which the running wire total crosses L (see first_cross_spec):       *)
(*    the reader stops right after fj's header, no payload byte of fj is consumed; ErrReadLimit *)
(*    is returned, a 1009 close is queued, the error is permanent.  The result and the final    *)
(*    state are the same for EVERY [inflate]: nothing of the message reaches the flate reader;  *)
(*    for a compressed message no byte is handed to the application, for an uncompressed one    *)
(*    the prefix [d'] (at most L bytes).                                                        *)
(* ============================================================================================ *)
Theorem over_limit_never_completeZ_general fs s w more0 pings0 fs1 ty cz d p a :
  0 < L ->
  rinvL L k s -> rem s = blen w -> pending (br s) = w ++ encode_frames fs ++ extra ->
  Forall wf_frame fs -> seq_okZ (server c) (negotiated c) (negb (rfin s)) fs = true ->
  blen (encode_frames fs) < 2^63 ->
  msg_tail (rfin s) fs = (more0, pings0, fs1) -> blen more0 <= L ->
  first_msgZ fs1 = Some (ty, cz, d, p, a) -> L < blen d ->
  exists ty' d' p' x y fj rj s',
    (forall inflate,
       read_message inflate c s = (RMsg ty' (if cz then [] else d') (Some RReadLimit), s')) /\
    blen d' <= L /\ d = d' ++ x /\ p = p' ++ y /\ (ty' = ty \/ (ty' = 0 /\ d' = [])) /\
    wlog s' = wlog s ++ map WPong (pings0 ++ p') ++ [WCloseTooBig] /\
    rerror s' = Some RReadLimit /\ closesent s' = true /\ outoffuel s' = false /\
    first_cross L fs1 = Some (fj, rj) /\ rem s' = plen fj /\
    pending (br s') = wire_payload fj ++ encode_frames rj ++ extra /\
    (forall inflate ops, exists rs s'', run_ops inflate c s' ops = (rs, s'') /\
                                frozen s' s'' /\ Forall is_failure rs).
Proof.
  intros HL Hrinv Hrem Hp Hwf Hseq Hlen Hmt Hw0 Hfm Hbig.
  destruct (first_limZ_over L fs1 ty cz d p a HL Hfm Hbig)
    as (ty' & cz' & d' & p' & x & y & Hfl & Hd & Hpp & Hty).
  destruct (read_message_limitZ L k c extra Hch Hx fs s w more0 pings0 fs1 ty' cz' d' p' None Hrinv)
    as (s' & Hrm & Hwl & (E1 & E2 & E3 & E4 & E5 & (fj & rj & E6 & E7 & E8)));
    [exact Hrem|exact Hp|exact Hwf|exact Hseq|exact Hlen
    |apply tail_lim_within; [exact Hmt|right; exact Hw0]|exact Hfl|].
  exists ty', d', p', x, y, fj, rj, s'. cbn [lim_err lim_close lim_outZ] in *.
  split.
  { intros inflate. rewrite (Hrm inflate).
    destruct Hty as [(_ & ->)|(_ & -> & ->)]; [reflexivity|destruct cz; reflexivity]. }
  split; [exact (first_limZ_bound L fs1 ty' cz' d' p' None HL Hfl)|].
  split; [exact Hd|]. split; [exact Hpp|].
  split; [destruct Hty as [(H & _)|(H1 & _ & H2)]; auto|].
  split; [exact Hwl|].
  split; [exact E1|]. split; [exact E2|]. split; [exact E3|].
  split; [exact E6|]. split; [exact E7|]. split; [exact E8|].
  intros inflate ops. exact (errors_are_permanent inflate c ops s' RReadLimit E1).
Qed.

Corollary over_limit_never_completeZ fs s ty cz d p a :
  0 < L ->
  rinvL L k s -> rem s = 0 -> rfin s = true -> pending (br s) = encode_frames fs ++ extra ->
  Forall wf_frame fs -> seq_okZ (server c) (negotiated c) false fs = true ->
  blen (encode_frames fs) < 2^63 ->
  first_msgZ fs = Some (ty, cz, d, p, a) -> L < blen d ->
  exists ty' d' p' x y fj rj s',
    (forall inflate,
       read_message inflate c s = (RMsg ty' (if cz then [] else d') (Some RReadLimit), s')) /\
    blen d' <= L /\ d = d' ++ x /\ p = p' ++ y /\ (ty' = ty \/ (ty' = 0 /\ d' = [])) /\
    wlog s' = wlog s ++ map WPong p' ++ [WCloseTooBig] /\
    rerror s' = Some RReadLimit /\ closesent s' = true /\ outoffuel s' = false /\
    first_cross L fs = Some (fj, rj) /\ rem s' = plen fj /\
    pending (br s') = wire_payload fj ++ encode_frames rj ++ extra /\
    (forall inflate ops, exists rs s'', run_ops inflate c s' ops = (rs, s'') /\
                                frozen s' s'' /\ Forall is_failure rs).
Proof.
  intros HL Hrinv Hrem Hfin Hp Hwf Hseq Hlen Hfm Hbig.
  apply (over_limit_never_completeZ_general fs s [] [] [] fs ty cz d p a HL Hrinv);
    [exact Hrem|exact Hp|exact Hwf|rewrite Hfin; exact Hseq|exact Hlen|rewrite Hfin; reflexivity
    |change (blen []) with 0; lia|exact Hfm|exact Hbig].
Qed.

(* whatever the message, with a limit L > 0 one ReadMessage never takes more than L wire payload
   bytes of it (for a compressed message: never hands more than L bytes to the flate reader) *)
Theorem delivered_at_most_limitZ fs s w more0 pings0 fs1 ty cz d p a :
  0 < L ->
  rinvL L k s -> rem s = blen w -> pending (br s) = w ++ encode_frames fs ++ extra ->
  Forall wf_frame fs -> seq_okZ (server c) (negotiated c) (negb (rfin s)) fs = true ->
  blen (encode_frames fs) < 2^63 ->
  tail_lim L 0 (rfin s) fs = (more0, pings0, Some fs1) ->
  first_limZ L fs1 = Some (ty, cz, d, p, a) ->
  exists s', (forall inflate, read_message inflate c s = (lim_outZ inflate ty cz d a, s')) /\
    blen d <= L.
Proof.
  intros HL Hrinv Hrem Hp Hwf Hseq Hlen Hmt Hfl.
  destruct (read_message_limitZ L k c extra Hch Hx fs s w more0 pings0 fs1 ty cz d p a Hrinv
              Hrem Hp Hwf Hseq Hlen Hmt Hfl) as (s' & Hrm & _).
  exists s'. split; [exact Hrm|exact (first_limZ_bound L fs1 ty cz d p a HL Hfl)].
Qed.
End TheoremsZ.

(* [rinvL_end] with bytes left is [rinvL] *)
Lemma rinvL_end_rinvL L k s : rinvL_end L k s -> pending (br s) <> [] -> rinvL L k s.
Proof.
  intros (H1 & H2 & H3 & [H4|(_ & H4 & _)] & H5 & H6 & H7 & H8) Hp; [|contradiction].
  unfold rinvL. auto 12.
Qed.

(* ============================================================================================ *)
(* Instances: for streams without RSV1 the theorems of LimitP.v follow from the ones above      *)
(* (whether or not the reader negotiated compression)                                           *)
(* ============================================================================================ *)
Lemma first_msg_firstZ srv fs ty d p a :
  seq_ok srv false fs = true -> first_msg fs = Some (ty, d, p, a) ->
  first_msgZ fs = Some (ty, false, d, p, a).
Proof.
  intros Hs H. unfold first_msg in H. unfold first_msgZ.
  destruct (find_data fs) as [[[p1 f] r]|] eqn:Efd; [|discriminate H].
  destruct (find_data_specZ srv false fs p1 f r) as (_ & _ & _ & _ & _ & _ & Hacc & _);
    [rewrite seq_okZ_false; exact Hs|exact Efd|].
  destruct (frame_accZ_facts _ _ _ _ Hacc) as ([Hr|[Hx _]] & _); [|discriminate Hx].
  rewrite Hr. destruct (msg_tail (fin f) r) as [[more p2] a2]. inversion H. reflexivity.
Qed.

Corollary within_limit_message_read_from_Z inflate L k c extra :
  custom_handlers c = false -> extra <> [] \/ k = EEOF ->
  forall fs s ty d p a,
  rinvL L k s -> rem s = 0 -> rfin s = true ->
  pending (br s) = encode_frames fs ++ extra ->
  Forall wf_frame fs -> seq_ok (server c) false fs = true -> blen (encode_frames fs) < 2^63 ->
  first_msg fs = Some (ty, d, p, a) -> L = 0 \/ blen d <= L ->
  exists s', read_message inflate c s = (RMsg ty d None, s') /\
    rinvL_end L k s' /\ rem s' = 0 /\ rfin s' = true /\
    pending (br s') = encode_frames a ++ extra /\ wlog s' = wlog s ++ map WPong p.
Proof.
  intros Hch Hx fs s ty d p a Hrinv Hrem Hfin Hp Hwf Hseq Hlen Hfm Hw.
  destruct (within_limit_message_readZ L k c extra Hch Hx fs s ty false d p a Hrinv Hrem Hfin Hp Hwf
              (seq_ok_okZ _ _ _ _ Hseq) Hlen (first_msg_firstZ _ _ _ _ _ _ Hseq Hfm) Hw)
    as (s' & Hrm & Hrest).
  exists s'. split; [exact (Hrm inflate)|exact Hrest].
Qed.

Corollary over_limit_never_complete_from_Z inflate L k c extra :
  custom_handlers c = false -> extra <> [] \/ k = EEOF ->
  forall fs s ty d p a,
  0 < L ->
  rinvL L k s -> rem s = 0 -> rfin s = true -> pending (br s) = encode_frames fs ++ extra ->
  Forall wf_frame fs -> seq_ok (server c) false fs = true -> blen (encode_frames fs) < 2^63 ->
  first_msg fs = Some (ty, d, p, a) -> L < blen d ->
  exists ty' d' p' x y s',
    read_message inflate c s = (RMsg ty' d' (Some RReadLimit), s') /\
    blen d' <= L /\ d = d' ++ x /\ p = p' ++ y /\ (ty' = ty \/ (ty' = 0 /\ d' = [])) /\
    wlog s' = wlog s ++ map WPong p' ++ [WCloseTooBig] /\
    rerror s' = Some RReadLimit /\ closesent s' = true /\ outoffuel s' = false /\
    (forall ops, exists rs s'', run_ops inflate c s' ops = (rs, s'') /\
                                frozen s' s'' /\ Forall is_failure rs).
Proof.
  intros Hch Hx fs s ty d p a HL Hrinv Hrem Hfin Hp Hwf Hseq Hlen Hfm Hbig.
  destruct (over_limit_never_completeZ L k c extra Hch Hx fs s ty false d p a HL Hrinv Hrem Hfin Hp Hwf
              (seq_ok_okZ _ _ _ _ Hseq) Hlen (first_msg_firstZ _ _ _ _ _ _ Hseq Hfm) Hbig)
    as (ty' & d' & p' & x & y & fj & rj & s' & Hrm & H1 & H2 & H3 & H4 & H5 & H6 & H7 & H8 & _ & _ & _ & Hperm).
  exists ty', d', p', x, y, s'. split; [exact (Hrm inflate)|]. auto 15.
Qed.


Print Assumptions data_frame_step_limitZ.
Print Assumptions read_message_limitZ.
Print Assumptions first_cross_spec.
Print Assumptions within_limit_message_readZ.
Print Assumptions abandoned_then_next_message_readZ.
Print Assumptions over_limit_never_completeZ_general.
Print Assumptions over_limit_never_completeZ.
Print Assumptions delivered_at_most_limitZ.
Print Assumptions within_limit_message_read_from_Z.
Print Assumptions over_limit_never_complete_from_Z.
