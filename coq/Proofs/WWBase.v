(* Write path, primitives: the wire as a function of the state, what each transport primitive
   (t_setdl, t_write, pop_key, keyed_write, write_fatal, conn_write, write_control) does to the
   projections that matter, and the byte-level identity between the model's header builder
   (frame_header / control_frame) and the Spec's canonical encoder (encode_frame). *)
Require Import WS.Base.Bytes WS.gen.Consts WS.Spec.Frame WS.Proofs.FrameP WS.Model.Writer.
From RecordUpdate Require Import RecordSet.
Import RecordSetNotations.
Ltac Zify.zify_post_hook ::= Z.div_mod_to_equations.

Ltac wsimpl :=
  cbn [set held cur cur_flate fl ended Writer.app app_flate werr deadline wcomp level revs keys tops
       fail_at nextid oracle_short m_id m_buf m_ftype m_compress m_err f_id f_open f_tw f_err] in *.

(* ------------------------------------------------------------------------------------------ *)
(* the wire                                                                                   *)
(* ------------------------------------------------------------------------------------------ *)
Definition pay (e:tev) : bytes := match e with TWrite b | TWriteFail b => b | _ => [] end.
Definition wire (s:wst) : bytes := wire_of (evs s).

Lemma wire_revs s : wire s = flat_map pay (rev (revs s)).
Proof. unfold wire, evs, rev', wire_of. rewrite <- rev_alt. reflexivity. Qed.

Lemma wire_log e s : wire (log e s) = wire s ++ pay e.
Proof.
  rewrite !wire_revs. unfold log. wsimpl. cbn [rev]. rewrite flat_map_app. cbn [flat_map].
  rewrite app_nil_r. reflexivity.
Qed.

Definition len4 (k:bytes) : Prop := length k = 4%nat.

(* [s'] differs from [s] only by transport bookkeeping and [W] appended to the wire *)
Definition eff (s s':wst) (W:bytes) : Prop :=
  cur s' = cur s /\ cur_flate s' = cur_flate s /\ fl s' = fl s /\ fail_at s' = fail_at s /\
  werr s' = werr s /\ keys s' = keys s /\ wire s' = wire s ++ W.

Lemma eff_refl s : eff s s [].
Proof. unfold eff. rewrite app_nil_r. auto 10. Qed.

Lemma eff_trans a b c W1 W2 : eff a b W1 -> eff b c W2 -> eff a c (W1 ++ W2).
Proof.
  unfold eff. intros (A1&A2&A3&A4&A5&A6&A7) (B1&B2&B3&B4&B5&B6&B7).
  rewrite B1, B2, B3, B4, B5, B6, B7, A1, A2, A3, A4, A5, A6, A7, app_assoc. auto 10.
Qed.

(* a strict prefix (or nothing at all) *)
Definition sprefix (W full:bytes) : Prop := W = [] \/ exists rest, rest <> [] /\ full = W ++ rest.

Lemma next_fault_eff s f s' : next_fault s = (f, s') ->
  eff s s' [] /\ (f <> None -> fail_at s <> None).
Proof.
  unfold next_fault. wsimpl. destruct (fail_at s) as [[k fk]|] eqn:E.
  - destruct (Nat.eqb k (tops s)); intros H; inversion H; subst; (split; [|intros _; discriminate]);
      unfold eff, wire, evs; wsimpl; rewrite app_nil_r; auto 10.
  - intros H; inversion H; subst. split; [|intros X; contradiction].
    unfold eff, wire, evs; wsimpl; rewrite app_nil_r; auto 10.
Qed.

Lemma eff_log e s : eff s (log e s) (pay e).
Proof. unfold eff. rewrite wire_log. unfold log. wsimpl. auto 10. Qed.

Lemma t_setdl_eff d s e s' : t_setdl d s = (e, s') ->
  eff s s' [] /\ (e <> None -> fail_at s <> None).
Proof.
  unfold t_setdl. destruct (next_fault s) as [f s1] eqn:E. apply next_fault_eff in E.
  destruct E as [E1 E2]. destruct f as [f|]; intros H; inversion H; subst.
  - split; [|intros _; apply E2; discriminate].
    change (@nil N) with (@nil N ++ pay (TSetDLFail d)). eapply eff_trans; [exact E1|apply eff_log].
  - split; [|intros X; contradiction].
    change (@nil N) with (@nil N ++ pay (TSetDL d)). eapply eff_trans; [exact E1|apply eff_log].
Qed.

Lemma takeN_app_dropN n (l:bytes) : takeN n l ++ dropN n l = l.
Proof. unfold takeN, dropN. apply firstn_skipn. Qed.

Lemma blen_takeN n l : blen (takeN n l) = N.min n (blen l).
Proof. unfold blen, takeN. rewrite firstn_length. lia. Qed.
Lemma blen_dropN n l : blen (dropN n l) = blen l - n.
Proof. unfold blen, dropN. rewrite skipn_length. lia. Qed.
Lemma blen_nil : blen [] = 0.
Proof. reflexivity. Qed.
Lemma blen_zero l : blen l = 0 -> l = [].
Proof. destruct l; [reflexivity|]. unfold blen. cbn [length]. lia. Qed.

Lemma t_write_eff b s e s' : t_write b s = (e, s') ->
  exists W, eff s s' W /\ (e = None -> W = b) /\
            (e <> None -> fail_at s <> None /\ sprefix W b).
Proof.
  unfold t_write. destruct (next_fault s) as [f s1] eqn:E. apply next_fault_eff in E.
  destruct E as [E1 E2].
  assert (HF : f <> None -> fail_at s <> None) by exact E2.
  destruct f as [[| |n]|]; intros H; inversion H; subst.
  - exists []. split; [|split; [discriminate|]].
    + change (@nil N) with (@nil N ++ pay (TWriteFail [])). eapply eff_trans; [exact E1|apply eff_log].
    + intros _. split; [apply HF; discriminate|left; reflexivity].
  - exists []. split; [|split; [discriminate|]].
    + change (@nil N) with (@nil N ++ pay (TWriteFail [])). eapply eff_trans; [exact E1|apply eff_log].
    + intros _. split; [apply HF; discriminate|left; reflexivity].
  - set (n1 := N.min n (blen b)).
    set (n2 := if (n1 =? blen b) && (0 <? n1) then n1 - 1 else n1).
    exists (takeN n2 b). split; [|split; [discriminate|]].
    + change (takeN n2 b) with (@nil N ++ pay (TWriteFail (takeN n2 b))).
      eapply eff_trans; [exact E1|apply eff_log].
    + intros _. split; [apply HF; discriminate|].
      destruct (N.eq_dec (blen b) 0) as [Z|NZ].
      * left. apply blen_zero in Z. subst b. unfold takeN. apply firstn_nil.
      * right. exists (dropN n2 b). split; [|symmetry; apply takeN_app_dropN].
        intros X. assert (Y : blen (dropN n2 b) = 0) by (rewrite X; reflexivity).
        rewrite blen_dropN in Y. subst n2 n1.
        destruct ((N.min n (blen b) =? blen b) && (0 <? N.min n (blen b))) eqn:Eb; lia.
  - exists b. split; [|split; [reflexivity|intros X; contradiction]].
    change b with (@nil N ++ pay (TWrite b)) at 2. eapply eff_trans; [exact E1|apply eff_log].
Qed.

(* pop_key: only the key oracle (and the oracle_short flag) move *)
Definition eff_k (s s':wst) : Prop :=
  cur s' = cur s /\ cur_flate s' = cur_flate s /\ fl s' = fl s /\ fail_at s' = fail_at s /\
  werr s' = werr s /\ wire s' = wire s.

Lemma pop_key_eff s k s' : pop_key s = (k, s') -> Forall len4 (keys s) ->
  eff_k s s' /\ len4 k /\ Forall len4 (keys s').
Proof.
  unfold pop_key. destruct (keys s) as [|k0 r] eqn:E; intros H HK; inversion H; subst.
  - split; [unfold eff_k, wire, evs; wsimpl; auto 10|]. split; [reflexivity|].
    wsimpl. rewrite E. constructor.
  - inversion HK; subst. split; [unfold eff_k, wire, evs; wsimpl; auto 10|]. split; [assumption|].
    wsimpl. assumption.
Qed.

Lemma write_fatal_eff e s :
  let s' := write_fatal e s in
  cur s' = cur s /\ cur_flate s' = cur_flate s /\ fl s' = fl s /\ fail_at s' = fail_at s /\
  keys s' = keys s /\ wire s' = wire s /\ werr s' <> None.
Proof.
  unfold write_fatal. destruct (werr s) eqn:E; cbv zeta.
  - rewrite E. repeat split; discriminate.
  - unfold wire, evs. wsimpl. repeat split; discriminate.
Qed.

(* state after a write attempt: control projections kept, wire extended by W *)
Definition ceff (s s':wst) (W:bytes) : Prop :=
  cur s' = cur s /\ cur_flate s' = cur_flate s /\ fl s' = fl s /\ fail_at s' = fail_at s /\
  wire s' = wire s ++ W.

Lemma eff_ceff s s' W : eff s s' W -> ceff s s' W.
Proof. unfold eff, ceff. tauto. Qed.

Lemma ceff_fatal e s s' W : ceff s s' W -> ceff s (write_fatal e s') W.
Proof.
  unfold ceff. intros (A1&A2&A3&A4&A5).
  destruct (write_fatal_eff e s') as (B1&B2&B3&B4&B5&B6&B7).
  rewrite B1, B2, B3, B4, B6, A1, A2, A3, A4, A5. auto 10.
Qed.

(* keyed_write *)
Lemma keyed_write_eff masked mk s e s' : keyed_write masked mk s = (e, s') -> Forall len4 (keys s) ->
  Forall len4 (keys s') /\
  exists key W, (if masked then len4 key else key = []) /\
    ceff s s' W /\ werr s' = werr s /\
    (e = None -> W = mk key) /\ (e <> None -> fail_at s <> None /\ sprefix W (mk key)).
Proof.
  unfold keyed_write. intros H HK.
  destruct masked.
  - destruct (pop_key s) as [key s1] eqn:EP. apply pop_key_eff in EP; [|exact HK].
    destruct EP as ((P1&P2&P3&P4&P5&P6) & PK & PKs).
    apply t_write_eff in H. destruct H as (W & (T1&T2&T3&T4&T5&T6&T7) & TN & TE).
    split; [rewrite T6; exact PKs|].
    exists key, W. split; [exact PK|]. split.
    { unfold ceff. rewrite T1, T2, T3, T4, T7, P1, P2, P3, P4, P6. auto 10. }
    split; [rewrite T5; exact P5|]. split; [exact TN|].
    intros X. rewrite <- P4. apply TE. exact X.
  - apply t_write_eff in H. destruct H as (W & E & TN & TE).
    split; [destruct E as (_&_&_&_&_&T6&_); rewrite T6; exact HK|].
    exists [], W. split; [reflexivity|]. split; [apply eff_ceff; exact E|].
    split; [apply E|]. split; assumption.
Qed.

(* Conn.write *)
Lemma sprefix_nil full : sprefix [] full.
Proof. left. reflexivity. Qed.

Lemma sprefix_app_l W a b : b <> [] -> sprefix W a -> sprefix W (a ++ b).
Proof.
  intros Hb [->|(rest & Hr & ->)]; [left; reflexivity|].
  right. exists (rest ++ b). split; [|symmetry; apply app_assoc].
  destruct rest; [contradiction|discriminate].
Qed.

Lemma sprefix_app_r W a b : b <> [] -> sprefix W b -> sprefix (a ++ W) (a ++ b).
Proof.
  intros Hb [->|(rest & Hr & ->)].
  - right. exists b. rewrite app_nil_r. auto.
  - right. exists rest. rewrite app_assoc. auto.
Qed.

Lemma app_self_nil (l r:bytes) : l = l ++ r -> r = [].
Proof.
  intros H. assert (L : length l = length (l ++ r)) by (rewrite <- H; reflexivity).
  rewrite app_length in L. destruct r; [reflexivity|cbn [length] in L; lia].
Qed.

Lemma conn_write_spec ftype dl masked mk buf1 s e s' :
  conn_write ftype dl masked mk buf1 s = (e, s') -> Forall len4 (keys s) ->
  Forall len4 (keys s') /\
  exists key W, (if masked then len4 key else key = []) /\ ceff s s' W /\
    match werr s with
    | Some _ => W = [] /\ werr s' = werr s /\ e <> None
    | None =>
      (e = None /\ W = mk key ++ buf1)
      \/ (e <> None /\ werr s' <> None /\ fail_at s <> None /\ sprefix W (mk key ++ buf1) /\
          (mk key ++ buf1 <> [] -> W <> mk key ++ buf1))
    end.
Proof.
  unfold conn_write. intros H HK. destruct (werr s) as [e0|] eqn:EW.
  - inversion H; subst. split; [exact HK|]. exists (if masked then [0;0;0;0] else []), [].
    split; [destruct masked; reflexivity|]. split.
    { unfold ceff. rewrite app_nil_r. auto 10. }
    split; [reflexivity|]. split; [exact EW|discriminate].
  - destruct (t_setdl dl s) as [e1 s1] eqn:E1. apply t_setdl_eff in E1. destruct E1 as [D1 D2].
    assert (HK1 : Forall len4 (keys s1)) by (destruct D1 as (_&_&_&_&_&K&_); rewrite K; exact HK).
    assert (HW1 : werr s1 = None) by (destruct D1 as (_&_&_&_&K&_&_); rewrite K; exact EW).
    assert (HF1 : fail_at s1 = fail_at s) by apply D1.
    destruct e1 as [e1|].
    { inversion H; subst. destruct (write_fatal_eff e1 s1) as (_&_&_&_&B5&_&B7).
      split; [rewrite B5; exact HK1|].
      exists (if masked then [0;0;0;0] else []), [].
      split; [destruct masked; reflexivity|]. split; [apply ceff_fatal, eff_ceff; exact D1|].
      right. split; [discriminate|]. split; [exact B7|]. split; [apply D2; discriminate|].
      split; [apply sprefix_nil|]. intros X Y. apply X. symmetry. exact Y. }
    destruct (keyed_write masked mk s1) as [e2 s2] eqn:E2.
    apply keyed_write_eff in E2; [|exact HK1].
    destruct E2 as (HK2 & key & W2 & Hkey & C2 & HW2 & N2 & F2).
    assert (C02 : ceff s s2 W2).
    { apply eff_ceff in D1. unfold ceff in *. destruct D1 as (A1&A2&A3&A4&A5).
      destruct C2 as (B1&B2&B3&B4&B5). rewrite B1, B2, B3, B4, B5, A1, A2, A3, A4, A5, app_nil_r. auto 10. }
    destruct e2 as [e2|].
    { inversion H; subst. destruct (write_fatal_eff e2 s2) as (_&_&_&_&B5&_&B7).
      split; [rewrite B5; exact HK2|]. exists key, W2. split; [exact Hkey|].
      split; [apply ceff_fatal; exact C02|].
      right. split; [discriminate|]. split; [exact B7|].
      destruct F2 as [F2a F2b]; [discriminate|]. split; [rewrite <- HF1; exact F2a|].
      destruct F2b as [->|(rest & Hr & Hm)].
      - split; [apply sprefix_nil|]. intros X Y. apply X. symmetry. exact Y.
      - split.
        + right. exists (rest ++ buf1). split; [destruct rest; [contradiction|discriminate]|].
          rewrite Hm. symmetry. apply app_assoc.
        + intros _ Y. rewrite Hm in Y. rewrite <- app_assoc in Y.
          apply app_self_nil in Y. destruct rest; [contradiction|discriminate]. }
    specialize (N2 eq_refl). subst W2.
    destruct buf1 as [|x buf1'].
    { inversion H; subst.
      split.
      { destruct (ftype =? c_CloseMessage); [|exact HK2].
        destruct (write_fatal_eff WCloseSent s2) as (_&_&_&_&B5&_&_). rewrite B5. exact HK2. }
      exists key, (mk key). split; [exact Hkey|]. split.
      { destruct (ftype =? c_CloseMessage); [apply ceff_fatal|]; exact C02. }
      left. rewrite app_nil_r. auto. }
    set (buf1 := x :: buf1') in *.
    destruct (t_write buf1 s2) as [e3 s3] eqn:E3. apply t_write_eff in E3.
    destruct E3 as (W3 & D3 & N3 & F3).
    assert (HK3 : Forall len4 (keys s3)) by (destruct D3 as (_&_&_&_&_&K&_); rewrite K; exact HK2).
    assert (C03 : ceff s s3 (mk key ++ W3)).
    { apply eff_ceff in D3. unfold ceff in *. destruct C02 as (A1&A2&A3&A4&A5).
      destruct D3 as (B1&B2&B3&B4&B5). rewrite B1, B2, B3, B4, B5, A1, A2, A3, A4, A5, app_assoc. auto 10. }
    destruct e3 as [e3|].
    { inversion H; subst. destruct (write_fatal_eff e3 s3) as (_&_&_&_&B5&_&B7).
      split; [rewrite B5; exact HK3|]. exists key, (mk key ++ W3). split; [exact Hkey|].
      split; [apply ceff_fatal; exact C03|].
      right. split; [discriminate|]. split; [exact B7|].
      destruct F3 as [F3a F3b]; [discriminate|].
      split; [destruct C02 as (_&_&_&A4&_); rewrite <- A4; exact F3a|].
      split; [apply sprefix_app_r; [discriminate|exact F3b]|].
      intros _ Y. apply app_inv_head in Y. destruct F3b as [Z|(rest & Hr & Hm)].
      - rewrite Z in Y. discriminate.
      - rewrite Hm in Y. apply app_self_nil in Y. contradiction. }
    specialize (N3 eq_refl). subst W3. inversion H; subst.
    split.
    { destruct (ftype =? c_CloseMessage); [|exact HK3].
      destruct (write_fatal_eff WCloseSent s3) as (_&_&_&_&B5&_&_). rewrite B5. exact HK3. }
    exists key, (mk key ++ buf1). split; [exact Hkey|]. split.
    { destruct (ftype =? c_CloseMessage); [apply ceff_fatal|]; exact C03. }
    left. auto.
Qed.

(* ------------------------------------------------------------------------------------------ *)
(* header builder = canonical encoder                                                         *)
(* ------------------------------------------------------------------------------------------ *)
Definition mbit (k:option bytes) : N := match k with Some _ => 128 | None => 0 end.
Definition wpay (k:option bytes) (pl:bytes) : bytes :=
  match k with Some k => k ++ maskl k 0 pl | None => pl end.

Lemma frame_header_enc fn r op mk pl b0 :
  b0 = 128 * b2n fn + 16 * r + op ->
  frame_header b0 (mbit mk) (blen pl) ++ wpay mk pl = encode_frame (mkf fn op r mk pl).
Proof.
  intros ->. unfold frame_header, encode_frame, len_enc, plen, mkf, mbit, wpay.
  cbn [fin rsv opcode mkey payload]. set (L := blen pl).
  destruct (65536 <=? L) eqn:E1; [|destruct (125 <? L) eqn:E2].
  - replace (L <? 126) with false by lia. replace (L <? 65536) with false by lia.
    destruct mk; cbn [List.app]; rewrite <- ?app_assoc; reflexivity.
  - replace (L <? 126) with false by lia. replace (L <? 65536) with true by lia.
    destruct mk; cbn [List.app]; rewrite <- ?app_assoc; reflexivity.
  - replace (L <? 126) with true by lia.
    destruct mk; cbn [List.app]; reflexivity.
Qed.

Lemma control_frame_enc server ty key data : blen data <= 125 ->
  control_frame server ty key data =
  encode_frame (mkf true ty 0 (if server then None else Some key) data).
Proof.
  intros H. unfold control_frame, encode_frame, len_enc, plen, mkf, c_finalBit, c_maskBit.
  cbn [fin rsv opcode mkey payload b2n]. replace (blen data <? 126) with true by lia.
  replace (128 * 1 + 16 * 0 + ty) with (ty + 128) by lia.
  destruct server; cbn [List.app].
  - reflexivity.
  - replace (128 + blen data) with (blen data + 128) by lia. reflexivity.
Qed.
