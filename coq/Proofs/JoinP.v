(* ========================================================================================== *)
(* C03, JoinMessages (join.go) over a conformant, uncompressed peer stream, read with an       *)
(* ARBITRARY list of positive buffer sizes.  Model: Model/Join.v.  Setting: Proofs/ReadProgP.v *)
(*                                                                                            *)
(*  jsteps                   the exact per-call specification (pure)                           *)
(*  join_read_step           one joinReader.Read from any point of the stream                  *)
(*  join_steps_run           any list of sizes: the calls inside the stream, then the rest     *)
(*  join_sticky_run          after NextReader failed: the same error for ever (until the panic)*)
(*  join_stream / join_closed   whole connections (anything / nothing after the frames)        *)
(*  join_prefix, join_complete, join_first_error, join_independent   (a) (b) (c) (d)           *)
(* ========================================================================================== *)
Require Import WS.Base.Bytes WS.gen.Consts WS.Spec.Frame WS.Spec.Conformance WS.Model.Bufio
  WS.Model.Reader WS.Model.Join WS.Proofs.BufioP WS.Proofs.FrameP WS.Proofs.ReaderBasicP.
From RecordUpdate Require Import RecordSet.
Import RecordSetNotations.
Require Import WS.Proofs.ReaderP1 WS.Proofs.ReaderP2 WS.Proofs.ReaderP3 WS.Proofs.ReaderP
  WS.Proofs.CutP WS.Proofs.LimitP WS.Proofs.ReadProgP.
Ltac Zify.zify_post_hook ::= Z.div_mod_to_equations.

(* ============================== part A: the specification ============================== *)
(* what io.ReadAll(JoinMessages(c, term)) is meant to see *)
Definition joined (term:bytes) (ms:list (N * bool * bytes)) : bytes :=
  flat_map (fun m => snd m ++ term) ms.

Definition jbytes (outs:list jout) : bytes := flat_map fst outs.

(* [segs]: one entry per message not yet finished = its undelivered bytes followed by [term].
   A call Read(p), len(p) = m > 0, while [segs] is not empty:
   - head entry not empty: returns between 1 and m bytes, the next bytes of it, nil error;
   - head entry empty (everything of the message and of its terminator has been delivered):
     returns 0 bytes and a nil error -- the call on which the message reader (term = "") or the
     MultiReader (term <> "") reports io.EOF, which joinReader.Read swallows; the entry is done.
   [segs'] = what is left after the calls. *)
Fixpoint jsteps (segs:list bytes) (l:list nat) (outs:list jout) (segs':list bytes) {struct l} : Prop :=
  match l, outs with
  | [], [] => segs' = segs
  | m :: l', (x, e) :: outs' =>
      e = None /\ (length x <= m)%nat /\
      match segs with
      | [] => False
      | sg :: rest =>
          (sg = [] -> x = [] /\ jsteps rest l' outs' segs') /\
          (sg <> [] -> x <> [] /\ exists sg', sg = x ++ sg' /\ jsteps (sg' :: rest) l' outs' segs')
      end
  | _, _ => False
  end.

(* bytes still to come + calls that will return nothing *)
Definition jmeasure (segs:list bytes) : nat := (length (concat segs) + length segs)%nat.

(* a call that returns 0 bytes and a nil error *)
Definition silent (o:jout) : bool := match o with ([], None) => true | _ => false end.

Lemma jsteps_length : forall l segs outs segs', jsteps segs l outs segs' -> length outs = length l.
Proof.
  induction l as [|m l IH]; intros segs outs segs' H; destruct outs as [|[x e] outs];
    try (cbn [jsteps] in H; contradiction); [reflexivity|].
  cbn [jsteps] in H. destruct H as (_ & _ & H). destruct segs as [|sg rest]; [contradiction|].
  destruct H as (H1 & H2). cbn [length]. f_equal. destruct sg as [|b sg].
  - destruct (H1 eq_refl) as (_ & H). exact (IH _ _ _ H).
  - destruct H2 as (_ & sg' & _ & H); [discriminate|]. exact (IH _ _ _ H).
Qed.

Lemma jsteps_nil_errors : forall l segs outs segs', jsteps segs l outs segs' ->
  Forall (fun o => snd o = None) outs.
Proof.
  induction l as [|m l IH]; intros segs outs segs' H; destruct outs as [|[x e] outs];
    try (cbn [jsteps] in H; contradiction); [constructor|].
  cbn [jsteps] in H. destruct H as (He & _ & H). destruct segs as [|sg rest]; [contradiction|].
  destruct H as (H1 & H2). constructor; [exact He|]. destruct sg as [|b sg].
  - destruct (H1 eq_refl) as (_ & H). exact (IH _ _ _ H).
  - destruct H2 as (_ & sg' & _ & H); [discriminate|]. exact (IH _ _ _ H).
Qed.

Lemma jsteps_sizes : forall l segs outs segs', jsteps segs l outs segs' ->
  Forall2 (fun m o => (length (fst o) <= m)%nat) l outs.
Proof.
  induction l as [|m l IH]; intros segs outs segs' H; destruct outs as [|[x e] outs];
    try (cbn [jsteps] in H; contradiction); [constructor|].
  cbn [jsteps] in H. destruct H as (_ & Hl & H). destruct segs as [|sg rest]; [contradiction|].
  destruct H as (H1 & H2). constructor; [exact Hl|]. destruct sg as [|b sg].
  - destruct (H1 eq_refl) as (_ & H). exact (IH _ _ _ H).
  - destruct H2 as (_ & sg' & _ & H); [discriminate|]. exact (IH _ _ _ H).
Qed.

(* nothing lost, nothing invented, nothing reordered *)
Lemma jsteps_concat : forall l segs outs segs', jsteps segs l outs segs' ->
  concat segs = jbytes outs ++ concat segs'.
Proof.
  induction l as [|m l IH]; intros segs outs segs' H; destruct outs as [|[x e] outs];
    try (cbn [jsteps] in H; contradiction).
  - cbn [jsteps] in H. subst segs'. reflexivity.
  - cbn [jsteps] in H. destruct H as (_ & _ & H). destruct segs as [|sg rest]; [contradiction|].
    destruct H as (H1 & H2). unfold jbytes. cbn [flat_map fst concat]. destruct sg as [|b sg].
    + destruct (H1 eq_refl) as (-> & H). cbn [app]. exact (IH _ _ _ H).
    + destruct H2 as (_ & sg' & Hsg & H); [discriminate|]. rewrite Hsg, <- !app_assoc. f_equal.
      exact (IH _ _ _ H).
Qed.

(* every call makes progress: it delivers a byte or finishes a message *)
Lemma jsteps_measure : forall l segs outs segs', jsteps segs l outs segs' ->
  (jmeasure segs' + length l <= jmeasure segs)%nat.
Proof.
  induction l as [|m l IH]; intros segs outs segs' H; destruct outs as [|[x e] outs];
    try (cbn [jsteps] in H; contradiction).
  - cbn [jsteps] in H. subst segs'. cbn [length]. lia.
  - cbn [jsteps] in H. destruct H as (_ & _ & H). destruct segs as [|sg rest]; [contradiction|].
    destruct H as (H1 & H2). destruct sg as [|b sg].
    + destruct (H1 eq_refl) as (_ & H). pose proof (IH _ _ _ H) as Hm.
      unfold jmeasure in *. cbn [concat app length] in *. lia.
    + destruct H2 as (Hx & sg' & Hsg & H); [discriminate|]. pose proof (IH _ _ _ H) as Hm.
      assert (Hlx : (0 < length x)%nat) by (destruct x; [congruence|cbn [length]; lia]).
      unfold jmeasure in *. cbn [concat length] in *. rewrite Hsg. rewrite !app_length in *. lia.
Qed.

(* the calls that return no byte (and no error): exactly one per finished message *)
Lemma jsteps_silent_calls : forall l segs outs segs', jsteps segs l outs segs' ->
  (length (filter silent outs) + length segs' = length segs)%nat.
Proof.
  induction l as [|m l IH]; intros segs outs segs' H; destruct outs as [|[x e] outs];
    try (cbn [jsteps] in H; contradiction).
  - cbn [jsteps] in H. subst segs'. reflexivity.
  - cbn [jsteps] in H. destruct H as (-> & _ & H). destruct segs as [|sg rest]; [contradiction|].
    destruct H as (H1 & H2). destruct sg as [|b sg].
    + destruct (H1 eq_refl) as (-> & H). pose proof (IH _ _ _ H) as Hm.
      cbn [filter silent length] in *. lia.
    + destruct H2 as (Hx & sg' & Hsg & H); [discriminate|]. pose proof (IH _ _ _ H) as Hm.
      cbn [filter silent]. destruct x as [|y x]; [congruence|].
      cbn [length] in *. lia.
Qed.

Lemma jsteps_app : forall l1 l2 segs o1 o2 segs1 segs2,
  jsteps segs l1 o1 segs1 -> jsteps segs1 l2 o2 segs2 -> jsteps segs (l1 ++ l2) (o1 ++ o2) segs2.
Proof.
  induction l1 as [|m l1 IH]; intros l2 segs o1 o2 segs1 segs2 H1 H2; destruct o1 as [|[x e] o1];
    try (cbn [jsteps] in H1; contradiction).
  - cbn [jsteps] in H1. subst segs1. exact H2.
  - cbn [jsteps] in H1. destruct H1 as (He & Hl & H1). destruct segs as [|sg rest]; [contradiction|].
    destruct H1 as (Ha & Hb). cbn [app jsteps]. split; [exact He|]. split; [exact Hl|]. split.
    + intros E. destruct (Ha E) as (Hx & H). split; [exact Hx|]. exact (IH _ _ _ _ _ _ H H2).
    + intros E. destruct (Hb E) as (Hx & sg' & Hsg & H). split; [exact Hx|]. exists sg'.
      split; [exact Hsg|]. exact (IH _ _ _ _ _ _ H H2).
Qed.

Lemma jmeasure_zero segs : jmeasure segs = 0%nat -> segs = [].
Proof. destruct segs; [reflexivity|]. unfold jmeasure. cbn [length]. lia. Qed.

Lemma concat_joined term ms : concat (map (fun m : N * bool * bytes => snd m ++ term) ms) = joined term ms.
Proof. unfold joined. symmetry. apply flat_map_concat_map. Qed.

Lemma jmeasure_joined term ms :
  jmeasure (map (fun m : N * bool * bytes => snd m ++ term) ms) = (length (joined term ms) + length ms)%nat.
Proof. unfold jmeasure. rewrite concat_joined, map_length. reflexivity. Qed.

(* ============================== part B: one call ============================== *)
Lemma nonempty_true l : nonempty l = true -> l <> [].
Proof. destruct l; [discriminate|]. intros _. discriminate. Qed.
Lemma nonempty_false l : nonempty l = false -> l = [].
Proof. destruct l; [reflexivity|discriminate]. Qed.

Lemma multi_str_nil m : multi_str m (@Some bytes []) = (([], Some RIoEOF), JMulti false None).
Proof. reflexivity. Qed.
Lemma multi_str_cons m (t:bytes) : t <> [] ->
  multi_str m (@Some bytes t) = ((firstn m t, None), JMulti false (Some (skipn m t))).
Proof. destruct t; [congruence|]. reflexivity. Qed.

(* [msg_read] is the [ORead m] step of the reader API without the call counter *)
Lemma msg_read_rstep inflate c m s :
  rstep inflate c s (ORead m) =
  (let '(d, e, s') := msg_read c m s in (RData d e, bump s')).
Proof.
  unfold rstep, msg_read. destruct (cur s); [|reflexivity].
  destruct (reader_read c m s) as [[d e] s']. reflexivity.
Qed.

Lemma firstn_nonnil {A} m (t:list A) : (0 < m)%nat -> t <> [] -> firstn m t <> [].
Proof. destruct m; [lia|]. destruct t; [congruence|]. intros _ _. discriminate. Qed.

Section JoinSec.
Variables (inflate : bytes -> option bytes) (k:errk) (c:rcfg) (extra:bytes).
Hypothesis Hch : custom_handlers c = false.
Hypothesis Hne : extra <> [].
Variables (all:list frame) (wl0:list wback) (term:bytes).

Definition segs_of (aft:list frame) : list bytes :=
  map (fun m : N * bool * bytes => snd m ++ term) (msgs aft).

(* the reader stands exactly at the end of a message, [aft] = the frames that follow *)
Definition atend (s:rst) (aft:list frame) : Prop :=
  exists pre, rpos k c extra all wl0 s pre [] aft /\ rfin s = true.

Lemma atend_midmsg s aft : atend s aft -> midmsg k c extra all wl0 s aft.
Proof. intros (pre & H & Hf). exists pre, [], aft. split; [exact H|]. rewrite Hf. reflexivity. Qed.

Lemma atend_bump s aft : atend s aft -> atend (bump s) aft.
Proof. intros (pre & H & Hf). exists pre. split; [apply rpos_opidx; exact H|exact Hf]. Qed.

Lemma inmsg_bump s aft d : inmsg k c extra all wl0 s aft d -> inmsg k c extra all wl0 (bump s) aft d.
Proof.
  intros (pre & w & fs & H1 & H2 & H3). exists pre, w, fs.
  split; [apply rpos_opidx; exact H1|]. split; [exact H2|exact H3].
Qed.

(* the joinReader's field r against the connection, [segs] as in [jsteps] *)
Definition rinvj (r:jrd) (s:rst) (segs:list bytes) : Prop :=
  match r with
  | JNil => exists aft, atend s aft /\ segs = segs_of aft
  | JMsg => term = [] /\ cur s <> None /\
            exists aft d, inmsg k c extra all wl0 s aft d /\ segs = (d ++ term) :: segs_of aft
  | JMulti msg (Some t) =>
      if msg then t = term /\ term <> [] /\ cur s <> None /\
                  exists aft d, inmsg k c extra all wl0 s aft d /\ segs = (d ++ term) :: segs_of aft
      else exists aft, atend s aft /\ segs = t :: segs_of aft
  | JMulti _ None => False
  end.

Definition jinv (st:jstate) (segs:list bytes) : Prop :=
  jterm st = term /\ jpanic st = false /\ rinvj (jr st) (jconn st) segs.

(* messageReader.Read inside the joined reader *)
Lemma msg_read_step m s aft d : (0 < m)%nat -> inmsg k c extra all wl0 s aft d -> cur s <> None ->
  exists x e s', msg_read c m s = (x, e, s') /\
   ((e = None /\ x <> [] /\ (length x <= m)%nat /\ cur s' <> None /\
     exists d', d = x ++ d' /\ inmsg k c extra all wl0 s' aft d')
    \/ (e = Some RIoEOF /\ x = [] /\ d = [] /\ atend s' aft)).
Proof.
  intros Hm (pre & w & fs & Hrp & Hd & Haft) Hc.
  unfold msg_read. destruct (cur s) as [i|] eqn:Ec; [|congruence].
  destruct (read_step k c extra Hch Hne all wl0 m s pre w fs Hm Hrp) as (Hpost & Hcur1).
  rewrite Hd, Haft in Hpost. revert Hpost Hcur1.
  destruct (reader_read c m s) as [[x e] s1]. cbn [fst snd]. intros Hpost Hcur1.
  exists x, e, s1. split; [reflexivity|]. unfold step_post in Hpost.
  destruct Hpost as [(-> & Hx & Hlx & pre' & w' & fs' & Hrp' & Hd' & Haft')
                    |(-> & -> & Hd' & Hc1 & Hf1 & pre' & Hrp')].
  - left. split; [reflexivity|]. split; [exact Hx|]. split; [exact Hlx|].
    split. { destruct Hcur1 as [E|E]; [rewrite E, Ec; discriminate|discriminate E]. }
    exists (remaining c s1 w' fs'). split; [exact Hd'|]. exists pre', w', fs'. auto.
  - right. split; [reflexivity|]. split; [reflexivity|]. split; [exact Hd'|]. exists pre'. auto.
Qed.

(* n, err := r.r.Read(p) and what follows, r.r <> nil *)
Lemma join_body_step m r s sg rest ood : (0 < m)%nat -> r <> JNil -> rinvj r s (sg :: rest) ->
  exists x st', join_body inflate c m r s term ood = ((x, None), st') /\ (length x <= m)%nat /\
    (sg = [] -> x = [] /\ jinv st' rest) /\
    (sg <> [] -> x <> [] /\ exists sg', sg = x ++ sg' /\ jinv st' (sg' :: rest)).
Proof.
  intros Hm Hr H. destruct r as [| |msg [t|]]; [congruence| | |destruct msg; contradiction].
  - (* the message reader itself *)
    destruct H as (Ht & Hc & aft & d & Hin & Hsegs). inversion Hsegs; subst sg rest. clear Hsegs.
    destruct (msg_read_step m s aft d Hm Hin Hc) as (x & e & s' & Hmr & [A|B]).
    + destruct A as (-> & Hx & Hlx & Hc' & d' & -> & Hin').
      unfold join_body. rewrite Hmr. cbn [snd fst is_eof].
      eexists _, _. split; [reflexivity|]. split; [exact Hlx|]. split.
      * intros E. exfalso. rewrite <- app_assoc in E. apply app_eq_nil in E. apply Hx. apply E.
      * intros _. split; [exact Hx|]. exists (d' ++ term). split; [rewrite app_assoc; reflexivity|].
        split; [reflexivity|]. split; [reflexivity|]. cbn [jr jconn rinvj].
        split; [exact Ht|]. split; [exact Hc'|]. exists aft, d'. split; [apply inmsg_bump; exact Hin'|reflexivity].
    + destruct B as (-> & -> & -> & Hend).
      unfold join_body. rewrite Hmr. cbn [snd fst is_eof].
      eexists _, _. split; [reflexivity|]. split; [cbn [length]; lia|]. split.
      * intros _. split; [reflexivity|]. split; [reflexivity|]. split; [reflexivity|].
        cbn [jr jconn rinvj]. exists aft. split; [apply atend_bump; exact Hend|reflexivity].
      * intros E. exfalso. apply E. rewrite Ht. reflexivity.
  - destruct msg.
    + (* MultiReader, the message reader is still there *)
      destruct H as (-> & Ht & Hc & aft & d & Hin & Hsegs). inversion Hsegs; subst sg rest. clear Hsegs.
      destruct (msg_read_step m s aft d Hm Hin Hc) as (x & e & s' & Hmr & [A|B]).
      * destruct A as (-> & Hx & Hlx & Hc' & d' & -> & Hin').
        unfold join_body, multi_read. rewrite Hmr. cbn [snd fst is_eof].
        eexists _, _. split; [reflexivity|]. split; [exact Hlx|]. split.
        -- intros E. exfalso. rewrite <- app_assoc in E. apply app_eq_nil in E. apply Hx. apply E.
        -- intros _. split; [exact Hx|]. exists (d' ++ term). split; [rewrite app_assoc; reflexivity|].
           split; [reflexivity|]. split; [reflexivity|]. cbn [jr jconn rinvj].
           split; [reflexivity|]. split; [exact Ht|]. split; [exact Hc'|].
           exists aft, d'. split; [apply inmsg_bump; exact Hin'|reflexivity].
      * destruct B as (-> & -> & -> & Hend).
        unfold join_body, multi_read. rewrite Hmr. cbn [snd fst is_eof nonempty].
        rewrite (multi_str_cons m term Ht). cbn [snd fst is_eof].
        eexists _, _. split; [reflexivity|]. split; [apply firstn_le_length|]. cbn [app]. split.
        -- intros E. contradiction.
        -- intros _. split; [apply firstn_nonnil; assumption|]. exists (skipn m term).
           split; [symmetry; apply firstn_skipn|].
           split; [reflexivity|]. split; [reflexivity|]. cbn [jr jconn rinvj].
           exists aft. split; [apply atend_bump; exact Hend|reflexivity].
    + (* MultiReader, only the strings.Reader is left *)
      destruct H as (aft & Hend & Hsegs). inversion Hsegs; subst sg rest. clear Hsegs.
      unfold join_body, multi_read. destruct t as [|b t].
      * rewrite multi_str_nil. cbn [snd fst is_eof].
        eexists _, _. split; [reflexivity|]. split; [cbn [length]; lia|]. split.
        -- intros _. split; [reflexivity|]. split; [reflexivity|]. split; [reflexivity|].
           cbn [jr jconn rinvj]. exists aft. split; [apply atend_bump; exact Hend|reflexivity].
        -- intros E. congruence.
      * assert (Hbt : b :: t <> []) by discriminate.
        rewrite (multi_str_cons m (b :: t) Hbt). cbn [snd fst is_eof].
        eexists _, _. split; [reflexivity|]. split; [apply firstn_le_length|]. split.
        -- intros E. discriminate E.
        -- intros _. split; [apply firstn_nonnil; assumption|]. exists (skipn m (b :: t)).
           split; [symmetry; apply firstn_skipn|].
           split; [reflexivity|]. split; [reflexivity|]. cbn [jr jconn rinvj].
           exists aft. split; [apply atend_bump; exact Hend|reflexivity].
Qed.

(* joinReader.Read(p), len(p) = m > 0, from any point of the stream where a message is left *)
Theorem join_read_step m st sg rest : (0 < m)%nat -> jinv st (sg :: rest) ->
  exists x st', join_read inflate c m st = ((x, None), st') /\ (length x <= m)%nat /\
    (sg = [] -> x = [] /\ jinv st' rest) /\
    (sg <> [] -> x <> [] /\ exists sg', sg = x ++ sg' /\ jinv st' (sg' :: rest)).
Proof.
  intros Hm (Ht & Hp & Hr). unfold join_read. destruct (jr st) as [| |msg str] eqn:Ejr.
  - destruct Hr as (aft & Hend & Hsegs).
    pose proof (atend_midmsg _ _ Hend) as Hmid.
    pose proof (midmsg_seq k c extra all wl0 _ _ Hmid) as Hseq.
    destruct (first_msg aft) as [[[[ty d] p] aft']|] eqn:Efm.
    2:{ destruct (first_msg_none _ _ Hseq Efm) as (_ & Hms). unfold segs_of in Hsegs.
        rewrite Hms in Hsegs. discriminate Hsegs. }
    destruct (first_msg_some _ _ _ _ _ _ Hseq Efm) as (_ & _ & Hms & _ & _).
    unfold segs_of in Hsegs. rewrite Hms in Hsegs. cbn [map snd] in Hsegs.
    inversion Hsegs; subst sg rest. clear Hsegs.
    destruct (next_reader_step k c extra Hch all wl0 _ _ _ _ _ _ Hmid Efm) as (s' & Hnr & Hc' & Hin').
    rewrite Hnr, Ht. destruct (nonempty term) eqn:En.
    + apply join_body_step; [exact Hm|discriminate|]. cbn [rinvj].
      split; [reflexivity|]. split; [apply nonempty_true; exact En|]. split; [exact Hc'|].
      exists aft', d. split; [exact Hin'|reflexivity].
    + apply join_body_step; [exact Hm|discriminate|]. cbn [rinvj].
      split; [apply nonempty_false; exact En|]. split; [exact Hc'|].
      exists aft', d. split; [exact Hin'|reflexivity].
  - rewrite Ht. apply join_body_step; [exact Hm|discriminate|exact Hr].
  - rewrite Ht. apply join_body_step; [exact Hm|discriminate|exact Hr].
Qed.

(* ============================== part C: any list of read sizes ============================== *)
(* the calls [l1] made while messages are left follow [jsteps]; if calls are left over ([l2])
   the stream has been delivered completely and [st1] is the state they start from *)
Theorem join_steps_run : forall l st segs, Forall (fun m => (0 < m)%nat) l -> jinv st segs ->
  exists l1 l2 o1 st1 segs1, l = l1 ++ l2 /\ jsteps segs l1 o1 segs1 /\ jinv st1 segs1 /\
    (l2 = [] \/ segs1 = []) /\
    join_steps inflate c st l =
      (o1 ++ fst (join_steps inflate c st1 l2), snd (join_steps inflate c st1 l2)).
Proof.
  induction l as [|m l IH]; intros st segs Hl Hinv.
  - exists [], [], [], st, segs. cbn [app jsteps join_steps fst snd]. auto 6.
  - destruct segs as [|sg rest].
    + exists [], (m :: l), [], st, []. split; [reflexivity|]. split; [reflexivity|].
      split; [exact Hinv|]. split; [right; reflexivity|]. cbn [app].
      destruct (join_steps inflate c st (m :: l)); reflexivity.
    + inversion Hl as [|m' l' Hm Hl']; subst m' l'.
      destruct (join_read_step m st sg rest Hm Hinv) as (x & st' & Hjr & Hlx & Ha & Hb).
      destruct sg as [|b sg].
      * destruct (Ha eq_refl) as (-> & Hinv').
        destruct (IH st' rest Hl' Hinv') as (l1 & l2 & o1 & st1 & segs1 & -> & Hjs & Hinv1 & Hor & Hrun).
        exists (m :: l1), l2, (([], None) :: o1), st1, segs1. split; [reflexivity|].
        split.
        { cbn [jsteps]. split; [reflexivity|]. split; [cbn [length]; lia|].
          split; [intros _; split; [reflexivity|exact Hjs]|intros E; congruence]. }
        split; [exact Hinv1|]. split; [exact Hor|].
        cbn [app join_steps]. rewrite Hjr. destruct Hinv' as (_ & Hp & _). rewrite Hp, Hrun. reflexivity.
      * destruct Hb as (Hx & sg' & Hsg & Hinv'); [discriminate|].
        destruct (IH st' (sg' :: rest) Hl' Hinv') as (l1 & l2 & o1 & st1 & segs1 & -> & Hjs & Hinv1 & Hor & Hrun).
        exists (m :: l1), l2, ((x, None) :: o1), st1, segs1. split; [reflexivity|].
        split.
        { cbn [jsteps]. split; [reflexivity|]. split; [exact Hlx|].
          split; [intros E; discriminate E|intros _; split; [exact Hx|]; exists sg'; auto]. }
        split; [exact Hinv1|]. split; [exact Hor|].
        cbn [app join_steps]. rewrite Hjr. destruct Hinv' as (_ & Hp & _). rewrite Hp, Hrun. reflexivity.
Qed.

(* nothing left: the joined reader is between two messages and only control frames follow *)
Lemma jinv_nil st : jinv st [] ->
  jr st = JNil /\ jterm st = term /\ jpanic st = false /\
  exists aft, atend (jconn st) aft /\ all_ctl aft = true.
Proof.
  intros (Ht & Hp & Hr). destruct (jr st) as [| |msg [t|]].
  - split; [reflexivity|]. split; [exact Ht|]. split; [exact Hp|].
    destruct Hr as (aft & Hend & Hsegs). exists aft. split; [exact Hend|].
    pose proof (midmsg_seq k c extra all wl0 _ _ (atend_midmsg _ _ Hend)) as Hseq.
    destruct (first_msg aft) as [[[[ty d] p] aft']|] eqn:Efm.
    + destruct (first_msg_some _ _ _ _ _ _ Hseq Efm) as (_ & _ & Hms & _ & _).
      unfold segs_of in Hsegs. rewrite Hms in Hsegs. discriminate Hsegs.
    + destruct (first_msg_none _ _ Hseq Efm) as (Hall & _). exact Hall.
  - destruct Hr as (_ & _ & aft & d & _ & Hsegs). discriminate Hsegs.
  - destruct msg; cbn [rinvj] in Hr.
    + destruct Hr as (_ & _ & _ & aft & d & _ & Hsegs). discriminate Hsegs.
    + destruct Hr as (aft & _ & Hsegs). discriminate Hsegs.
  - destruct msg; contradiction.
Qed.
End JoinSec.

(* ============================== part D: the end of the stream ============================== *)
(* NextReader has failed: joinReader.Read returns that error, again and again (c.readErr is
   sticky), until NextReader's 1000th failure panics *)
Lemma join_read_sticky inflate c m st e : jr st = JNil -> rerror (jconn st) = Some e ->
  exists st', snd (join_read inflate c m st) = st' /\ jr st' = JNil /\ rerror (jconn st') = Some e /\
    errcount (jconn st') = S (errcount (jconn st)) /\
    if Nat.leb 1000 (S (errcount (jconn st))) then jpanic st' = true
    else jpanic st' = false /\ fst (join_read inflate c m st) = ([], Some e).
Proof.
  intros Hjr He. unfold join_read. rewrite Hjr. unfold next_reader.
  set (s0 := jconn st <| cur := None |> <| rlen := 0 |>).
  assert (H0 : rerror s0 = Some e) by exact He.
  rewrite (next_loop_err (fuel_of s0) c s0 e H0). cbv iota zeta beta. rsimpl.
  change (errcount s0) with (errcount (jconn st)). change (rerror s0) with (rerror (jconn st)).
  destruct (Nat.leb 1000 (S (errcount (jconn st)))) eqn:El.
  - eexists. split; [reflexivity|]. cbn [snd jr jconn jpanic bump]. rsimpl. auto.
  - rewrite He. eexists. split; [reflexivity|]. cbn [snd fst jr jconn jpanic bump]. rsimpl. auto.
Qed.

Theorem join_sticky_run inflate c e : forall l st, jr st = JNil -> rerror (jconn st) = Some e ->
  fst (join_steps inflate c st l) = repeat ([], Some e) (min (length l) (999 - errcount (jconn st))).
Proof.
  induction l as [|m l IH]; intros st Hjr He; [reflexivity|].
  destruct (join_read_sticky inflate c m st e Hjr He) as (st' & Hst & Hjr' & He' & Hec & Hp).
  cbn [join_steps length]. destruct (join_read inflate c m st) as [o st1]. cbn [snd fst] in *. subst st1.
  destruct (Nat.leb 1000 (S (errcount (jconn st)))) eqn:El.
  - rewrite Hp. apply Nat.leb_le in El. replace (999 - errcount (jconn st))%nat with 0%nat by lia.
    rewrite Nat.min_0_r. reflexivity.
  - destruct Hp as (Hp & ->). rewrite Hp. apply Nat.leb_gt in El.
    specialize (IH st' Hjr' He'). destruct (join_steps inflate c st' l) as [os st2]. cbn [fst] in *.
    rewrite IH, Hec.
    replace (999 - errcount (jconn st))%nat with (S (999 - S (errcount (jconn st))))%nat by lia.
    rewrite <- Nat.succ_min_distr. reflexivity.
Qed.

Lemma seq_ok_app srv : forall a o b, seq_ok srv o a = true -> seq_ok srv false b = true ->
  seq_ok srv o (a ++ b) = true.
Proof.
  induction a as [|f a IH]; intros o b Ha Hb.
  - cbn [seq_ok] in Ha. destruct o; [discriminate Ha|exact Hb].
  - cbn [app seq_ok] in *. apply andb_true_iff in Ha. destruct Ha as [Hf Ha].
    rewrite Hf. cbn [andb]. exact (IH _ _ Ha Hb).
Qed.

(* only control frames (or nothing) are left on the transport: NextReader answers the pings
   and reports the transport's fault as advanceFrame maps it -- never io.EOF *)
Lemma join_read_at_end inflate k c cs m st : custom_handlers c = false -> jr st = JNil ->
  rinv k (jconn st) -> rem (jconn st) = 0 -> rfin (jconn st) = true ->
  pending (br (jconn st)) = encode_frames cs -> all_ctl cs = true -> Forall wf_frame cs ->
  seq_ok (server c) false cs = true ->
  exists st', join_read inflate c m st = (([], Some (of_berror (BErr k))), st') /\
    jr st' = JNil /\ jpanic st' = false /\ rerror (jconn st') = Some (of_berror (BErr k)) /\
    errcount (jconn st') = 1%nat.
Proof.
  intros Hch Hjr Hrinv Hrem Hfin Hp Hall Hwf Hseq. unfold join_read. rewrite Hjr. unfold next_reader.
  set (s0 := jconn st <| cur := None |> <| rlen := 0 |>).
  assert (Hrinv0 : rinv k s0) by (apply (rinv_same k (jconn st)); [exact Hrinv|reflexivity ..]).
  destruct (next_loop_end k c Hch cs s0 (fuel_of s0) Hall Hrinv0 Hrem Hfin Hp Hwf Hseq)
    as (s1 & Hnl & Herr1 & _ & _ & _ & _ & Hec1 & _); [unfold fuel_of; lia|].
  rewrite Hnl. cbv iota zeta beta. rsimpl. rewrite Hec1. cbn [Nat.leb]. rewrite Herr1.
  eexists. split; [reflexivity|]. cbn [jr jconn jpanic bump]. rsimpl. auto.
Qed.

(* ============================== part E: whole connections ============================== *)
Definition msegs (term:bytes) (fs:list frame) : list bytes :=
  map (fun m : N * bool * bytes => snd m ++ term) (data_msgs (events_of fs)).

Lemma join_conn inflate c b fs extra term l :
  custom_handlers c = false -> binv b -> (125 <= bsize b)%nat ->
  conformant_frames c fs -> pending b = encode_frames fs ++ extra ->
  (trailer fs = [] -> extra <> []) -> Forall (fun m => (0 < m)%nat) l ->
  exists l1 l2 o1 st1 segs1, l = l1 ++ l2 /\ jsteps (msegs term fs) l1 o1 segs1 /\
    jinv (fault (src b)) c (encode_frames (trailer fs) ++ extra) (body fs) [] term st1 segs1 /\
    (l2 = [] \/ segs1 = []) /\
    join_run inflate c (init_rst b) term l = o1 ++ fst (join_steps inflate c st1 l2).
Proof.
  intros Hch Hinv Hbs Hconf Hp Hside Hl.
  set (extra' := encode_frames (trailer fs) ++ extra).
  assert (Hne : extra' <> []).
  { subst extra'. destruct (trailer fs) as [|t tr] eqn:Et; [cbn [encode_frames flat_map app]; auto|].
    rewrite encode_frames_cons, encode_frame_decomp. cbn [app]. discriminate. }
  assert (Hp' : pending b = encode_frames (body fs) ++ extra').
  { subst extra'. rewrite app_assoc, <- encode_frames_app, body_trailer. exact Hp. }
  destruct (conformant_body c fs Hconf) as (Hwf & Hseq & Hlen).
  assert (Hinit : jinv (fault (src b)) c extra' (body fs) [] term (init_jstate (init_rst b) term)
                       (segs_of term (body fs))).
  { split; [reflexivity|]. split; [reflexivity|]. cbn [jr jconn init_jstate rinvj].
    exists (body fs). split; [|reflexivity]. exists []. split; [|reflexivity]. split.
    - unfold rstate. split; [apply rinv_init; assumption|]. split; [reflexivity|]. split; [exact Hp'|].
      split; [exact Hwf|]. split; [exact Hseq|]. split; [exact Hlen|]. intros Hx; discriminate Hx.
    - split; [reflexivity|]. split; [left; auto|reflexivity]. }
  destruct (join_steps_run inflate (fault (src b)) c extra' Hch Hne (body fs) [] term l _ _ Hl Hinit)
    as (l1 & l2 & o1 & st1 & segs1 & Hl12 & Hjs & Hinv1 & Hor & Hrun).
  exists l1, l2, o1, st1, segs1. split; [exact Hl12|].
  split; [unfold segs_of in Hjs; rewrite msgs_body in Hjs; exact Hjs|].
  split; [exact Hinv1|]. split; [exact Hor|]. unfold join_run. rewrite Hrun. reflexivity.
Qed.

(* ------------------------------------------------------------------------------------------ *)
(* Master theorem, ANYTHING may follow the frames [fs] on the transport (more frames, garbage, *)
(* nothing when a control frame follows the last data frame).  The calls [l1] made while      *)
(* messages of [fs] are left follow [jsteps] exactly; calls are left over ([l2]) only when    *)
(* every message has been delivered; they start with NextReader from a connection that stands *)
(* right after the last data frame of [fs].                                                   *)
(* ------------------------------------------------------------------------------------------ *)
Theorem join_stream :
  forall inflate c b fs extra term l,
    custom_handlers c = false -> binv b -> (125 <= bsize b)%nat ->
    conformant_frames c fs -> pending b = encode_frames fs ++ extra ->
    (trailer fs = [] -> extra <> []) -> Forall (fun m => (0 < m)%nat) l ->
    exists l1 l2 o1 st1 segs1, l = l1 ++ l2 /\ jsteps (msegs term fs) l1 o1 segs1 /\
      (l2 = [] \/ segs1 = []) /\
      join_run inflate c (init_rst b) term l = o1 ++ fst (join_steps inflate c st1 l2) /\
      (segs1 = [] -> jr st1 = JNil /\ jpanic st1 = false /\ jterm st1 = term /\
                     rem (jconn st1) = 0 /\ rfin (jconn st1) = true /\ reached fs extra (jconn st1)).
Proof.
  intros inflate c b fs extra term l Hch Hinv Hbs Hconf Hp Hside Hl.
  destruct (join_conn inflate c b fs extra term l Hch Hinv Hbs Hconf Hp Hside Hl)
    as (l1 & l2 & o1 & st1 & segs1 & Hl12 & Hjs & Hinv1 & Hor & Hrun).
  exists l1, l2, o1, st1, segs1. split; [exact Hl12|]. split; [exact Hjs|]. split; [exact Hor|].
  split; [exact Hrun|]. intros ->.
  destruct (jinv_nil _ _ _ _ _ _ _ Hinv1) as (Hjr & Ht & Hpn & aft & Hend & _).
  split; [exact Hjr|]. split; [exact Hpn|]. split; [exact Ht|].
  pose proof (atend_midmsg _ _ _ _ _ _ _ Hend) as Hmid.
  destruct Hend as (pre & ((_ & Hrem & _) & _) & Hfin).
  split; [exact Hrem|]. split; [exact Hfin|].
  apply reached_trailer. exact (midmsg_reached _ _ _ _ _ _ Hmid).
Qed.

(* ------------------------------------------------------------------------------------------ *)
(* Master theorem, NOTHING follows the frames: the stream is exactly [encode_frames fs] and    *)
(* ends with the transport's fault.  Hypothesis [trailer fs <> []]: at least one control frame *)
(* follows the last data frame (see [join_glued_eof_counterexample]).  After the calls [l1]    *)
(* every further call returns the same error, until the 1000th failure of NextReader panics.   *)
(* ------------------------------------------------------------------------------------------ *)
Definition eos_error (b:bufio) : rerr := of_berror (BErr (fault (src b))).

Definition closed_shape (segs0:list bytes) (l:list nat) (outs:list jout) (e:rerr) : Prop :=
  exists l1 l2 o1 segs1, l = l1 ++ l2 /\ jsteps segs0 l1 o1 segs1 /\ (l2 = [] \/ segs1 = []) /\
    outs = o1 ++ repeat ([], Some e) (min (length l2) 999).

Theorem join_closed :
  forall inflate c b fs term l,
    custom_handlers c = false -> binv b -> (125 <= bsize b)%nat ->
    conformant_frames c fs -> pending b = encode_frames fs -> trailer fs <> [] ->
    Forall (fun m => (0 < m)%nat) l ->
    closed_shape (msegs term fs) l (join_run inflate c (init_rst b) term l) (eos_error b).
Proof.
  intros inflate c b fs term l Hch Hinv Hbs Hconf Hp Htr Hl.
  assert (Hp0 : pending b = encode_frames fs ++ []) by (rewrite app_nil_r; exact Hp).
  destruct (join_conn inflate c b fs [] term l Hch Hinv Hbs Hconf Hp0 (fun E => False_ind _ (Htr E)) Hl)
    as (l1 & l2 & o1 & st1 & segs1 & Hl12 & Hjs & Hinv1 & Hor & Hrun).
  exists l1, l2, o1, segs1. split; [exact Hl12|]. split; [exact Hjs|]. split; [exact Hor|].
  rewrite Hrun. f_equal. destruct l2 as [|m l2]; [reflexivity|].
  destruct Hor as [Hx|Hx]; [discriminate Hx|]. subst segs1.
  destruct (jinv_nil _ _ _ _ _ _ _ Hinv1) as (Hjr & Ht & Hpn & aft & Hend & Hall).
  destruct Hend as (pre & ((Hrinv & Hrem & Hpend & Hwfa & Hseqa & _) & _) & Hfin).
  destruct Hconf as (Hwf & Hseq & _).
  assert (Hwft : Forall wf_frame (trailer fs)).
  { rewrite <- (body_trailer fs) in Hwf. apply Forall_app in Hwf. apply Hwf. }
  rewrite Hfin in Hseqa. cbn [negb] in Hseqa.
  destruct (join_read_at_end inflate (fault (src b)) c (aft ++ trailer fs) m st1 Hch Hjr Hrinv Hrem Hfin)
    as (st' & Hjr1 & Hjr' & Hpn' & Herr' & Hec').
  { rewrite Hpend, app_nil_r, encode_frames_app. reflexivity. }
  { rewrite all_ctl_app, Hall, trailer_all_ctl. reflexivity. }
  { apply Forall_app. split; assumption. }
  { apply seq_ok_app; [exact Hseqa|apply seq_ok_trailer; exact Hseq]. }
  cbn [join_steps length]. rewrite Hjr1, Hpn'.
  pose proof (join_sticky_run inflate c (eos_error b) l2 st' Hjr' Herr') as Hst.
  destruct (join_steps inflate c st' l2) as [os st2]. cbn [fst] in *. rewrite Hst, Hec'.
  change (999 - 1)%nat with 998%nat. change 999%nat with (S 998). rewrite <- Nat.succ_min_distr.
  reflexivity.
Qed.

(* ---------- what the two shapes imply (pure) ---------- *)
Lemma jbytes_app o1 o2 : jbytes (o1 ++ o2) = jbytes o1 ++ jbytes o2.
Proof. apply flat_map_app. Qed.

Lemma jbytes_firstn_repeat (e:option rerr) : forall n j, jbytes (firstn j (repeat (@nil N, e) n)) = [].
Proof.
  induction n as [|n IH]; intros j; destruct j as [|j]; try reflexivity.
  cbn [repeat firstn]. unfold jbytes. cbn [flat_map fst app]. apply IH.
Qed.

Lemma jbytes_repeat (e:option rerr) n : jbytes (repeat (@nil N, e) n) = [].
Proof. rewrite <- (firstn_all (repeat (@nil N, e) n)). apply jbytes_firstn_repeat. Qed.

Lemma filter_silent_repeat e n : filter silent (repeat ([], Some e) n) = [].
Proof. induction n as [|n IH]; [reflexivity|]. cbn [repeat filter silent]. exact IH. Qed.

Lemma sizes_repeat (e:option rerr) : forall (l2:list nat) n, (n <= length l2)%nat ->
  Forall2 (fun m (o:jout) => (length (fst o) <= m)%nat) (firstn n l2) (repeat ([], e) n).
Proof.
  induction l2 as [|m l2 IH]; intros n Hn; destruct n as [|n]; try (cbn [length] in Hn; lia);
    cbn [firstn repeat]; constructor; [cbn [fst length]; lia|apply IH; cbn [length] in Hn; lia].
Qed.

Lemma shape_prefix segs0 l outs e : closed_shape segs0 l outs e ->
  exists rest, concat segs0 = jbytes outs ++ rest.
Proof.
  intros (l1 & l2 & o1 & segs1 & _ & Hjs & _ & ->). exists (concat segs1).
  rewrite jbytes_app, jbytes_repeat, app_nil_r. exact (jsteps_concat _ _ _ _ Hjs).
Qed.

Lemma shape_sizes segs0 l outs e : closed_shape segs0 l outs e ->
  Forall2 (fun m (o:jout) => (length (fst o) <= m)%nat) (firstn (length outs) l) outs.
Proof.
  intros (l1 & l2 & o1 & segs1 & -> & Hjs & _ & ->).
  pose proof (jsteps_length _ _ _ _ Hjs) as Hlen.
  rewrite app_length, repeat_length, firstn_app, Hlen.
  rewrite firstn_all2 by lia.
  replace (length l1 + Nat.min (length l2) 999 - length l1)%nat with (Nat.min (length l2) 999) by lia.
  apply Forall2_app; [exact (jsteps_sizes _ _ _ _ Hjs)|apply sizes_repeat; lia].
Qed.

Lemma shape_error segs0 l outs e : closed_shape segs0 l outs e ->
  forall i x e', nth_error outs i = Some (x, Some e') ->
    x = [] /\ e' = e /\ jbytes (firstn i outs) = concat segs0 /\
    forall j, (i <= j)%nat -> (j < length outs)%nat -> nth_error outs j = Some ([], Some e).
Proof.
  intros (l1 & l2 & o1 & segs1 & -> & Hjs & Hor & ->) i x e' Hn.
  pose proof (jsteps_nil_errors _ _ _ _ Hjs) as Hnil. rewrite Forall_forall in Hnil.
  destruct (Nat.lt_ge_cases i (length o1)) as [Hi|Hi].
  { rewrite nth_error_app1 in Hn by exact Hi. apply nth_error_In in Hn. apply Hnil in Hn.
    discriminate Hn. }
  rewrite nth_error_app2 in Hn by exact Hi.
  assert (Hlt : (i - length o1 < Nat.min (length l2) 999)%nat).
  { match type of Hn with nth_error ?r ?q = _ =>
      assert (Hx : (q < length r)%nat)
        by (apply nth_error_Some; intro E; pose proof (eq_trans (eq_sym Hn) E) as F; discriminate F) end.
    rewrite repeat_length in Hx. exact Hx. }
  apply nth_error_In, repeat_spec in Hn. inversion Hn; subst x e'.
  split; [reflexivity|]. split; [reflexivity|].
  assert (Hs1 : segs1 = []).
  { destruct Hor as [E|E]; [|exact E]. subst l2. cbn [length Nat.min] in Hlt. lia. }
  subst segs1. split.
  - rewrite firstn_app, (firstn_all2 o1) by lia. rewrite jbytes_app, jbytes_firstn_repeat, app_nil_r.
    pose proof (jsteps_concat _ _ _ _ Hjs) as Hc. cbn [concat] in Hc. rewrite app_nil_r in Hc.
    symmetry. exact Hc.
  - intros j Hij Hj. rewrite app_length, repeat_length in Hj.
    rewrite nth_error_app2 by lia. apply nth_error_repeat. lia.
Qed.

Lemma shape_complete segs0 l outs e : closed_shape segs0 l outs e -> (jmeasure segs0 <= length l)%nat ->
  jbytes outs = concat segs0 /\ length (filter silent outs) = length segs0.
Proof.
  intros (l1 & l2 & o1 & segs1 & -> & Hjs & Hor & ->) Hlen.
  pose proof (jsteps_measure _ _ _ _ Hjs) as Hm.
  assert (Hs1 : segs1 = []).
  { destruct Hor as [E|E]; [|exact E]. subst l2. rewrite app_nil_r in Hlen.
    apply jmeasure_zero. lia. }
  subst segs1. pose proof (jsteps_concat _ _ _ _ Hjs) as Hc. cbn [concat] in Hc. rewrite app_nil_r in Hc.
  pose proof (jsteps_silent_calls _ _ _ _ Hjs) as Hsil. cbn [length] in Hsil.
  split.
  - rewrite jbytes_app, jbytes_repeat, app_nil_r. symmetry. exact Hc.
  - rewrite filter_app, filter_silent_repeat, app_nil_r. lia.
Qed.

(* ============================== part F: the four properties ============================== *)
(* Hypotheses of all four: default handlers, any role, any bufio state b (buffer >= 125, any
   initial content, any transport chunking, any fault kind, glued to the last bytes or not) whose
   pending bytes are exactly the encoding of the conformant uncompressed frame list fs, in which
   at least one control frame follows the last data frame; any term; any positive read sizes. *)

(* (a) the bytes returned, concatenated, are a prefix of the joined messages; no call returns
   more than its buffer; an error is returned only when everything has been delivered *)
Theorem join_prefix :
  forall inflate c b fs term l,
    custom_handlers c = false -> binv b -> (125 <= bsize b)%nat ->
    conformant_frames c fs -> pending b = encode_frames fs -> trailer fs <> [] ->
    Forall (fun m => (0 < m)%nat) l ->
    let outs := join_run inflate c (init_rst b) term l in
    let W := joined term (data_msgs (events_of fs)) in
    (exists rest, W = jbytes outs ++ rest) /\
    Forall2 (fun m (o:jout) => (length (fst o) <= m)%nat) (firstn (length outs) l) outs /\
    (forall i x e, nth_error outs i = Some (x, Some e) -> jbytes (firstn i outs) = W).
Proof.
  intros inflate c b fs term l Hch Hinv Hbs Hconf Hp Htr Hl outs W.
  pose proof (join_closed inflate c b fs term l Hch Hinv Hbs Hconf Hp Htr Hl) as Hsh. fold outs in Hsh.
  subst W. rewrite <- concat_joined. fold (msegs term fs).
  split; [exact (shape_prefix _ _ _ _ Hsh)|]. split; [exact (shape_sizes _ _ _ _ Hsh)|].
  intros i x e Hn. apply (shape_error _ _ _ _ Hsh i x e Hn).
Qed.

(* (b) after (number of bytes + number of messages) calls everything has been delivered, and
   exactly one call per message has returned 0 bytes with a nil error: the call on which the
   message reader (term = "") resp. the MultiReader (term <> "") reports io.EOF -- in [jsteps]:
   the call made when everything of the current message and its terminator has been delivered *)
Theorem join_complete :
  forall inflate c b fs term l,
    custom_handlers c = false -> binv b -> (125 <= bsize b)%nat ->
    conformant_frames c fs -> pending b = encode_frames fs -> trailer fs <> [] ->
    Forall (fun m => (0 < m)%nat) l ->
    let outs := join_run inflate c (init_rst b) term l in
    let ms := data_msgs (events_of fs) in
    (length (joined term ms) + length ms <= length l)%nat ->
    jbytes outs = joined term ms /\ length (filter silent outs) = length ms.
Proof.
  intros inflate c b fs term l Hch Hinv Hbs Hconf Hp Htr Hl outs ms Hlen.
  pose proof (join_closed inflate c b fs term l Hch Hinv Hbs Hconf Hp Htr Hl) as Hsh. fold outs in Hsh.
  destruct (shape_complete _ _ _ _ Hsh) as (H1 & H2).
  { unfold msegs. rewrite jmeasure_joined. exact Hlen. }
  unfold msegs in H1, H2. rewrite concat_joined in H1. rewrite map_length in H2. auto.
Qed.

(* (c) the joined reader never returns io.EOF; the first error it returns is the transport's
   fault as NextReader reports it at the end of the stream ([eos_error]: EOF becomes
   CloseError 1006 "unexpected EOF"); it comes with no byte, after everything has been
   delivered, and every later call returns it again *)
Theorem join_first_error :
  forall inflate c b fs term l,
    custom_handlers c = false -> binv b -> (125 <= bsize b)%nat ->
    conformant_frames c fs -> pending b = encode_frames fs -> trailer fs <> [] ->
    Forall (fun m => (0 < m)%nat) l ->
    let outs := join_run inflate c (init_rst b) term l in
    Forall (fun o : jout => snd o <> Some RIoEOF) outs /\
    forall i x e, nth_error outs i = Some (x, Some e) ->
      x = [] /\ e = eos_error b /\ e <> RIoEOF /\
      jbytes (firstn i outs) = joined term (data_msgs (events_of fs)) /\
      forall j, (i <= j)%nat -> (j < length outs)%nat -> nth_error outs j = Some ([], Some e).
Proof.
  intros inflate c b fs term l Hch Hinv Hbs Hconf Hp Htr Hl outs.
  pose proof (join_closed inflate c b fs term l Hch Hinv Hbs Hconf Hp Htr Hl) as Hsh. fold outs in Hsh.
  assert (Hmain : forall i x e, nth_error outs i = Some (x, Some e) ->
      x = [] /\ e = eos_error b /\ e <> RIoEOF /\
      jbytes (firstn i outs) = joined term (data_msgs (events_of fs)) /\
      forall j, (i <= j)%nat -> (j < length outs)%nat -> nth_error outs j = Some ([], Some e)).
  { intros i x e Hn. destruct (shape_error _ _ _ _ Hsh i x e Hn) as (H1 & H2 & H3 & H4).
    split; [exact H1|]. split; [exact H2|]. split; [rewrite H2; apply of_berror_noeof|].
    split; [rewrite H3; apply concat_joined|]. rewrite H2. exact H4. }
  split; [|exact Hmain]. apply Forall_forall. intros [x [e|]] Hin; [|discriminate].
  apply In_nth_error in Hin. destruct Hin as (i & Hn). destruct (Hmain i x e Hn) as (_ & _ & He & _).
  cbn [snd]. congruence.
Qed.

(* ... and that error is the one the ReadMessage loop ends with on the same stream *)
Corollary join_error_is_next_reader_error :
  forall inflate c b fs,
    custom_handlers c = false -> binv b -> (125 <= bsize b)%nat ->
    conformant_frames c fs -> pending b = encode_frames fs -> trailer fs <> [] ->
    let ms := data_msgs (events_of fs) in
    exists s', run_ops inflate c (init_rst b) (repeat OReadMessage (S (length ms))) =
                 (map out_of ms ++ [RMsg 0 [] (Some (eos_error b))], s').
Proof.
  intros inflate c b fs Hch Hinv Hbs Hconf Hp Htr ms.
  destruct (read_messages_then_end inflate c b fs Hch Hinv Hbs Hconf Hp (fun E => False_ind _ (Htr E)))
    as (e & s' & Hrun & [He|(_ & He)] & _); [|contradiction].
  exists s'. subst e. exact Hrun.
Qed.

(* (d) independence: two lists of read sizes that both exhaust the stream, over two transports
   (chunking, buffer size, initial buffering, fault) carrying the same frames, give the same
   bytes *)
Theorem join_independent :
  forall inflate1 inflate2 c1 c2 b1 b2 fs term l1 l2,
    custom_handlers c1 = false -> custom_handlers c2 = false -> server c1 = server c2 ->
    binv b1 -> binv b2 -> (125 <= bsize b1)%nat -> (125 <= bsize b2)%nat ->
    conformant_frames c1 fs -> trailer fs <> [] ->
    pending b1 = encode_frames fs -> pending b2 = encode_frames fs ->
    Forall (fun m => (0 < m)%nat) l1 -> Forall (fun m => (0 < m)%nat) l2 ->
    let ms := data_msgs (events_of fs) in
    (length (joined term ms) + length ms <= length l1)%nat ->
    (length (joined term ms) + length ms <= length l2)%nat ->
    jbytes (join_run inflate1 c1 (init_rst b1) term l1) = jbytes (join_run inflate2 c2 (init_rst b2) term l2).
Proof.
  intros i1 i2 c1 c2 b1 b2 fs term l1 l2 Hc1 Hc2 Hsrv Hi1 Hi2 Hs1 Hs2 Hconf Htr Hp1 Hp2 Hl1 Hl2 ms Hn1 Hn2.
  assert (Hconf2 : conformant_frames c2 fs).
  { destruct Hconf as (A & B & C). unfold conformant_frames. rewrite <- Hsrv. auto. }
  destruct (join_complete i1 c1 b1 fs term l1 Hc1 Hi1 Hs1 Hconf Hp1 Htr Hl1 Hn1) as (E1 & _).
  destruct (join_complete i2 c2 b2 fs term l2 Hc2 Hi2 Hs2 Hconf2 Hp2 Htr Hl2 Hn2) as (E2 & _).
  rewrite E1, E2. reflexivity.
Qed.

(* ---------- the same when ANYTHING may follow the frames on the transport ---------- *)
(* (a)+(b) for the calls made while messages of [fs] are left ([o1]); calls are left over ([o2])
   only when everything has been delivered *)
Theorem join_stream_prefix :
  forall inflate c b fs extra term l,
    custom_handlers c = false -> binv b -> (125 <= bsize b)%nat ->
    conformant_frames c fs -> pending b = encode_frames fs ++ extra ->
    (trailer fs = [] -> extra <> []) -> Forall (fun m => (0 < m)%nat) l ->
    let ms := data_msgs (events_of fs) in
    exists o1 o2 rest,
      join_run inflate c (init_rst b) term l = o1 ++ o2 /\
      Forall (fun o : jout => snd o = None) o1 /\
      Forall2 (fun m (o:jout) => (length (fst o) <= m)%nat) (firstn (length o1) l) o1 /\
      joined term ms = jbytes o1 ++ rest /\ (o2 = [] \/ rest = []) /\
      ((length (joined term ms) + length ms <= length l)%nat ->
         rest = [] /\ length (filter silent o1) = length ms /\
         (length o1 <= length (joined term ms) + length ms)%nat).
Proof.
  intros inflate c b fs extra term l Hch Hinv Hbs Hconf Hp Hside Hl ms. subst ms.
  destruct (join_stream inflate c b fs extra term l Hch Hinv Hbs Hconf Hp Hside Hl)
    as (l1 & l2 & o1 & st1 & segs1 & -> & Hjs & Hor & Hrun & _).
  exists o1, (fst (join_steps inflate c st1 l2)), (concat segs1).
  pose proof (jsteps_length _ _ _ _ Hjs) as Hlen.
  pose proof (jsteps_concat _ _ _ _ Hjs) as Hc. unfold msegs in Hc. rewrite concat_joined in Hc.
  pose proof (jsteps_measure _ _ _ _ Hjs) as Hm. unfold msegs in Hm. rewrite jmeasure_joined in Hm.
  split; [exact Hrun|]. split; [exact (jsteps_nil_errors _ _ _ _ Hjs)|].
  split.
  { rewrite Hlen, firstn_app, firstn_all, Nat.sub_diag. cbn [firstn]. rewrite app_nil_r.
    exact (jsteps_sizes _ _ _ _ Hjs). }
  split; [exact Hc|].
  split.
  { destruct Hor as [->| ->]; [left; reflexivity|right; reflexivity]. }
  intros Hbound.
  assert (Hs1 : segs1 = []).
  { destruct Hor as [E|E]; [|exact E]. subst l2. rewrite app_nil_r in Hbound. apply jmeasure_zero. lia. }
  subst segs1. split; [reflexivity|].
  pose proof (jsteps_silent_calls _ _ _ _ Hjs) as Hsil. unfold msegs in Hsil. rewrite map_length in Hsil.
  cbn [length] in Hsil. split; [lia|].
  unfold jmeasure in Hm. lia.
Qed.

(* ---------- NextReader between two messages never fails with io.EOF ---------- *)
(* what a control frame leaves behind: nothing to skip, the fragmentation state untouched *)
Definition ctl_done (op:N) (s:rst) (r:adv * rst) : Prop :=
  match fst r with
  | AFrame op' => op' = op /\
      ((op =? c_continuationFrame) || ((op =? c_TextMessage) || (op =? c_BinaryMessage)) = false ->
       rem (snd r) = 0 /\ rfin (snd r) = rfin s)
  | AErr _ => True
  end.

Lemma rd_rfin n s : rfin (snd (rd n s)) = rfin s.
Proof. unfold rd. destruct (br_peek_discard n (br s)) as [[p e] b]. reflexivity. Qed.
Lemma send_rfin w s : rfin (send w s) = rfin s /\ rem (send w s) = rem s.
Proof. unfold send. destruct (closesent s); split; reflexivity. Qed.

Transparent aas2 aas3 aas4 aas5.
Lemma ctl_done_aas5 c op len s : custom_handlers c = false -> ctl_done op s (aas5 c op len s).
Proof.
  intros Hch. unfold aas5, ctl_done. cbv zeta.
  destruct ((op =? c_continuationFrame) || ((op =? c_TextMessage) || (op =? c_BinaryMessage))) eqn:Ed.
  { destruct (2 ^ 63 <=? rlen s + len); [exact I|].
    destruct ((0 <? rlimit (s <| rlen := rlen s + len |>)) && (rlimit (s <| rlen := rlen s + len |>) <? rlen s + len));
      [exact I|]. cbn [fst snd]. split; [reflexivity|]. intros E; discriminate E. }
  assert (Hrd : exists pl e s1, (if 0 <? len then rd (N.to_nat len) s else ([], None, s)) = (pl, e, s1) /\ rfin s1 = rfin s).
  { destruct (0 <? len).
    - pose proof (rd_rfin (N.to_nat len) s) as H. destruct (rd (N.to_nat len) s) as [[pl e] s1].
      exists pl, e, s1. auto.
    - exists [], None, s. auto. }
  destruct Hrd as (pl & e & s1 & -> & Hf).
  destruct e as [e0|]; [exact I|]. rewrite Hch.
  destruct (op =? c_PongMessage); [cbn [fst snd]; rsimpl; auto|].
  destruct (op =? c_PingMessage).
  { cbn [fst snd]. split; [reflexivity|]. intros _.
    match goal with |- context [send ?w ?st] => destruct (send_rfin w st) as (A & B); rewrite A, B end.
    rsimpl. auto. }
  unfold protocol_error.
  repeat match goal with |- context [if ?b then _ else _] => destruct b end; exact I.
Qed.

Lemma ctl_done_trans op s s1 r : rfin s1 = rfin s -> ctl_done op s1 r -> ctl_done op s r.
Proof. unfold ctl_done. intros E H. destruct (fst r); [exact I|]. rewrite <- E. exact H. Qed.

Lemma ctl_done_aas4 c op mask len s : custom_handlers c = false -> ctl_done op s (aas4 c op mask len s).
Proof.
  intros Hch. unfold aas4. cbv zeta. destruct mask.
  - pose proof (rd_rfin 4 (s <| rem := len |> <| mpos := 0 |>)) as H.
    destruct (rd 4 (s <| rem := len |> <| mpos := 0 |>)) as [[p [e|]] s1]; cbn [snd] in H; [exact I|].
    eapply ctl_done_trans; [|apply ctl_done_aas5; exact Hch]. rsimpl. exact H.
  - eapply ctl_done_trans; [|apply ctl_done_aas5; exact Hch]. reflexivity.
Qed.

Lemma ctl_done_aas3 c op mask l7 s : custom_handlers c = false -> ctl_done op s (aas3 c op mask l7 s).
Proof.
  intros Hch. unfold aas3. destruct (l7 =? 126).
  - pose proof (rd_rfin 2 s) as H. destruct (rd 2 s) as [[p [e|]] s1]; cbn [snd] in H; [exact I|].
    eapply ctl_done_trans; [exact H|apply ctl_done_aas4; exact Hch].
  - destruct (l7 =? 127).
    + pose proof (rd_rfin 8 s) as H. destruct (rd 8 s) as [[p [e|]] s1]; cbn [snd] in H; [exact I|].
      destruct (2 ^ 63 <=? be_dec p); [exact I|].
      eapply ctl_done_trans; [exact H|apply ctl_done_aas4; exact Hch].
    + apply ctl_done_aas4. exact Hch.
Qed.

(* a frame accepted when no message is open (c.readFinal) and that is not the first frame of a
   message is a control frame: nothing is left to skip and c.readFinal is still set *)
Lemma aas2_ctl c b0 b1 s op s1 : custom_handlers c = false -> rfin s = true ->
  aas2 c b0 b1 s = (AFrame op, s1) -> (op =? c_TextMessage) || (op =? c_BinaryMessage) = false ->
  rem s1 = 0 /\ rfin s1 = true.
Proof.
  intros Hch Hfin H Hop. unfold aas2 in H. cbv zeta in H.
  set (o := N.land b0 15) in *.
  destruct (hdr_reject c (rfin (s <| rem := N.land b1 127 |> <| rdecomp := bit b0 c_rsv1Bit && negotiated c |>)) b0 b1) eqn:Erej;
    [unfold protocol_error in H; discriminate H|].
  match type of H with aas3 c o ?mk ?l7 ?st = _ =>
    pose proof (ctl_done_aas3 c o mk l7 st Hch) as Hd; rewrite H in Hd end.
  unfold ctl_done in Hd. cbn [fst snd] in Hd. destruct Hd as (-> & Hd).
  rewrite Hop in *. rewrite orb_false_r in Hd.
  destruct (o =? c_continuationFrame) eqn:Ec.
  - exfalso. rsimpl_in Erej. rewrite Hfin in Erej. unfold hdr_reject in Erej. cbv zeta in Erej. fold o in Erej.
    rewrite Ec in Erej. apply N.eqb_eq in Ec. rewrite Ec in Erej.
    change ((c_continuationFrame =? c_CloseMessage) || (c_continuationFrame =? c_PingMessage) || (c_continuationFrame =? c_PongMessage)) with false in Erej.
    change ((c_continuationFrame =? c_TextMessage) || (c_continuationFrame =? c_BinaryMessage)) with false in Erej.
    cbv iota in Erej. rewrite !orb_true_r in Erej. cbn [orb] in Erej. rewrite ?orb_true_r in Erej. discriminate Erej.
  - destruct (Hd eq_refl) as (Hr & Hf). split; [exact Hr|]. rewrite Hf. rsimpl. exact Hfin.
Qed.
Opaque aas2 aas3 aas4 aas5.

Lemma next_loop_noeof : forall fuel c s r s', custom_handlers c = false ->
  rerror s = None -> rem s = 0 -> rfin s = true -> next_loop fuel c s = (r, s') ->
  rerror s' <> Some RIoEOF.
Proof.
  induction fuel as [|f IH]; intros c s r s' Hch He Hrem Hfin H; cbn [next_loop] in H; rewrite He in H.
  - inversion H; subst. rsimpl. rewrite He. discriminate.
  - rewrite advance_frame_rem0 in H by exact Hrem.
    pose proof (advance_after_skip_good c s) as (Hp & Hne).
    destruct (advance_after_skip c s) as [a s1] eqn:Ea. cbn [fst snd] in Hp, Hne.
    destruct Hp as (_ & Hre & _). destruct a as [e|op].
    + inversion H; subst. rsimpl. cbn [noeof] in Hne. congruence.
    + destruct ((op =? c_TextMessage) || (op =? c_BinaryMessage)) eqn:Eop.
      * inversion H; subst. rsimpl. rewrite Hre, He. discriminate.
      * rewrite aas_unfold in Ea. pose proof (rd_rfin 2 s) as Hrf.
        destruct (rd 2 s) as [[p [e|]] s0]; cbn [snd] in Hrf; [discriminate Ea|].
        destruct (aas2_ctl c _ _ s0 op s1 Hch ltac:(congruence) Ea Eop) as (Hr1 & Hf1).
        apply (IH c s1 r s' Hch); [congruence|exact Hr1|exact Hf1|exact H].
Qed.

Lemma next_reader_some_err c s ty e s' : next_reader c s = (RNext ty (Some e), s') -> rerror s' = Some e.
Proof.
  unfold next_reader. destruct (next_loop _ c _) as [[op|] s1]; [intros H; discriminate H|].
  destruct (Nat.leb 1000 _); intros H; inversion H. reflexivity.
Qed.

(* The joined reader between two messages, no error so far: if NextReader fails now, its error
   is not io.EOF, it is what this call and all later calls return (until the panic). *)
Theorem join_end_error inflate c st m l ty e s' :
  custom_handlers c = false -> jr st = JNil ->
  rerror (jconn st) = None -> rem (jconn st) = 0 -> rfin (jconn st) = true ->
  next_reader c (jconn st) = (RNext ty (Some e), s') ->
  e <> RIoEOF /\
  fst (join_steps inflate c st (m :: l)) = repeat ([], Some e) (S (min (length l) (999 - errcount s'))).
Proof.
  intros Hch Hjr He Hrem Hfin Hnr. pose proof (next_reader_some_err _ _ _ _ _ Hnr) as He'.
  split.
  - intros ->. revert Hnr He'. unfold next_reader.
    set (s0 := jconn st <| cur := None |> <| rlen := 0 |>).
    pose proof (next_loop_noeof (fuel_of s0) c s0) as Hno.
    destruct (next_loop (fuel_of s0) c s0) as [[op|] s1]; [intros H; discriminate H|].
    specialize (Hno None s1 Hch He Hrem Hfin eq_refl).
    destruct (Nat.leb 1000 _); intros H; inversion H as [[H1 H2 H3]]. intros _. exact (Hno H2).
  - cbn [join_steps]. unfold join_read. rewrite Hjr, Hnr. cbn [jpanic].
    pose proof (join_sticky_run inflate c e l
      {| jconn := bump s'; jterm := jterm st; jr := JNil; jpanic := false; jood := jood st |} eq_refl He') as Hst.
    destruct (join_steps inflate c _ l) as [os st2]. cbn [fst] in *. rewrite Hst. reflexivity.
Qed.

(* (c) when ANYTHING may follow the frames: every call made while messages of fs are left
   returns a nil error; when calls are left over everything has been delivered, the reader
   stands right after the last data frame, and IF NextReader fails there (the stream does not
   go on with a further message) its error -- never io.EOF -- is returned by all of them *)
Theorem join_stream_end :
  forall inflate c b fs extra term l,
    custom_handlers c = false -> binv b -> (125 <= bsize b)%nat ->
    conformant_frames c fs -> pending b = encode_frames fs ++ extra ->
    (trailer fs = [] -> extra <> []) -> Forall (fun m => (0 < m)%nat) l ->
    exists o1 l2 st1,
      join_run inflate c (init_rst b) term l = o1 ++ fst (join_steps inflate c st1 l2) /\
      Forall (fun o : jout => snd o = None) o1 /\
      (l2 = [] \/
       (jbytes o1 = joined term (data_msgs (events_of fs)) /\ reached fs extra (jconn st1) /\
        forall ty e s', next_reader c (jconn st1) = (RNext ty (Some e), s') ->
          e <> RIoEOF /\
          exists m l2', l2 = m :: l2' /\
            fst (join_steps inflate c st1 l2) =
              repeat ([], Some e) (S (min (length l2') (999 - errcount s'))))).
Proof.
  intros inflate c b fs extra term l Hch Hinv Hbs Hconf Hp Hside Hl.
  destruct (join_stream inflate c b fs extra term l Hch Hinv Hbs Hconf Hp Hside Hl)
    as (l1 & l2 & o1 & st1 & segs1 & -> & Hjs & Hor & Hrun & Hend).
  exists o1, l2, st1. split; [exact Hrun|]. split; [exact (jsteps_nil_errors _ _ _ _ Hjs)|].
  destruct l2 as [|m l2']; [left; reflexivity|right].
  destruct Hor as [Hx|Hx]; [discriminate Hx|]. subst segs1.
  destruct (Hend eq_refl) as (Hjr & _ & _ & Hrem & Hfin & Hre).
  pose proof (jsteps_concat _ _ _ _ Hjs) as Hc. unfold msegs in Hc. rewrite concat_joined in Hc.
  cbn [concat] in Hc. rewrite app_nil_r in Hc.
  split; [symmetry; exact Hc|]. split; [exact Hre|].
  intros ty e s' Hnr.
  assert (He : rerror (jconn st1) = None) by (destruct Hre as (pre & w & post & _ & _ & _ & _ & _ & He & _); exact He).
  destruct (join_end_error inflate c st1 m l2' ty e s' Hch Hjr He Hrem Hfin Hnr) as (Hne & Hrep).
  split; [exact Hne|]. exists m, l2'. auto.
Qed.

(* ============================== part G: examples ============================== *)
Module JoinDemo.
Import ReadProgDemo.
Definition nf : bytes -> option bytes := fun _ => None.

(* the stream of ReadProgDemo ("Hello" in three fragments with a ping in between, a binary
   message 1 2 3 4 5 in two fragments with a pong in between, a ping, "xyz", a last ping), read
   through JoinMessages(c, "\r\n") *)
Example join_run_5 :
  join_run nf ex_cfg (init_rst (ex_b 5 EOther true)) [13;10] [2;1;100;7;1;1;3;100;100;100;100;100;100;100;100]%nat =
    [([72;101], None); ([108], None); ([108], None); ([111], None); ([13], None); ([10], None); ([], None);
     ([1;2;3], None); ([4;5], None); ([13;10], None); ([], None);
     ([120;121;122], None); ([13;10], None); ([], None); ([], Some ROther)].
Proof. vm_compute. reflexivity. Qed.

Example join_run_200 :
  join_run nf ex_cfg (init_rst (ex_b 200 EEOF false)) [] [2;1;100;7;1;1;3;100;100;100;100;100;100]%nat =
    [([72;101], None); ([108], None); ([108;111], None); ([], None);
     ([1], None); ([2], None); ([3], None); ([4;5], None); ([], None);
     ([120;121;122], None); ([], None); ([], Some unexpected_eof); ([], Some unexpected_eof)].
Proof. vm_compute. reflexivity. Qed.

(* the hypotheses of the four theorems are satisfiable: any of the two chunkings, any fault *)
Example join_demo_complete n flt gl : n = 5%nat \/ n = 200%nat ->
  let outs := join_run nf ex_cfg (init_rst (ex_b n flt gl)) [13;10] (repeat 4%nat 30) in
  jbytes outs = [72;101;108;108;111;13;10; 1;2;3;4;5;13;10; 120;121;122;13;10] /\
  length (filter silent outs) = 3%nat.
Proof.
  intros Hn.
  apply (join_complete nf ex_cfg (ex_b n flt gl) ex_fs [13;10] (repeat 4%nat 30) eq_refl (ex_binv n flt gl Hn)).
  - cbn [ex_b mk_bufio bsize]. lia.
  - exact ex_conf.
  - destruct Hn as [-> | ->]; vm_compute; reflexivity.
  - vm_compute. discriminate.
  - apply Forall_forall. intros m Hm. apply repeat_spec in Hm. lia.
  - vm_compute. lia.
Qed.

(* NextReader's 1000th failure panics: 26 + 1 + 1 calls for the message, 999 errors, and the
   run ends *)
Example join_panic_after_999_errors :
  length (join_run nf ex_cfg (init_rst cx_b) [10] (repeat 5%nat 1100)) = 1027%nat.
Proof. vm_compute. reflexivity. Qed.

(* ---------- why a control frame (or any byte) must follow the last data frame ---------- *)
(* The stream of [glued_eof_counterexample]: one binary message of 130 bytes, nothing after it,
   the payload delivered TOGETHER with io.EOF.  The message reader returns (130, io.EOF) in one
   call; joinReader.Read turns that into (130, nil) and forgets the reader; the next NextReader
   returns the remembered io.EOF: the joined reader returns io.EOF (c), and with term = "" the
   message has no call returning (0, nil) (b).  The bytes delivered are still the joined
   messages. *)
Example join_glued_eof_counterexample :
  conformant_frames ex_cfg cx_fs /\ binv cx_b /\ (125 <= bsize cx_b)%nat /\
  pending cx_b = encode_frames cx_fs /\ trailer cx_fs = [] /\
  data_msgs (events_of cx_fs) = [(2, false, cx_payload)] /\
  join_run nf ex_cfg (init_rst cx_b) [] [200;200;200]%nat =
    [(cx_payload, None); ([], Some RIoEOF); ([], Some RIoEOF)] /\
  join_run nf ex_cfg (init_rst cx_b) [10] [200;200;200;200]%nat =
    [(cx_payload, None); ([10], None); ([], None); ([], Some RIoEOF)].
Proof.
  destruct glued_eof_counterexample as (H1 & H2 & H3 & H4 & H5 & H6 & _).
  split; [exact H1|]. split; [exact H2|]. split; [exact H3|].
  split; [rewrite app_nil_r in H4; exact H4|]. split; [exact H5|]. split; [exact H6|].
  split; vm_compute; reflexivity.
Qed.
End JoinDemo.

Print Assumptions join_read_step.
Print Assumptions join_steps_run.
Print Assumptions join_sticky_run.
Print Assumptions join_stream.
Print Assumptions join_closed.
Print Assumptions join_stream_prefix.
Print Assumptions next_loop_noeof.
Print Assumptions join_end_error.
Print Assumptions join_stream_end.
Print Assumptions join_prefix.
Print Assumptions join_complete.
Print Assumptions join_first_error.
Print Assumptions join_error_is_next_reader_error.
Print Assumptions join_independent.
Print Assumptions JoinDemo.join_run_5.
Print Assumptions JoinDemo.join_demo_complete.
Print Assumptions JoinDemo.join_panic_after_999_errors.
Print Assumptions JoinDemo.join_glued_eof_counterexample.
