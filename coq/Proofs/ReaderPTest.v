(* Non-vacuity and sanity checks by computation: a concrete conformant stream (masked frames for
   a server; pings and an empty pong and an empty continuation interleaved in a fragmented text
   message; a second, unfragmented binary message with a 16-bit length; a trailing ping), cut into
   awkward chunks with a glued non-EOF fault, read with the minimal 125-byte buffer and a strange
   ReadAll capacity schedule.  The model's run agrees with what the theorems predict. *)
Require Import WS.Base.Bytes WS.gen.Consts WS.Spec.Frame WS.Spec.Conformance WS.Model.Bufio
  WS.Model.Reader WS.Proofs.BufioP WS.Proofs.FrameP.
Require Import WS.Proofs.ReaderP1 WS.Proofs.ReaderP2 WS.Proofs.ReaderP3 WS.Proofs.ReaderP.

Definition k1 := [1;2;3;4]. Definition k2 := [9;8;7;6].
Definition sample_fs : list frame :=
 [ mkf true 9 0 (Some k1) [104;105];
   mkf false 1 0 (Some k2) [72;101;108];
   mkf true 10 0 (Some k1) [];
   mkf false 0 0 (Some k1) [];
   mkf true 9 0 (Some k2) [1;2;3];
   mkf true 0 0 (Some k2) [108;111];
   mkf true 2 0 (Some k1) (repeat 7 200);
   mkf true 9 0 (Some k1) [5] ].
Definition sample_cfg : rcfg :=
  {| server := true; negotiated := true; custom_handlers := false; handler_fail := []; caps := [3;7] |}.

Example sample_conformant : conformant_frames sample_cfg sample_fs.
Proof.
  split; [|split].
  - repeat (apply Forall_cons; [vm_compute; repeat split; reflexivity|]). apply Forall_nil.
  - vm_compute. reflexivity.
  - vm_compute. reflexivity.
Qed.

Definition stream := encode_frames sample_fs.
Definition sample_b : bufio :=
  mk_bufio 125 [] {| chunks := [firstn 5 stream; firstn 30 (skipn 5 stream); skipn 35 stream];
                     fault := EOther; glued := true |}.

Example sample_run :
  let r := run_ops (fun _ => None) sample_cfg (init_rst sample_b) (repeat OReadMessage 2) in
  fst r = map out_of (data_msgs (events_of sample_fs)) /\
  wlog (snd r) = map WPong (pings_of (body sample_fs)) /\
  pending (br (snd r)) = encode_frames (trailer sample_fs) /\
  rerror (snd r) = None /\ outoffuel (snd r) = false /\
  length (data_msgs (events_of sample_fs)) = 2%nat /\
  pings_of (body sample_fs) = [[104;105]; [1;2;3]] /\ length (trailer sample_fs) = 1%nat.
Proof. vm_compute. repeat split; reflexivity. Qed.

(* the side condition of read_messages_general is necessary: nothing follows the last data frame
   and a timeout is delivered together with its last bytes -> the complete message comes back
   with an error *)
Definition one_fs : list frame := [ mkf true 2 0 (Some k1) (repeat 7 200) ].
Definition glued_b (flt:errk) : bufio :=
  mk_bufio 125 [] {| chunks := [firstn 8 (encode_frames one_fs); skipn 8 (encode_frames one_fs)];
                     fault := flt; glued := true |}.
Definition cfg0 : rcfg :=
  {| server := true; negotiated := false; custom_handlers := false; handler_fail := []; caps := [] |}.

Example glued_timeout_spoils_last_message :
  fst (run_ops (fun _ => None) cfg0 (init_rst (glued_b ETimeout)) [OReadMessage]) =
  [RMsg 2 (repeat 7 200) (Some RTimeout)].
Proof. vm_compute. reflexivity. Qed.

(* glued EOF: the message is fine, io.EOF becomes sticky and the next call returns bare io.EOF *)
Example glued_eof_is_sticky :
  let r := run_ops (fun _ => None) cfg0 (init_rst (glued_b EEOF)) [OReadMessage; OReadMessage] in
  fst r = [RMsg 2 (repeat 7 200) None; RMsg 0 [] (Some RIoEOF)] /\ rerror (snd r) = Some RIoEOF.
Proof. vm_compute. split; reflexivity. Qed.

Print Assumptions sample_conformant.
Print Assumptions sample_run.
