(* Lemmas about the RFC 6455 framing Spec (WS.Spec.Frame): codec round trip, header
   decomposition, bit-level header facts, defragmentation events. *)
Require Import WS.Base.Bytes WS.Spec.Frame.
Ltac Zify.zify_post_hook ::= Z.div_mod_to_equations.

(* ------------------------------------------------------------------------------------------ *)
(* B.5  Header decomposition                                                                  *)
(* ------------------------------------------------------------------------------------------ *)
Definition hdr_b0 (f:frame) : N := 128 * b2n (fin f) + 16 * rsv f + opcode f.
Definition mask_bit (f:frame) : N := match mkey f with Some _ => 128 | None => 0 end.
Definition len7 (f:frame) : N := if plen f <? 126 then plen f else if plen f <? 65536 then 126 else 127.
Definition hdr_b1 (f:frame) : N := mask_bit f + len7 f.
Definition ext_bytes (f:frame) : bytes := if plen f <? 126 then [] else if plen f <? 65536 then be_enc 2 (plen f) else be_enc 8 (plen f).
Definition key_bytes (f:frame) : bytes := match mkey f with Some k => k | None => [] end.
Definition wire_payload (f:frame) : bytes := match mkey f with Some k => maskl k 0 (payload f) | None => payload f end.

Lemma encode_frame_decomp f :
  encode_frame f = hdr_b0 f :: hdr_b1 f :: ext_bytes f ++ key_bytes f ++ wire_payload f.
Proof.
  unfold encode_frame, len_enc, hdr_b0, hdr_b1, mask_bit, len7, ext_bytes, key_bytes, wire_payload.
  destruct (plen f <? 126); [|destruct (plen f <? 65536)]; destruct (mkey f) as [k|];
    cbn [app]; reflexivity.
Qed.

Lemma ext_bytes_length f :
  length (ext_bytes f) = if plen f <? 126 then 0%nat else if plen f <? 65536 then 2%nat else 8%nat.
Proof.
  unfold ext_bytes. destruct (plen f <? 126); [reflexivity|].
  destruct (plen f <? 65536); apply be_enc_length.
Qed.

Lemma ext_bytes_blen f :
  blen (ext_bytes f) = if plen f <? 126 then 0 else if plen f <? 65536 then 2 else 8.
Proof.
  unfold blen. rewrite ext_bytes_length.
  destruct (plen f <? 126); [reflexivity|]. destruct (plen f <? 65536); reflexivity.
Qed.

Lemma ext_bytes_dec f : 126 <= plen f -> plen f < 2^64 -> be_dec (ext_bytes f) = plen f.
Proof.
  intros Hlo Hhi. unfold ext_bytes.
  destruct (plen f <? 126) eqn:E1; [lia|].
  destruct (plen f <? 65536) eqn:E2; apply be_roundtrip.
  - change (256 ^ N.of_nat 2) with 65536. lia.
  - change (256 ^ N.of_nat 8) with (2^64). exact Hhi.
Qed.

Lemma ext_bytes_bytes_ok f : bytes_ok (ext_bytes f).
Proof.
  unfold ext_bytes. destruct (plen f <? 126); [constructor|].
  destruct (plen f <? 65536); apply be_enc_bytes_ok.
Qed.

Lemma key_bytes_length f : wf_frame f ->
  length (key_bytes f) = match mkey f with Some _ => 4%nat | None => 0%nat end.
Proof.
  intros (_ & _ & _ & Hk). unfold key_bytes. destruct (mkey f); [exact Hk|reflexivity].
Qed.

Lemma wire_payload_length f : length (wire_payload f) = length (payload f).
Proof. unfold wire_payload. destruct (mkey f); [apply maskl_length|reflexivity]. Qed.

Lemma wire_payload_blen f : blen (wire_payload f) = plen f.
Proof. unfold blen, plen, blen. rewrite wire_payload_length. reflexivity. Qed.

Lemma unmask_wire f k : mkey f = Some k -> maskl k 0 (wire_payload f) = payload f.
Proof. intros H. unfold wire_payload. rewrite H. apply mask_inv. Qed.

Lemma wire_payload_unmasked f : mkey f = None -> wire_payload f = payload f.
Proof. intros H. unfold wire_payload. rewrite H. reflexivity. Qed.

Lemma len7_lt f : len7 f < 128.
Proof. unfold len7. destruct (plen f <? 126) eqn:E; [lia|]. destruct (plen f <? 65536); lia. Qed.

Lemma hdr_b0_byte f : wf_frame f -> hdr_b0 f < 256.
Proof. intros (Hr & Ho & _). unfold hdr_b0. destruct (fin f); cbn [b2n]; lia. Qed.

Lemma hdr_b1_byte f : hdr_b1 f < 256.
Proof. pose proof (len7_lt f). unfold hdr_b1, mask_bit. destruct (mkey f); lia. Qed.

(* ------------------------------------------------------------------------------------------ *)
(* A.3 / A.4  Length and byte-range of an encoded frame                                       *)
(* ------------------------------------------------------------------------------------------ *)
Lemma blen_app a b : blen (a ++ b) = blen a + blen b.
Proof. unfold blen. rewrite app_length. lia. Qed.
Lemma blen_cons x a : blen (x :: a) = 1 + blen a.
Proof. unfold blen. cbn [length]. lia. Qed.

Lemma encode_frame_length f :
  blen (encode_frame f) =
  2 + (if plen f <? 126 then 0 else if plen f <? 65536 then 2 else 8)
    + (match mkey f with Some k => blen k | None => 0 end) + plen f.
Proof.
  rewrite encode_frame_decomp, !blen_cons, !blen_app, ext_bytes_blen, wire_payload_blen.
  unfold key_bytes. destruct (mkey f); [lia|]. change (blen []) with 0. lia.
Qed.

Lemma encode_frame_length_ge2 f : (2 <= length (encode_frame f))%nat.
Proof. rewrite encode_frame_decomp. cbn [length]. lia. Qed.

Lemma encode_frame_bytes_ok f :
  wf_frame f -> bytes_ok (payload f) -> (forall k, mkey f = Some k -> bytes_ok k) ->
  bytes_ok (encode_frame f).
Proof.
  intros Hwf Hp Hk. rewrite encode_frame_decomp. unfold bytes_ok.
  constructor; [apply hdr_b0_byte; exact Hwf|].
  constructor; [apply hdr_b1_byte|].
  apply Forall_app; split; [apply ext_bytes_bytes_ok|].
  unfold key_bytes, wire_payload. destruct (mkey f) as [k|]; [|exact Hp].
  apply Forall_app; split; [apply Hk; reflexivity|].
  apply maskl_bytes_ok; [apply Hk; reflexivity|exact Hp].
Qed.

(* ------------------------------------------------------------------------------------------ *)
(* A.1  Round trip of one frame                                                               *)
(* ------------------------------------------------------------------------------------------ *)
Lemma take_zero l : take 0 l = Some ([], l).
Proof. reflexivity. Qed.

Theorem parse_encode f rest :
  wf_frame f -> parse_frame (encode_frame f ++ rest) = Parsed f true rest.
Proof.
  intros (Hr & Ho & Hl & Hk). destruct f as [fn rs op mk pl].
  unfold encode_frame, plen in *; cbn [fin rsv opcode mkey payload] in *.
  set (L := blen pl) in *.
  assert (HL : length pl = N.to_nat L) by (subst L; unfold blen; lia).
  set (m := match mk with Some _ => 128 | None => 0 end).
  assert (Hm : m = 0 \/ m = 128) by (destruct mk; auto).
  assert (Hb0a : (128 <=? 128 * b2n fn + 16 * rs + op) = fn) by (destruct fn; cbn [b2n]; lia).
  assert (Hb0b : ((128 * b2n fn + 16 * rs + op) mod 128) / 16 = rs) by (destruct fn; cbn [b2n]; lia).
  assert (Hb0c : (128 * b2n fn + 16 * rs + op) mod 16 = op) by (destruct fn; cbn [b2n]; lia).
  assert (Hbad : (2^63 <=? L) = false) by lia.
  assert (Hfit1 : (blen (pl ++ rest) <? L) = false) by (rewrite blen_app; fold L; lia).
  assert (Hfit2 : forall k, (blen (maskl k 0 pl ++ rest) <? L) = false).
  { intros k. rewrite blen_app. unfold blen at 1. rewrite maskl_length. fold (blen pl). fold L. lia. }
  (* what remains once the length has been decoded *)
  assert (Htail : forall minimal,
    (if 2^63 <=? L then BadLen else
     match (if match mk with Some _ => true | None => false end
            then take 4 (match mk with Some k => k ++ maskl k 0 pl | None => pl end ++ rest)
            else Some ([], match mk with Some k => k ++ maskl k 0 pl | None => pl end ++ rest)) with
     | None => Need
     | Some (k, r2) =>
       if short_of r2 L then Need else
       match take (N.to_nat L) r2 with
       | None => Need
       | Some (pl0, rest0) =>
         Parsed {| fin := fn; rsv := rs; opcode := op;
                   mkey := if match mk with Some _ => true | None => false end then Some k else None;
                   payload := if match mk with Some _ => true | None => false end
                              then maskl k 0 pl0 else pl0 |} minimal rest0
       end
     end) = Parsed {| fin := fn; rsv := rs; opcode := op; mkey := mk; payload := pl |} minimal rest).
  { intros minimal. rewrite Hbad. destruct mk as [k|].
    - rewrite <- app_assoc. rewrite (take_app 4 k) by exact Hk.
      rewrite short_of_spec, Hfit2. rewrite take_app by (rewrite maskl_length; exact HL).
      rewrite mask_inv. reflexivity.
    - rewrite short_of_spec, Hfit1. rewrite take_app by exact HL. reflexivity. }
  unfold len_enc.
  destruct (L <? 126) eqn:E1; [|destruct (L <? 65536) eqn:E2].
  - (* 7-bit *)
    cbn [app]. unfold parse_frame. rewrite Hb0a, Hb0b, Hb0c.
    assert (H1 : (m + L) mod 128 = L) by lia. rewrite H1.
    assert (H2 : (128 <=? m + L) = match mk with Some _ => true | None => false end)
      by (destruct mk; subst m; lia).
    rewrite H2.
    replace (L =? 126) with false by lia. replace (L =? 127) with false by lia. rewrite E1.
    rewrite take_zero. apply Htail.
  - (* 16-bit *)
    cbn [app]. unfold parse_frame. rewrite Hb0a, Hb0b, Hb0c.
    assert (H1 : (m + 126) mod 128 = 126) by lia. rewrite H1.
    assert (H2 : (128 <=? m + 126) = match mk with Some _ => true | None => false end)
      by (destruct mk; subst m; lia).
    rewrite H2.
    change (126 =? 126) with true. change (126 <? 126) with false. cbv iota.
    rewrite <- app_assoc. rewrite (take_app 2 (be_enc 2 L)) by apply be_enc_length.
    rewrite be_roundtrip by (change (256 ^ N.of_nat 2) with 65536; lia).
    replace (126 <=? L) with true by lia. apply Htail.
  - (* 64-bit *)
    cbn [app]. unfold parse_frame. rewrite Hb0a, Hb0b, Hb0c.
    assert (H1 : (m + 127) mod 128 = 127) by lia. rewrite H1.
    assert (H2 : (128 <=? m + 127) = match mk with Some _ => true | None => false end)
      by (destruct mk; subst m; lia).
    rewrite H2.
    change (127 =? 126) with false. change (127 =? 127) with true. change (127 <? 126) with false.
    cbv iota.
    rewrite <- app_assoc. rewrite (take_app 8 (be_enc 8 L)) by apply be_enc_length.
    rewrite be_roundtrip by (change (256 ^ N.of_nat 8) with (2^64); lia).
    replace (65536 <=? L) with true by lia. apply Htail.
Qed.

(* ------------------------------------------------------------------------------------------ *)
(* A.2  Round trip of a frame sequence                                                        *)
(* ------------------------------------------------------------------------------------------ *)
Lemma encode_frames_cons f fs : encode_frames (f :: fs) = encode_frame f ++ encode_frames fs.
Proof. reflexivity. Qed.

Lemma encode_frames_app fs1 fs2 : encode_frames (fs1 ++ fs2) = encode_frames fs1 ++ encode_frames fs2.
Proof. unfold encode_frames. apply flat_map_app. Qed.

Lemma encode_frames_length_ge fs : (2 * length fs <= length (encode_frames fs))%nat.
Proof.
  induction fs as [|f fs IH]; [cbn; lia|].
  rewrite encode_frames_cons, app_length. pose proof (encode_frame_length_ge2 f).
  cbn [length]. lia.
Qed.

Lemma parse_frames_fuel_encode fs : forall fuel,
  Forall wf_frame fs -> (length fs < fuel)%nat ->
  parse_frames_fuel fuel (encode_frames fs) = (map (fun f => (f, true)) fs, TEnd).
Proof.
  induction fs as [|f fs IH]; intros fuel Hwf Hfuel.
  - destruct fuel as [|fuel]; [cbn in Hfuel; lia|]. reflexivity.
  - destruct fuel as [|fuel]; [lia|]. cbn [length] in Hfuel.
    inversion Hwf as [|f' fs' Hf Hfs]; subst.
    rewrite encode_frames_cons. cbn [parse_frames_fuel].
    rewrite (parse_encode f (encode_frames fs) Hf).
    rewrite IH by (try assumption; lia).
    rewrite encode_frame_decomp. cbn [app map]. reflexivity.
Qed.

(* the same with unconsumed trailing bytes: the tail is whatever the parser makes of [rest] *)
Lemma parse_frames_fuel_encode_app fs rest : forall fuel,
  Forall wf_frame fs ->
  parse_frames_fuel (length fs + fuel) (encode_frames fs ++ rest) =
  (map (fun f => (f, true)) fs ++ fst (parse_frames_fuel fuel rest),
   snd (parse_frames_fuel fuel rest)).
Proof.
  induction fs as [|f fs IH]; intros fuel Hwf.
  - cbn [length encode_frames flat_map app map Nat.add]. destruct (parse_frames_fuel fuel rest); reflexivity.
  - inversion Hwf as [|f' fs' Hf Hfs]; subst.
    rewrite encode_frames_cons, <- app_assoc. cbn [length Nat.add parse_frames_fuel].
    rewrite (parse_encode f (encode_frames fs ++ rest) Hf).
    rewrite IH by assumption.
    rewrite encode_frame_decomp. cbn [app map]. reflexivity.
Qed.

Theorem parse_frames_encode fs :
  Forall wf_frame fs -> parse_frames (encode_frames fs) = (map (fun f => (f, true)) fs, TEnd).
Proof.
  intros Hwf. unfold parse_frames. apply parse_frames_fuel_encode; [exact Hwf|].
  pose proof (encode_frames_length_ge fs). lia.
Qed.

(* ------------------------------------------------------------------------------------------ *)
(* B.6  Bit-level facts about the two fixed header bytes (exhaustive computation)             *)
(* ------------------------------------------------------------------------------------------ *)
Definition Nrange (n:N) : list N := map N.of_nat (seq 0 (N.to_nat n)).

Lemma Nrange_in x n : x < n -> In x (Nrange n).
Proof.
  intros H. unfold Nrange. rewrite <- (N2Nat.id x). apply in_map. apply in_seq. lia.
Qed.

Lemma forallb_Nrange (P : N -> bool) n :
  forallb P (Nrange n) = true -> forall x, x < n -> P x = true.
Proof. intros H x Hx. rewrite forallb_forall in H. apply H. apply Nrange_in. exact Hx. Qed.

Definition b0_val (fn:bool) (r o:N) : N := 128 * b2n fn + 16 * r + o.

Definition b0_chk (fn:bool) (r o:N) : bool :=
  let b := b0_val fn r o in
  (N.land b 15 =? o)
  && (N.land b 128 =? if fn then 128 else 0)
  && (N.land b 64 =? if 4 <=? r then 64 else 0)
  && (N.land b 32 =? if N.testbit r 1 then 32 else 0)
  && (N.land b 16 =? if N.testbit r 0 then 16 else 0)
  && (N.land b 112 =? 16 * r)
  && (N.shiftr (N.land b 112) 4 =? r).

Lemma b0_chk_all :
  forallb (fun fn => forallb (fun r => forallb (fun o => b0_chk fn r o) (Nrange 16)) (Nrange 8))
          [true; false] = true.
Proof. vm_compute. reflexivity. Qed.

Lemma b0_chk_ok fn r o : r < 8 -> o < 16 -> b0_chk fn r o = true.
Proof.
  intros Hr Ho. pose proof b0_chk_all as H. rewrite forallb_forall in H.
  assert (Hfn : In fn [true; false]) by (destruct fn; cbn; auto).
  specialize (H fn Hfn). cbv beta in H.
  apply (forallb_Nrange _ 8) with (x := r) in H; [|exact Hr].
  apply (forallb_Nrange _ 16) with (x := o) in H; [|exact Ho].
  exact H.
Qed.

Lemma b0_facts fn r o : r < 8 -> o < 16 ->
  let b := b0_val fn r o in
  N.land b 15 = o /\
  N.land b 128 = (if fn then 128 else 0) /\
  N.land b 64 = (if 4 <=? r then 64 else 0) /\
  N.land b 32 = (if N.testbit r 1 then 32 else 0) /\
  N.land b 16 = (if N.testbit r 0 then 16 else 0) /\
  N.land b 112 = 16 * r /\
  N.shiftr (N.land b 112) 4 = r.
Proof.
  intros Hr Ho b. pose proof (b0_chk_ok fn r o Hr Ho) as H. unfold b0_chk in H. fold b in H.
  repeat (apply andb_true_iff in H; destruct H as [H ?]).
  repeat match goal with E : (_ =? _) = true |- _ => apply N.eqb_eq in E end.
  tauto.
Qed.

Lemma hdr_b0_facts f : wf_frame f ->
  N.land (hdr_b0 f) 15 = opcode f /\
  N.land (hdr_b0 f) 128 = (if fin f then 128 else 0) /\
  N.land (hdr_b0 f) 64 = (if 4 <=? rsv f then 64 else 0) /\
  N.land (hdr_b0 f) 32 = (if N.testbit (rsv f) 1 then 32 else 0) /\
  N.land (hdr_b0 f) 16 = (if N.testbit (rsv f) 0 then 16 else 0) /\
  N.land (hdr_b0 f) 112 = 16 * rsv f /\
  N.shiftr (N.land (hdr_b0 f) 112) 4 = rsv f.
Proof. intros (Hr & Ho & _). exact (b0_facts (fin f) (rsv f) (opcode f) Hr Ho). Qed.

Lemma hdr_b0_opcode f : wf_frame f -> N.land (hdr_b0 f) 15 = opcode f.
Proof. intros H. apply (hdr_b0_facts f H). Qed.

Lemma hdr_b0_fin_land f : wf_frame f -> N.land (hdr_b0 f) 128 = if fin f then 128 else 0.
Proof. intros H. apply (hdr_b0_facts f H). Qed.

Lemma hdr_b0_fin f : wf_frame f -> (N.land (hdr_b0 f) 128 =? 0) = negb (fin f).
Proof. intros H. rewrite (hdr_b0_fin_land f H). destruct (fin f); reflexivity. Qed.

Lemma hdr_b0_rsv1_land f : wf_frame f -> N.land (hdr_b0 f) 64 = if 4 <=? rsv f then 64 else 0.
Proof. intros H. apply (hdr_b0_facts f H). Qed.

Lemma hdr_b0_rsv1 f : wf_frame f -> (N.land (hdr_b0 f) 64 =? 0) = negb (4 <=? rsv f).
Proof. intros H. rewrite (hdr_b0_rsv1_land f H). destruct (4 <=? rsv f); reflexivity. Qed.

Lemma hdr_b0_rsv2_land f : wf_frame f ->
  N.land (hdr_b0 f) 32 = if N.testbit (rsv f) 1 then 32 else 0.
Proof. intros H. apply (hdr_b0_facts f H). Qed.

Lemma hdr_b0_rsv2 f : wf_frame f -> (N.land (hdr_b0 f) 32 =? 0) = negb (N.testbit (rsv f) 1).
Proof. intros H. rewrite (hdr_b0_rsv2_land f H). destruct (N.testbit (rsv f) 1); reflexivity. Qed.

Lemma hdr_b0_rsv3_land f : wf_frame f ->
  N.land (hdr_b0 f) 16 = if N.testbit (rsv f) 0 then 16 else 0.
Proof. intros H. apply (hdr_b0_facts f H). Qed.

Lemma hdr_b0_rsv3 f : wf_frame f -> (N.land (hdr_b0 f) 16 =? 0) = negb (N.testbit (rsv f) 0).
Proof. intros H. rewrite (hdr_b0_rsv3_land f H). destruct (N.testbit (rsv f) 0); reflexivity. Qed.

Lemma hdr_b0_rsv_land f : wf_frame f -> N.land (hdr_b0 f) 112 = 16 * rsv f.
Proof. intros H. apply (hdr_b0_facts f H). Qed.

Lemma hdr_b0_rsv_shift f : wf_frame f -> N.shiftr (N.land (hdr_b0 f) 112) 4 = rsv f.
Proof. intros H. apply (hdr_b0_facts f H). Qed.

Lemma hdr_b0_rsv_zero f : wf_frame f -> rsv f = 0 ->
  N.land (hdr_b0 f) 64 = 0 /\ N.land (hdr_b0 f) 32 = 0 /\ N.land (hdr_b0 f) 16 = 0.
Proof.
  intros H E. rewrite (hdr_b0_rsv1_land f H), (hdr_b0_rsv2_land f H), (hdr_b0_rsv3_land f H), E.
  repeat split; reflexivity.
Qed.

Lemma hdr_b0_rsv_four f : wf_frame f -> rsv f = 4 ->
  N.land (hdr_b0 f) 64 = 64 /\ N.land (hdr_b0 f) 32 = 0 /\ N.land (hdr_b0 f) 16 = 0.
Proof.
  intros H E. rewrite (hdr_b0_rsv1_land f H), (hdr_b0_rsv2_land f H), (hdr_b0_rsv3_land f H), E.
  repeat split; reflexivity.
Qed.

Lemma hdr_b0_rsv_other f : wf_frame f -> rsv f <> 0 /\ rsv f <> 4 ->
  N.land (hdr_b0 f) 32 <> 0 \/ N.land (hdr_b0 f) 16 <> 0.
Proof.
  intros H [H0 H4]. rewrite (hdr_b0_rsv2_land f H), (hdr_b0_rsv3_land f H).
  destruct H as (Hr & _).
  assert (Hc : rsv f = 0 \/ rsv f = 1 \/ rsv f = 2 \/ rsv f = 3 \/ rsv f = 4 \/
               rsv f = 5 \/ rsv f = 6 \/ rsv f = 7) by lia.
  destruct Hc as [E|[E|[E|[E|[E|[E|[E|E]]]]]]]; try contradiction; rewrite E;
    cbv; (left; discriminate) || (right; discriminate).
Qed.

(* converse: both low RSV bits clear exactly when rsv is 0 or 4 *)
Lemma hdr_b0_rsv23_clear f : wf_frame f ->
  N.land (hdr_b0 f) 32 = 0 -> N.land (hdr_b0 f) 16 = 0 -> rsv f = 0 \/ rsv f = 4.
Proof.
  intros H H2 H3.
  destruct (N.eq_dec (rsv f) 0) as [E0|N0]; [left; exact E0|].
  destruct (N.eq_dec (rsv f) 4) as [E4|N4]; [right; exact E4|].
  destruct (hdr_b0_rsv_other f H (conj N0 N4)); contradiction.
Qed.

Definition b1_chk (m l:N) : bool :=
  (N.land (m + l) 127 =? l) && (N.land (m + l) 128 =? m).

Lemma b1_chk_all :
  forallb (fun m => forallb (fun l => b1_chk m l) (Nrange 128)) [0; 128] = true.
Proof. vm_compute. reflexivity. Qed.

Lemma b1_facts m l : m = 0 \/ m = 128 -> l < 128 ->
  N.land (m + l) 127 = l /\ N.land (m + l) 128 = m.
Proof.
  intros Hm Hl. pose proof b1_chk_all as H. rewrite forallb_forall in H.
  assert (Hin : In m [0; 128]) by (destruct Hm as [-> | ->]; cbn; auto).
  specialize (H m Hin). cbv beta in H.
  apply (forallb_Nrange _ 128) with (x := l) in H; [|exact Hl].
  unfold b1_chk in H. apply andb_true_iff in H. destruct H as [H1 H2].
  apply N.eqb_eq in H1. apply N.eqb_eq in H2. split; assumption.
Qed.

Lemma mask_bit_cases f : mask_bit f = 0 \/ mask_bit f = 128.
Proof. unfold mask_bit. destruct (mkey f); auto. Qed.

Lemma hdr_b1_len7 f : N.land (hdr_b1 f) 127 = len7 f.
Proof. exact (proj1 (b1_facts _ _ (mask_bit_cases f) (len7_lt f))). Qed.

Lemma hdr_b1_mask_land f : N.land (hdr_b1 f) 128 = mask_bit f.
Proof. exact (proj2 (b1_facts _ _ (mask_bit_cases f) (len7_lt f))). Qed.

Lemma hdr_b1_mask f :
  (N.land (hdr_b1 f) 128 =? 0) = match mkey f with Some _ => false | None => true end.
Proof. rewrite hdr_b1_mask_land. unfold mask_bit. destruct (mkey f); reflexivity. Qed.

(* which length form the 7-bit field announces *)
Lemma len7_small f : plen f < 126 -> len7 f = plen f /\ ext_bytes f = [].
Proof. intros H. unfold len7, ext_bytes. replace (plen f <? 126) with true by lia. auto. Qed.
Lemma len7_126 f : 126 <= plen f -> plen f < 65536 -> len7 f = 126 /\ ext_bytes f = be_enc 2 (plen f).
Proof.
  intros H1 H2. unfold len7, ext_bytes. replace (plen f <? 126) with false by lia.
  replace (plen f <? 65536) with true by lia. auto.
Qed.
Lemma len7_127 f : 65536 <= plen f -> len7 f = 127 /\ ext_bytes f = be_enc 8 (plen f).
Proof.
  intros H1. unfold len7, ext_bytes. replace (plen f <? 126) with false by lia.
  replace (plen f <? 65536) with false by lia. auto.
Qed.

(* generic byte-level bridges between the parser's div/mod view and [N.land] tests *)
Lemma land_15_mod b : N.land b 15 = b mod 16.
Proof. change 15 with (N.ones 4). rewrite N.land_ones. reflexivity. Qed.
Lemma land_127_mod b : N.land b 127 = b mod 128.
Proof. change 127 with (N.ones 7). rewrite N.land_ones. reflexivity. Qed.

Lemma land_128_byte_all :
  forallb (fun b => Bool.eqb (N.land b 128 =? 0) (negb (128 <=? b))) (Nrange 256) = true.
Proof. vm_compute. reflexivity. Qed.
Lemma land_128_byte b : b < 256 -> (N.land b 128 =? 0) = negb (128 <=? b).
Proof.
  intros H. apply Bool.eqb_prop.
  exact (forallb_Nrange _ 256 land_128_byte_all b H).
Qed.

(* ------------------------------------------------------------------------------------------ *)
(* C.  Events (RFC 6455 5.4 defragmentation)                                                  *)
(* ------------------------------------------------------------------------------------------ *)
Definition eacc := option (N * bool * bytes).

(* the accumulator after a data frame [f] has been absorbed *)
Definition acc_step (acc:eacc) (f:frame) : N * bool * bytes :=
  match acc with
  | None => (opcode f, rsv f =? 4, payload f)
  | Some (ty, c, d) => (ty, c, d ++ payload f)
  end.

Definition emsg_of (a : N * bool * bytes) : event := let '(ty, c, d) := a in EMsg ty c d.

Lemma events_from_nil acc : events_from acc [] = ([], acc).
Proof. reflexivity. Qed.

Lemma events_from_ctl acc f r : is_control (opcode f) = true ->
  events_from acc (f :: r) =
  (ECtl (opcode f) (payload f) :: fst (events_from acc r), snd (events_from acc r)).
Proof. intros H. cbn [events_from]. rewrite H. destruct (events_from acc r). reflexivity. Qed.

Lemma events_from_more acc f r : is_control (opcode f) = false -> fin f = false ->
  events_from acc (f :: r) = events_from (Some (acc_step acc f)) r.
Proof. intros H1 H2. cbn [events_from]. rewrite H1, H2. reflexivity. Qed.

Lemma events_from_final acc f r : is_control (opcode f) = false -> fin f = true ->
  events_from acc (f :: r) =
  (emsg_of (acc_step acc f) :: fst (events_from None r), snd (events_from None r)).
Proof.
  intros H1 H2. cbn [events_from]. rewrite H1, H2.
  destruct acc as [[[ty c] d]|]; cbn [acc_step emsg_of]; destruct (events_from None r); reflexivity.
Qed.

(* C.7 *)
Lemma events_of_single f : is_control (opcode f) = false -> fin f = true ->
  events_of [f] = [EMsg (opcode f) (rsv f =? 4) (payload f)].
Proof. intros H1 H2. unfold events_of. rewrite events_from_final by assumption. reflexivity. Qed.

(* C.8 *)
Lemma events_from_app fs1 : forall acc fs2,
  events_from acc (fs1 ++ fs2) =
  (fst (events_from acc fs1) ++ fst (events_from (snd (events_from acc fs1)) fs2),
   snd (events_from (snd (events_from acc fs1)) fs2)).
Proof.
  induction fs1 as [|f r IH]; intros acc fs2.
  - cbn [app events_from fst snd]. destruct (events_from acc fs2); reflexivity.
  - cbn [app]. destruct (is_control (opcode f)) eqn:Ec; [|destruct (fin f) eqn:Ef].
    + rewrite !events_from_ctl by exact Ec. rewrite IH. reflexivity.
    + rewrite !events_from_final by assumption. rewrite IH. reflexivity.
    + rewrite !events_from_more by assumption. apply IH.
Qed.

(* the same in the [let '(..)] style of the definition *)
Lemma events_from_app' acc fs1 fs2 :
  events_from acc (fs1 ++ fs2) =
  let '(ev1, a1) := events_from acc fs1 in
  let '(ev2, a2) := events_from a1 fs2 in (ev1 ++ ev2, a2).
Proof.
  rewrite events_from_app. destruct (events_from acc fs1) as [ev1 a1]. cbn [fst snd].
  destruct (events_from a1 fs2); reflexivity.
Qed.

Lemma events_of_app_closed fs1 fs2 : snd (events_from None fs1) = None ->
  events_of (fs1 ++ fs2) = events_of fs1 ++ events_of fs2.
Proof. intros H. unfold events_of. rewrite events_from_app. cbn [fst]. rewrite H. reflexivity. Qed.

(* runs of control frames *)
Definition all_ctl (cs:list frame) : bool := forallb (fun f => is_control (opcode f)) cs.
Definition ctl_evs (cs:list frame) : list event := map (fun f => ECtl (opcode f) (payload f)) cs.

Lemma events_from_ctls cs : forall acc r, all_ctl cs = true ->
  events_from acc (cs ++ r) = (ctl_evs cs ++ fst (events_from acc r), snd (events_from acc r)).
Proof.
  induction cs as [|c cs IH]; intros acc r H.
  - cbn [app ctl_evs map]. destruct (events_from acc r); reflexivity.
  - cbn [all_ctl forallb] in H. apply andb_true_iff in H. destruct H as [Hc Hcs].
    cbn [app]. rewrite events_from_ctl by exact Hc. rewrite IH by exact Hcs. reflexivity.
Qed.

(* C.9  A fragmented message with control frames interleaved.
   General form: a list of segments (control frames, then one data-or-continuation frame);
   every data frame but the last has FIN clear. *)
Definition seg := (list frame * frame)%type.
Definition seg_frames (s:seg) : list frame := fst s ++ [snd s].
Definition segs_frames (ss:list seg) : list frame := flat_map seg_frames ss.
Definition seg_ok (last:bool) (s:seg) : Prop :=
  all_ctl (fst s) = true /\ is_control (opcode (snd s)) = false /\ fin (snd s) = last.

Fixpoint acc_steps (a : N * bool * bytes) (ds:list frame) : N * bool * bytes :=
  match ds with [] => a | d :: r => acc_steps (acc_step (Some a) d) r end.

Lemma acc_steps_eq ty c d ds : acc_steps (ty, c, d) ds = (ty, c, d ++ concat (map payload ds)).
Proof.
  revert d; induction ds as [|x ds IH]; intros d; cbn [acc_steps map concat].
  - rewrite app_nil_r. reflexivity.
  - cbn [acc_step]. rewrite IH, app_assoc. reflexivity.
Qed.

Lemma acc_steps_snoc a ds d : acc_steps a (ds ++ [d]) = acc_step (Some (acc_steps a ds)) d.
Proof. revert a; induction ds as [|x ds IH]; intros a; cbn [app acc_steps]; [reflexivity|apply IH]. Qed.

Lemma events_from_open_segs ss : forall acc r, Forall (seg_ok false) ss ->
  events_from acc (segs_frames ss ++ r) =
  match ss with
  | [] => events_from acc r
  | s :: ss' =>
    let a := acc_steps (acc_step acc (snd s)) (map snd ss') in
    (concat (map (fun s => ctl_evs (fst s)) ss) ++ fst (events_from (Some a) r),
     snd (events_from (Some a) r))
  end.
Proof.
  induction ss as [|s ss IH]; intros acc r H; [reflexivity|].
  inversion H as [|s' ss' (Hc & Hd & Hf) Hss]; subst.
  unfold segs_frames. cbn [flat_map]. fold (segs_frames ss). unfold seg_frames.
  rewrite <- !app_assoc. rewrite events_from_ctls by exact Hc. cbn [app].
  rewrite events_from_more by assumption. rewrite IH by exact Hss.
  cbn [map concat]. destruct ss as [|s2 ss2].
  - cbn [map concat acc_steps]. rewrite app_nil_r. reflexivity.
  - cbn [map acc_steps fst snd]. rewrite <- app_assoc. reflexivity.
Qed.

(* general statement: [init] segments with FIN clear, then one segment with FIN set *)
Theorem events_from_message init (lst:seg) acc r :
  Forall (seg_ok false) init -> seg_ok true lst ->
  events_from acc (segs_frames (init ++ [lst]) ++ r) =
  (concat (map (fun s => ctl_evs (fst s)) (init ++ [lst]))
     ++ emsg_of (match map snd (init ++ [lst]) with
                 | [] => acc_step acc (snd lst)  (* unreachable *)
                 | d :: ds => acc_steps (acc_step acc d) ds
                 end)
     :: fst (events_from None r),
   snd (events_from None r)).
Proof.
  intros Hi (Hc & Hd & Hf).
  unfold segs_frames. rewrite flat_map_app. fold (segs_frames init). cbn [flat_map].
  rewrite app_nil_r. unfold seg_frames at 1. rewrite <- !app_assoc.
  rewrite events_from_open_segs by exact Hi.
  rewrite !map_app, concat_app. cbn [map concat]. rewrite app_nil_r.
  destruct init as [|s ss].
  - cbn [app map concat acc_steps]. rewrite events_from_ctls by exact Hc. cbn [app].
    rewrite events_from_final by assumption. reflexivity.
  - cbv zeta. rewrite events_from_ctls by exact Hc. cbn [app fst snd].
    rewrite events_from_final by assumption. cbn [fst snd map app].
    rewrite <- !app_assoc. rewrite acc_steps_snoc. reflexivity.
Qed.

(* Constructed form: one message of type [ty] (a data opcode), compressed flag [comp],
   first chunk [c0] masked with [k0], then continuation segments: control frames, key, chunk.
   FIN is set on the last data/continuation frame only; continuations have opcode 0, rsv 0. *)
Definition mkf (fn:bool) (op r:N) (k:option bytes) (pl:bytes) : frame :=
  {| fin := fn; rsv := r; opcode := op; mkey := k; payload := pl |}.
Definition cseg := (list frame * option bytes * bytes)%type.
Definition is_nil {A} (l:list A) : bool := match l with [] => true | _ => false end.

Fixpoint cont_frames (segs:list cseg) : list frame :=
  match segs with
  | [] => []
  | (cs, k, pl) :: r => cs ++ mkf (is_nil r) 0 0 k pl :: cont_frames r
  end.

Definition msg_frames (ty:N) (comp:bool) (k0:option bytes) (c0:bytes) (segs:list cseg) : list frame :=
  mkf (is_nil segs) ty (if comp then 4 else 0) k0 c0 :: cont_frames segs.

Definition cseg_ctls (s:cseg) : list frame := fst (fst s).
Definition cseg_chunk (s:cseg) : bytes := snd s.

Lemma events_from_cont segs : forall ty c d r,
  segs <> [] -> Forall (fun s => all_ctl (cseg_ctls s) = true) segs ->
  events_from (Some (ty, c, d)) (cont_frames segs ++ r) =
  (concat (map (fun s => ctl_evs (cseg_ctls s)) segs)
     ++ EMsg ty c (d ++ concat (map cseg_chunk segs)) :: fst (events_from None r),
   snd (events_from None r)).
Proof.
  induction segs as [|[[cs k] pl] rs IH]; intros ty c d r Hne Hall; [contradiction|].
  inversion Hall as [|s' ss' Hc Hrs]; subst. unfold cseg_ctls in Hc; cbn [fst] in Hc.
  cbn [cont_frames]. rewrite <- app_assoc. rewrite events_from_ctls by exact Hc.
  cbn [app map concat]. unfold cseg_ctls at 1, cseg_chunk at 1. cbn [fst snd].
  destruct rs as [|s2 rs2].
  - cbn [is_nil cont_frames app map concat].
    rewrite events_from_final by reflexivity.
    cbn [mkf acc_step emsg_of payload fst snd]. rewrite !app_nil_r. reflexivity.
  - cbn [is_nil]. rewrite events_from_more by reflexivity.
    cbn [mkf acc_step payload]. rewrite IH by (try assumption; discriminate).
    cbn [fst snd]. rewrite <- !app_assoc. reflexivity.
Qed.

Theorem events_from_msg_frames ty comp k0 c0 segs r :
  is_control ty = false -> Forall (fun s => all_ctl (cseg_ctls s) = true) segs ->
  events_from None (msg_frames ty comp k0 c0 segs ++ r) =
  (concat (map (fun s => ctl_evs (cseg_ctls s)) segs)
     ++ EMsg ty comp (c0 ++ concat (map cseg_chunk segs)) :: fst (events_from None r),
   snd (events_from None r)).
Proof.
  intros Hty Hall. unfold msg_frames. cbn [app].
  assert (Hcomp : ((if comp then 4 else 0) =? 4) = comp) by (destruct comp; reflexivity).
  destruct segs as [|s rs].
  - cbn [is_nil cont_frames app map concat].
    rewrite events_from_final by (cbn [mkf opcode fin]; auto).
    cbn [mkf acc_step emsg_of payload opcode rsv]. rewrite Hcomp, app_nil_r. reflexivity.
  - cbn [is_nil]. rewrite events_from_more by (cbn [mkf opcode fin]; auto).
    cbn [mkf acc_step payload opcode rsv]. rewrite Hcomp.
    apply events_from_cont; [discriminate|exact Hall].
Qed.

Corollary events_of_msg_frames ty comp k0 c0 segs :
  is_control ty = false -> Forall (fun s => all_ctl (cseg_ctls s) = true) segs ->
  events_of (msg_frames ty comp k0 c0 segs) =
  concat (map (fun s => ctl_evs (cseg_ctls s)) segs)
    ++ [EMsg ty comp (c0 ++ concat (map cseg_chunk segs))].
Proof.
  intros Hty Hall. unfold events_of.
  rewrite <- (app_nil_r (msg_frames ty comp k0 c0 segs)).
  rewrite events_from_msg_frames by assumption. reflexivity.
Qed.

(* the message leaves no open accumulator behind, so messages compose *)
Corollary events_of_msg_frames_app ty comp k0 c0 segs r :
  is_control ty = false -> Forall (fun s => all_ctl (cseg_ctls s) = true) segs ->
  events_of (msg_frames ty comp k0 c0 segs ++ r) =
  events_of (msg_frames ty comp k0 c0 segs) ++ events_of r.
Proof.
  intros Hty Hall. rewrite events_of_msg_frames by assumption. unfold events_of.
  rewrite events_from_msg_frames by assumption. cbn [fst]. rewrite <- app_assoc. reflexivity.
Qed.

Definition key_ok (k:option bytes) : Prop := match k with Some k => length k = 4%nat | None => True end.

Lemma wf_mkf fn op r k pl : r < 8 -> op < 16 -> blen pl < 2^63 -> key_ok k -> wf_frame (mkf fn op r k pl).
Proof. intros Hr Ho Hl Hk. unfold wf_frame, plen. cbn [mkf rsv opcode payload mkey]. auto. Qed.

Lemma wf_cont_frames segs :
  Forall (fun s : cseg => Forall wf_frame (cseg_ctls s) /\ key_ok (snd (fst s)) /\ blen (cseg_chunk s) < 2^63) segs ->
  Forall wf_frame (cont_frames segs).
Proof.
  induction segs as [|[[cs k] pl] rs IH]; intros H; [constructor|].
  inversion H as [|s' ss' (Hcs & Hk & Hl) Hrs]; subst.
  unfold cseg_ctls, cseg_chunk in *; cbn [fst snd] in *.
  cbn [cont_frames]. apply Forall_app; split; [exact Hcs|].
  constructor; [apply wf_mkf; (lia || assumption)|apply IH; exact Hrs].
Qed.

Lemma wf_msg_frames ty comp k0 c0 segs :
  ty < 16 -> key_ok k0 -> blen c0 < 2^63 ->
  Forall (fun s : cseg => Forall wf_frame (cseg_ctls s) /\ key_ok (snd (fst s)) /\ blen (cseg_chunk s) < 2^63) segs ->
  Forall wf_frame (msg_frames ty comp k0 c0 segs).
Proof.
  intros Hty Hk Hl Hs. unfold msg_frames. constructor; [|apply wf_cont_frames; exact Hs].
  apply wf_mkf; try assumption. destruct comp; lia.
Qed.

Print Assumptions parse_encode.
Print Assumptions parse_frames_encode.
Print Assumptions encode_frame_length.
Print Assumptions encode_frame_bytes_ok.
Print Assumptions encode_frame_decomp.
Print Assumptions ext_bytes_dec.
Print Assumptions unmask_wire.
Print Assumptions hdr_b0_facts.
Print Assumptions hdr_b0_rsv_other.
Print Assumptions hdr_b1_len7.
Print Assumptions hdr_b1_mask.
Print Assumptions land_128_byte.
Print Assumptions events_of_single.
Print Assumptions events_from_app.
Print Assumptions events_from_message.
Print Assumptions events_from_msg_frames.
Print Assumptions wf_msg_frames.
