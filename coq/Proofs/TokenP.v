(* The token-list scanner of util.go (tokenListContainsValue) against the 1#token grammar of
   RFC 7230 section 7 (Spec/Handshake.v). *)
Require Import WS.Base.Bytes WS.gen.Consts WS.Spec.Base64 WS.Spec.Sha1 WS.Model.Fold WS.Model.Util
               WS.Spec.Handshake WS.Proofs.FoldP.
Ltac Zify.zify_post_hook ::= Z.div_mod_to_equations.

(* ------------------------------------------------------------------------------------ *)
(* 1. the generated 256-entry table is the RFC 7230 tchar predicate                      *)
(* ------------------------------------------------------------------------------------ *)
Lemma token_table_all :
  forallb (fun n => Bool.eqb (is_token_octet (N.of_nat n)) (tchar (N.of_nat n))) (seq 0 256) = true.
Proof. vm_compute. reflexivity. Qed.

Lemma token_table_is_tchar b : b < 256 -> is_token_octet b = tchar b.
Proof.
  intros Hb. pose proof token_table_all as H. rewrite forallb_forall in H.
  specialize (H (N.to_nat b)). rewrite N2Nat.id in H. apply eqb_prop. apply H.
  apply in_seq. lia.
Qed.

Lemma is_token_octet_big b : 256 <= b -> is_token_octet b = false.
Proof.
  intros Hb. unfold is_token_octet. apply nth_overflow.
  assert (E : length c_isTokenOctet = 256%nat) by reflexivity. rewrite E. lia.
Qed.

Lemma tchar_big b : 256 <= b -> tchar b = false.
Proof. intros Hb. unfold tchar. cbn [existsb]. lia. Qed.

(* hence for every N, byte or not *)
Lemma tok_tchar b : is_token_octet b = tchar b.
Proof.
  destruct (N.ltb_spec b 256) as [H|H].
  - apply token_table_is_tchar. exact H.
  - rewrite is_token_octet_big, tchar_big by exact H. reflexivity.
Qed.

Lemma forallb_tok_tchar l : forallb is_token_octet l = forallb tchar l.
Proof. induction l as [|b r IH]; cbn [forallb]; [reflexivity|]. rewrite tok_tchar, IH. reflexivity. Qed.

Lemma tchar_not_ows b : tchar b = true -> ows b = false.
Proof. unfold tchar, ows. cbn [existsb]. lia. Qed.
Lemma tchar_not_comma b : tchar b = true -> b <> 44.
Proof. unfold tchar. cbn [existsb]. lia. Qed.
Lemma ows_not_tchar b : ows b = true -> tchar b = false.
Proof. unfold tchar, ows. cbn [existsb]. lia. Qed.
Lemma comma_not_tchar : tchar 44 = false.
Proof. reflexivity. Qed.
Lemma comma_not_ows : ows 44 = false.
Proof. reflexivity. Qed.

(* ------------------------------------------------------------------------------------ *)
(* 2. next_token and skip_space                                                           *)
(* ------------------------------------------------------------------------------------ *)
Definition stops_tok (rest:bytes) : Prop :=
  match rest with [] => True | b :: _ => is_token_octet b = false end.

Lemma next_token_spec s : forall t rest,
  next_token s = (t, rest) ->
  s = t ++ rest /\ forallb is_token_octet t = true /\ stops_tok rest.
Proof.
  induction s as [|b r IH]; intros t rest H; cbn [next_token] in H.
  - inversion H; subst. cbn. auto.
  - destruct (is_token_octet b) eqn:Eb.
    + destruct (next_token r) as [t' rest'] eqn:En. inversion H; subst.
      destruct (IH t' rest eq_refl) as (E1 & E2 & E3). subst r.
      cbn [forallb app]. rewrite Eb, E2. auto.
    + inversion H; subst. cbn [app forallb stops_tok]. auto.
Qed.

Lemma next_token_app t rest :
  forallb is_token_octet t = true -> stops_tok rest -> next_token (t ++ rest) = (t, rest).
Proof.
  intros Ht Hr. induction t as [|b t IH]; cbn [app].
  - destruct rest as [|c r]; [reflexivity|]. cbn [next_token]. cbn [stops_tok] in Hr. rewrite Hr. reflexivity.
  - cbn [forallb] in Ht. apply andb_true_iff in Ht as [Hb Ht]. cbn [next_token]. rewrite Hb, (IH Ht).
    reflexivity.
Qed.

Lemma skip_space_drop s : skip_space s = drop_ows s.
Proof.
  induction s as [|b r IH]; cbn [skip_space drop_ows]; [reflexivity|]. unfold ows. rewrite IH.
  reflexivity.
Qed.

Lemma drop_ows_split g : exists a, g = a ++ drop_ows g /\ forallb ows a = true.
Proof.
  induction g as [|b r (a & E & Ha)]; cbn [drop_ows].
  - exists []. auto.
  - destruct (ows b) eqn:Eb.
    + exists (b :: a). cbn [forallb app]. rewrite Eb, Ha. split; [f_equal; exact E|reflexivity].
    + exists []. auto.
Qed.

Definition stops_ows (s:bytes) : Prop := match s with [] => True | b :: _ => ows b = false end.

Lemma drop_ows_head g : stops_ows (drop_ows g).
Proof.
  induction g as [|b r IH]; cbn [drop_ows]; [exact I|].
  destruct (ows b) eqn:E; [exact IH|cbn [stops_ows]; exact E].
Qed.

(* skip_space removes exactly the leading SP / HT *)
Lemma skip_space_spec s :
  exists a, s = a ++ skip_space s /\ forallb ows a = true /\ stops_ows (skip_space s).
Proof.
  rewrite skip_space_drop. destruct (drop_ows_split s) as (a & E & Ha).
  exists a. repeat split; auto. apply drop_ows_head.
Qed.

Lemma drop_ows_allows a rest : forallb ows a = true -> drop_ows (a ++ rest) = drop_ows rest.
Proof.
  induction a as [|b a IH]; intros H; cbn [app]; [reflexivity|].
  cbn [forallb] in H. apply andb_true_iff in H as [Hb Ha]. cbn [drop_ows]. rewrite Hb. auto.
Qed.

Lemma drop_ows_id s : stops_ows s -> drop_ows s = s.
Proof. destruct s as [|b r]; cbn; [reflexivity|]. intros ->. reflexivity. Qed.

Lemma drop_ows_nil_allows g : drop_ows g = [] -> forallb ows g = true.
Proof.
  intros H. destruct (drop_ows_split g) as (a & E & Ha). rewrite H, app_nil_r in E. subst. exact Ha.
Qed.

Lemma allows_drop_nil g : forallb ows g = true -> drop_ows g = [].
Proof. intros H. rewrite <- (app_nil_r g). rewrite drop_ows_allows by exact H. reflexivity. Qed.

Lemma drop_ows_forallb (p:N -> bool) g : forallb p g = true -> forallb p (drop_ows g) = true.
Proof.
  intros H. destruct (drop_ows_split g) as (a & E & _). rewrite E in H.
  rewrite forallb_app in H. apply andb_true_iff in H. tauto.
Qed.

Lemma rev'_rev (l:bytes) : rev' l = rev l.
Proof. unfold rev'. symmetry. apply rev_alt. Qed.

Lemma forallb_rev (p:N -> bool) l : forallb p (rev l) = forallb p l.
Proof.
  induction l as [|b r IH]; [reflexivity|]. cbn [rev forallb]. rewrite forallb_app, IH. cbn [forallb].
  rewrite andb_true_r. apply andb_comm.
Qed.

Lemma trim_ows_eq g : trim_ows g = rev (drop_ows (rev (drop_ows g))).
Proof. unfold trim_ows. rewrite !rev'_rev. reflexivity. Qed.

(* every string is OWS ++ trim ++ OWS *)
Lemma trim_decomp g :
  exists a b, g = a ++ trim_ows g ++ b /\ forallb ows a = true /\ forallb ows b = true.
Proof.
  destruct (drop_ows_split g) as (a & E1 & Ha).
  destruct (drop_ows_split (rev (drop_ows g))) as (b & E2 & Hb).
  exists a, (rev b). rewrite trim_ows_eq. repeat split; auto.
  - rewrite <- rev_app_distr, <- E2, rev_involutive. exact E1.
  - rewrite forallb_rev. exact Hb.
Qed.

Lemma trim_of_token a t b :
  forallb ows a = true -> forallb ows b = true -> t <> [] -> forallb tchar t = true ->
  trim_ows (a ++ t ++ b) = t.
Proof.
  intros Ha Hb Hne Ht. rewrite trim_ows_eq. rewrite drop_ows_allows by exact Ha.
  assert (H1 : drop_ows (t ++ b) = t ++ b).
  { apply drop_ows_id. destruct t as [|c t']; [congruence|]. cbn [app stops_ows].
    cbn [forallb] in Ht. apply andb_true_iff in Ht as [Hc _]. apply tchar_not_ows. exact Hc. }
  rewrite H1, rev_app_distr. rewrite drop_ows_allows by (rewrite forallb_rev; exact Hb).
  rewrite drop_ows_id; [apply rev_involutive|].
  assert (Hr : forallb tchar (rev t) = true) by (rewrite forallb_rev; exact Ht).
  destruct (rev t) as [|c r] eqn:Er.
  - exfalso. apply Hne. rewrite <- (rev_involutive t), Er. reflexivity.
  - cbn [stops_ows]. cbn [forallb] in Hr. apply andb_true_iff in Hr as [Hc _]. apply tchar_not_ows. exact Hc.
Qed.

(* ------------------------------------------------------------------------------------ *)
(* one list element: g has no comma; tail is the end of the line or starts at a comma     *)
(* ------------------------------------------------------------------------------------ *)
Definition nocomma (g:bytes) : bool := forallb (fun b => negb (b =? 44)) g.
Definition tail_ok (tail:bytes) : Prop := match tail with [] => True | c :: _ => c = 44 end.

Lemma first_comma s : exists g tail, s = g ++ tail /\ nocomma g = true /\ tail_ok tail.
Proof.
  induction s as [|b r (g & tail & E & Hg & Ht)].
  - exists [], []. cbn. auto.
  - destruct (b =? 44) eqn:Eb.
    + exists [], (b :: r). cbn. apply N.eqb_eq in Eb. auto.
    + exists (b :: g), tail. subst r. unfold nocomma in *. cbn [forallb app]. rewrite Eb, Hg. auto.
Qed.

Lemma split_on_seg g : forall cur tail, nocomma g = true -> tail_ok tail ->
  split_on 44 cur (g ++ tail) =
  (rev cur ++ g) :: match tail with [] => [] | _ :: r => split_on 44 [] r end.
Proof.
  induction g as [|b g IH]; intros cur tail Hg Ht; cbn [app].
  - rewrite app_nil_r. destruct tail as [|c r]; cbn [split_on].
    + rewrite rev'_rev. reflexivity.
    + cbn in Ht. subst c. cbn [N.eqb Pos.eqb]. rewrite rev'_rev. reflexivity.
  - unfold nocomma in Hg. cbn [forallb] in Hg. apply andb_true_iff in Hg as [Hb Hg].
    cbn [split_on]. apply negb_true_iff in Hb. rewrite Hb. rewrite (IH _ _ Hg Ht).
    cbn [rev]. rewrite <- app_assoc. reflexivity.
Qed.

Lemma elements_seg g tail : nocomma g = true -> tail_ok tail ->
  elements (g ++ tail) = trim_ows g :: match tail with [] => [] | _ :: r => elements r end.
Proof.
  intros Hg Ht. unfold elements. rewrite (split_on_seg g [] tail Hg Ht). cbn [rev app map].
  destruct tail; reflexivity.
Qed.

Lemma skip_space_seg x tail : tail_ok tail -> skip_space (x ++ tail) = drop_ows x ++ tail.
Proof.
  intros Ht. induction x as [|b x IH]; cbn [app drop_ows].
  - destruct tail as [|c r]; [reflexivity|]. cbn in Ht. subst c. reflexivity.
  - cbn [skip_space]. fold (ows b). destruct (ows b); [exact IH|reflexivity].
Qed.

Lemma tail_stops_tok x tail : stops_tok x -> tail_ok tail -> stops_tok (x ++ tail).
Proof.
  destruct x as [|b x]; cbn [app]; auto. intros _ Ht. destruct tail as [|c r]; cbn; auto.
  cbn in Ht. subst c. reflexivity.
Qed.

(* what one round of the loop computes on the element g *)
Lemma round_forward g tail t g2 : tail_ok tail -> next_token (drop_ows g) = (t, g2) ->
  next_token (skip_space (g ++ tail)) = (t, g2 ++ tail) /\
  skip_space (g2 ++ tail) = drop_ows g2 ++ tail.
Proof.
  intros Ht Hn. split; [|apply skip_space_seg; exact Ht].
  rewrite skip_space_seg by exact Ht. apply next_token_spec in Hn as (E & Htok & Hstop).
  rewrite E, <- app_assoc. apply next_token_app; [exact Htok|]. apply tail_stops_tok; assumption.
Qed.

(* the element is a token: the round extracts exactly it *)
Lemma round_token g : is_token (trim_ows g) = true ->
  exists b, next_token (drop_ows g) = (trim_ows g, b) /\ drop_ows b = [].
Proof.
  intros Htok. destruct (trim_decomp g) as (a & b & E & Ha & Hb). exists b.
  set (e := trim_ows g) in *. unfold is_token in Htok. destruct e as [|c e'] eqn:Ee; [discriminate|].
  rewrite <- Ee in *. split; [|apply allows_drop_nil; exact Hb].
  rewrite E at 1. rewrite drop_ows_allows by exact Ha.
  rewrite drop_ows_id.
  - apply next_token_app; [rewrite forallb_tok_tchar; exact Htok|].
    destruct b as [|x b']; cbn [stops_tok]; auto. cbn [forallb] in Hb. apply andb_true_iff in Hb as [Hx _].
    rewrite tok_tchar. apply ows_not_tchar. exact Hx.
  - rewrite Ee. cbn [app stops_ows]. rewrite Ee in Htok. cbn [forallb] in Htok.
    apply andb_true_iff in Htok as [Hc _]. apply tchar_not_ows. exact Hc.
Qed.

(* the round does not bail out: the element is the token it extracted *)
Lemma round_nobail g t g2 : next_token (drop_ows g) = (t, g2) -> t <> [] -> drop_ows g2 = [] ->
  trim_ows g = t /\ is_token t = true.
Proof.
  intros Hn Hne Hd. apply next_token_spec in Hn as (E & Htok & _).
  rewrite forallb_tok_tchar in Htok.
  destruct (drop_ows_split g) as (a & Eg & Ha). rewrite E in Eg.
  split.
  - rewrite Eg. apply trim_of_token; auto. apply drop_ows_nil_allows. exact Hd.
  - unfold is_token. destruct t; [congruence|exact Htok].
Qed.

(* ------------------------------------------------------------------------------------ *)
(* 5. exact characterisation: the scanner walks the elements left to right, stops at the  *)
(*    first element that is not OWS token OWS                                             *)
(* ------------------------------------------------------------------------------------ *)
Fixpoint scan (es:list bytes) (v:bytes) : bool :=
  match es with
  | [] => false
  | e :: r => if is_token e then (if equal_ascii_fold e v then true else scan r v) else false
  end.

Lemma line_contains_scan v f : forall s, (length s < f)%nat ->
  line_contains f s v = scan (elements s) v.
Proof.
  induction f as [|f IH]; intros s Hlen; [lia|].
  destruct (first_comma s) as (g & tail & E & Hg & Ht). subst s.
  rewrite (elements_seg g tail Hg Ht). cbn [scan line_contains].
  destruct (next_token (drop_ows g)) as [t g2] eqn:Hn.
  destruct (round_forward g tail t g2 Ht Hn) as [R1 R2]. rewrite R1. cbv zeta. rewrite R2.
  destruct (is_token (trim_ows g)) eqn:Etok.
  - destruct (round_token g Etok) as (b & Hn' & Hb). rewrite Hn in Hn'. inversion Hn'; subst t g2.
    rewrite Hb. cbn [app].
    assert (Hnil : is_nil (trim_ows g) = false).
    { unfold is_token in Etok. destruct (trim_ows g); [discriminate|reflexivity]. }
    rewrite Hnil.
    assert (Hbail : negb (is_nil tail) && negb (starts_with 44 tail) = false).
    { destruct tail as [|c r]; [reflexivity|]. cbn in Ht. subst c. reflexivity. }
    rewrite Hbail. destruct (equal_ascii_fold (trim_ows g) v); [reflexivity|].
    destruct tail as [|c r]; [reflexivity|]. apply IH.
    rewrite app_length in Hlen. cbn [length] in Hlen. lia.
  - destruct t as [|c t']; [reflexivity|]. cbn [is_nil].
    destruct (drop_ows g2) as [|x g3] eqn:Ed.
    + exfalso. destruct (round_nobail g (c :: t') g2 Hn) as [E1 E2]; [discriminate|exact Ed|].
      rewrite E1 in Etok. congruence.
    + cbn [app is_nil negb starts_with andb].
      assert (Hx : (x =? 44) = false).
      { apply next_token_spec in Hn as (E & _ & _).
        assert (H1 : nocomma (drop_ows g) = true) by (apply drop_ows_forallb; exact Hg).
        rewrite E in H1. unfold nocomma in H1. rewrite forallb_app in H1.
        apply andb_true_iff in H1 as [_ H1]. apply drop_ows_forallb in H1. rewrite Ed in H1.
        cbn [forallb] in H1. apply andb_true_iff in H1 as [H1 _]. apply negb_true_iff in H1. exact H1. }
      rewrite Hx. reflexivity.
Qed.

Theorem line_contains_exact s v :
  line_contains (S (length s)) s v = scan (elements s) v.
Proof. apply line_contains_scan. lia. Qed.

Theorem token_list_contains_value_exact lines v :
  token_list_contains_value lines v = existsb (fun s => scan (elements s) v) lines.
Proof.
  unfold token_list_contains_value. induction lines as [|s r IH]; cbn [existsb]; [reflexivity|].
  rewrite line_contains_exact, IH. reflexivity.
Qed.

(* ------------------------------------------------------------------------------------ *)
(* 3. soundness, for ANY header lines and ANY value                                       *)
(* ------------------------------------------------------------------------------------ *)
Lemma fold_beq e v : equal_ascii_fold e v = beq (lower e) (lower v).
Proof.
  destruct (equal_ascii_fold e v) eqn:E1; destruct (beq (lower e) (lower v)) eqn:E2; auto.
  - apply equal_ascii_fold_spec in E1. apply beq_eq in E1. congruence.
  - apply beq_eq in E2. apply equal_ascii_fold_spec in E2. congruence.
Qed.

Lemma scan_sound es v :
  scan es v = true -> existsb (fun e => is_token e && beq (lower e) (lower v)) es = true.
Proof.
  induction es as [|e r IH]; cbn [scan existsb]; [discriminate|].
  destruct (is_token e); [|discriminate]. rewrite <- fold_beq. cbn [andb].
  destruct (equal_ascii_fold e v); [reflexivity|]. cbn [orb]. exact IH.
Qed.

Theorem scanner_sound lines v :
  token_list_contains_value lines v = true -> has_token lines v = true.
Proof.
  rewrite token_list_contains_value_exact. unfold has_token.
  induction lines as [|s r IH]; cbn [existsb]; [discriminate|].
  intros H. apply orb_true_iff in H as [H|H].
  - rewrite (scan_sound _ _ H). reflexivity.
  - rewrite (IH H). apply orb_true_r.
Qed.

(* ------------------------------------------------------------------------------------ *)
(* 4. completeness inside the grammar                                                     *)
(* ------------------------------------------------------------------------------------ *)
Lemma scan_complete es v : forallb is_token es = true ->
  existsb (fun e => is_token e && beq (lower e) (lower v)) es = true -> scan es v = true.
Proof.
  induction es as [|e r IH]; cbn [scan existsb forallb]; [discriminate|].
  intros Hwf H. apply andb_true_iff in Hwf as [He Hr]. rewrite He in *. cbn [andb] in H.
  rewrite <- fold_beq in H. destruct (equal_ascii_fold e v); [reflexivity|]. cbn [orb] in H. auto.
Qed.

Theorem scanner_complete lines v : forallb line_wf lines = true ->
  has_token lines v = true -> token_list_contains_value lines v = true.
Proof.
  rewrite token_list_contains_value_exact. unfold has_token.
  induction lines as [|s r IH]; cbn [existsb forallb]; [discriminate|].
  intros Hwf H. apply andb_true_iff in Hwf as [Hs Hr]. apply orb_true_iff in H as [H|H].
  - rewrite (scan_complete _ _ Hs H). reflexivity.
  - rewrite (IH Hr H). apply orb_true_r.
Qed.

Corollary scanner_exact_in_grammar lines v : forallb line_wf lines = true ->
  token_list_contains_value lines v = has_token lines v.
Proof.
  intros Hwf. destruct (token_list_contains_value lines v) eqn:E1.
  - symmetry. apply scanner_sound. exact E1.
  - destruct (has_token lines v) eqn:E2; [|reflexivity].
    rewrite (scanner_complete lines v Hwf E2) in E1. discriminate.
Qed.

(* a match implies the matched element has exactly the length of the value: no prefix,
   suffix or parameterised variants ("websockets", "xupgrade", "upgrade;q=1") *)
Theorem scanner_match_is_whole_element lines v :
  token_list_contains_value lines v = true ->
  exists line e, In line lines /\ In e (elements line) /\ is_token e = true /\ lower e = lower v
                 /\ length e = length v.
Proof.
  intros H. apply scanner_sound in H. unfold has_token in H.
  apply existsb_exists in H as (line & Hl & H). apply existsb_exists in H as (e & He & H).
  apply andb_true_iff in H as [H1 H2]. apply beq_eq in H2.
  exists line, e. repeat split; auto.
  unfold lower in H2. rewrite <- (map_length ascii_lower e), H2, map_length. reflexivity.
Qed.

(* concrete adversarial instances *)
Definition bs := Base64.str.
Import Coq.Strings.String.
Local Open Scope string_scope.
Example ex_websockets : token_list_contains_value [bs "websockets"] (bs "websocket") = false.
Proof. vm_compute. reflexivity. Qed.
Example ex_xupgrade : token_list_contains_value [bs "xupgrade"] (bs "upgrade") = false.
Proof. vm_compute. reflexivity. Qed.
Example ex_param : token_list_contains_value [bs "upgrade;q=1"] (bs "upgrade") = false.
Proof. vm_compute. reflexivity. Qed.
Example ex_list : token_list_contains_value [bs "keep-alive"; bs " foo ,	UpGrade , bar"] (bs "upgrade") = true.
Proof. vm_compute. reflexivity. Qed.
(* outside the grammar: the scanner abandons the line at the first malformed element, the Spec
   predicate does not -- so completeness needs line_wf *)
Example ex_outside : token_list_contains_value [bs "a b, upgrade"] (bs "upgrade") = false
                     /\ has_token [bs "a b, upgrade"] (bs "upgrade") = true.
Proof. vm_compute. auto. Qed.
Example ex_empty_elem : token_list_contains_value [bs ", upgrade"] (bs "upgrade") = false
                     /\ has_token [bs ", upgrade"] (bs "upgrade") = true.
Proof. vm_compute. auto. Qed.

Print Assumptions token_table_is_tchar.
Print Assumptions next_token_spec.
Print Assumptions line_contains_exact.
Print Assumptions scanner_sound.
Print Assumptions scanner_complete.
