(* Part 1: pure frame-list facts used by the reader correctness proof.
   Conformance of a peer stream (built on Spec.Conformance.violates), the split of a frame list
   into body / trailing control frames, the "first message" decomposition that mirrors what one
   ReadMessage call consumes, and its relation to Spec.Frame.events_of. *)
Require Import WS.Base.Bytes WS.Spec.Frame WS.Spec.Conformance WS.Proofs.FrameP.
Ltac Zify.zify_post_hook ::= Z.div_mod_to_equations.

Definition is_some {A} (o:option A) : bool := match o with Some _ => true | None => false end.

(* A frame the reader must accept: no violation for a reader that did NOT negotiate
   compression (this forces RSV = 0, i.e. an uncompressed stream; such a frame is a fortiori
   acceptable to a reader that did negotiate), and it is not a close frame. *)
Definition frame_acc (srv open:bool) (f:frame) : bool :=
  negb (violates srv false open f) && negb (opcode f =? 8).

(* fragmentation discipline: thread the [open] flag with Spec.Frame.next_open; the stream must
   end at a message boundary *)
Fixpoint seq_ok (srv open:bool) (fs:list frame) : bool :=
  match fs with
  | [] => negb open
  | f :: r => frame_acc srv open f && seq_ok srv (next_open open f) r
  end.

Lemma frame_acc_facts srv open f : frame_acc srv open f = true ->
  rsv f = 0 /\ is_some (mkey f) = srv /\
  ( ((opcode f = 9 \/ opcode f = 10) /\ fin f = true /\ plen f <= 125)
   \/ ((opcode f = 1 \/ opcode f = 2) /\ open = false)
   \/ (opcode f = 0 /\ open = true)).
Proof.
  unfold frame_acc, violates, violates_hdr, is_control, is_data_op, is_some.
  intros H.
  destruct (mkey f), srv, open, (fin f); cbn [xorb negb andb orb] in H;
  repeat split; try reflexivity; try lia.
Qed.

(* ... and conversely: [frame_acc] is exactly this explicit list of conditions *)
Lemma frame_acc_intro srv open f :
  rsv f = 0 -> is_some (mkey f) = srv ->
  ( ((opcode f = 9 \/ opcode f = 10) /\ fin f = true /\ plen f <= 125)
   \/ ((opcode f = 1 \/ opcode f = 2) /\ open = false)
   \/ (opcode f = 0 /\ open = true)) ->
  frame_acc srv open f = true.
Proof.
  unfold frame_acc, violates, violates_hdr, is_control, is_data_op, is_some.
  intros Hr Hm Hc. rewrite Hr.
  destruct (mkey f), srv, open, (fin f); try discriminate Hm; cbn [xorb negb andb orb];
    destruct Hc as [(Ho & Hf & Hl)|[(Ho & Hop)|(Ho & Hop)]];
    try discriminate Hf; try discriminate Hop; lia.
Qed.

Lemma acc_cases srv open f : frame_acc srv open f = true ->
  (is_control (opcode f) = true /\ (opcode f = 9 \/ opcode f = 10) /\ fin f = true /\ plen f <= 125)
  \/ (is_control (opcode f) = false /\
      (((opcode f = 1 \/ opcode f = 2) /\ open = false) \/ (opcode f = 0 /\ open = true))).
Proof.
  intros H. destruct (frame_acc_facts _ _ _ H) as (_ & _ & [(Ho & Hf & Hl)|[(Ho & Hop)|(Ho & Hop)]]).
  - left. unfold is_control. repeat split; try assumption. lia.
  - right. unfold is_control. split; [lia|]. left. auto.
  - right. unfold is_control. split; [lia|]. right. auto.
Qed.

(* ---------- pings, body, trailer ---------- *)
Definition ping1 (f:frame) : list bytes := if opcode f =? 9 then [payload f] else [].
Definition pings_of (fs:list frame) : list bytes := flat_map ping1 fs.

(* [trailer fs]: the longest suffix made of control frames only; [body fs]: what precedes it *)
Fixpoint body (fs:list frame) : list frame :=
  match fs with [] => [] | f :: r => if all_ctl (f :: r) then [] else f :: body r end.
Fixpoint trailer (fs:list frame) : list frame :=
  match fs with [] => [] | f :: r => if all_ctl (f :: r) then f :: r else trailer r end.

Lemma body_trailer fs : body fs ++ trailer fs = fs.
Proof.
  induction fs as [|f r IH]; [reflexivity|]. cbn [body trailer].
  destruct (all_ctl (f :: r)); [reflexivity|]. cbn [app]. rewrite IH. reflexivity.
Qed.

Lemma trailer_all_ctl fs : all_ctl (trailer fs) = true.
Proof.
  induction fs as [|f r IH]; [reflexivity|]. cbn [trailer].
  destruct (all_ctl (f :: r)) eqn:E; [exact E|exact IH].
Qed.

Lemma all_ctl_body fs : all_ctl fs = true -> body fs = [].
Proof. destruct fs as [|f r]; [reflexivity|]. intros H. cbn [body]. rewrite H. reflexivity. Qed.

Lemma all_ctl_trailer fs : all_ctl fs = true -> trailer fs = fs.
Proof. destruct fs as [|f r]; [reflexivity|]. intros H. cbn [trailer]. rewrite H. reflexivity. Qed.

Lemma all_ctl_cons f r : all_ctl (f :: r) = is_control (opcode f) && all_ctl r.
Proof. reflexivity. Qed.

(* the body, when not empty, ends with a data (non-control) frame *)
Lemma body_last fs : body fs = [] \/ exists l f, body fs = l ++ [f] /\ is_control (opcode f) = false.
Proof.
  induction fs as [|f r IH]; [left; reflexivity|]. cbn [body].
  destruct (all_ctl (f :: r)) eqn:E; [left; reflexivity|]. right.
  destruct IH as [Hb|(l & g & Hb & Hg)].
  - rewrite Hb. exists [], f. split; [reflexivity|].
    rewrite all_ctl_cons in E. destruct (is_control (opcode f)); [|reflexivity].
    cbn [andb] in E.
    assert (Hr : body r ++ trailer r = r) by apply body_trailer.
    rewrite Hb in Hr. cbn [app] in Hr. rewrite <- Hr, trailer_all_ctl in E. discriminate E.
  - rewrite Hb. exists (f :: l), g. split; [reflexivity|exact Hg].
Qed.

(* ---------- what one ReadMessage consumes ---------- *)
(* inside a message (a fragment without FIN has been seen): collect payloads up to and
   including the FIN continuation frame; pings met on the way; frames left *)
Fixpoint cont_msg (fs:list frame) : bytes * list bytes * list frame :=
  match fs with
  | [] => ([], [], [])
  | f :: r =>
    if is_control (opcode f) then let '(d, p, a) := cont_msg r in (d, ping1 f ++ p, a)
    else if fin f then (payload f, [], r)
    else let '(d, p, a) := cont_msg r in (payload f ++ d, p, a)
  end.

Definition msg_tail (final:bool) (fs:list frame) : bytes * list bytes * list frame :=
  if final then ([], [], fs) else cont_msg fs.

(* leading control frames, then the first data frame *)
Fixpoint find_data (fs:list frame) : option (list bytes * frame * list frame) :=
  match fs with
  | [] => None
  | f :: r =>
    if is_control (opcode f)
    then match find_data r with Some (p, d, a) => Some (ping1 f ++ p, d, a) | None => None end
    else Some ([], f, r)
  end.

Definition first_msg (fs:list frame) : option (N * bytes * list bytes * list frame) :=
  match find_data fs with
  | None => None
  | Some (p, f, r) =>
    let '(more, p2, a) := msg_tail (fin f) r in Some (opcode f, payload f ++ more, p ++ p2, a)
  end.

Definition msgs (fs:list frame) : list (N * bool * bytes) := data_msgs (events_of fs).

Lemma data_msgs_ctl o d l : data_msgs (ECtl o d :: l) = data_msgs l.
Proof. reflexivity. Qed.
Lemma data_msgs_msg t c d l : data_msgs (EMsg t c d :: l) = (t, c, d) :: data_msgs l.
Proof. reflexivity. Qed.

Lemma ping1_nonctl f : is_control (opcode f) = false -> ping1 f = [].
Proof. unfold is_control, ping1. intros H. replace (opcode f =? 9) with false by lia. reflexivity. Qed.

Lemma cont_msg_spec srv : forall r ty cc d0 d p a,
  seq_ok srv true r = true -> cont_msg r = (d, p, a) ->
  all_ctl r = false /\ trailer r = trailer a /\ pings_of (body r) = p ++ pings_of (body a) /\
  data_msgs (fst (events_from (Some (ty, cc, d0)) r)) = (ty, cc, d0 ++ d) :: msgs a /\
  seq_ok srv false a = true /\ exists pre, r = pre ++ a.
Proof.
  induction r as [|f r IH]; intros ty cc d0 d p a Hs Hc; [cbn in Hs; discriminate Hs|].
  cbn [seq_ok] in Hs. apply andb_true_iff in Hs. destruct Hs as [Hacc Hs].
  destruct (acc_cases _ _ _ Hacc) as [(Hctl & _)|(Hctl & [(_ & Hx)|(Hop & _)])]; [| discriminate Hx |].
  - (* control frame *)
    cbn [cont_msg] in Hc. rewrite Hctl in Hc.
    destruct (cont_msg r) as [[d1 p1] a1] eqn:Ec. inversion Hc; subst d1 p a1. clear Hc.
    unfold next_open in Hs. rewrite Hctl in Hs.
    destruct (IH ty cc d0 d p1 a Hs eq_refl) as (H1 & H2 & H3 & H4 & H5 & (pre & H6)).
    assert (Hall : all_ctl (f :: r) = false) by (rewrite all_ctl_cons, H1; apply andb_false_r).
    split; [exact Hall|].
    cbn [trailer body]. rewrite Hall.
    split; [exact H2|].
    split.
    { unfold pings_of in *. cbn [flat_map]. rewrite H3, app_assoc. reflexivity. }
    split.
    { rewrite events_from_ctl by exact Hctl. cbn [fst]. rewrite data_msgs_ctl. exact H4. }
    split; [exact H5|]. exists (f :: pre). rewrite H6. reflexivity.
  - (* continuation frame *)
    assert (Hall : all_ctl (f :: r) = false) by (rewrite all_ctl_cons, Hctl; reflexivity).
    cbn [cont_msg] in Hc. rewrite Hctl in Hc.
    unfold next_open in Hs. rewrite Hctl in Hs.
    destruct (fin f) eqn:Ef.
    + inversion Hc; subst d p a. clear Hc. cbn [negb] in Hs.
      split; [exact Hall|]. cbn [trailer body]. rewrite Hall.
      split; [reflexivity|].
      split. { unfold pings_of. cbn [flat_map app]. rewrite ping1_nonctl by exact Hctl. reflexivity. }
      split.
      { rewrite events_from_final by assumption. cbn [fst acc_step emsg_of].
        rewrite data_msgs_msg. reflexivity. }
      split; [exact Hs|]. exists [f]. reflexivity.
    + destruct (cont_msg r) as [[d1 p1] a1] eqn:Ec. inversion Hc; subst d p1 a1. clear Hc.
      cbn [negb] in Hs.
      destruct (IH ty cc (d0 ++ payload f) d1 p a Hs eq_refl) as (H1 & H2 & H3 & H4 & H5 & (pre & H6)).
      split; [exact Hall|]. cbn [trailer body]. rewrite Hall.
      split; [exact H2|].
      split. { unfold pings_of in *. cbn [flat_map]. rewrite ping1_nonctl by exact Hctl. exact H3. }
      split.
      { rewrite events_from_more by assumption. cbn [acc_step]. rewrite <- app_assoc in H4. exact H4. }
      split; [exact H5|]. exists (f :: pre). rewrite H6. reflexivity.
Qed.

Lemma find_data_none srv : forall fs, seq_ok srv false fs = true -> find_data fs = None ->
  all_ctl fs = true.
Proof.
  induction fs as [|f r IH]; intros Hs Hf; [reflexivity|].
  cbn [seq_ok] in Hs. apply andb_true_iff in Hs. destruct Hs as [Hacc Hs].
  cbn [find_data] in Hf. destruct (is_control (opcode f)) eqn:Hctl; [|discriminate Hf].
  unfold next_open in Hs. rewrite Hctl in Hs.
  destruct (find_data r) as [[[p d] a]|] eqn:Er; [discriminate Hf|].
  rewrite all_ctl_cons, Hctl. apply IH; [exact Hs|reflexivity].
Qed.

Lemma events_from_all_ctl fs : all_ctl fs = true -> msgs fs = [].
Proof.
  intros H. unfold msgs, events_of. rewrite <- (app_nil_r fs).
  rewrite events_from_ctls by exact H. cbn [events_from fst]. rewrite app_nil_r.
  induction fs as [|f r IH]; [reflexivity|].
  rewrite all_ctl_cons in H. apply andb_true_iff in H. destruct H as [_ H].
  cbn [ctl_evs map]. rewrite data_msgs_ctl. apply IH. exact H.
Qed.

Lemma first_msg_none srv fs : seq_ok srv false fs = true -> first_msg fs = None ->
  all_ctl fs = true /\ msgs fs = [].
Proof.
  intros Hs Hf. unfold first_msg in Hf.
  destruct (find_data fs) as [[[p d] r]|] eqn:Efd.
  - destruct (msg_tail (fin d) r) as [[more p2] a]. discriminate Hf.
  - pose proof (find_data_none srv fs Hs Efd) as H. split; [exact H|apply events_from_all_ctl; exact H].
Qed.

(* find_data: the shape of the list *)
Lemma find_data_spec srv : forall fs p f r,
  seq_ok srv false fs = true -> find_data fs = Some (p, f, r) ->
  exists cs, fs = cs ++ f :: r /\ all_ctl cs = true /\ pings_of cs = p /\
    is_control (opcode f) = false /\ (opcode f = 1 \/ opcode f = 2) /\
    seq_ok srv (negb (fin f)) r = true.
Proof.
  induction fs as [|g fs IH]; intros p f r Hs Hf; [discriminate Hf|].
  cbn [seq_ok] in Hs. apply andb_true_iff in Hs. destruct Hs as [Hacc Hs].
  cbn [find_data] in Hf. unfold next_open in Hs.
  destruct (is_control (opcode g)) eqn:Hctl.
  - destruct (find_data fs) as [[[p1 d1] a1]|] eqn:Er; [|discriminate Hf].
    inversion Hf; subst p d1 a1. clear Hf.
    destruct (IH p1 f r Hs eq_refl) as (cs & H1 & H2 & H3 & H4 & H5 & H6).
    exists (g :: cs). rewrite H1. split; [reflexivity|].
    split; [rewrite all_ctl_cons, Hctl, H2; reflexivity|].
    split; [unfold pings_of in *; cbn [flat_map]; rewrite H3; reflexivity|].
    auto.
  - inversion Hf; subst p g fs. clear Hf.
    exists []. split; [reflexivity|]. split; [reflexivity|]. split; [reflexivity|].
    split; [exact Hctl|].
    destruct (acc_cases _ _ _ Hacc) as [(Hc & _)|(_ & [(Ho & _)|(_ & Hx)])];
      [congruence| |discriminate Hx].
    split; [exact Ho|exact Hs].
Qed.

Lemma all_ctl_app a b : all_ctl (a ++ b) = all_ctl a && all_ctl b.
Proof. unfold all_ctl. apply forallb_app. Qed.

Lemma trailer_ctl_app cs r : all_ctl cs = true -> all_ctl r = false -> trailer (cs ++ r) = trailer r.
Proof.
  intros Hc Hr. induction cs as [|c cs IH]; [reflexivity|].
  rewrite all_ctl_cons in Hc. apply andb_true_iff in Hc. destruct Hc as [Hc1 Hc2].
  cbn [app trailer]. rewrite all_ctl_cons, all_ctl_app, Hr, andb_false_r, andb_false_r.
  apply IH. exact Hc2.
Qed.

Lemma body_ctl_app cs r : all_ctl cs = true -> all_ctl r = false -> body (cs ++ r) = cs ++ body r.
Proof.
  intros Hc Hr. induction cs as [|c cs IH]; [reflexivity|].
  rewrite all_ctl_cons in Hc. apply andb_true_iff in Hc. destruct Hc as [Hc1 Hc2].
  cbn [app body]. rewrite all_ctl_cons, all_ctl_app, Hr, andb_false_r, andb_false_r.
  rewrite IH by exact Hc2. reflexivity.
Qed.

Lemma pings_of_cons f l : pings_of (f :: l) = ping1 f ++ pings_of l.
Proof. reflexivity. Qed.

Lemma pings_of_app a b : pings_of (a ++ b) = pings_of a ++ pings_of b.
Proof. unfold pings_of. apply flat_map_app. Qed.

Lemma first_msg_some srv fs ty d p a :
  seq_ok srv false fs = true -> first_msg fs = Some (ty, d, p, a) ->
  trailer fs = trailer a /\ pings_of (body fs) = p ++ pings_of (body a) /\
  msgs fs = (ty, false, d) :: msgs a /\ seq_ok srv false a = true /\
  exists pre, fs = pre ++ a /\ pre <> [].
Proof.
  intros Hs Hf. unfold first_msg in Hf.
  destruct (find_data fs) as [[[p1 f] r]|] eqn:Efd; [|discriminate Hf].
  destruct (find_data_spec srv fs p1 f r Hs Efd) as (cs & Hfs & Hcs & Hp & Hctl & Hop & Hsr).
  assert (Hall : all_ctl (f :: r) = false) by (rewrite all_ctl_cons, Hctl; reflexivity).
  assert (Hrsv : (rsv f =? 4) = false).
  { subst fs. clear Efd Hf Hp. induction cs as [|c cs IH].
    - cbn [app seq_ok] in Hs. apply andb_true_iff in Hs. destruct Hs as [Hacc _].
      destruct (frame_acc_facts _ _ _ Hacc) as (Hr & _). rewrite Hr. reflexivity.
    - cbn [app seq_ok] in Hs. apply andb_true_iff in Hs. destruct Hs as [_ Hs].
      rewrite all_ctl_cons in Hcs. apply andb_true_iff in Hcs. destruct Hcs as [Hc1 Hc2].
      unfold next_open in Hs. rewrite Hc1 in Hs. apply IH; assumption. }
  unfold msg_tail in Hf. destruct (fin f) eqn:Ef.
  - inversion Hf; subst ty d p a. clear Hf. cbn [negb] in Hsr.
    rewrite Hfs.
    split; [rewrite trailer_ctl_app by assumption; cbn [trailer]; rewrite Hall; reflexivity|].
    split.
    { rewrite body_ctl_app by assumption. cbn [body]. rewrite Hall.
      rewrite pings_of_app, Hp, pings_of_cons.
      rewrite ping1_nonctl by exact Hctl. rewrite app_nil_r. reflexivity. }
    split.
    { unfold msgs, events_of. rewrite events_from_ctls by exact Hcs. cbn [fst].
      rewrite events_from_final by assumption. cbn [fst acc_step emsg_of].
      rewrite Hrsv, app_nil_r.
      assert (Hc0 : forall l ev, all_ctl l = true -> data_msgs (ctl_evs l ++ ev) = data_msgs ev).
      { induction l as [|x l IHl]; intros ev Hl; [reflexivity|].
        rewrite all_ctl_cons in Hl. apply andb_true_iff in Hl. destruct Hl as [_ Hl].
        cbn [ctl_evs map app]. rewrite data_msgs_ctl. apply IHl. exact Hl. }
      rewrite Hc0 by exact Hcs. rewrite data_msgs_msg. reflexivity. }
    split; [exact Hsr|]. exists (cs ++ [f]). rewrite <- app_assoc. split; [reflexivity|].
    intros Hx. apply app_eq_nil in Hx. destruct Hx as [_ Hx]. discriminate Hx.
  - destruct (cont_msg r) as [[more p2] a2] eqn:Ec. inversion Hf; subst ty d p a2. clear Hf.
    cbn [negb] in Hsr.
    destruct (cont_msg_spec srv r (opcode f) false (payload f) more p2 a Hsr Ec)
      as (H1 & H2 & H3 & H4 & H5 & (pre & H6)).
    rewrite Hfs.
    split; [rewrite trailer_ctl_app by assumption; cbn [trailer]; rewrite Hall; exact H2|].
    split.
    { rewrite body_ctl_app by assumption. cbn [body]. rewrite Hall.
      rewrite pings_of_app, Hp, pings_of_cons.
      rewrite ping1_nonctl by exact Hctl. cbn [app].
      rewrite H3, app_assoc. reflexivity. }
    split.
    { unfold msgs, events_of. rewrite events_from_ctls by exact Hcs. cbn [fst].
      rewrite events_from_more by assumption. cbn [acc_step]. rewrite Hrsv.
      assert (Hc0 : forall l ev, all_ctl l = true -> data_msgs (ctl_evs l ++ ev) = data_msgs ev).
      { induction l as [|x l IHl]; intros ev Hl; [reflexivity|].
        rewrite all_ctl_cons in Hl. apply andb_true_iff in Hl. destruct Hl as [_ Hl].
        cbn [ctl_evs map app]. rewrite data_msgs_ctl. apply IHl. exact Hl. }
      rewrite Hc0 by exact Hcs. exact H4. }
    split; [exact H5|]. exists (cs ++ f :: pre). rewrite H6, <- app_assoc. split; [reflexivity|].
    intros Hx. apply app_eq_nil in Hx. destruct Hx as [_ Hx]. discriminate Hx.
Qed.

(* consequences of [fs = pre ++ a] *)
Lemma Forall_app_r {A} (P:A->Prop) pre a : Forall P (pre ++ a) -> Forall P a.
Proof. intros H. apply Forall_app in H. apply H. Qed.

Lemma encode_frames_suffix_blen pre a : blen (encode_frames a) <= blen (encode_frames (pre ++ a)).
Proof. rewrite encode_frames_app, blen_app. lia. Qed.

Lemma suffix_shorter {A} (pre a:list A) : pre <> [] -> (length a < length (pre ++ a))%nat.
Proof. intros H. rewrite app_length. destruct pre; [congruence|]. cbn [length]. lia. Qed.

(* ---------- the body of a stream is itself a conformant stream with the same messages -------- *)
Lemma seq_ok_all_ctl srv o cs : all_ctl cs = true -> seq_ok srv o cs = true -> o = false.
Proof.
  induction cs as [|c cs IH]; intros Hc Hs.
  - cbn [seq_ok] in Hs. destruct o; [discriminate Hs|reflexivity].
  - rewrite all_ctl_cons in Hc. apply andb_true_iff in Hc. destruct Hc as [Hc1 Hc2].
    cbn [seq_ok] in Hs. apply andb_true_iff in Hs. destruct Hs as [_ Hs].
    unfold next_open in Hs. rewrite Hc1 in Hs. apply IH; assumption.
Qed.

Lemma seq_ok_app_ctl srv : forall a o cs, all_ctl cs = true ->
  seq_ok srv o (a ++ cs) = true -> seq_ok srv o a = true.
Proof.
  induction a as [|f a IH]; intros o cs Hc Hs.
  - cbn [app] in Hs. rewrite (seq_ok_all_ctl srv o cs Hc Hs). reflexivity.
  - cbn [app seq_ok] in *. apply andb_true_iff in Hs. destruct Hs as [Hacc Hs].
    rewrite Hacc. cbn [andb]. apply (IH _ cs); assumption.
Qed.

Lemma seq_ok_body srv fs : seq_ok srv false fs = true -> seq_ok srv false (body fs) = true.
Proof.
  intros H. apply (seq_ok_app_ctl srv (body fs) false (trailer fs)); [apply trailer_all_ctl|].
  rewrite body_trailer. exact H.
Qed.

Lemma data_msgs_app a b : data_msgs (a ++ b) = data_msgs a ++ data_msgs b.
Proof. unfold data_msgs. apply flat_map_app. Qed.

Lemma data_msgs_ctl_evs cs : data_msgs (ctl_evs cs) = [].
Proof. induction cs as [|c cs IH]; [reflexivity|]. cbn [ctl_evs map]. rewrite data_msgs_ctl. exact IH. Qed.

Lemma msgs_app_ctl a cs : all_ctl cs = true -> msgs (a ++ cs) = msgs a.
Proof.
  intros Hc. unfold msgs, events_of. rewrite events_from_app. cbn [fst].
  rewrite <- (app_nil_r cs), events_from_ctls by exact Hc. cbn [fst events_from].
  rewrite data_msgs_app, app_nil_r, data_msgs_ctl_evs, app_nil_r. reflexivity.
Qed.

Lemma msgs_body fs : msgs (body fs) = msgs fs.
Proof.
  rewrite <- (body_trailer fs) at 2. symmetry. apply msgs_app_ctl. apply trailer_all_ctl.
Qed.

Lemma all_ctl_snoc l f : is_control (opcode f) = false -> all_ctl (l ++ [f]) = false.
Proof.
  intros H. rewrite all_ctl_app, all_ctl_cons, H. cbn [andb]. apply andb_false_r.
Qed.

Lemma trailer_snoc l f : is_control (opcode f) = false -> trailer (l ++ [f]) = [].
Proof.
  intros H. induction l as [|x l IH].
  - cbn [app trailer]. rewrite all_ctl_cons, H. reflexivity.
  - change ((x :: l) ++ [f]) with (x :: (l ++ [f])). cbn [trailer].
    rewrite all_ctl_cons, (all_ctl_snoc l f H), andb_false_r. exact IH.
Qed.

Lemma body_snoc l f : is_control (opcode f) = false -> body (l ++ [f]) = l ++ [f].
Proof.
  intros H. induction l as [|x l IH].
  - cbn [app body]. rewrite all_ctl_cons, H. reflexivity.
  - change ((x :: l) ++ [f]) with (x :: (l ++ [f])). cbn [body].
    rewrite all_ctl_cons, (all_ctl_snoc l f H), andb_false_r, IH. reflexivity.
Qed.

Lemma trailer_body fs : trailer (body fs) = [].
Proof.
  destruct (body_last fs) as [->|(l & f & -> & Hf)]; [reflexivity|apply trailer_snoc; exact Hf].
Qed.

Lemma body_body fs : body (body fs) = body fs.
Proof.
  destruct (body_last fs) as [->|(l & f & -> & Hf)]; [reflexivity|apply body_snoc; exact Hf].
Qed.

Lemma seq_ok_app_tail srv : forall a o b,
  seq_ok srv o (a ++ b) = true -> seq_ok srv o a = true -> seq_ok srv false b = true.
Proof.
  induction a as [|f a IH]; intros o b Hab Ha.
  - cbn [seq_ok] in Ha. destruct o; [discriminate Ha|exact Hab].
  - cbn [app seq_ok] in *. apply andb_true_iff in Hab. apply andb_true_iff in Ha.
    destruct Hab as [_ Hab]. destruct Ha as [_ Ha]. exact (IH _ _ Hab Ha).
Qed.

Lemma seq_ok_trailer srv fs : seq_ok srv false fs = true -> seq_ok srv false (trailer fs) = true.
Proof.
  intros H. apply (seq_ok_app_tail srv (body fs) false (trailer fs)).
  - rewrite body_trailer. exact H.
  - apply seq_ok_body. exact H.
Qed.

Lemma pings_body_trailer fs : pings_of (body fs) ++ pings_of (trailer fs) = pings_of fs.
Proof. rewrite <- pings_of_app, body_trailer. reflexivity. Qed.

Print Assumptions frame_acc_facts.
Print Assumptions frame_acc_intro.
Print Assumptions cont_msg_spec.
Print Assumptions first_msg_some.
Print Assumptions first_msg_none.
Print Assumptions msgs_body.
