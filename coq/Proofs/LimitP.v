(* C06  "read limit exact, history independent, memory bounded"
   Proofs about the read path of the model (WS.Model.Reader) with a read limit L.

   Main results (all closed under the global context):
     1. data_frame_step_limit, top_bit_length_refused      one frame under a limit
     2. within_limit_message_read                          completeness
     3. history_independence, read_message_forgets, data_start_forgets_count(_frame),
        abandoned_then_next_message_read                   history independence
     4. over_limit_never_complete(_general), delivered_at_most_limit   soundness
     5. request_sizes_bounded, next_reader_request_sizes_bounded       memory
   The engine is read_message_limit: ReadMessage from ANY point of the previous message
   (frame partly read, continuation frames pending, any rlen / cur), its result computed by
   the pure functions tail_lim / first_lim on the frame list.                                 *)
Require Import WS.Base.Bytes WS.gen.Consts WS.Spec.Frame WS.Spec.Conformance WS.Model.Bufio
  WS.Model.Reader WS.Proofs.BufioP WS.Proofs.FrameP.
From RecordUpdate Require Import RecordSet.
Import RecordSetNotations.
Require Import WS.Proofs.ReaderP1 WS.Proofs.ReaderP2 WS.Proofs.ReaderP3 WS.Proofs.ReaderBasicP.
Ltac Zify.zify_post_hook ::= Z.div_mod_to_equations.

(* ============================== part A ============================== *)
(* ---------- the invariant, now with an arbitrary read limit ---------- *)
Definition rinvL (L:N) (k:errk) (s:rst) : Prop :=
  binv (br s) /\ (125 <= bsize (br s))%nat /\ fault (src (br s)) = k /\
  rerror s = None /\ outoffuel s = false /\ closesent s = false /\ rlimit s = L /\
  errcount s = 0%nat.

Lemma rinvL_zero k s : rinvL 0 k s <-> rinv k s.
Proof. unfold rinvL, rinv. tauto. Qed.

Lemma rinvL_upd L k s s' : rinvL L k s ->
  binv (br s') -> bsize (br s') = bsize (br s) -> fault (src (br s')) = fault (src (br s)) ->
  rerror s' = rerror s -> outoffuel s' = outoffuel s -> closesent s' = closesent s ->
  rlimit s' = rlimit s -> errcount s' = errcount s -> rinvL L k s'.
Proof.
  intros (H1 & H2 & H3 & H4 & H5 & H6 & H7 & H8) A B C D E F G H. unfold rinvL.
  rewrite B, C, D, E, F, G, H. auto 12.
Qed.

Lemma rinvL_same L k s s' : rinvL L k s -> br s' = br s -> rerror s' = rerror s ->
  outoffuel s' = outoffuel s -> closesent s' = closesent s -> rlimit s' = rlimit s ->
  errcount s' = errcount s -> rinvL L k s'.
Proof.
  intros H E1 E2 E3 E4 E5 E6. apply (rinvL_upd L k s s' H); rewrite ?E1; auto.
  destruct H as (H1 & _); exact H1.
Qed.

(* within the limit: no limit at all, or not above it *)
Definition within (L x:N) : Prop := L = 0 \/ x <= L.

(* ---------- stage 5 on a data frame: the three outcomes of the read-limit check ---------- *)
Transparent aas5.

Lemma aas5_data_ok c op len s :
  op = 0 \/ op = 1 \/ op = 2 -> rlen s + len < 2^63 -> within (rlimit s) (rlen s + len) ->
  aas5 c op len s = (AFrame op, s <| rlen := rlen s + len |>).
Proof.
  intros Hop Hlen Hw. unfold aas5. cbv zeta.
  unfold c_TextMessage, c_BinaryMessage, c_continuationFrame.
  replace ((op =? 0) || ((op =? 1) || (op =? 2))) with true by lia. cbv iota.
  replace (2^63 <=? rlen s + len) with false by lia.
  replace (rlimit (s <| rlen := rlen s + len |>)) with (rlimit s) by reflexivity.
  destruct Hw as [Hw|Hw].
  - rewrite Hw. change (0 <? 0) with false. reflexivity.
  - replace (rlimit s <? rlen s + len) with false by lia. rewrite andb_false_r. reflexivity.
Qed.

Lemma aas5_data_toobig c op len s :
  op = 0 \/ op = 1 \/ op = 2 -> rlen s + len < 2^63 -> 0 < rlimit s -> rlimit s < rlen s + len ->
  aas5 c op len s = (AErr RReadLimit, send WCloseTooBig (s <| rlen := rlen s + len |>)).
Proof.
  intros Hop Hlen Hpos Hbig. unfold aas5. cbv zeta.
  unfold c_TextMessage, c_BinaryMessage, c_continuationFrame.
  replace ((op =? 0) || ((op =? 1) || (op =? 2))) with true by lia. cbv iota.
  replace (2^63 <=? rlen s + len) with false by lia.
  replace (rlimit (s <| rlen := rlen s + len |>)) with (rlimit s) by reflexivity.
  replace (0 <? rlimit s) with true by lia.
  replace (rlimit s <? rlen s + len) with true by lia. reflexivity.
Qed.

Lemma aas5_data_overflow c op len s :
  op = 0 \/ op = 1 \/ op = 2 -> 2^63 <= rlen s + len ->
  aas5 c op len s = (AErr RReadLimit, send WCloseTooBig (s <| rlen := rlen s + len |>)).
Proof.
  intros Hop Hlen. unfold aas5. cbv zeta.
  unfold c_TextMessage, c_BinaryMessage, c_continuationFrame.
  replace ((op =? 0) || ((op =? 1) || (op =? 2))) with true by lia. cbv iota.
  replace (2^63 <=? rlen s + len) with true by lia. reflexivity.
Qed.

Opaque aas5.

(* ---------- the header of a data / continuation frame: steps 2-4, whatever the limit -------- *)
Lemma advance_data_hdr L k c s f rest :
  rinvL L k s -> wf_frame f -> frame_acc (server c) (negb (rfin s)) f = true ->
  is_control (opcode f) = false ->
  pending (br s) = encode_frame f ++ rest ->
  exists s5, advance_after_skip c s = aas5 c (opcode f) (plen f) s5 /\
    rinvL L k s5 /\ rem s5 = plen f /\ rfin s5 = fin f /\
    rlen s5 = (if opcode f =? 0 then rlen s else 0) /\
    pending (br s5) = wire_payload f ++ rest /\
    unmask c s5 (wire_payload f) = payload f /\
    rdecomp s5 = false /\ wlog s5 = wlog s /\
    (opcode f = 0 \/ opcode f = 1 \/ opcode f = 2).
Proof.
  intros Hrinv Hwf Hacc Hctl Hp.
  pose proof Hrinv as (Hinv & Hbs & Hfl & Herr & Hoof & Hcs & Hrl & Hec).
  destruct (frame_acc_facts _ _ _ Hacc) as (Hr & Hm & Hcases).
  assert (Hop : opcode f = 0 \/ opcode f = 1 \/ opcode f = 2).
  { unfold is_control in Hctl. destruct Hcases as [(Ho & _)|[(Ho & _)|(Ho & _)]]; lia. }
  pose proof Hwf as (_ & _ & Hpl & Hkey).
  rewrite encode_frame_split in Hp.
  rewrite aas_unfold.
  destruct (rd_app 2 s _ _ Hinv ltac:(lia) Hp eq_refl) as (b1 & Hrd & Hp1 & Hinv1 & Hbs1 & Hfl1).
  rewrite Hrd. cbv iota. cbn [nth].
  rewrite aas2_ok; [|exact Hwf|exact Hacc].
  set (s1 := hdr_state f (s <| br := b1 |>)).
  assert (Es1 : br s1 = b1 /\ rfin s1 = fin f /\ rlen s1 = (if opcode f =? 0 then rlen s else 0) /\
                rlimit s1 = rlimit s /\ rerror s1 = None /\ outoffuel s1 = false /\ closesent s1 = false /\
                wlog s1 = wlog s /\ rdecomp s1 = false /\ errcount s1 = errcount s).
  { subst s1. unfold hdr_state. cbv zeta.
    destruct Hop as [Ho|[Ho|Ho]]; rewrite Ho;
      [change ((0 =? 1) || (0 =? 2)) with false; change (0 =? 0) with true
      |change ((1 =? 1) || (1 =? 2)) with true; change (1 =? 0) with false
      |change ((2 =? 1) || (2 =? 2)) with true; change (2 =? 0) with false];
      cbv iota; rsimpl; auto 12. }
  destruct Es1 as (E1 & E2 & E3 & E4 & E5 & E6 & E7 & E8 & E9 & E10).
  destruct (aas3_ok c (opcode f) (is_some (mkey f)) f s1 (key_bytes f ++ (wire_payload f ++ rest)))
    as (b2 & H3 & Hp2 & Hinv2 & Hbs2 & Hfl2);
    [rewrite E1; exact Hinv1|rewrite E1; lia|exact Hpl|rewrite E1; exact Hp1|].
  rewrite H3. rewrite E1 in Hbs2, Hfl2.
  destruct (mkey f) as [key|] eqn:Ek.
  - (* masked *)
    cbn [is_some]. unfold key_bytes in Hp2. rewrite Ek in Hp2.
    destruct (aas4_masked c (opcode f) (plen f) (s1 <| br := b2 |>) key (wire_payload f ++ rest))
      as (b3 & H4 & Hp3 & Hinv3 & Hbs3 & Hfl3);
      [exact Hinv2|change (125 <= bsize b2)%nat; lia|exact Hkey|exact Hp2|].
    rewrite H4. change (bsize (br (s1 <| br := b2 |>))) with (bsize b2) in Hbs3.
    change (fault (src (br (s1 <| br := b2 |>)))) with (fault (src b2)) in Hfl3.
    eexists. split; [reflexivity|].
    split.
    { apply (rinvL_upd L k s); [exact Hrinv| | | |rsimpl; congruence ..]; rsimpl;
        [exact Hinv3|congruence|congruence]. }
    rsimpl. rewrite E2, E3, E8, E9.
    split; [reflexivity|]. split; [reflexivity|]. split; [reflexivity|]. split; [exact Hp3|].
    split; [|auto].
    unfold unmask. rsimpl. cbn [is_some] in Hm. rewrite <- Hm. apply unmask_wire. exact Ek.
  - (* unmasked *)
    cbn [is_some]. unfold key_bytes in Hp2. rewrite Ek in Hp2. cbn [app] in Hp2.
    rewrite aas4_unmasked.
    eexists. split; [reflexivity|].
    split.
    { apply (rinvL_upd L k s); [exact Hrinv| | | |rsimpl; congruence ..]; rsimpl;
        [exact Hinv2|congruence|congruence]. }
    rsimpl. rewrite E2, E3, E8, E9.
    split; [reflexivity|]. split; [reflexivity|]. split; [reflexivity|]. split; [exact Hp2|].
    split; [|auto].
    unfold unmask. cbn [is_some] in Hm. rewrite <- Hm. apply wire_payload_unmasked. exact Ek.
Qed.

(* ============================== part B ============================== *)
Lemma unmask_rlen c s x l : unmask c (s <| rlen := x |>) l = unmask c s l.
Proof. reflexivity. Qed.

(* ---------- outcome 1: within the limit ---------- *)
Lemma advance_data_within L k c s f rest :
  rinvL L k s -> wf_frame f -> frame_acc (server c) (negb (rfin s)) f = true ->
  is_control (opcode f) = false ->
  pending (br s) = encode_frame f ++ rest ->
  (if opcode f =? 0 then rlen s else 0) + plen f < 2^63 ->
  within L ((if opcode f =? 0 then rlen s else 0) + plen f) ->
  exists s', advance_after_skip c s = (AFrame (opcode f), s') /\
    rinvL L k s' /\ rem s' = plen f /\ rfin s' = fin f /\
    rlen s' = (if opcode f =? 0 then rlen s else 0) + plen f /\
    pending (br s') = wire_payload f ++ rest /\
    unmask c s' (wire_payload f) = payload f /\
    rdecomp s' = false /\ wlog s' = wlog s.
Proof.
  intros Hrinv Hwf Hacc Hctl Hp Hlen Hw.
  destruct (advance_data_hdr L k c s f rest Hrinv Hwf Hacc Hctl Hp)
    as (s5 & Hadv & Hrinv5 & Hrem5 & Hfin5 & Hrlen5 & Hp5 & Hun5 & Hdec5 & Hwl5 & Hop).
  pose proof Hrinv5 as (_ & _ & _ & _ & _ & _ & Hrl5 & _).
  rewrite Hadv, aas5_data_ok; [|exact Hop|rewrite Hrlen5; exact Hlen|rewrite Hrl5, Hrlen5; exact Hw].
  eexists. split; [reflexivity|].
  split; [apply (rinvL_same L k s5); [exact Hrinv5|reflexivity ..]|].
  rewrite unmask_rlen. rsimpl. rewrite Hrlen5. auto 10.
Qed.

(* ---------- outcome 2: the frame crosses the limit ---------- *)
Lemma advance_data_toobig L k c s f rest :
  rinvL L k s -> wf_frame f -> frame_acc (server c) (negb (rfin s)) f = true ->
  is_control (opcode f) = false ->
  pending (br s) = encode_frame f ++ rest ->
  (if opcode f =? 0 then rlen s else 0) + plen f < 2^63 ->
  0 < L -> L < (if opcode f =? 0 then rlen s else 0) + plen f ->
  exists s', advance_after_skip c s = (AErr RReadLimit, s') /\
    wlog s' = wlog s ++ [WCloseTooBig] /\ closesent s' = true /\
    pending (br s') = wire_payload f ++ rest /\
    rlen s' = (if opcode f =? 0 then rlen s else 0) + plen f /\
    rem s' = plen f /\ rerror s' = None /\ outoffuel s' = false /\ errcount s' = 0%nat /\
    binv (br s') /\ rlimit s' = L.
Proof.
  intros Hrinv Hwf Hacc Hctl Hp Hlen Hpos Hbig.
  destruct (advance_data_hdr L k c s f rest Hrinv Hwf Hacc Hctl Hp)
    as (s5 & Hadv & Hrinv5 & Hrem5 & Hfin5 & Hrlen5 & Hp5 & Hun5 & Hdec5 & Hwl5 & Hop).
  pose proof Hrinv5 as (Hinv5 & _ & _ & Herr5 & Hoof5 & Hcs5 & Hrl5 & Hec5).
  rewrite Hadv, aas5_data_toobig;
    [|exact Hop|rewrite Hrlen5; exact Hlen|rewrite Hrl5; exact Hpos|rewrite Hrl5, Hrlen5; exact Hbig].
  eexists. split; [reflexivity|].
  unfold send.
  replace (closesent (s5 <| rlen := rlen s5 + plen f |>)) with (closesent s5) by reflexivity.
  rewrite Hcs5. rsimpl. rewrite Hwl5, Hrlen5. auto 12.
Qed.

(* ---------- outcome 3: the running sum leaves the int64 range ---------- *)
Lemma advance_data_overflow L k c s f rest :
  rinvL L k s -> wf_frame f -> frame_acc (server c) (negb (rfin s)) f = true ->
  is_control (opcode f) = false ->
  pending (br s) = encode_frame f ++ rest ->
  2^63 <= (if opcode f =? 0 then rlen s else 0) + plen f ->
  exists s', advance_after_skip c s = (AErr RReadLimit, s') /\
    wlog s' = wlog s ++ [WCloseTooBig] /\ closesent s' = true /\
    pending (br s') = wire_payload f ++ rest /\
    rem s' = plen f /\ binv (br s').
Proof.
  intros Hrinv Hwf Hacc Hctl Hp Hlen.
  destruct (advance_data_hdr L k c s f rest Hrinv Hwf Hacc Hctl Hp)
    as (s5 & Hadv & Hrinv5 & Hrem5 & Hfin5 & Hrlen5 & Hp5 & Hun5 & Hdec5 & Hwl5 & Hop).
  pose proof Hrinv5 as (Hinv5 & _ & _ & Herr5 & Hoof5 & Hcs5 & Hrl5 & Hec5).
  rewrite Hadv, aas5_data_overflow; [|exact Hop|rewrite Hrlen5; exact Hlen].
  eexists. split; [reflexivity|].
  unfold send.
  replace (closesent (s5 <| rlen := rlen s5 + plen f |>)) with (closesent s5) by reflexivity.
  rewrite Hcs5. rsimpl. rewrite Hwl5. auto 10.
Qed.

(* ---------- a 64-bit length field with the top bit set: refused on the raw bytes ---------- *)
Transparent aas2 aas3.
Lemma top_bit_after_skip c s b0 b1 len rest :
  binv (br s) -> (8 <= bsize (br s))%nat ->
  pending (br s) = b0 :: b1 :: be_enc 8 len ++ rest ->
  N.land b1 127 = 127 -> 2^63 <= len -> len < 2^64 ->
  hdr_reject c (rfin s) b0 b1 = false ->
  exists s', advance_after_skip c s = (AErr RReadLimit, s') /\
    wlog s' = (if closesent s then wlog s else wlog s ++ [WCloseTooBig]) /\
    closesent s' = true /\ hlog s' = hlog s /\
    pending (br s') = rest /\ binv (br s').
Proof.
  intros Hinv Hbs Hp H127 Hlo Hhi Hrej.
  rewrite aas_unfold.
  change (b0 :: b1 :: be_enc 8 len ++ rest) with ([b0; b1] ++ (be_enc 8 len ++ rest)) in Hp.
  destruct (rd_app 2 s _ _ Hinv ltac:(lia) Hp eq_refl) as (b2 & Hrd & Hp2 & Hinv2 & Hbs2 & Hfl2).
  rewrite Hrd. cbv iota. cbn [nth].
  unfold aas2. cbv zeta.
  change (rfin (s <| br := b2 |> <| rem := N.land b1 127 |>
                 <| rdecomp := bit b0 c_rsv1Bit && negotiated c |>)) with (rfin s).
  rewrite Hrej.
  match goal with |- context [aas3 _ _ _ _ ?x] => set (s2 := x) end.
  assert (E : br s2 = b2 /\ wlog s2 = wlog s /\ closesent s2 = closesent s /\ hlog s2 = hlog s).
  { subst s2.
    destruct ((N.land b0 15 =? c_TextMessage) || (N.land b0 15 =? c_BinaryMessage));
      [rsimpl; auto|]. destruct (N.land b0 15 =? c_continuationFrame); rsimpl; auto. }
  destruct E as (E1 & E2 & E3 & E4).
  unfold aas3. rewrite H127.
  change (127 =? 126) with false. change (127 =? 127) with true. cbv iota.
  assert (Hl : length (be_enc 8 len) = 8%nat) by apply be_enc_length.
  destruct (rd_app 8 s2 (be_enc 8 len) rest) as (b3 & Hrd3 & Hp3 & Hinv3 & Hbs3 & Hfl3);
    [rewrite E1; exact Hinv2|rewrite E1; lia|rewrite E1; exact Hp2|exact Hl|].
  rewrite Hrd3. cbv beta iota.
  rewrite be_roundtrip by (change (256 ^ N.of_nat 8) with (2^64); exact Hhi).
  replace (2^63 <=? len) with true by lia.
  eexists. split; [reflexivity|]. unfold send.
  change (closesent (s2 <| br := b3 |>)) with (closesent s2). rewrite E3.
  destruct (closesent s) eqn:Ecs; rsimpl; rewrite ?E2, ?E3, ?E4; auto 10.
Qed.
Opaque aas2 aas3.

(* ============================== part C ============================== *)
(* ---------- advanceFrame on a ping / pong, any read limit ---------- *)
Lemma advance_ctlL L k c s f rest :
  rinvL L k s -> custom_handlers c = false -> wf_frame f ->
  frame_acc (server c) (negb (rfin s)) f = true ->
  is_control (opcode f) = true ->
  pending (br s) = encode_frame f ++ rest ->
  exists s', advance_after_skip c s = (AFrame (opcode f), s') /\
    rinvL L k s' /\ rem s' = 0 /\ rfin s' = rfin s /\ rlen s' = rlen s /\
    pending (br s') = rest /\ wlog s' = wlog s ++ map WPong (ping1 f).
Proof.
  intros Hrinv Hch Hwf Hacc Hctl Hp.
  pose proof Hrinv as (Hinv & Hbs & Hfl & Herr & Hoof & Hcs & Hrl & Hec).
  destruct (frame_acc_facts _ _ _ Hacc) as (Hr & Hm & Hcases).
  assert (Hop : (opcode f = 9 \/ opcode f = 10) /\ fin f = true /\ plen f <= 125).
  { unfold is_control in Hctl. destruct Hcases as [H|[(Ho & _)|(Ho & _)]]; [exact H|lia|lia]. }
  destruct Hop as (Hop & Hfin & Hl125).
  pose proof Hwf as (_ & _ & Hpl & Hkey).
  rewrite encode_frame_split in Hp.
  rewrite aas_unfold.
  destruct (rd_app 2 s _ _ Hinv ltac:(lia) Hp eq_refl) as (b1 & Hrd & Hp1 & Hinv1 & Hbs1 & Hfl1).
  rewrite Hrd. cbv iota. cbn [nth].
  rewrite aas2_ok; [|exact Hwf|exact Hacc].
  set (s1 := hdr_state f (s <| br := b1 |>)).
  assert (Es1 : br s1 = b1 /\ rfin s1 = rfin s /\ rlen s1 = rlen s /\
                rlimit s1 = rlimit s /\ rerror s1 = None /\ outoffuel s1 = false /\ closesent s1 = false /\
                wlog s1 = wlog s /\ errcount s1 = errcount s).
  { subst s1. unfold hdr_state. cbv zeta.
    destruct Hop as [Ho|Ho]; rewrite Ho;
      [change ((9 =? 1) || (9 =? 2)) with false; change (9 =? 0) with false
      |change ((10 =? 1) || (10 =? 2)) with false; change (10 =? 0) with false];
      cbv iota; rsimpl; auto 12. }
  destruct Es1 as (E1 & E2 & E3 & E4 & E5 & E6 & E7 & E8 & E10).
  destruct (aas3_ok c (opcode f) (is_some (mkey f)) f s1 (key_bytes f ++ (wire_payload f ++ rest)))
    as (b2 & H3 & Hp2 & Hinv2 & Hbs2 & Hfl2);
    [rewrite E1; exact Hinv1|rewrite E1; lia|exact Hpl|rewrite E1; exact Hp1|].
  rewrite H3. rewrite E1 in Hbs2, Hfl2.
  assert (Hwl : blen (wire_payload f) = plen f) by apply wire_payload_blen.
  assert (Hpong : forall pl, (if opcode f =? 9 then [WPong pl] else []) = map WPong (if opcode f =? 9 then [pl] else [])).
  { intros pl. destruct (opcode f =? 9); reflexivity. }
  destruct (mkey f) as [key|] eqn:Ek.
  - (* masked: the reader is a server *)
    cbn [is_some] in *. unfold key_bytes in Hp2. rewrite Ek in Hp2.
    destruct (aas4_masked c (opcode f) (plen f) (s1 <| br := b2 |>) key (wire_payload f ++ rest))
      as (b3 & H4 & Hp3 & Hinv3 & Hbs3 & Hfl3);
      [exact Hinv2|change (125 <= bsize b2)%nat; lia|exact Hkey|exact Hp2|].
    rewrite H4. change (bsize (br (s1 <| br := b2 |>))) with (bsize b2) in Hbs3.
    change (fault (src (br (s1 <| br := b2 |>)))) with (fault (src b2)) in Hfl3.
    set (s3 := s1 <| br := b2 |> <| rem := plen f |> <| mpos := 0 |> <| br := b3 |> <| rkey := key |>).
    destruct (aas5_ctl c (opcode f) (plen f) s3 (wire_payload f) rest Hop Hch)
      as (b4 & Hp4 & Hinv4 & Hbs4 & Hfl4 & H5);
      [subst s3; rsimpl; exact E7|subst s3; rsimpl; exact Hinv3|subst s3; rsimpl; lia
      |exact Hl125|exact Hwl|subst s3; rsimpl; exact Hp3|].
    rewrite H5. cbv zeta.
    eexists. split; [reflexivity|].
    replace (bsize (br s3)) with (bsize b3) in Hbs4 by reflexivity.
    replace (fault (src (br s3))) with (fault (src b3)) in Hfl4 by reflexivity.
    replace (rkey s3) with key by reflexivity.
    replace (wlog s3) with (wlog s1) by reflexivity.
    rewrite <- Hm. rewrite (unmask_wire f key Ek).
    unfold ping1.
    destruct (opcode f =? 9); subst s3; rsimpl.
    + split.
      { apply (rinvL_upd L k s); [exact Hrinv| | | |rsimpl; congruence ..]; rsimpl;
          [exact Hinv4|congruence|congruence]. }
      rewrite E8. repeat split; try reflexivity; try assumption.
    + split.
      { apply (rinvL_upd L k s); [exact Hrinv| | | |rsimpl; congruence ..]; rsimpl;
          [exact Hinv4|congruence|congruence]. }
      rewrite E8, app_nil_r. repeat split; try reflexivity; try assumption.
  - (* unmasked: the reader is a client *)
    cbn [is_some] in *. unfold key_bytes in Hp2. rewrite Ek in Hp2. cbn [app] in Hp2.
    rewrite aas4_unmasked.
    set (s3 := s1 <| br := b2 |> <| rem := plen f |>).
    destruct (aas5_ctl c (opcode f) (plen f) s3 (wire_payload f) rest Hop Hch)
      as (b4 & Hp4 & Hinv4 & Hbs4 & Hfl4 & H5);
      [subst s3; rsimpl; exact E7|subst s3; rsimpl; exact Hinv2|subst s3; rsimpl; lia
      |exact Hl125|exact Hwl|subst s3; rsimpl; exact Hp2|].
    rewrite H5. cbv zeta.
    eexists. split; [reflexivity|].
    replace (bsize (br s3)) with (bsize b2) in Hbs4 by reflexivity.
    replace (fault (src (br s3))) with (fault (src b2)) in Hfl4 by reflexivity.
    replace (wlog s3) with (wlog s1) by reflexivity.
    rewrite <- Hm. rewrite (wire_payload_unmasked f Ek).
    unfold ping1.
    destruct (opcode f =? 9); subst s3; rsimpl.
    + split.
      { apply (rinvL_upd L k s); [exact Hrinv| | | |rsimpl; congruence ..]; rsimpl;
          [exact Hinv4|congruence|congruence]. }
      rewrite E8. repeat split; try reflexivity; try assumption.
    + split.
      { apply (rinvL_upd L k s); [exact Hrinv| | | |rsimpl; congruence ..]; rsimpl;
          [exact Hinv4|congruence|congruence]. }
      rewrite E8, app_nil_r. repeat split; try reflexivity; try assumption.
Qed.

(* ---------- step 1 of advanceFrame: the unread rest of the previous frame is skipped -------- *)
Lemma advance_frame_skip L k c s w rest :
  rinvL L k s -> rem s = blen w -> pending (br s) = w ++ rest ->
  exists b', advance_frame c s = advance_after_skip c (s <| br := b' |>) /\
    pending b' = rest /\ rinvL L k (s <| br := b' |>).
Proof.
  intros Hrinv Hrem Hp.
  pose proof Hrinv as (Hinv & Hbs & Hfl & Herr & Hoof & Hcs & Hrl & Hec).
  unfold advance_frame.
  destruct (N.ltb_spec 0 (rem s)) as [Hpos|Hz].
  - destruct (copyn_enough (S (length (pending (br s)))) (rem s) (br s) Hinv)
      as (b' & Hc & Hp' & Hinv' & Hbs' & Hfl'); [rewrite Hrem, Hp, blen_app; lia|lia|].
    rewrite Hc. cbv iota beta. exists b'.
    split; [reflexivity|].
    split.
    { rewrite Hp', Hp, Hrem. unfold dropN, blen. rewrite Nat2N.id. apply skipn_app_exact. reflexivity. }
    apply (rinvL_upd L k s); [exact Hrinv|rsimpl; assumption ..|reflexivity|reflexivity|reflexivity|reflexivity|reflexivity].
  - exists (br s). rewrite set_br_id. split; [reflexivity|]. split; [|exact Hrinv].
    assert (w = []) by (apply blen_nil_inv; lia). subst w. exact Hp.
Qed.

(* ---------- messageReader.Read, one chunk, any read limit ---------- *)
Lemma read_loop_chunkL L k c m f s wp rest :
  rinvL L k s -> (0 < m)%nat -> wp <> [] -> rem s = blen wp -> pending (br s) = wp ++ rest ->
  exists w1 w2 e s', wp = w1 ++ w2 /\ w1 <> [] /\ blen w1 <= N.of_nat m /\
    read_loop (S f) c m s = (unmask c s w1, e, s') /\
    pending (br s') = w2 ++ rest /\ rem s' = blen w2 /\ rfin s' = rfin s /\ rlen s' = rlen s /\
    wlog s' = wlog s /\ unmask c s wp = unmask c s w1 ++ unmask c s' w2 /\
    binv (br s') /\ bsize (br s') = bsize (br s) /\ fault (src (br s')) = k /\
    outoffuel s' = false /\ closesent s' = false /\ rlimit s' = L /\ rerror s' = e /\
    errcount s' = errcount s /\
    (e = None \/
     (w2 ++ rest = [] /\
      e = Some (if negb (rfin s) && errk_eqb k EEOF then unexpected_eof else of_errk k))).
Proof.
  intros Hrinv Hm Hne Hrem Hp.
  pose proof Hrinv as (Hinv & Hbs & Hfl & Herr & Hoof & Hcs & Hrl & Hec).
  assert (Hwpos : 0 < blen wp) by (destruct wp; [congruence|unfold blen; cbn [length]; lia]).
  remember (N.to_nat (N.min (N.of_nat m) (rem s))) as sz eqn:Esz.
  assert (Hsz : (0 < sz)%nat) by lia.
  assert (Hpne : pending (br s) <> []) by (rewrite Hp; destruct wp; [congruence|discriminate]).
  destruct (br_read_some sz (br s) Hinv Hsz Hpne)
    as (d & e & b' & Hbr & Hd & Hl & Hpd & Hinv' & Hbs' & Hfl' & He).
  rewrite Hp in Hpd.
  destruct (app_prefix_split d (pending b') wp rest) as (w2 & Hw & Hp2);
    [symmetry; exact Hpd|unfold blen in Hrem; lia|].
  assert (Hbw : blen wp = blen d + blen w2) by (rewrite Hw; apply blen_app).
  exists d, w2.
  cbn [read_loop]. rewrite Herr. replace (0 <? rem s) with true by lia. cbv iota zeta.
  rewrite <- Esz, Hbr. cbv beta iota.
  unfold unmask.
  destruct (server c) eqn:Es.
  - (* server: unmask and advance the mask position *)
    assert (Hmask : maskl (rkey s) (mpos s) wp =
                    maskl (rkey s) (mpos s) d ++ maskl (rkey s) ((mpos s + blen d) mod 4) w2).
    { rewrite Hw, maskl_app. f_equal. apply maskl_pos_mod4. lia. }
    destruct He as [-> | [-> Hpe]].
    + do 2 eexists. split; [exact Hw|]. split; [exact Hd|]. split; [unfold blen; lia|].
      split; [reflexivity|]. rsimpl.
      split; [exact Hp2|]. split; [lia|]. split; [reflexivity|]. split; [reflexivity|].
      split; [reflexivity|]. split; [exact Hmask|]. split; [exact Hinv'|]. split; [exact Hbs'|].
      split; [congruence|]. split; [exact Hoof|]. split; [exact Hcs|]. split; [exact Hrl|].
      split; [reflexivity|]. split; [reflexivity|]. left. reflexivity.
    + do 2 eexists. split; [exact Hw|]. split; [exact Hd|]. split; [unfold blen; lia|].
      split; [reflexivity|]. rsimpl.
      assert (Hw2 : w2 = []) by (rewrite Hpe in Hp2; symmetry in Hp2; apply app_eq_nil in Hp2; apply Hp2).
      split; [exact Hp2|]. split; [lia|]. split; [reflexivity|]. split; [reflexivity|].
      split; [reflexivity|]. split; [exact Hmask|]. split; [exact Hinv'|]. split; [exact Hbs'|].
      split; [congruence|]. split; [exact Hoof|]. split; [exact Hcs|]. split; [exact Hrl|].
      split; [reflexivity|]. split; [reflexivity|].
      right. split; [rewrite <- Hp2; exact Hpe|].
      rewrite Hrem, Hbw, Hw2, Hfl. change (blen []) with 0.
      replace (0 <? blen d + 0 - blen d) with false by lia. reflexivity.
  - (* client: frames are not masked *)
    destruct He as [-> | [-> Hpe]].
    + do 2 eexists. split; [exact Hw|]. split; [exact Hd|]. split; [unfold blen; lia|].
      split; [reflexivity|]. rsimpl.
      split; [exact Hp2|]. split; [lia|]. split; [reflexivity|]. split; [reflexivity|].
      split; [reflexivity|]. split; [exact Hw|]. split; [exact Hinv'|]. split; [exact Hbs'|].
      split; [congruence|]. split; [exact Hoof|]. split; [exact Hcs|]. split; [exact Hrl|].
      split; [reflexivity|]. split; [reflexivity|]. left. reflexivity.
    + do 2 eexists. split; [exact Hw|]. split; [exact Hd|]. split; [unfold blen; lia|].
      split; [reflexivity|]. rsimpl.
      assert (Hw2 : w2 = []) by (rewrite Hpe in Hp2; symmetry in Hp2; apply app_eq_nil in Hp2; apply Hp2).
      split; [exact Hp2|]. split; [lia|]. split; [reflexivity|]. split; [reflexivity|].
      split; [reflexivity|]. split; [exact Hw|]. split; [exact Hinv'|]. split; [exact Hbs'|].
      split; [congruence|]. split; [exact Hoof|]. split; [exact Hcs|]. split; [exact Hrl|].
      split; [reflexivity|]. split; [reflexivity|].
      right. split; [rewrite <- Hp2; exact Hpe|].
      rewrite Hrem, Hbw, Hw2, Hfl. change (blen []) with 0.
      replace (0 <? blen d + 0 - blen d) with false by lia. reflexivity.
Qed.

(* Read at a frame boundary when advanceFrame fails: the error is remembered and returned *)
Lemma read_loop_adv_err f c m s e s1 :
  rerror s = None -> rem s = 0 -> rfin s = false ->
  advance_after_skip c s = (AErr e, s1) -> is_io_eof e = false ->
  read_loop (S f) c m s = ([], Some e, s1 <| rerror := Some e |>).
Proof.
  intros He Hr Hf Hadv Hio. cbn [read_loop]. rewrite He.
  replace (0 <? rem s) with false by lia. cbv iota. rewrite Hf.
  rewrite advance_frame_rem0 by exact Hr. rewrite Hadv. cbv iota.
  destruct f; cbn [read_loop]; rsimpl; rewrite Hio; reflexivity.
Qed.

(* ============================== part D ============================== *)
(* ---------- what one ReadMessage delivers under a read limit (pure, on the frame list) ------ *)
Definition crosses (L x:N) : bool := (0 <? L) && (L <? x).

Lemma crosses_false L x : crosses L x = false <-> within L x.
Proof.
  unfold crosses, within. destruct (N.ltb_spec 0 L), (N.ltb_spec L x); cbn [andb]; split; intros; try lia; try reflexivity; try discriminate.
Qed.
Lemma crosses_true L x : crosses L x = true <-> 0 < L /\ L < x.
Proof.
  unfold crosses. destruct (N.ltb_spec 0 L), (N.ltb_spec L x); cbn [andb]; split; intros; try lia; try reflexivity; try discriminate.
Qed.

(* inside a message, [used] payload bytes already counted: payload delivered, pings answered,
   and the frames left ([None]: a frame crossed the limit) *)
Fixpoint cont_lim (L used:N) (fs:list frame) : bytes * list bytes * option (list frame) :=
  match fs with
  | [] => ([], [], Some [])
  | f :: r =>
    if is_control (opcode f) then let '(d, p, a) := cont_lim L used r in (d, ping1 f ++ p, a)
    else if crosses L (used + plen f) then ([], [], None)
    else if fin f then (payload f, [], Some r)
    else let '(d, p, a) := cont_lim L (used + plen f) r in (payload f ++ d, p, a)
  end.

Definition tail_lim (L used:N) (final:bool) (fs:list frame) : bytes * list bytes * option (list frame) :=
  if final then ([], [], Some fs) else cont_lim L used fs.

Definition lim_err (a:option (list frame)) : option rerr :=
  match a with Some _ => None | None => Some RReadLimit end.
Definition lim_close (a:option (list frame)) : list wback :=
  match a with Some _ => [] | None => [WCloseTooBig] end.

Definition rinvL_end (L:N) (k:errk) (s:rst) : Prop :=
  binv (br s) /\ (125 <= bsize (br s))%nat /\ fault (src (br s)) = k /\
  (rerror s = None \/ (rerror s = Some RIoEOF /\ pending (br s) = [] /\ k = EEOF)) /\
  outoffuel s = false /\ closesent s = false /\ rlimit s = L /\ errcount s = 0%nat.

Lemma rinvL_rinvL_end L k s : rinvL L k s -> rinvL_end L k s.
Proof. intros (H1 & H2 & H3 & H4 & H5 & H6 & H7 & H8). unfold rinvL_end. auto 12. Qed.

Section MainL.
Variables (L:N) (k:errk) (c:rcfg) (extra:bytes).
Hypothesis Hch : custom_handlers c = false.
Hypothesis Hx : extra <> [] \/ k = EEOF.

Definition ra_post (s':rst) (after:option (list frame)) : Prop :=
  match after with
  | Some a => rinvL_end L k s' /\ rem s' = 0 /\ rfin s' = true /\
              pending (br s') = encode_frames a ++ extra
  | None => rerror s' = Some RReadLimit /\ closesent s' = true /\ outoffuel s' = false /\
            errcount s' = 0%nat /\ binv (br s') /\ rlimit s' = L
  end.

Lemma ra_mainL : forall fs n wp, length wp = n -> forall s fa fl len cp acc more pings after,
  rinvL L k s -> rem s = blen wp -> pending (br s) = wp ++ encode_frames fs ++ extra ->
  Forall wf_frame fs -> seq_ok (server c) (negb (rfin s)) fs = true ->
  rlen s + blen (encode_frames fs) < 2^63 ->
  len < cp -> (length (pending (br s)) < fl)%nat -> (length (pending (br s)) <= fa)%nat ->
  tail_lim L (rlen s) (rfin s) fs = (more, pings, after) ->
  exists s', ra_cont fa c len cp acc (read_loop fl c (N.to_nat (cp - len)) s)
             = (acc ++ unmask c s wp ++ more, lim_err after, s') /\
    wlog s' = wlog s ++ map WPong pings ++ lim_close after /\ ra_post s' after.
Proof.
  induction fs as [|f fs IHfs].
  - (* no further frame: we are in the final frame of the message *)
    induction n as [n IHn] using lt_wf_ind.
    intros wp Hn s fa fl len cp acc more pings after Hrinv Hrem Hp Hwf Hseq Hrl Hlc Hfl Hfa Hmt.
    cbn [seq_ok] in Hseq. apply negb_true_iff in Hseq. apply negb_false_iff in Hseq.
    rewrite Hseq in Hmt. cbn [tail_lim] in Hmt. inversion Hmt; subst more pings after. clear Hmt.
    pose proof Hrinv as (Hinv & Hbs & Hflt & Herr & Hoof & Hcs & Hrlim & Hecnt).
    destruct fl as [|fl]; [lia|].
    destruct wp as [|x wp'] eqn:Ewp.
    + rewrite (read_loop_eof fl c _ s Herr Hrem Hseq). cbn [ra_cont].
      eexists. split; [rewrite unmask_nil; reflexivity|]. cbn [ra_post lim_close map]. rsimpl.
      split; [rewrite !app_nil_r; reflexivity|].
      split; [apply rinvL_rinvL_end; apply (rinvL_upd L k s); auto|].
      cbn [encode_frames flat_map app map] in *. auto.
    + rewrite <- Ewp in *.
      assert (Hwne : wp <> []) by (rewrite Ewp; discriminate).
      assert (Hm : (0 < N.to_nat (cp - len))%nat) by lia.
      destruct (read_loop_chunkL L k c _ fl s wp (encode_frames [] ++ extra) Hrinv Hm Hwne Hrem Hp)
        as (w1 & w2 & e & s1 & Hw & Hw1 & Hb1 & Hrl1 & Hp1 & Hrem1 & Hfin1 & Hrlen1 & Hwl1 & Hun &
            Hinv1 & Hbs1 & Hfl1 & Hoof1 & Hcs1 & Hrlim1 & Herr1 & Hec1 & He).
      rewrite Hrl1. cbn [ra_cont].
      assert (Hbu : blen (unmask c s w1) = blen w1) by (unfold blen; rewrite unmask_length; reflexivity).
      assert (Hlen1 : (length (pending (br s)) = length w1 + length (pending (br s1)))%nat).
      { rewrite Hp, Hp1, Hw, <- app_assoc, app_length. reflexivity. }
      assert (Hw1pos : (0 < length w1)%nat) by (destruct w1; [congruence|cbn [length]; lia]).
      destruct He as [-> | [Hnil ->]].
      * (* more to read *)
        destruct fa as [|fa]; [lia|].
        rewrite read_all_S. unfold reader_read.
        assert (Hrinv1 : rinvL L k s1) by (unfold rinvL; rewrite Hbs1, Hec1; auto 12).
        destruct (IHn (length w2) ltac:(subst n; rewrite Hw, app_length; lia) w2 eq_refl s1 fa
                    (fuel_of s1) (len + blen (unmask c s w1))
                    (if len + blen (unmask c s w1) =? cp then next_cap (caps c) cp else cp)
                    (acc ++ unmask c s w1) [] [] (Some []))
          as (s' & Hres & Hwl' & Hend);
          [exact Hrinv1|exact Hrem1|exact Hp1|exact Hwf|rewrite Hfin1, Hseq; reflexivity
          |rewrite Hrlen1; exact Hrl
          | rewrite Hbu; destruct (N.eqb_spec (len + blen w1) cp) as [Hq|Hq];
              [pose proof (next_cap_gt (caps c) cp ltac:(lia)); lia|lia]
          |unfold fuel_of; lia|lia|rewrite Hfin1, Hseq; reflexivity|].
        exists s'. split.
        { rewrite Hres. rewrite Hun, <- !app_assoc. reflexivity. }
        rewrite Hwl1 in Hwl'. split; [exact Hwl'|exact Hend].
      * (* the transport fault came with the last bytes of the stream *)
        apply app_eq_nil in Hnil. destruct Hnil as [Hw2 Hnil]. cbn [encode_frames flat_map app] in Hnil.
        destruct Hx as [Hx1|Hx1]; [contradiction|].
        rewrite Hseq, Hx1. cbn [negb andb errk_eqb of_errk].
        eexists. split.
        { rewrite Hw, Hw2, !app_nil_r. reflexivity. }
        cbn [ra_post lim_close map]. rewrite !app_nil_r.
        split; [exact Hwl1|].
        split.
        { unfold rinvL_end. rewrite Hbs1.
          split; [exact Hinv1|]. split; [exact Hbs|]. split; [exact Hfl1|].
          split; [|split; [exact Hoof1|split; [exact Hcs1|split; [exact Hrlim1|rewrite Hec1; exact Hecnt]]]].
          right. rewrite Herr1, Hp1, Hw2, Hnil, Hseq, Hx1.
          cbn [negb andb errk_eqb of_errk app encode_frames flat_map]. auto. }
        rewrite Hrem1, Hw2, Hfin1, Hp1, Hw2. cbn [map app]. auto.
  - (* at least one more frame *)
    induction n as [n IHn] using lt_wf_ind.
    intros wp Hn s fa fl len cp acc more pings after Hrinv Hrem Hp Hwf Hseq Hrl Hlc Hfl Hfa Hmt.
    pose proof Hrinv as (Hinv & Hbs & Hflt & Herr & Hoof & Hcs & Hrlim & Hecnt).
    destruct fl as [|fl]; [lia|].
    inversion Hwf as [|f' fs' Hwff Hwfs]; subst f' fs'.
    cbn [seq_ok] in Hseq. apply andb_true_iff in Hseq. destruct Hseq as [Hacc Hseq].
    destruct wp as [|x wp'] eqn:Ewp.
    + (* frame boundary *)
      cbn [app] in Hp. rewrite encode_frames_cons, <- app_assoc in Hp.
      destruct (rfin s) eqn:Efin.
      * (* the message is complete *)
        cbn [tail_lim] in Hmt. inversion Hmt; subst more pings after. clear Hmt.
        rewrite (read_loop_eof fl c _ s Herr Hrem Efin). cbn [ra_cont].
        eexists. split; [rewrite unmask_nil; reflexivity|]. cbn [ra_post lim_close map]. rsimpl.
        split; [rewrite !app_nil_r; reflexivity|].
        split; [apply rinvL_rinvL_end; apply (rinvL_upd L k s); auto|].
        rewrite encode_frames_cons, <- app_assoc. auto.
      * (* open message: the next frame is a control frame or a continuation *)
        cbn [negb] in Hacc, Hseq. cbn [tail_lim cont_lim] in Hmt.
        assert (Hlenp : (length (pending (br s)) =
                         length (encode_frame f) + length (encode_frames fs ++ extra))%nat)
          by (rewrite Hp, app_length; reflexivity).
        pose proof (encode_frame_length_ge2 f) as Hge2.
        assert (Hrlf : rlen s + plen f + blen (encode_frames fs) < 2^63).
        { rewrite encode_frames_cons, blen_app in Hrl. pose proof (encode_frame_ge_plen f). lia. }
        assert (Haccs : frame_acc (server c) (negb (rfin s)) f = true) by (rewrite Efin; exact Hacc).
        destruct (acc_cases _ _ _ Hacc) as [(Hctl & Hop & _)|(Hctl & [(_ & Hxx)|(Hop & _)])];
          [| discriminate Hxx |].
        -- (* ping / pong *)
           rewrite Hctl in Hmt. unfold next_open in Hseq. rewrite Hctl in Hseq.
           destruct (cont_lim L (rlen s) fs) as [[d1 p1] a1] eqn:Ecm. inversion Hmt; subst more pings after. clear Hmt.
           destruct (advance_ctlL L k c s f (encode_frames fs ++ extra) Hrinv Hch Hwff Haccs Hctl Hp)
             as (s1 & Hadv & Hrinv1 & Hrem1 & Hfin1 & Hrlen1 & Hp1 & Hwl1).
           rewrite (read_loop_adv fl c _ s (opcode f) s1 Herr Hrem Efin Hadv) by lia.
           destruct (IHfs 0%nat [] eq_refl s1 fa fl len cp acc d1 p1 a1) as (s' & Hres & Hwl' & Hend);
             [exact Hrinv1|exact Hrem1|exact Hp1|exact Hwfs|rewrite Hfin1, Efin; exact Hseq
             |rewrite Hrlen1; rewrite encode_frames_cons, blen_app in Hrl; lia
             |exact Hlc|rewrite Hp1; lia|rewrite Hp1; lia
             |rewrite Hfin1, Efin, Hrlen1; exact Ecm|].
           exists s'. split; [rewrite Hres, !unmask_nil; reflexivity|].
           split; [|exact Hend].
           rewrite Hwl', Hwl1, map_app, <- !app_assoc. reflexivity.
        -- (* continuation frame *)
           rewrite Hctl in Hmt. unfold next_open in Hseq. rewrite Hctl in Hseq.
           assert (Hop0 : (opcode f =? 0) = true) by lia.
           destruct (crosses L (rlen s + plen f)) eqn:Ecr.
           ++ (* this frame takes the message over the limit *)
              inversion Hmt; subst more pings after. clear Hmt.
              apply crosses_true in Ecr. destruct Ecr as [HLpos HLlt].
              destruct (advance_data_toobig L k c s f (encode_frames fs ++ extra) Hrinv Hwff Haccs Hctl Hp)
                as (s1 & Hadv & Hwl1 & Hcs1 & Hp1 & Hrlen1 & Hrem1 & Herr1 & Hoof1 & Hec1 & Hinv1 & Hrlim1);
                [rewrite Hop0; lia|exact HLpos|rewrite Hop0; exact HLlt|].
              rewrite (read_loop_adv_err fl c _ s RReadLimit s1 Herr Hrem Efin Hadv eq_refl).
              cbn [ra_cont].
              eexists. split; [rewrite unmask_nil; reflexivity|].
              cbn [ra_post lim_close map app]. rsimpl. auto 10.
           ++ apply crosses_false in Ecr.
           destruct (advance_data_within L k c s f (encode_frames fs ++ extra) Hrinv Hwff Haccs Hctl Hp)
             as (s1 & Hadv & Hrinv1 & Hrem1 & Hfin1 & Hrlen1 & Hp1 & Hun1 & _ & Hwl1);
             [rewrite Hop0; lia|rewrite Hop0; exact Ecr|].
           rewrite Hop0 in Hrlen1.
           rewrite (read_loop_adv fl c _ s (opcode f) s1 Herr Hrem Efin Hadv) by lia.
           assert (Hwpl : (length (wire_payload f) <= length (encode_frame f) - 2)%nat).
           { rewrite encode_frame_decomp. cbn [length]. rewrite !app_length. lia. }
           assert (Hmt1 : exists more1, tail_lim L (rlen s + plen f) (fin f) fs = (more1, pings, after) /\
                                        more = payload f ++ more1).
           { destruct (fin f).
             - inversion Hmt; subst. exists []. rewrite app_nil_r. auto.
             - cbn [tail_lim]. destruct (cont_lim L (rlen s + plen f) fs) as [[d1 p1] a1]. inversion Hmt; subst.
               exists d1. auto. }
           destruct Hmt1 as (more1 & Hmt1 & ->).
           destruct (IHfs (length (wire_payload f)) (wire_payload f) eq_refl s1 fa fl len cp acc
                       more1 pings after) as (s' & Hres & Hwl' & Hend);
             [exact Hrinv1|rewrite Hrem1; symmetry; apply wire_payload_blen|exact Hp1|exact Hwfs
             |rewrite Hfin1; exact Hseq|rewrite Hrlen1; exact Hrlf
             |exact Hlc|rewrite Hp1, app_length; lia|rewrite Hp1, app_length; lia
             |rewrite Hfin1, Hrlen1; exact Hmt1|].
           exists s'. split; [rewrite Hres, Hun1, unmask_nil; reflexivity|].
           rewrite Hwl1 in Hwl'. split; [exact Hwl'|exact Hend].
    + (* inside a frame *)
      rewrite <- Ewp in *.
      assert (Hwne : wp <> []) by (rewrite Ewp; discriminate).
      assert (Hm : (0 < N.to_nat (cp - len))%nat) by lia.
      destruct (read_loop_chunkL L k c _ fl s wp (encode_frames (f :: fs) ++ extra) Hrinv Hm Hwne Hrem Hp)
        as (w1 & w2 & e & s1 & Hw & Hw1 & Hb1 & Hrl1 & Hp1 & Hrem1 & Hfin1 & Hrlen1 & Hwl1 & Hun &
            Hinv1 & Hbs1 & Hfl1 & Hoof1 & Hcs1 & Hrlim1 & Herr1 & Hec1 & He).
      rewrite Hrl1. cbn [ra_cont].
      assert (Hbu : blen (unmask c s w1) = blen w1) by (unfold blen; rewrite unmask_length; reflexivity).
      assert (Hlen1 : (length (pending (br s)) = length w1 + length (pending (br s1)))%nat).
      { rewrite Hp, Hp1, Hw, <- app_assoc, app_length. reflexivity. }
      assert (Hw1pos : (0 < length w1)%nat) by (destruct w1; [congruence|cbn [length]; lia]).
      destruct He as [-> | [Hnil _]].
      * destruct fa as [|fa]; [lia|].
        rewrite read_all_S. unfold reader_read.
        assert (Hrinv1 : rinvL L k s1) by (unfold rinvL; rewrite Hbs1, Hec1; auto 12).
        destruct (IHn (length w2) ltac:(subst n; rewrite Hw, app_length; lia) w2 eq_refl s1 fa
                    (fuel_of s1) (len + blen (unmask c s w1))
                    (if len + blen (unmask c s w1) =? cp then next_cap (caps c) cp else cp)
                    (acc ++ unmask c s w1) more pings after)
          as (s' & Hres & Hwl' & Hend);
          [exact Hrinv1|exact Hrem1|exact Hp1|exact Hwf
          |rewrite Hfin1; cbn [seq_ok]; rewrite Hacc, Hseq; reflexivity
          |rewrite Hrlen1; exact Hrl
          | rewrite Hbu; destruct (N.eqb_spec (len + blen w1) cp) as [Hq|Hq];
              [pose proof (next_cap_gt (caps c) cp ltac:(lia)); lia|lia]
          |unfold fuel_of; lia|lia|rewrite Hfin1, Hrlen1; exact Hmt|].
        exists s'. split.
        { rewrite Hres. rewrite Hun, <- !app_assoc. reflexivity. }
        rewrite Hwl1 in Hwl'. split; [exact Hwl'|exact Hend].
      * (* impossible: a whole frame is still pending *)
        exfalso. apply app_eq_nil in Hnil. destruct Hnil as [_ Hnil].
        apply app_eq_nil in Hnil. destruct Hnil as [Hnil _].
        apply encode_frames_nil_inv in Hnil. discriminate Hnil.
Qed.
End MainL.

(* ============================== part E ============================== *)
(* ---------- NextReader's loop, one iteration ---------- *)
Lemma next_loop_step_more fuel c s op s1 :
  rerror s = None -> advance_frame c s = (AFrame op, s1) -> op <> 1 -> op <> 2 ->
  next_loop (S fuel) c s = next_loop fuel c s1.
Proof.
  intros He Ha H1 H2. cbn [next_loop]. rewrite He, Ha. cbv iota.
  unfold c_TextMessage, c_BinaryMessage.
  replace ((op =? 1) || (op =? 2)) with false by lia. reflexivity.
Qed.

Lemma next_loop_step_data fuel c s op s1 :
  rerror s = None -> advance_frame c s = (AFrame op, s1) -> op = 1 \/ op = 2 ->
  next_loop (S fuel) c s = (Some op, s1 <| cur := Some (nextid s1) |> <| nextid := S (nextid s1) |>).
Proof.
  intros He Ha H1. cbn [next_loop]. rewrite He, Ha. cbv iota.
  unfold c_TextMessage, c_BinaryMessage.
  replace ((op =? 1) || (op =? 2)) with true by lia. reflexivity.
Qed.

Lemma next_loop_step_err fuel c s e s1 :
  rerror s = None -> advance_frame c s = (AErr e, s1) ->
  next_loop (S fuel) c s = (None, s1 <| rerror := Some e |>).
Proof. intros He Ha. cbn [next_loop]. rewrite He, Ha. reflexivity. Qed.

(* the first message of a frame list, under a limit *)
Definition first_lim (L:N) (fs:list frame) : option (N * bytes * list bytes * option (list frame)) :=
  match find_data fs with
  | None => None
  | Some (p, f, r) =>
    if crosses L (plen f) then Some (0, [], p, None)
    else let '(more, p2, a) := tail_lim L (plen f) (fin f) r in
         Some (opcode f, payload f ++ more, p ++ p2, a)
  end.

Section NextL.
Variables (L:N) (k:errk) (c:rcfg) (extra:bytes).
Hypothesis Hch : custom_handlers c = false.
Hypothesis Hx : extra <> [] \/ k = EEOF.

(* what NextReader's loop returns when [f] is the first data frame it meets *)
Definition nl_post (wl:list wback) (res:option N * rst) (f:frame) (r:list frame) : Prop :=
  (within L (plen f) ->
   exists s', res = (Some (opcode f), s') /\
    rinvL L k s' /\ rem s' = plen f /\ rfin s' = fin f /\ rlen s' = plen f /\
    pending (br s') = wire_payload f ++ encode_frames r ++ extra /\
    unmask c s' (wire_payload f) = payload f /\ rdecomp s' = false /\
    wlog s' = wl /\
    Forall wf_frame r /\ seq_ok (server c) (negb (fin f)) r = true /\
    plen f + blen (encode_frames r) < 2^63 /\ (opcode f = 1 \/ opcode f = 2)) /\
  (0 < L -> L < plen f ->
   exists s', res = (None, s') /\ rerror s' = Some RReadLimit /\
    wlog s' = wl ++ [WCloseTooBig] /\ closesent s' = true /\ outoffuel s' = false /\
    errcount s' = 0%nat /\ binv (br s') /\ rlimit s' = L /\
    pending (br s') = wire_payload f ++ encode_frames r ++ extra).

Lemma next_loopL : forall fs s w fuel more0 pings0 fs1 p f r,
  rinvL L k s -> rem s = blen w -> pending (br s) = w ++ encode_frames fs ++ extra ->
  Forall wf_frame fs -> seq_ok (server c) (negb (rfin s)) fs = true ->
  rlen s + blen (encode_frames fs) < 2^63 -> (length (pending (br s)) < fuel)%nat ->
  tail_lim L (rlen s) (rfin s) fs = (more0, pings0, Some fs1) ->
  find_data fs1 = Some (p, f, r) ->
  nl_post (wlog s ++ map WPong (pings0 ++ p)) (next_loop fuel c s) f r.
Proof.
  induction fs as [|g fs IH];
    intros s w fuel more0 pings0 fs1 p f r Hrinv Hrem Hp Hwf Hseq Hlen Hfuel Hmt Hfd.
  { (* no frame: there is no next message *)
    exfalso. unfold tail_lim in Hmt. cbn [cont_lim] in Hmt.
    destruct (rfin s); inversion Hmt; subst fs1; discriminate Hfd. }
  pose proof Hrinv as (Hinv & Hbs & Hflt & Herr & Hoof & Hcs & Hrlim & Hecnt).
  inversion Hwf as [|g' fs' Hwfg Hwfs]; subst g' fs'.
  cbn [seq_ok] in Hseq. apply andb_true_iff in Hseq. destruct Hseq as [Hacc Hseq].
  destruct (advance_frame_skip L k c s w (encode_frames (g :: fs) ++ extra) Hrinv Hrem Hp)
    as (b' & Hskip & Hpb & Hrinvb).
  set (sb := s <| br := b' |>) in *.
  assert (Hpsb : pending (br sb) = encode_frame g ++ encode_frames fs ++ extra).
  { subst sb. rsimpl. rewrite Hpb, encode_frames_cons, <- app_assoc. reflexivity. }
  assert (Hlsb : (length (pending (br s)) = length w + length (pending (br sb)))%nat).
  { rewrite Hp, Hpsb, encode_frames_cons, <- app_assoc, app_length. reflexivity. }
  rewrite encode_frames_cons, blen_app in Hlen.
  pose proof (encode_frame_length_ge2 g) as Hge2.
  assert (Hlenp : (length (pending (br sb)) =
                   length (encode_frame g) + length (encode_frames fs ++ extra))%nat)
    by (rewrite Hpsb, app_length; reflexivity).
  assert (Haccs : frame_acc (server c) (negb (rfin sb)) g = true) by exact Hacc.
  destruct fuel as [|fuel]; [lia|].
  unfold next_open in Hseq.
  destruct (acc_cases _ _ _ Hacc) as [(Hctl & Hop & _)|(Hctl & [(Hop & Hopen)|(Hop & Hopen)])].
  - (* ping / pong: answered, the loop goes on *)
    rewrite Hctl in Hseq.
    destruct (advance_ctlL L k c sb g (encode_frames fs ++ extra) Hrinvb Hch Hwfg Haccs Hctl Hpsb)
      as (s1 & Hadv & Hrinv1 & Hrem1 & Hfin1 & Hrlen1 & Hp1 & Hwl1).
    rewrite <- Hskip in Hadv.
    rewrite (next_loop_step_more fuel c s (opcode g) s1 Herr Hadv) by lia.
    change (rfin sb) with (rfin s) in Hfin1. change (rlen sb) with (rlen s) in Hrlen1.
    change (wlog sb) with (wlog s) in Hwl1.
    destruct (rfin s) eqn:Efin.
    + (* idle: looking for the first frame of the next message *)
      cbn [tail_lim] in Hmt. inversion Hmt; subst more0 pings0 fs1. clear Hmt.
      cbn [find_data] in Hfd. rewrite Hctl in Hfd.
      destruct (find_data fs) as [[[p1 d1] a1]|] eqn:Efd; [|discriminate Hfd].
      inversion Hfd; subst p d1 a1. clear Hfd.
      replace (wlog s ++ map WPong ([] ++ ping1 g ++ p1)) with (wlog s1 ++ map WPong ([] ++ p1))
        by (cbn [app]; rewrite Hwl1, map_app, app_assoc; reflexivity).
      apply (IH s1 [] fuel [] [] fs p1 f r Hrinv1 Hrem1 Hp1 Hwfs);
        [rewrite Hfin1; exact Hseq|rewrite Hrlen1; lia|rewrite Hp1; lia
        |rewrite Hfin1; reflexivity|exact Efd].
    + (* skipping the rest of an abandoned message *)
      cbn [tail_lim cont_lim] in Hmt. rewrite Hctl in Hmt.
      destruct (cont_lim L (rlen s) fs) as [[d1 p1] a1] eqn:Ecm.
      inversion Hmt; subst more0 pings0 a1. clear Hmt.
      replace (wlog s ++ map WPong ((ping1 g ++ p1) ++ p)) with (wlog s1 ++ map WPong (p1 ++ p))
        by (rewrite Hwl1, <- (app_assoc (ping1 g)), (map_app _ (ping1 g)), app_assoc; reflexivity).
      apply (IH s1 [] fuel d1 p1 fs1 p f r Hrinv1 Hrem1 Hp1 Hwfs);
        [rewrite Hfin1; exact Hseq|rewrite Hrlen1; lia|rewrite Hp1; lia
        |rewrite Hfin1, Hrlen1; exact Ecm|exact Hfd].
  - (* a text / binary frame: the next message starts here *)
    assert (Efin : rfin s = true) by (destruct (rfin s); [reflexivity|discriminate Hopen]).
    rewrite Efin in Hmt. cbn [tail_lim] in Hmt. inversion Hmt; subst more0 pings0 fs1. clear Hmt.
    cbn [find_data] in Hfd. rewrite Hctl in Hfd. inversion Hfd; subst p g fs. clear Hfd.
    rewrite Hctl in Hseq.
    assert (Hop0 : (opcode f =? 0) = false) by lia.
    pose proof (encode_frame_ge_plen f) as Hgep.
    cbn [app map]. rewrite app_nil_r.
    split.
    + intros Hwithin.
      destruct (advance_data_within L k c sb f (encode_frames r ++ extra) Hrinvb Hwfg Haccs Hctl Hpsb)
        as (s1 & Hadv & Hrinv1 & Hrem1 & Hfin1 & Hrlen1 & Hp1 & Hun1 & Hdec1 & Hwl1);
        [rewrite Hop0; lia|rewrite Hop0; exact Hwithin|].
      rewrite Hop0 in Hrlen1. rewrite <- Hskip in Hadv.
      rewrite (next_loop_step_data fuel c s (opcode f) s1 Herr Hadv Hop).
      eexists. split; [reflexivity|]. unfold unmask in *. rsimpl.
      split; [apply (rinvL_same L k s1); [exact Hrinv1|reflexivity ..]|].
      change (wlog sb) with (wlog s) in Hwl1.
      repeat split; try assumption; try lia.
    + intros HLpos HLlt.
      destruct (advance_data_toobig L k c sb f (encode_frames r ++ extra) Hrinvb Hwfg Haccs Hctl Hpsb)
        as (s1 & Hadv & Hwl1 & Hcs1 & Hp1 & Hrlen1 & Hrem1 & Herr1 & Hoof1 & Hec1 & Hinv1 & Hrlim1);
        [rewrite Hop0; lia|exact HLpos|rewrite Hop0; exact HLlt|].
      rewrite <- Hskip in Hadv.
      rewrite (next_loop_step_err fuel c s RReadLimit s1 Herr Hadv).
      eexists. split; [reflexivity|]. rsimpl.
      change (wlog sb) with (wlog s) in Hwl1. auto 12.
  - (* a continuation frame of the abandoned message *)
    assert (Efin : rfin s = false) by (destruct (rfin s); [discriminate Hopen|reflexivity]).
    rewrite Efin in Hmt. cbn [tail_lim cont_lim] in Hmt. rewrite Hctl in Hmt.
    rewrite Hctl in Hseq.
    assert (Hop0 : (opcode g =? 0) = true) by lia.
    destruct (crosses L (rlen s + plen g)) eqn:Ecr; [discriminate Hmt|].
    apply crosses_false in Ecr.
    pose proof (encode_frame_ge_plen g) as Hgep.
    destruct (advance_data_within L k c sb g (encode_frames fs ++ extra) Hrinvb Hwfg Haccs Hctl Hpsb)
      as (s1 & Hadv & Hrinv1 & Hrem1 & Hfin1 & Hrlen1 & Hp1 & Hun1 & Hdec1 & Hwl1);
      [rewrite Hop0; change (rlen sb) with (rlen s); lia|rewrite Hop0; exact Ecr|].
    rewrite Hop0 in Hrlen1. change (rlen sb) with (rlen s) in Hrlen1.
    change (wlog sb) with (wlog s) in Hwl1.
    rewrite <- Hskip in Hadv.
    rewrite (next_loop_step_more fuel c s (opcode g) s1 Herr Hadv) by lia.
    assert (Hwpl : (length (wire_payload g) <= length (encode_frame g) - 2)%nat).
    { rewrite encode_frame_decomp. cbn [length]. rewrite !app_length. lia. }
    assert (Hmt1 : exists more1, tail_lim L (rlen s + plen g) (fin g) fs = (more1, pings0, Some fs1)).
    { destruct (fin g).
      - inversion Hmt; subst. exists []. reflexivity.
      - cbn [tail_lim]. destruct (cont_lim L (rlen s + plen g) fs) as [[d1 p1] a1]. inversion Hmt; subst.
        exists d1. reflexivity. }
    destruct Hmt1 as (more1 & Hmt1).
    rewrite <- Hwl1.
    apply (IH s1 (wire_payload g) fuel more1 pings0 fs1 p f r Hrinv1);
      [rewrite Hrem1; symmetry; apply wire_payload_blen|exact Hp1|exact Hwfs
      |rewrite Hfin1; exact Hseq|rewrite Hrlen1; lia|rewrite Hp1, app_length; lia
      |rewrite Hfin1, Hrlen1; exact Hmt1|exact Hfd].
Qed.

(* ---------- ReadMessage under a read limit, from any state of the previous message ---------- *)
Definition rm_post (s':rst) (after:option (list frame)) : Prop :=
  match after with
  | Some a => rinvL_end L k s' /\ rem s' = 0 /\ rfin s' = true /\
              pending (br s') = encode_frames a ++ extra
  | None => rerror s' = Some RReadLimit /\ closesent s' = true /\ outoffuel s' = false /\
            binv (br s') /\ rlimit s' = L
  end.

Theorem read_message_limit inflate fs s w more0 pings0 fs1 ty d p a :
  rinvL L k s -> rem s = blen w -> pending (br s) = w ++ encode_frames fs ++ extra ->
  Forall wf_frame fs -> seq_ok (server c) (negb (rfin s)) fs = true ->
  blen (encode_frames fs) < 2^63 ->
  tail_lim L 0 (rfin s) fs = (more0, pings0, Some fs1) ->
  first_lim L fs1 = Some (ty, d, p, a) ->
  exists s', read_message inflate c s = (RMsg ty d (lim_err a), s') /\
    wlog s' = wlog s ++ map WPong (pings0 ++ p) ++ lim_close a /\ rm_post s' a.
Proof.
  intros Hrinv Hrem Hp Hwf Hseq Hlen Hmt Hfl.
  unfold first_lim in Hfl.
  destruct (find_data fs1) as [[[p1 f] r]|] eqn:Efd; [|discriminate Hfl].
  set (s0 := s <| cur := None |> <| rlen := 0 |>).
  assert (Hrinv0 : rinvL L k s0) by (apply (rinvL_same L k s); [exact Hrinv|reflexivity ..]).
  destruct (next_loopL fs s0 w (fuel_of s0) more0 pings0 fs1 p1 f r Hrinv0 Hrem Hp Hwf Hseq)
    as [Hok Hbig]; [exact Hlen|unfold fuel_of; lia|exact Hmt|exact Efd|].
  change (wlog s0) with (wlog s) in Hok, Hbig.
  unfold read_message, next_reader. fold s0.
  destruct (crosses L (plen f)) eqn:Ecr.
  - (* the very first frame of the message is over the limit *)
    inversion Hfl; subst ty d p a. clear Hfl.
    apply crosses_true in Ecr. destruct Ecr as [HLpos HLlt].
    destruct (Hbig HLpos HLlt) as (s1 & Hnl & Herr1 & Hwl1 & Hcs1 & Hoof1 & Hec1 & Hinv1 & Hrlim1 & Hp1).
    rewrite Hnl. cbv iota zeta. rsimpl. rewrite Hec1. cbn [Nat.leb]. rewrite Herr1.
    eexists. split; [reflexivity|]. cbn [lim_close rm_post]. rsimpl.
    split; [rewrite Hwl1, app_assoc; reflexivity|]. auto.
  - apply crosses_false in Ecr.
    destruct (tail_lim L (plen f) (fin f) r) as [[more p2] a2] eqn:Emt.
    inversion Hfl; subst ty d p a2. clear Hfl.
    destruct (Hok Ecr) as
      (s1 & Hnl & Hrinv1 & Hrem1 & Hfin1 & Hrlen1 & Hp1 & Hun1 & Hdec1 & Hwl1 & Hwfr & Hseqr & Hlenr & Hop).
    rewrite Hnl. cbv iota. rewrite Hdec1. cbv iota.
    unfold fuel_of at 1. rewrite read_all_S. unfold reader_read.
    destruct (ra_mainL L k c extra Hch Hx r (length (wire_payload f)) (wire_payload f) eq_refl s1
                (S (length (pending (br s1)))) (fuel_of s1) 0 512 [] more p2 a)
      as (s' & Hres & Hwl' & Hend);
      [exact Hrinv1|rewrite Hrem1; symmetry; apply wire_payload_blen|exact Hp1|exact Hwfr
      |rewrite Hfin1; exact Hseqr|rewrite Hrlen1; exact Hlenr|lia|unfold fuel_of; lia|lia
      |rewrite Hfin1, Hrlen1; exact Emt|].
    rewrite Hres. cbn [app]. rewrite Hun1.
    exists s'. split; [reflexivity|].
    split.
    { rewrite Hwl', Hwl1, !map_app, <- !app_assoc. reflexivity. }
    destruct a as [a|]; cbn [ra_post rm_post] in *; [exact Hend|].
    destruct Hend as (E1 & E2 & E3 & E4 & E5 & E6). auto.
Qed.
End NextL.

(* ============================== part F ============================== *)
(* ---------- pure facts relating the limited and the unlimited view of a frame list ---------- *)
Lemma within_mono L x y : within L y -> x <= y -> within L x.
Proof. unfold within. intros [H|H] Hxy; [left; exact H|right; lia]. Qed.

Lemma cont_lim_within L : forall fs used d p a,
  cont_msg fs = (d, p, a) -> within L (used + blen d) -> cont_lim L used fs = (d, p, Some a).
Proof.
  induction fs as [|f r IH]; intros used d p a Hc Hw.
  - cbn [cont_msg] in Hc. inversion Hc. reflexivity.
  - cbn [cont_msg] in Hc. cbn [cont_lim]. destruct (is_control (opcode f)).
    + destruct (cont_msg r) as [[d1 p1] a1] eqn:E. inversion Hc; subst d p a1. clear Hc.
      rewrite (IH used d1 p1 a eq_refl Hw). reflexivity.
    + destruct (fin f).
      * inversion Hc; subst d p a. clear Hc.
        replace (crosses L (used + plen f)) with false
          by (symmetry; apply crosses_false; exact Hw). reflexivity.
      * destruct (cont_msg r) as [[d1 p1] a1] eqn:E. inversion Hc; subst d p1 a1. clear Hc.
        rewrite blen_app in Hw.
        replace (crosses L (used + plen f)) with false
          by (symmetry; apply crosses_false; apply (within_mono L _ _ Hw); unfold plen; lia).
        rewrite (IH (used + plen f) d1 p a eq_refl); [reflexivity|].
        unfold plen. replace (used + blen (payload f) + blen d1) with (used + (blen (payload f) + blen d1)) by lia.
        exact Hw.
Qed.

Lemma tail_lim_within L used fl fs d p a :
  msg_tail fl fs = (d, p, a) -> within L (used + blen d) -> tail_lim L used fl fs = (d, p, Some a).
Proof.
  unfold msg_tail, tail_lim. destruct fl; intros H Hw.
  - inversion H. reflexivity.
  - apply cont_lim_within; assumption.
Qed.

Lemma first_lim_within L fs ty d p a :
  first_msg fs = Some (ty, d, p, a) -> within L (blen d) -> first_lim L fs = Some (ty, d, p, Some a).
Proof.
  unfold first_msg, first_lim. intros H Hw.
  destruct (find_data fs) as [[[p1 f] r]|]; [|discriminate H].
  destruct (msg_tail (fin f) r) as [[more p2] a2] eqn:Emt. inversion H; subst ty d p a2. clear H.
  rewrite blen_app in Hw.
  replace (crosses L (plen f)) with false
    by (symmetry; apply crosses_false; apply (within_mono L _ _ Hw); unfold plen; lia).
  rewrite (tail_lim_within L (plen f) (fin f) r more p2 a Emt Hw). reflexivity.
Qed.

(* whatever happens, what is delivered stays within the limit *)
Lemma cont_lim_bound L : 0 < L -> forall fs used d p a,
  used <= L -> cont_lim L used fs = (d, p, a) -> used + blen d <= L.
Proof.
  intros HL. induction fs as [|f r IH]; intros used d p a Hu Hc.
  - cbn [cont_lim] in Hc. inversion Hc. change (blen []) with 0. lia.
  - cbn [cont_lim] in Hc. destruct (is_control (opcode f)).
    + destruct (cont_lim L used r) as [[d1 p1] a1] eqn:E. inversion Hc; subst d p a1.
      exact (IH used d1 p1 a Hu E).
    + destruct (crosses L (used + plen f)) eqn:Ecr.
      * inversion Hc. change (blen []) with 0. lia.
      * apply crosses_false in Ecr. destruct Ecr as [Ecr|Ecr]; [lia|].
        destruct (fin f).
        -- inversion Hc; subst d p a. exact Ecr.
        -- destruct (cont_lim L (used + plen f) r) as [[d1 p1] a1] eqn:E. inversion Hc; subst d p1 a1.
           pose proof (IH (used + plen f) d1 p a Ecr E) as Hb. rewrite blen_app. unfold plen in *. lia.
Qed.

Lemma first_lim_bound L fs ty d p a :
  0 < L -> first_lim L fs = Some (ty, d, p, a) -> blen d <= L.
Proof.
  intros HL H. unfold first_lim in H.
  destruct (find_data fs) as [[[p1 f] r]|]; [|discriminate H].
  destruct (crosses L (plen f)) eqn:Ecr.
  - inversion H. change (blen []) with 0. lia.
  - apply crosses_false in Ecr. destruct Ecr as [Ecr|Ecr]; [lia|].
    destruct (tail_lim L (plen f) (fin f) r) as [[more p2] a2] eqn:Emt. inversion H; subst ty d p a2.
    rewrite blen_app. fold (plen f). unfold tail_lim in Emt. destruct (fin f).
    + inversion Emt. change (blen []) with 0. lia.
    + exact (cont_lim_bound L HL r (plen f) more p2 a Ecr Emt).
Qed.

(* a message over the limit is cut at the frame that crosses it *)
Lemma cont_lim_over L : 0 < L -> forall fs used d p a,
  cont_msg fs = (d, p, a) -> used <= L -> L < used + blen d ->
  exists d' p' x y, cont_lim L used fs = (d', p', None) /\ d = d' ++ x /\ p = p' ++ y.
Proof.
  intros HL. induction fs as [|f r IH]; intros used d p a Hc Hu Hbig.
  - cbn [cont_msg] in Hc. inversion Hc; subst d. change (blen []) with 0 in Hbig. lia.
  - cbn [cont_msg] in Hc. cbn [cont_lim]. destruct (is_control (opcode f)).
    + destruct (cont_msg r) as [[d1 p1] a1] eqn:E. inversion Hc; subst d p a1. clear Hc.
      destruct (IH used d1 p1 a eq_refl Hu Hbig) as (d' & p' & x & y & H1 & H2 & H3).
      exists d', (ping1 f ++ p'), x, y. rewrite H1, H2, H3, app_assoc. auto.
    + destruct (crosses L (used + plen f)) eqn:Ecr.
      * exists [], [], d, p. auto.
      * apply crosses_false in Ecr. destruct Ecr as [Ecr|Ecr]; [lia|].
        destruct (fin f).
        -- inversion Hc; subst d p a. unfold plen in Ecr. lia.
        -- destruct (cont_msg r) as [[d1 p1] a1] eqn:E. inversion Hc; subst d p1 a1. clear Hc.
           rewrite blen_app in Hbig.
           destruct (IH (used + plen f) d1 p a eq_refl Ecr ltac:(unfold plen; lia))
             as (d' & p' & x & y & H1 & H2 & H3).
           exists (payload f ++ d'), p', x, y. rewrite H1, H2, H3, app_assoc. auto.
Qed.

Lemma first_lim_over L fs ty d p a :
  0 < L -> first_msg fs = Some (ty, d, p, a) -> L < blen d ->
  exists ty' d' p' x y, first_lim L fs = Some (ty', d', p', None) /\ d = d' ++ x /\ p = p' ++ y /\
    (ty' = ty \/ (ty' = 0 /\ d' = [])).
Proof.
  intros HL H Hbig. unfold first_msg in H. unfold first_lim.
  destruct (find_data fs) as [[[p1 f] r]|]; [|discriminate H].
  destruct (msg_tail (fin f) r) as [[more p2] a2] eqn:Emt. inversion H; subst ty d p a2. clear H.
  destruct (crosses L (plen f)) eqn:Ecr.
  - exists 0, [], p1, (payload f ++ more), p2. auto 10.
  - apply crosses_false in Ecr. destruct Ecr as [Ecr|Ecr]; [lia|].
    rewrite blen_app in Hbig. unfold msg_tail in Emt. unfold tail_lim. destruct (fin f).
    + inversion Emt; subst more. change (blen []) with 0 in Hbig. unfold plen in Ecr. lia.
    + destruct (cont_lim_over L HL r (plen f) more p2 a Emt Ecr Hbig) as (d' & p' & x & y & H1 & H2 & H3).
      rewrite H1. exists (opcode f), (payload f ++ d'), (p1 ++ p'), x, y.
      rewrite H2, H3, !app_assoc. auto 10.
Qed.

(* ============================================================================================ *)
(* 1. One data frame under a read limit                                                         *)
(* ============================================================================================ *)
Lemma data_opcode srv open f : frame_acc srv open f = true -> is_control (opcode f) = false ->
  opcode f = 0 \/ opcode f = 1 \/ opcode f = 2.
Proof.
  intros Hacc Hctl. destruct (acc_cases _ _ _ Hacc) as [(Hc & _)|(_ & [(Ho & _)|(Ho & _)])];
    [congruence|lia|lia].
Qed.

Lemma rl_form f (x:N) : opcode f = 0 \/ opcode f = 1 \/ opcode f = 2 ->
  (if is_data_op (opcode f) then 0 else x) = (if opcode f =? 0 then x else 0).
Proof.
  unfold is_data_op. intros [H|[H|H]]; rewrite H; reflexivity.
Qed.

Theorem data_frame_step_limit L k c s f rest :
  rinvL L k s -> wf_frame f -> frame_acc (server c) (negb (rfin s)) f = true ->
  is_control (opcode f) = false -> rem s = 0 ->
  pending (br s) = encode_frame f ++ rest ->
  let rl := (if is_data_op (opcode f) then 0 else rlen s) + plen f in
  (* within the limit (or no limit): the frame is accepted *)
  (rl < 2^63 -> L = 0 \/ rl <= L ->
   exists s', advance_frame c s = (AFrame (opcode f), s') /\
     rinvL L k s' /\ rem s' = plen f /\ rfin s' = fin f /\ rlen s' = rl /\
     pending (br s') = wire_payload f ++ rest /\
     unmask c s' (wire_payload f) = payload f /\ rdecomp s' = false /\ wlog s' = wlog s) /\
  (* over the limit: ErrReadLimit, close 1009, and only the header has been consumed *)
  (rl < 2^63 -> 0 < L -> L < rl ->
   exists s', advance_frame c s = (AErr RReadLimit, s') /\
     wlog s' = wlog s ++ [WCloseTooBig] /\ closesent s' = true /\
     pending (br s') = wire_payload f ++ rest /\ rlen s' = rl /\ rem s' = plen f) /\
  (* the running sum leaves the int64 range: the same -- ErrReadLimit, close 1009, header consumed *)
  (2^63 <= rl ->
   exists s', advance_frame c s = (AErr RReadLimit, s') /\
     wlog s' = wlog s ++ [WCloseTooBig] /\ closesent s' = true /\
     pending (br s') = wire_payload f ++ rest /\ rem s' = plen f).
Proof.
  intros Hrinv Hwf Hacc Hctl Hrem Hp rl.
  pose proof (data_opcode _ _ _ Hacc Hctl) as Hop.
  subst rl. rewrite (rl_form f (rlen s) Hop). rewrite (advance_frame_rem0 c s Hrem).
  split; [|split].
  - intros Hlt Hw. exact (advance_data_within L k c s f rest Hrinv Hwf Hacc Hctl Hp Hlt Hw).
  - intros Hlt HL Hbig.
    destruct (advance_data_toobig L k c s f rest Hrinv Hwf Hacc Hctl Hp Hlt HL Hbig)
      as (s' & H1 & H2 & H3 & H4 & H5 & H6 & _).
    exists s'. auto 10.
  - intros Hov.
    destruct (advance_data_overflow L k c s f rest Hrinv Hwf Hacc Hctl Hp Hov)
      as (s' & H1 & H2 & H3 & H4 & H5 & _).
    exists s'. auto 10.
Qed.

(* a 64-bit length field with the top bit set, on the raw bytes: refused as soon as the eight
   length bytes are read -- not even the mask key is consumed; the 1009 close frame is written
   (unless a close frame went out before) *)
Theorem top_bit_length_refused c s b0 b1 len rest :
  binv (br s) -> (8 <= bsize (br s))%nat -> rem s = 0 ->
  pending (br s) = b0 :: b1 :: be_enc 8 len ++ rest ->
  N.land b1 127 = 127 -> 2^63 <= len -> len < 2^64 ->
  hdr_reject c (rfin s) b0 b1 = false ->
  exists s', advance_frame c s = (AErr RReadLimit, s') /\
    wlog s' = (if closesent s then wlog s else wlog s ++ [WCloseTooBig]) /\
    closesent s' = true /\ hlog s' = hlog s /\
    pending (br s') = rest /\ binv (br s').
Proof.
  intros Hinv Hbs Hrem Hp H127 Hlo Hhi Hrej. rewrite (advance_frame_rem0 c s Hrem).
  exact (top_bit_after_skip c s b0 b1 len rest Hinv Hbs Hp H127 Hlo Hhi Hrej).
Qed.

Section Theorems.
Variables (inflate : bytes -> option bytes) (L:N) (k:errk) (c:rcfg) (extra:bytes).
Hypothesis Hch : custom_handlers c = false.
Hypothesis Hx : extra <> [] \/ k = EEOF.

(* ============================================================================================ *)
(* 2. Completeness: a message within the limit is read in full                                  *)
(* ============================================================================================ *)
Theorem within_limit_message_read fs s ty d p a :
  rinvL L k s -> rem s = 0 -> rfin s = true ->
  pending (br s) = encode_frames fs ++ extra ->
  Forall wf_frame fs -> seq_ok (server c) false fs = true -> blen (encode_frames fs) < 2^63 ->
  first_msg fs = Some (ty, d, p, a) -> L = 0 \/ blen d <= L ->
  exists s', read_message inflate c s = (RMsg ty d None, s') /\
    rinvL_end L k s' /\ rem s' = 0 /\ rfin s' = true /\
    pending (br s') = encode_frames a ++ extra /\ wlog s' = wlog s ++ map WPong p.
Proof.
  intros Hrinv Hrem Hfin Hp Hwf Hseq Hlen Hfm Hw.
  destruct (read_message_limit L k c extra Hch Hx inflate fs s [] [] [] fs ty d p (Some a) Hrinv)
    as (s' & Hrm & Hwl & (E1 & E2 & E3 & E4));
    [exact Hrem|exact Hp|exact Hwf|rewrite Hfin; exact Hseq|exact Hlen
    |rewrite Hfin; reflexivity|apply first_lim_within; assumption|].
  exists s'. cbn [lim_err lim_close app] in *. rewrite app_nil_r in Hwl. auto 10.
Qed.

(* ============================================================================================ *)
(* 3. History independence                                                                      *)
(* ============================================================================================ *)
(* NextReader / ReadMessage never look at the byte count or the reader left by earlier calls *)
Lemma next_reader_forgets s x y :
  next_reader c (s <| rlen := x |> <| cur := y |>) = next_reader c s.
Proof. destruct s. reflexivity. Qed.

Theorem read_message_forgets s x y :
  read_message inflate c (s <| rlen := x |> <| cur := y |>) = read_message inflate c s.
Proof. unfold read_message. rewrite next_reader_forgets. reflexivity. Qed.

Corollary read_message_rlen_independent s x :
  read_message inflate c (s <| rlen := x |>) = read_message inflate c s.
Proof.
  transitivity (read_message inflate c (s <| rlen := x |> <| cur := cur s |>)); [|apply read_message_forgets].
  destruct s; reflexivity.
Qed.

(* two states that differ only in the byte count and the current reader behave identically *)
Definition same_but_count (s1 s2:rst) : Prop :=
  s1 <| rlen := 0 |> <| cur := None |> = s2 <| rlen := 0 |> <| cur := None |>.

Theorem history_independence s1 s2 :
  same_but_count s1 s2 ->
  next_reader c s1 = next_reader c s2 /\ read_message inflate c s1 = read_message inflate c s2.
Proof.
  unfold same_but_count. intros H.
  rewrite <- (next_reader_forgets s1 0 None), <- (next_reader_forgets s2 0 None).
  rewrite <- (read_message_forgets s1 0 None), <- (read_message_forgets s2 0 None).
  rewrite H. auto.
Qed.
End Theorems.

(* the repaired defect, at the level of advanceFrame: when a text / binary frame starts, the byte
   count accumulated before (e.g. by the continuation frames of an abandoned message that
   NextReader has just skipped) is forgotten *)
Lemma rd_rlen n s x :
  rd n (s <| rlen := x |>) = let '(p, e, s1) := rd n s in (p, e, s1 <| rlen := x |>).
Proof. unfold rd. rsimpl. destruct (br_peek_discard n (br s)) as [[p e] b]. destruct s. reflexivity. Qed.

Transparent aas2.
Theorem data_start_forgets_count c s x p0 p1 rest :
  pending (br s) = p0 :: p1 :: rest -> binv (br s) -> (2 <= bsize (br s))%nat ->
  N.land p0 15 = 1 \/ N.land p0 15 = 2 ->
  advance_after_skip c (s <| rlen := x |>) = advance_after_skip c s.
Proof.
  intros Hp Hinv Hbs Hop. rewrite !aas_unfold, rd_rlen.
  change (p0 :: p1 :: rest) with ([p0; p1] ++ rest) in Hp.
  destruct (rd_app 2 s _ _ Hinv Hbs Hp eq_refl) as (b1 & Hrd & _).
  rewrite Hrd. cbv iota. cbn [nth]. unfold aas2. cbv zeta.
  unfold c_TextMessage, c_BinaryMessage.
  replace ((N.land p0 15 =? 1) || (N.land p0 15 =? 2)) with true by lia. cbv iota.
  f_equal; destruct s; reflexivity.
Qed.
Opaque aas2.

(* the same at the level of advanceFrame, i.e. including the skip of the unread rest [w] of the
   previous frame *)
Theorem data_start_forgets_count_frame c s x w p0 p1 rest :
  rem s = blen w -> pending (br s) = w ++ p0 :: p1 :: rest -> binv (br s) ->
  (2 <= bsize (br s))%nat -> N.land p0 15 = 1 \/ N.land p0 15 = 2 ->
  advance_frame c (s <| rlen := x |>) = advance_frame c s.
Proof.
  intros Hrem Hp Hinv Hbs Hop. unfold advance_frame.
  change (rem (s <| rlen := x |>)) with (rem s). change (br (s <| rlen := x |>)) with (br s).
  destruct (N.ltb_spec 0 (rem s)) as [Hpos|Hz].
  - destruct (copyn_enough (S (length (pending (br s)))) (rem s) (br s) Hinv)
      as (b' & Hc & Hp' & Hinv' & Hbs' & _); [rewrite Hrem, Hp, blen_app; lia|lia|].
    rewrite Hc. cbv iota beta.
    change (s <| rlen := x |> <| br := b' |>) with (s <| br := b' |> <| rlen := x |>).
    apply (data_start_forgets_count c (s <| br := b' |>) x p0 p1 rest); rsimpl;
      [|exact Hinv'|lia|exact Hop].
    rewrite Hp', Hp, Hrem. unfold dropN, blen. rewrite Nat2N.id. apply skipn_app_exact. reflexivity.
  - assert (w = []) by (apply blen_nil_inv; lia). subst w.
    exact (data_start_forgets_count c s x p0 p1 rest Hp Hinv Hbs Hop).
Qed.

(* ============================== part G ============================== *)
Section Theorems2.
Variables (inflate : bytes -> option bytes) (L:N) (k:errk) (c:rcfg) (extra:bytes).
Hypothesis Hch : custom_handlers c = false.
Hypothesis Hx : extra <> [] \/ k = EEOF.

(* ============================================================================================ *)
(* 3 (continued). The previous message was abandoned at an arbitrary point:                     *)
(*   [w]  = the unread rest of the frame being read ([rem s] bytes),                            *)
(*   [fs] = the frames that follow; [msg_tail] splits them into the rest of the abandoned       *)
(*          message (payload [more0], pings [pings0]) and what comes after it ([fs1]).          *)
(* Nothing is assumed about [rlen s] or [cur s]: whatever the application did before.           *)
(* ============================================================================================ *)
Theorem abandoned_then_next_message_read fs s w more0 pings0 fs1 ty d p a :
  rinvL L k s -> rem s = blen w -> pending (br s) = w ++ encode_frames fs ++ extra ->
  Forall wf_frame fs -> seq_ok (server c) (negb (rfin s)) fs = true ->
  blen (encode_frames fs) < 2^63 ->
  msg_tail (rfin s) fs = (more0, pings0, fs1) -> L = 0 \/ blen more0 <= L ->
  first_msg fs1 = Some (ty, d, p, a) -> L = 0 \/ blen d <= L ->
  exists s', read_message inflate c s = (RMsg ty d None, s') /\
    rinvL_end L k s' /\ rem s' = 0 /\ rfin s' = true /\
    pending (br s') = encode_frames a ++ extra /\ wlog s' = wlog s ++ map WPong (pings0 ++ p).
Proof.
  intros Hrinv Hrem Hp Hwf Hseq Hlen Hmt Hw0 Hfm Hw.
  destruct (read_message_limit L k c extra Hch Hx inflate fs s w more0 pings0 fs1 ty d p (Some a) Hrinv)
    as (s' & Hrm & Hwl & (E1 & E2 & E3 & E4));
    [exact Hrem|exact Hp|exact Hwf|exact Hseq|exact Hlen
    |apply tail_lim_within; [exact Hmt|exact Hw0]|apply first_lim_within; assumption|].
  exists s'. cbn [lim_err lim_close app] in *. rewrite app_nil_r in Hwl. auto 10.
Qed.

(* ============================================================================================ *)
(* 4. Soundness: a message over the limit is never read in full                                 *)
(* ============================================================================================ *)
Theorem over_limit_never_complete_general fs s w more0 pings0 fs1 ty d p a :
  0 < L ->
  rinvL L k s -> rem s = blen w -> pending (br s) = w ++ encode_frames fs ++ extra ->
  Forall wf_frame fs -> seq_ok (server c) (negb (rfin s)) fs = true ->
  blen (encode_frames fs) < 2^63 ->
  msg_tail (rfin s) fs = (more0, pings0, fs1) -> blen more0 <= L ->
  first_msg fs1 = Some (ty, d, p, a) -> L < blen d ->
  exists ty' d' p' x y s',
    read_message inflate c s = (RMsg ty' d' (Some RReadLimit), s') /\
    blen d' <= L /\ d = d' ++ x /\ p = p' ++ y /\ (ty' = ty \/ (ty' = 0 /\ d' = [])) /\
    wlog s' = wlog s ++ map WPong (pings0 ++ p') ++ [WCloseTooBig] /\
    rerror s' = Some RReadLimit /\ closesent s' = true /\ outoffuel s' = false /\
    (forall ops, exists rs s'', run_ops inflate c s' ops = (rs, s'') /\
                                frozen s' s'' /\ Forall is_failure rs).
Proof.
  intros HL Hrinv Hrem Hp Hwf Hseq Hlen Hmt Hw0 Hfm Hbig.
  destruct (first_lim_over L fs1 ty d p a HL Hfm Hbig) as (ty' & d' & p' & x & y & Hfl & Hd & Hpp & Hty).
  destruct (read_message_limit L k c extra Hch Hx inflate fs s w more0 pings0 fs1 ty' d' p' None Hrinv)
    as (s' & Hrm & Hwl & (E1 & E2 & E3 & E4 & E5));
    [exact Hrem|exact Hp|exact Hwf|exact Hseq|exact Hlen
    |apply tail_lim_within; [exact Hmt|right; exact Hw0]|exact Hfl|].
  exists ty', d', p', x, y, s'. cbn [lim_err lim_close] in *.
  split; [exact Hrm|]. split; [exact (first_lim_bound L fs1 ty' d' p' None HL Hfl)|].
  split; [exact Hd|]. split; [exact Hpp|]. split; [exact Hty|]. split; [exact Hwl|].
  split; [exact E1|]. split; [exact E2|]. split; [exact E3|].
  intros ops. exact (errors_are_permanent inflate c ops s' RReadLimit E1).
Qed.

Corollary over_limit_never_complete fs s ty d p a :
  0 < L ->
  rinvL L k s -> rem s = 0 -> rfin s = true -> pending (br s) = encode_frames fs ++ extra ->
  Forall wf_frame fs -> seq_ok (server c) false fs = true -> blen (encode_frames fs) < 2^63 ->
  first_msg fs = Some (ty, d, p, a) -> L < blen d ->
  exists ty' d' p' x y s',
    read_message inflate c s = (RMsg ty' d' (Some RReadLimit), s') /\
    blen d' <= L /\ d = d' ++ x /\ p = p' ++ y /\ (ty' = ty \/ (ty' = 0 /\ d' = [])) /\
    wlog s' = wlog s ++ map WPong p' ++ [WCloseTooBig] /\
    rerror s' = Some RReadLimit /\ closesent s' = true /\ outoffuel s' = false /\
    (forall ops, exists rs s'', run_ops inflate c s' ops = (rs, s'') /\
                                frozen s' s'' /\ Forall is_failure rs).
Proof.
  intros HL Hrinv Hrem Hfin Hp Hwf Hseq Hlen Hfm Hbig.
  apply (over_limit_never_complete_general fs s [] [] [] fs ty d p a HL Hrinv);
    [exact Hrem|exact Hp|exact Hwf|rewrite Hfin; exact Hseq|exact Hlen|rewrite Hfin; reflexivity
    |change (blen []) with 0; lia|exact Hfm|exact Hbig].
Qed.

(* whatever the message, with a limit L > 0 one ReadMessage never hands out more than L bytes *)
Theorem delivered_at_most_limit fs s w more0 pings0 fs1 ty d p a :
  0 < L ->
  rinvL L k s -> rem s = blen w -> pending (br s) = w ++ encode_frames fs ++ extra ->
  Forall wf_frame fs -> seq_ok (server c) (negb (rfin s)) fs = true ->
  blen (encode_frames fs) < 2^63 ->
  tail_lim L 0 (rfin s) fs = (more0, pings0, Some fs1) ->
  first_lim L fs1 = Some (ty, d, p, a) ->
  exists s', read_message inflate c s = (RMsg ty d (lim_err a), s') /\ blen d <= L.
Proof.
  intros HL Hrinv Hrem Hp Hwf Hseq Hlen Hmt Hfl.
  destruct (read_message_limit L k c extra Hch Hx inflate fs s w more0 pings0 fs1 ty d p a Hrinv
              Hrem Hp Hwf Hseq Hlen Hmt Hfl) as (s' & Hrm & _).
  exists s'. split; [exact Hrm|exact (first_lim_bound L fs1 ty d p a HL Hfl)].
Qed.
End Theorems2.

(* ============================== part H ============================== *)
(* ============================================================================================ *)
(* 5. Memory: the sizes the read path asks of the bufio layer                                   *)
(*    Instrumented copies of the model's functions: same code, plus a log [lg] of the size      *)
(*    argument of every call to rd (Peek+Discard) and br_read.  Erasing the log gives back the  *)
(*    model; every logged size is bounded independently of any declared frame length.           *)
(* ============================================================================================ *)
Transparent aas2 aas3 aas4 aas5.

Definition aas5I (c:rcfg) (op len:N) (s:rst) (lg:list nat) : adv * rst * list nat :=
  let isdata := (op =? c_TextMessage) || (op =? c_BinaryMessage) in
  let iscont := op =? c_continuationFrame in
  if iscont || isdata then
    let rl := rlen s + len in
    let s := s <| rlen := rl |> in
    if 2^63 <=? rl then (AErr RReadLimit, send WCloseTooBig s, lg)
    else if (0 <? rlimit s) && (rlimit s <? rl) then (AErr RReadLimit, send WCloseTooBig s, lg)
    else (AFrame op, s, lg)
  else
  let '(pl, e, s, lg) :=
     if 0 <? len then let '(pl, e, s) := rd (N.to_nat len) s in (pl, e, s, lg ++ [N.to_nat len])
     else ([], None, s, lg) in
  let s := s <| rem := 0 |> in
  match e with Some e => (AErr e, s, lg) | None =>
  let pl := if server c then maskl (rkey s) 0 pl else pl in
  if op =? c_PongMessage then
    if custom_handlers c then
      let s := s <| hlog := hlog s ++ [HPong (opidx s) pl] |> in
      let '(r, s) := handler_result c s in
      match r with Some e => (AErr e, s, lg) | None => (AFrame op, s, lg) end
    else (AFrame op, s, lg)
  else if op =? c_PingMessage then
    if custom_handlers c then
      let s := s <| hlog := hlog s ++ [HPing (opidx s) pl] |> in
      let '(r, s) := handler_result c s in
      match r with Some e => (AErr e, s, lg) | None => (AFrame op, s, lg) end
    else (AFrame op, send (WPong pl) s, lg)
  else
    let has_body := 2 <=? blen pl in
    let code := if has_body then be_dec (firstn 2 pl) else c_CloseNoStatusReceived in
    let text := if has_body then skipn 2 pl else [] in
    if has_body && negb (is_valid_received_close_code code) then (protocol_error s, lg)
    else if has_body && negb (WS.Spec.Utf8.utf8_valid text) then (protocol_error s, lg)
    else if custom_handlers c then
      let s := s <| hlog := hlog s ++ [HClose (opidx s) code text] |> in
      let '(r, s) := handler_result c s in
      match r with Some e => (AErr e, s, lg) | None => (AErr (RClose code text), s, lg) end
    else (AErr (RClose code text), send (WCloseEcho (format_close code)) s, lg)
  end.

Definition aas4I (c:rcfg) (op:N) (mask:bool) (len:N) (s:rst) (lg:list nat) : adv * rst * list nat :=
  let s := s <| rem := len |> in
  let '(kr, s, lg) :=
     if mask then
       let s := s <| mpos := 0 |> in
       let '(p, e, s) := rd 4 s in
       match e with Some e => (Some e, s, lg ++ [4%nat])
                  | None => (None, s <| rkey := p |>, lg ++ [4%nat]) end
     else (None, s, lg) in
  match kr with Some e => (AErr e, s, lg) | None => aas5I c op len s lg end.

Definition aas3I (c:rcfg) (op:N) (mask:bool) (len7:N) (s:rst) (lg:list nat) : adv * rst * list nat :=
  let '(lenr, s, lg) :=
     if len7 =? 126 then
       let '(p, e, s) := rd 2 s in
       (match e with Some e => inr e | None => inl (be_dec p) end, s, lg ++ [2%nat])
     else if len7 =? 127 then
       let '(p, e, s) := rd 8 s in
       match e with
       | Some e => (inr e, s, lg ++ [8%nat])
       | None => if 2^63 <=? be_dec p then (inr RReadLimit, send WCloseTooBig s, lg ++ [8%nat])
                 else (inl (be_dec p), s, lg ++ [8%nat])
       end
     else (inl len7, s, lg) in
  match lenr with inr e => (AErr e, s, lg) | inl len => aas4I c op mask len s lg end.

Definition aas2I (c:rcfg) (b0 b1:N) (s:rst) (lg:list nat) : adv * rst * list nat :=
  let op := N.land b0 15 in
  let final := bit b0 c_finalBit in
  let rsv1 := bit b0 c_rsv1Bit in
  let mask := bit b1 c_maskBit in
  let len7 := N.land b1 127 in
  let s := s <| rem := len7 |> <| rdecomp := rsv1 && negotiated c |> in
  let isdata := (op =? c_TextMessage) || (op =? c_BinaryMessage) in
  let iscont := op =? c_continuationFrame in
  let reject := hdr_reject c (rfin s) b0 b1 in
  let s := if isdata then s <| rfin := final |> <| rlen := 0 |>
           else if iscont then s <| rfin := final |> else s in
  if reject then (protocol_error s, lg) else aas3I c op mask len7 s lg.

Definition advance_after_skipI (c:rcfg) (s:rst) (lg:list nat) : adv * rst * list nat :=
  match rd 2 s with
  | (p, Some e, s1) => (AErr e, s1, lg ++ [2%nat])
  | (p, None, s1) => aas2I c (nth 0 p 0) (nth 1 p 0) s1 (lg ++ [2%nat])
  end.

Fixpoint copyn_discardI (fuel:nat) (n:N) (b:bufio) (lg:list nat)
  : option errk * bufio * bool * list nat :=
  match fuel with
  | O => (None, b, true, lg)
  | S f =>
    if n =? 0 then (None, b, false, lg) else
    let m := N.to_nat (N.min n discard_buf) in
    let '(d, e, b') := br_read m b in
    let lg := lg ++ [m] in
    let n' := n - blen d in
    match e with
    | Some k => if n' =? 0 then (None, b', false, lg) else (Some k, b', false, lg)
    | None => copyn_discardI f n' b' lg
    end
  end.

Definition advance_frameI (c:rcfg) (s:rst) (lg:list nat) : adv * rst * list nat :=
  if 0 <? rem s then
    let '(e, b, oof, lg) := copyn_discardI (S (length (pending (br s)))) (rem s) (br s) lg in
    let s := s <| br := b |> in
    let s := if oof then s <| outoffuel := true |> else s in
    match e with
    | Some k => (AErr (of_errk k), s, lg)
    | None => advance_after_skipI c s lg
    end
  else advance_after_skipI c s lg.

Fixpoint next_loopI (fuel:nat) (c:rcfg) (s:rst) (lg:list nat) : option N * rst * list nat :=
  match rerror s with
  | Some _ => (None, s, lg)
  | None =>
    match fuel with
    | O => (None, s <| outoffuel := true |>, lg)
    | S f =>
      let '(a, s, lg) := advance_frameI c s lg in
      match a with
      | AErr e => (None, s <| rerror := Some e |>, lg)
      | AFrame op =>
        if (op =? c_TextMessage) || (op =? c_BinaryMessage)
        then (Some op, s <| cur := Some (nextid s) |> <| nextid := S (nextid s) |>, lg)
        else next_loopI f c s lg
      end
    end
  end.

Fixpoint read_loopI (fuel:nat) (c:rcfg) (m:nat) (s:rst) (lg:list nat)
  : bytes * option rerr * rst * list nat :=
  match rerror s with
  | Some e =>
      ([], Some (if is_io_eof e && match cur s with Some _ => true | None => false end
                    && ((0 <? rem s) || negb (rfin s)) then unexpected_eof else e), s, lg)
  | None =>
    match fuel with
    | O => ([], None, s <| outoffuel := true |>, lg)
    | S f =>
      if 0 <? rem s then
        let sz := N.to_nat (N.min (N.of_nat m) (rem s)) in
        let '(d, e, b) := br_read sz (br s) in
        let lg := lg ++ [sz] in
        let s := s <| br := b |> in
        let d' := if server c then maskl (rkey s) (mpos s) d else d in
        let s := if server c then s <| mpos := (mpos s + blen d) mod 4 |> else s in
        let s := s <| rem := rem s - blen d |> in
        let e' := match e with
                  | None => None
                  | Some k => Some (if ((0 <? rem s) || negb (rfin s)) && errk_eqb k EEOF
                                    then unexpected_eof else of_errk k)
                  end in
        (d', e', s <| rerror := e' |>, lg)
      else if rfin s then ([], Some RIoEOF, s <| cur := None |>, lg)
      else
        let '(a, s, lg) := advance_frameI c s lg in
        match a with
        | AErr e => read_loopI f c m (s <| rerror := Some e |>) lg
        | AFrame op =>
          if (op =? c_TextMessage) || (op =? c_BinaryMessage)
          then read_loopI f c m (s <| rerror := Some RInternal |>) lg
          else read_loopI f c m s lg
        end
    end
  end.

(* ---------- erasure: dropping the log gives the model back ---------- *)
Ltac crush :=
  repeat (first [ reflexivity
                | match goal with
                  | |- context [match ?x with _ => _ end] =>
                      lazymatch x with
                      | context [match _ with _ => _ end] => fail
                      | _ => destruct x
                      end
                  end ]).

Lemma aas5I_erase c op len s lg : fst (aas5I c op len s lg) = aas5 c op len s.
Proof. unfold aas5I, aas5. cbv zeta. crush. Qed.

Lemma aas4I_erase c op mask len s lg : fst (aas4I c op mask len s lg) = aas4 c op mask len s.
Proof.
  unfold aas4I, aas4. cbv zeta. destruct mask.
  - destruct (rd 4 _) as [[p [e|]] s1]; [reflexivity|apply aas5I_erase].
  - apply aas5I_erase.
Qed.

Lemma aas3I_erase c op mask len7 s lg : fst (aas3I c op mask len7 s lg) = aas3 c op mask len7 s.
Proof.
  unfold aas3I, aas3. destruct (len7 =? 126); [|destruct (len7 =? 127)].
  - destruct (rd 2 s) as [[p [e|]] s1]; [reflexivity|apply aas4I_erase].
  - destruct (rd 8 s) as [[p [e|]] s1]; [reflexivity|].
    destruct (2^63 <=? be_dec p); [reflexivity|apply aas4I_erase].
  - apply aas4I_erase.
Qed.

Lemma aas2I_erase c b0 b1 s lg : fst (aas2I c b0 b1 s lg) = aas2 c b0 b1 s.
Proof.
  unfold aas2I, aas2. cbv zeta. destruct (hdr_reject _ _ _ _); [reflexivity|apply aas3I_erase].
Qed.

Lemma advance_after_skipI_erase c s lg : fst (advance_after_skipI c s lg) = advance_after_skip c s.
Proof.
  rewrite aas_unfold. unfold advance_after_skipI.
  destruct (rd 2 s) as [[p [e|]] s1]; [reflexivity|apply aas2I_erase].
Qed.

Lemma copyn_discardI_erase : forall fuel n b lg,
  fst (copyn_discardI fuel n b lg) = copyn_discard fuel n b.
Proof.
  induction fuel as [|f IH]; intros n b lg; [reflexivity|].
  cbn [copyn_discardI copyn_discard]. destruct (n =? 0); [reflexivity|]. cbv zeta.
  destruct (br_read _ b) as [[d [e|]] b']; [destruct (_ =? 0); reflexivity|apply IH].
Qed.

Lemma advance_frameI_erase c s lg : fst (advance_frameI c s lg) = advance_frame c s.
Proof.
  unfold advance_frameI, advance_frame. destruct (0 <? rem s); [|apply advance_after_skipI_erase].
  pose proof (copyn_discardI_erase (S (length (pending (br s)))) (rem s) (br s) lg) as H.
  destruct (copyn_discardI _ _ _ lg) as [[[e b] oof] lg1]. cbn [fst] in H. rewrite <- H.
  destruct e; [reflexivity|apply advance_after_skipI_erase].
Qed.

Lemma next_loopI_erase c : forall fuel s lg, fst (next_loopI fuel c s lg) = next_loop fuel c s.
Proof.
  induction fuel as [|f IH]; intros s lg; cbn [next_loopI next_loop];
    (destruct (rerror s); [reflexivity|]); [reflexivity|].
  pose proof (advance_frameI_erase c s lg) as H.
  destruct (advance_frameI c s lg) as [[a s1] lg1]. cbn [fst] in H. rewrite <- H.
  destruct a as [e|op]; [reflexivity|].
  destruct ((op =? c_TextMessage) || (op =? c_BinaryMessage)); [reflexivity|apply IH].
Qed.

Lemma read_loopI_erase c m : forall fuel s lg, fst (read_loopI fuel c m s lg) = read_loop fuel c m s.
Proof.
  induction fuel as [|f IH]; intros s lg; cbn [read_loopI read_loop];
    (destruct (rerror s); [reflexivity|]); [reflexivity|].
  destruct (0 <? rem s).
  - cbv zeta. destruct (br_read _ (br s)) as [[d e] b]. reflexivity.
  - destruct (rfin s); [reflexivity|].
    pose proof (advance_frameI_erase c s lg) as H.
    destruct (advance_frameI c s lg) as [[a s1] lg1]. cbn [fst] in H. rewrite <- H.
    destruct a as [e|op]; [apply IH|].
    destruct ((op =? c_TextMessage) || (op =? c_BinaryMessage)); apply IH.
Qed.

(* ---------- the bounds ---------- *)
Definition all_le (B:nat) (lg:list nat) : Prop := Forall (fun n => (n <= B)%nat) lg.

Lemma all_le_snoc B lg n : all_le B lg -> (n <= B)%nat -> all_le B (lg ++ [n]).
Proof. intros H Hn. apply Forall_app. split; [exact H|]. constructor; [exact Hn|constructor]. Qed.

Lemma all_le_mono B B' lg : (B <= B')%nat -> all_le B lg -> all_le B' lg.
Proof. intros HB H. eapply Forall_impl; [|exact H]. cbv beta. intros n Hn. lia. Qed.

Definition dataop (op:N) : bool := (op =? 0) || ((op =? 1) || (op =? 2)).

(* step 6 reads a control payload: its length is at most 125 *)
Lemma aas5I_bound B c op len s lg : (125 <= B)%nat ->
  dataop op = true \/ len <= 125 -> all_le B lg -> all_le B (snd (aas5I c op len s lg)).
Proof.
  intros HB Hd Hlg. unfold aas5I. cbv zeta.
  unfold c_TextMessage, c_BinaryMessage, c_continuationFrame. fold (dataop op).
  destruct (dataop op) eqn:Ed.
  - crush; exact Hlg.
  - destruct Hd as [Hd|Hd]; [discriminate Hd|].
    assert (Hlg' : all_le B (lg ++ [N.to_nat len])) by (apply all_le_snoc; [exact Hlg|lia]).
    destruct (0 <? len); [destruct (rd _ s) as [[pl e] s1]|]; crush; assumption.
Qed.

Lemma aas4I_bound B c op mask len s lg : (125 <= B)%nat ->
  dataop op = true \/ len <= 125 -> all_le B lg -> all_le B (snd (aas4I c op mask len s lg)).
Proof.
  intros HB Hd Hlg. unfold aas4I. cbv zeta.
  assert (Hlg' : all_le B (lg ++ [4%nat])) by (apply all_le_snoc; [exact Hlg|lia]).
  destruct mask.
  - destruct (rd 4 _) as [[p [e|]] s1]; [exact Hlg'|apply aas5I_bound; assumption].
  - apply aas5I_bound; assumption.
Qed.

Lemma aas3I_bound B c op mask len7 s lg : (125 <= B)%nat ->
  dataop op = true \/ len7 <= 125 -> all_le B lg -> all_le B (snd (aas3I c op mask len7 s lg)).
Proof.
  intros HB Hd Hlg. unfold aas3I.
  assert (Hlg2 : all_le B (lg ++ [2%nat])) by (apply all_le_snoc; [exact Hlg|lia]).
  assert (Hlg8 : all_le B (lg ++ [8%nat])) by (apply all_le_snoc; [exact Hlg|lia]).
  destruct (N.eqb_spec len7 126) as [E6|E6]; [|destruct (N.eqb_spec len7 127) as [E7|E7]].
  - destruct (rd 2 s) as [[p [e|]] s1]; [exact Hlg2|].
    apply aas4I_bound; [exact HB| |exact Hlg2]. destruct Hd as [Hd|Hd]; [left; exact Hd|lia].
  - destruct (rd 8 s) as [[p [e|]] s1]; [exact Hlg8|].
    destruct (2^63 <=? be_dec p); [exact Hlg8|].
    apply aas4I_bound; [exact HB| |exact Hlg8]. destruct Hd as [Hd|Hd]; [left; exact Hd|lia].
  - apply aas4I_bound; assumption.
Qed.

(* a header that passed step 2 belongs to a data frame, or declares at most 125 bytes *)
Lemma hdr_accept_len c fs b0 b1 : hdr_reject c fs b0 b1 = false ->
  dataop (N.land b0 15) = true \/ N.land b1 127 <= 125.
Proof.
  unfold hdr_reject. cbv zeta. intros H.
  apply orb_false_iff in H. destruct H as [H _].
  apply orb_false_iff in H. destruct H as [_ H].
  unfold c_CloseMessage, c_PingMessage, c_PongMessage, c_TextMessage, c_BinaryMessage,
    c_continuationFrame, c_maxControlFramePayloadSize in H.
  unfold dataop.
  destruct ((N.land b0 15 =? 8) || (N.land b0 15 =? 9) || (N.land b0 15 =? 10)).
  - apply orb_false_iff in H. destruct H as [H _]. right. lia.
  - destruct ((N.land b0 15 =? 1) || (N.land b0 15 =? 2)); [left; apply orb_true_r|].
    destruct (N.land b0 15 =? 0); [left; reflexivity|discriminate H].
Qed.

Lemma aas2I_bound B c b0 b1 s lg : (125 <= B)%nat ->
  all_le B lg -> all_le B (snd (aas2I c b0 b1 s lg)).
Proof.
  intros HB Hlg. unfold aas2I. cbv zeta.
  destruct (hdr_reject _ _ _ _) eqn:Er; [exact Hlg|].
  apply aas3I_bound; [exact HB|exact (hdr_accept_len _ _ _ _ Er)|exact Hlg].
Qed.

(* advanceFrame steps 2-7: Peek sizes are 2, 2 or 8, 4 and a control payload (<= 125) *)
Lemma advance_after_skipI_bound B c s lg : (125 <= B)%nat ->
  all_le B lg -> all_le B (snd (advance_after_skipI c s lg)).
Proof.
  intros HB Hlg. unfold advance_after_skipI.
  assert (Hlg2 : all_le B (lg ++ [2%nat])) by (apply all_le_snoc; [exact Hlg|lia]).
  destruct (rd 2 s) as [[p [e|]] s1]; [exact Hlg2|apply aas2I_bound; assumption].
Qed.

(* io.CopyN(io.Discard, ..): every Read is for at most 8192 bytes, whatever is left to skip *)
Lemma copyn_discardI_bound B : (N.to_nat 8192 <= B)%nat -> forall fuel n b lg,
  all_le B lg -> all_le B (snd (copyn_discardI fuel n b lg)).
Proof.
  intros HB. induction fuel as [|f IH]; intros n b lg Hlg; [exact Hlg|].
  cbn [copyn_discardI]. destruct (n =? 0); [exact Hlg|]. cbv zeta.
  assert (Hlg' : all_le B (lg ++ [N.to_nat (N.min n discard_buf)]))
    by (apply all_le_snoc; [exact Hlg|unfold discard_buf; lia]).
  destruct (br_read _ b) as [[d [e|]] b']; [destruct (_ =? 0); exact Hlg'|apply IH; exact Hlg'].
Qed.

Lemma advance_frameI_bound B c s lg : (N.to_nat 8192 <= B)%nat ->
  all_le B lg -> all_le B (snd (advance_frameI c s lg)).
Proof.
  intros HB Hlg. unfold advance_frameI.
  destruct (0 <? rem s); [|apply advance_after_skipI_bound; [lia|exact Hlg]].
  pose proof (copyn_discardI_bound B HB (S (length (pending (br s)))) (rem s) (br s) lg Hlg) as H.
  destruct (copyn_discardI _ _ _ lg) as [[[e b] oof] lg1]. cbn [snd] in H.
  destruct e; [exact H|apply advance_after_skipI_bound; [lia|exact H]].
Qed.

(* NextReader: nothing above 8192 is ever requested *)
Theorem next_reader_request_sizes_bounded c : forall fuel s lg,
  all_le (N.to_nat 8192) lg ->
  fst (next_loopI fuel c s lg) = next_loop fuel c s /\
  all_le (N.to_nat 8192) (snd (next_loopI fuel c s lg)).
Proof.
  intros fuel s lg Hlg. split; [apply next_loopI_erase|]. revert s lg Hlg.
  induction fuel as [|f IH]; intros s lg Hlg; cbn [next_loopI];
    (destruct (rerror s); [exact Hlg|]); [exact Hlg|].
  pose proof (advance_frameI_bound (N.to_nat 8192) c s lg (le_n _) Hlg) as H.
  destruct (advance_frameI c s lg) as [[a s1] lg1]. cbn [snd] in H.
  destruct a as [e|op]; [exact H|].
  destruct ((op =? c_TextMessage) || (op =? c_BinaryMessage)); [exact H|apply IH; exact H].
Qed.

(* Read(p) with len(p) = m: nothing above max(m, 8192) is ever requested; in particular the
   request for payload bytes is min(m, bytes left in the frame) <= m *)
Theorem request_sizes_bounded c m : forall fuel s lg,
  let B := Nat.max (Nat.max 125 m) (N.to_nat 8192) in
  all_le B lg ->
  fst (read_loopI fuel c m s lg) = read_loop fuel c m s /\
  all_le B (snd (read_loopI fuel c m s lg)).
Proof.
  intros fuel s lg B Hlg. split; [apply read_loopI_erase|]. revert s lg Hlg.
  assert (HB : (N.to_nat 8192 <= B)%nat) by (subst B; lia).
  assert (Hm : (m <= B)%nat) by (subst B; lia).
  induction fuel as [|f IH]; intros s lg Hlg; cbn [read_loopI];
    (destruct (rerror s); [exact Hlg|]); [exact Hlg|].
  destruct (0 <? rem s).
  - cbv zeta. destruct (br_read _ (br s)) as [[d e] b]. cbn [snd].
    apply all_le_snoc; [exact Hlg|lia].
  - destruct (rfin s); [exact Hlg|].
    pose proof (advance_frameI_bound B c s lg HB Hlg) as H.
    destruct (advance_frameI c s lg) as [[a s1] lg1]. cbn [snd] in H.
    destruct a as [e|op]; [apply IH; exact H|].
    destruct ((op =? c_TextMessage) || (op =? c_BinaryMessage)); apply IH; exact H.
Qed.
Opaque aas2 aas3 aas4 aas5.

(* ============================== part I ============================== *)
(* ============================================================================================ *)
(* Sanity checks by computation (non-vacuity): the scenario of the repaired defect              *)
(* ============================================================================================ *)
Module Sanity.
Definition k1 := [1;2;3;4]. Definition k2 := [9;8;7;6].
Definition cfg : rcfg :=
  {| server := true; negotiated := false; custom_handlers := false; handler_fail := []; caps := [3;7] |}.
(* a 10-byte text message in fragments 6 + 4 (abandoned after 2 bytes), a 7-byte binary message
   in fragments 3 + 4, an 11-byte text message in fragments 6 + 4 + 1; pings in between *)
Definition fs_rest : list frame :=
 [ mkf true 9 0 (Some k2) [104];
   mkf true 0 0 (Some k2) [7;8;9;10];
   mkf true 10 0 (Some k2) [];
   mkf false 2 0 (Some k1) [11;12;13];
   mkf true 9 0 (Some k2) [105];
   mkf true 0 0 (Some k1) [14;15;16;17];
   mkf false 1 0 (Some k1) [1;2;3;4;5;6];
   mkf true 9 0 (Some k2) [106];
   mkf false 0 0 (Some k2) [7;8;9;10];
   mkf true 9 0 (Some k2) [107];
   mkf true 0 0 (Some k2) [11] ].
Definition fs_all : list frame := mkf false 1 0 (Some k1) [1;2;3;4;5;6] :: fs_rest.
Definition stream : bytes := encode_frames fs_all ++ [99].
Definition b0 : bufio :=
  mk_bufio 125 [] {| chunks := [firstn 5 stream; firstn 30 (skipn 5 stream); skipn 35 stream];
                     fault := EOther; glued := false |}.
Definition run (ops:list rop) := run_ops (fun _ => None) cfg (init_rst b0) ops.

(* limit 10; the first message is started, 2 of its bytes are read, then it is abandoned *)
Definition s_ab : rst := snd (run [OSetLimit 10; ONext; ORead 2]).

Example run_all :
  let r := run [OSetLimit 10; ONext; ORead 2; OReadMessage; OReadMessage; OReadMessage] in
  fst r = [RUnit; RNext 1 None; RData [1;2] None;
           RMsg 2 [11;12;13;14;15;16;17] None;
           RMsg 1 [1;2;3;4;5;6;7;8;9;10] (Some RReadLimit);
           RMsg 0 [] (Some RReadLimit)] /\
  wlog (snd r) = [WPong [104]; WPong [105]; WPong [106]; WPong [107]; WCloseTooBig] /\
  pending (br (snd r)) = [2; 99].
Proof. vm_compute. repeat split; reflexivity. Qed.

(* the hypotheses of [abandoned_then_next_message_read] hold in the abandoned state *)
Example abandoned_hyps :
  let w := skipn 2 (wire_payload (mkf false 1 0 (Some k1) [1;2;3;4;5;6])) in
  rinvL 10 EOther s_ab /\ rem s_ab = blen w /\
  pending (br s_ab) = w ++ encode_frames fs_rest ++ [99] /\
  Forall wf_frame fs_rest /\ seq_ok (server cfg) (negb (rfin s_ab)) fs_rest = true /\
  blen (encode_frames fs_rest) < 2^63 /\
  rlen s_ab = 6 /\ cur s_ab = Some 0%nat /\
  exists more0 pings0 fs1 ty d p a,
    msg_tail (rfin s_ab) fs_rest = (more0, pings0, fs1) /\ blen more0 <= 10 /\
    first_msg fs1 = Some (ty, d, p, a) /\ blen d <= 10 /\
    ty = 2 /\ d = [11;12;13;14;15;16;17] /\ pings0 = [[104]] /\ p = [[105]] /\
    exists ty2 d2 p2 a2, first_msg a = Some (ty2, d2, p2, a2) /\ 10 < blen d2.
Proof.
  cbv zeta.
  split.
  { unfold rinvL. split.
    - unfold binv. vm_compute. split; [lia|]. split; [lia|]. split.
      + repeat constructor; discriminate.
      + intros k H. discriminate H.
    - vm_compute. repeat split; try reflexivity. }
  split; [vm_compute; reflexivity|]. split; [vm_compute; reflexivity|].
  split; [repeat (apply Forall_cons; [vm_compute; repeat split; reflexivity|]); apply Forall_nil|].
  split; [vm_compute; reflexivity|]. split; [vm_compute; reflexivity|].
  split; [vm_compute; reflexivity|]. split; [vm_compute; reflexivity|].
  do 7 eexists. split; [vm_compute; reflexivity|]. split; [vm_compute; discriminate|].
  split; [vm_compute; reflexivity|]. split; [vm_compute; discriminate|].
  split; [reflexivity|]. split; [reflexivity|]. split; [reflexivity|]. split; [reflexivity|].
  do 4 eexists. split; [vm_compute; reflexivity|]. vm_compute. reflexivity.
Qed.
(* a 64-bit length with the top bit set: refused after 10 bytes, the 1009 close is written *)
Example top_bit :
  let s := init_rst (mk_bufio 125 [] {| chunks := [[130; 255] ++ be_enc 8 (2^63 + 5) ++ [1;2;3;4;5]];
                                        fault := EEOF; glued := false |}) <| rlimit := 10 |> in
  hdr_reject cfg (rfin s) 130 255 = false /\
  fst (advance_frame cfg s) = AErr RReadLimit /\
  pending (br (snd (advance_frame cfg s))) = [1;2;3;4;5] /\ wlog (snd (advance_frame cfg s)) = [WCloseTooBig].
Proof. vm_compute. repeat split; reflexivity. Qed.
End Sanity.

Print Assumptions data_frame_step_limit.
Print Assumptions top_bit_length_refused.
Print Assumptions read_message_limit.
Print Assumptions within_limit_message_read.
Print Assumptions history_independence.
Print Assumptions read_message_forgets.
Print Assumptions data_start_forgets_count.
Print Assumptions data_start_forgets_count_frame.
Print Assumptions abandoned_then_next_message_read.
Print Assumptions over_limit_never_complete_general.
Print Assumptions over_limit_never_complete.
Print Assumptions delivered_at_most_limit.
Print Assumptions next_reader_request_sizes_bounded.
Print Assumptions request_sizes_bounded.
Print Assumptions Sanity.run_all.
Print Assumptions Sanity.abandoned_hyps.
Print Assumptions Sanity.top_bit.
