(* C01 on the models WITH negotiated compression: what the write path of one endpoint puts on the
   wire, the read path of the opposite endpoint delivers -- provided the compressor oracle of the
   writer model behaved, on this run, like a correct deflater: every stream it emitted for a
   compressed message ends with the sync marker (flate_good, as compress/flate does) and inflates
   (with the 4 bytes put back and the final empty block appended, RFC 7692 7.2.2) to the plaintext
   of that message.  That hypothesis is what the correspondence check validates on every run with
   the Spec decoder on the real wire; [Spec/Inflate.deflate0] (stored blocks) satisfies it
   (InflateP.inflate_deflate0), see the Example at the end.

   - [frame_ok_accZ], [wf_wire_seq_okZ], [wf_wire_conformantZ]: a frame sequence well-formed for
     a WRITER (Spec.Frame.wf_wire with the negotiated flag), without close frame, ending at a
     message boundary, is conformant (ReaderFlateP.conformant_framesZ) for a READER of the
     opposite role that negotiated compression whenever the writer did;
   - [writer_reader_round_trip_compressed]: writer model then reader model on the wire events;
   - [round_trip_end_to_end_compressed]: the reader returns exactly the data messages of the
     abstract writer (types and PLAINTEXT payloads, in order), no error, and answers exactly
     the pings. *)
Require Import WS.Base.Bytes WS.gen.Consts WS.Spec.Frame WS.Spec.Conformance WS.Spec.WriterSpec WS.Proofs.FrameP.
Require Import WS.Model.Writer WS.Cases.WriterCase.
Require Import WS.Proofs.WWBase WS.Proofs.WWInv WS.Proofs.WWFlate WS.Proofs.WriterWireP.
Require Import WS.Model.Bufio WS.Model.Reader WS.Proofs.BufioP.
Require Import WS.Proofs.ReaderP1 WS.Proofs.ReaderP WS.Proofs.ReaderZ1 WS.Proofs.ReaderZ3 WS.Proofs.ReaderFlateP.
Require Import WS.Proofs.WriterEventsP WS.Proofs.RoundTripP WS.Proofs.WriterEventsZ.
Require WS.Spec.Inflate WS.Proofs.InflateP.
Ltac Zify.zify_post_hook ::= Z.div_mod_to_equations.

(* ------------------------------------------------------------------------------------------ *)
(* writer well-formedness => reader conformance, with RSV1                                    *)
(* ------------------------------------------------------------------------------------------ *)
Lemma frame_ok_accZ client ng ng' open f : (ng = true -> ng' = true) ->
  frame_ok client ng open f true = true -> opcode f <> 8 -> frame_accZ client ng' open f = true.
Proof.
  intros HN H H8. unfold frame_ok in H. cbn [andb] in H.
  apply andb_true_iff in H. destruct H as [Hm Hc].
  unfold frame_accZ, violates, violates_hdr.
  replace (opcode f =? 8) with false by lia. cbn [andb orb negb]. rewrite orb_false_r, andb_true_r.
  apply negb_true_iff.
  assert (HX : xorb (match mkey f with Some _ => true | None => false end) client = false).
  { destruct client, (mkey f); cbn in Hm |- *; congruence. }
  rewrite HX, orb_false_r.
  unfold is_control, is_data_op in *.
  assert (HR : forall r, ((r =? 0) || (ng && (r =? 4))) = true -> ((r =? 0) || (ng' && (r =? 4))) = true).
  { intros r X. destruct (r =? 0); [reflexivity|]. cbn [orb] in *. destruct ng; [|discriminate X].
    rewrite (HN eq_refl). exact X. }
  destruct (8 <=? opcode f) eqn:E1; [|destruct ((opcode f =? 1) || (opcode f =? 2)) eqn:E2].
  - (* control *)
    apply andb_true_iff in Hc. destruct Hc as [Hc Hr]. apply andb_true_iff in Hc. destruct Hc as [Hc Hl].
    apply andb_true_iff in Hc. destruct Hc as [Hop Hf]. rewrite Hf.
    replace (rsv f =? 0) with true by lia. cbn [orb negb andb].
    replace (3 <=? opcode f) with true by lia. replace (opcode f <=? 7) with false by lia.
    replace (11 <=? opcode f) with false by lia. replace (125 <? plen f) with false by lia.
    replace (opcode f =? 0) with false by lia. replace ((opcode f =? 1) || (opcode f =? 2)) with false by lia.
    reflexivity.
  - (* first frame of a data message *)
    apply andb_true_iff in Hc. destruct Hc as [Ho Hr]. rewrite (HR _ Hr). cbn [negb orb andb].
    destruct open; [discriminate Ho|].
    replace (opcode f <=? 7) with true by lia. replace (3 <=? opcode f) with false by lia.
    replace (11 <=? opcode f) with false by lia. replace (opcode f =? 0) with false by lia.
    cbn [andb orb negb]. reflexivity.
  - (* continuation *)
    apply andb_true_iff in Hc. destruct Hc as [Hc Hr]. apply andb_true_iff in Hc. destruct Hc as [Hop Ho].
    replace (rsv f =? 0) with true by lia. rewrite Ho. cbn [orb negb andb].
    replace (3 <=? opcode f) with false by lia. replace (11 <=? opcode f) with false by lia.
    replace (opcode f =? 0) with true by lia. cbn [andb orb negb]. reflexivity.
Qed.

Lemma wf_wire_seq_okZ client ng ng' : (ng = true -> ng' = true) -> forall fs open,
  wf_wire_from client ng open (tag fs) = true -> Forall (fun f => opcode f <> 8) fs ->
  open_after open (tag fs) = false -> seq_okZ client ng' open fs = true.
Proof.
  intros HN. induction fs as [|f r IH]; intros open H F O; cbn [tag map wf_wire_from open_after seq_okZ] in *.
  - rewrite O. reflexivity.
  - apply andb_true_iff in H. destruct H as [H1 H2]. inversion F as [|? ? F1 F2]; subst.
    rewrite (frame_ok_accZ client ng ng' open f HN H1 F1). cbn [andb]. apply IH; assumption.
Qed.

Lemma wf_wire_conformantZ cr client ng fs :
  server cr = client -> (ng = true -> negotiated cr = true) -> Forall wf_frame fs ->
  wf_wire client ng (map (fun f => (f, true)) fs) = true ->
  Forall (fun f => opcode f <> 8) fs ->
  open_after false (map (fun f => (f, true)) fs) = false ->
  blen (encode_frames fs) < 2^63 ->
  conformant_framesZ cr fs.
Proof.
  intros HR HN Hwf HW HC HO HL. split; [exact Hwf|]. split; [|exact HL].
  rewrite HR. apply (wf_wire_seq_okZ client ng (negotiated cr) HN); assumption.
Qed.

(* ------------------------------------------------------------------------------------------ *)
(* the abstract writer (any negotiated flag): no close message while it is not dead           *)
(* ------------------------------------------------------------------------------------------ *)
Lemma astep_dead_monoG ng a o r : a_dead a = true -> a_dead (astep ng a o r) = true.
Proof.
  destruct a as [ao ac out dd]. cbn [a_dead]. intros ->. unfold astep.
  destruct ((r =? 6) || (r =? 7)), o, (r =? 0), ao as [[[t cf] d0]|];
    cbn [andb a_open a_comp a_out a_dead]; auto;
    repeat match goal with |- context [if ?b then _ else _] => destruct b end;
    cbn [andb a_open a_comp a_out a_dead]; auto.
Qed.

Lemma astep_no_closeG ng a o r : a_dead (astep ng a o r) = false ->
  Forall not_close (a_out a) -> Forall not_close (a_out (astep ng a o r)).
Proof.
  destruct a as [ao ac out dd]. unfold astep, not_close.
  cbn [a_open a_comp a_out a_dead]. intros HD HF.
  destruct ((r =? 6) || (r =? 7)); destruct o; destruct (r =? 0); destruct ao as [[[t cf] d0]|]; destruct dd;
    cbn [andb a_open a_comp a_out a_dead] in *; try discriminate; try assumption;
    repeat match goal with
           | H : context [if ?b then _ else _] |- _ => let E := fresh "E" in destruct b eqn:E
           | |- context [if ?b then _ else _] => let E := fresh "E" in destruct b eqn:E
           end;
    cbn [andb a_open a_comp a_out a_dead] in *; try discriminate; try assumption;
    repeat (apply Forall_snoc); try assumption; cbn [s_ty]; lia.
Qed.

Lemma arun_dead_monoG ng l : forall a, a_dead a = true -> a_dead (arun ng a l) = true.
Proof.
  induction l as [|[o r] l IH]; intros a E; cbn [arun]; [exact E|].
  apply IH. apply astep_dead_monoG. exact E.
Qed.

Lemma arun_no_closeG ng l : forall a, a_dead (arun ng a l) = false ->
  Forall not_close (a_out a) -> Forall not_close (a_out (arun ng a l)).
Proof.
  induction l as [|[o r] l IH]; intros a HD HF; cbn [arun] in *; [exact HF|].
  apply IH; [exact HD|].
  apply astep_no_closeG; [|exact HF].
  destruct (a_dead (astep ng a o r)) eqn:E; [|reflexivity].
  exfalso. rewrite (arun_dead_monoG ng l _ E) in HD. discriminate HD.
Qed.

(* ------------------------------------------------------------------------------------------ *)
(* what the reader returns for the wire image of the annotated output                         *)
(* ------------------------------------------------------------------------------------------ *)
(* "compress/flate deflated correctly on this run": every stream recorded for a message sent
   compressed, cut as the truncWriter cuts it and completed as the reader completes it, inflates
   to the plaintext of that message *)
Definition inflates_to (inflate:bytes -> option bytes) (xs:sent * bytes) : Prop :=
  s_comp (fst xs) = true -> inflate (cut4 (snd xs) ++ ws_tail) = Some (s_data (fst xs)).

Lemma zwire_ty xs : s_ty (zwire xs) = s_ty (fst xs).
Proof. unfold zwire. destruct (s_comp (fst xs)); reflexivity. Qed.

Lemma reader_outputs inflate (l:list (sent * bytes)) : Forall (inflates_to inflate) l ->
  map (out_ofZ inflate) (flat_map sent_data (map zwire l)) = map plain_out (flat_map sent_data (map fst l)).
Proof.
  induction 1 as [|[x str] l Hx _ IH]; [reflexivity|].
  cbn [map flat_map fst]. rewrite !map_app, IH. f_equal.
  unfold sent_data. rewrite zwire_ty. cbn [fst]. destruct (s_ty x <? 8); [|reflexivity].
  unfold inflates_to in Hx. cbn [fst snd] in Hx. unfold zwire. cbn [fst snd].
  destruct (s_comp x) eqn:EC.
  - cbn [map mk_sent s_ty s_comp s_data out_ofZ plain_out]. rewrite (Hx eq_refl). reflexivity.
  - cbn [map out_ofZ plain_out]. rewrite EC. reflexivity.
Qed.

(* ------------------------------------------------------------------------------------------ *)
(* end to end: abstract writer -> write path (compressing) -> wire -> read path (inflating)   *)
(* ------------------------------------------------------------------------------------------ *)
Theorem round_trip_end_to_end_compressed :
  forall inflate c ks ops cr b extra,
    14 < w_bufsize c -> w_bufsize c < 2^62 ->
    Forall (fun k => length k = 4%nat) ks -> Forall op_small ops -> no_prepared ops ->
    (w_negotiated c = false \/
     (flate_good c (init_wst c ks None) ops /\ rf_good c (init_wst c ks None) ops)) ->
    let r := wrun c (init_wst c ks None) ops in
    let res := map e_werr_N (fst r) in
    let A := arun (w_negotiated c) ast0 (combine (map wop_aop ops) res) in
    let Z := zrun (w_negotiated c) zst0 (combine ops res) in
    a_dead A = false ->              (* no close message was sent (and no transport error seen) *)
    a_open A = None ->               (* no message left open by the application *)
    Forall (inflates_to inflate) (z_out Z) ->   (* the compressor deflated correctly on this run *)
    server cr = negb (w_server c) -> (w_negotiated c = true -> negotiated cr = true) ->
    custom_handlers cr = false ->
    binv b -> (125 <= bsize b)%nat ->
    blen (wire_of (evs (snd r))) < 2^63 ->
    pending b = wire_of (evs (snd r)) ++ extra -> extra <> [] ->
    let dm := flat_map sent_data (a_out A) in
    exists s_r fs,
      run_ops inflate cr (init_rst b) (repeat OReadMessage (length dm)) = (map plain_out dm, s_r) /\
      rerror s_r = None /\ outoffuel s_r = false /\
      Forall wf_frame fs /\ wire_of (evs (snd r)) = encode_frames fs /\
      wf_wire (negb (w_server c)) (w_negotiated c) (map (fun f => (f, true)) fs) = true /\
      map sent_of_event (events_of fs) = map zwire (z_out Z) /\
      wlog s_r = map WPong (pings_of (body fs)).
Proof.
  intros inflate c ks ops cr b extra HB1 HB2 HK HS HP HG r res A Z HD HO HI HR HNg HCh Hb Hbs HL Hpend Hex dm.
  destruct (wire_wellformed_and_events_compressed c ks ops HB1 HB2 HK HS HP HG) as (fs & A0 & B0 & C0 & EA & EV & ST & BD).
  fold r res A Z in A0, EA, EV, ST, BD.
  assert (EO : map fst (z_out Z) = a_out A) by (rewrite <- EA; reflexivity).
  assert (NC : Forall (fun f => opcode f <> 8) fs).
  { apply no_close_event_no_close_frame. rewrite EV.
    pose proof (arun_no_closeG (w_negotiated c) (combine (map wop_aop ops) res) ast0 HD (Forall_nil _)) as X.
    fold A in X. rewrite <- EO in X. rewrite Forall_map in X |- *.
    eapply Forall_impl; [|exact X]. intros xs Hx. unfold not_close in Hx. rewrite zwire_ty. exact Hx. }
  assert (OA : open_after false (map (fun f => (f, true)) fs) = false).
  { pose proof (open_after_events fs None) as X. rewrite (BD HD HO) in X. symmetry. exact X. }
  assert (HL' : blen (encode_frames fs) < 2^63) by (rewrite <- A0; exact HL).
  assert (Hconf : conformant_framesZ cr fs)
    by (apply (wf_wire_conformantZ cr (negb (w_server c)) (w_negotiated c) fs); assumption).
  rewrite A0 in Hpend.
  destruct (read_messages_conformantZ inflate cr b fs extra HCh Hb Hbs Hconf Hpend Hex)
    as (s_r & R1 & R2 & R3 & _ & _ & _ & R7 & _).
  assert (DM : data_msgs (events_of fs) = flat_map sent_data (map zwire (z_out Z))).
  { rewrite <- EV. apply data_msgs_sent. apply events_ok. exact I. }
  assert (OUT : map (out_ofZ inflate) (data_msgs (events_of fs)) = map plain_out dm).
  { rewrite DM, (reader_outputs inflate (z_out Z) HI), EO. reflexivity. }
  assert (LEN : length (data_msgs (events_of fs)) = length dm).
  { rewrite <- (map_length (out_ofZ inflate)), OUT, map_length. reflexivity. }
  rewrite LEN, OUT in R1.
  exists s_r, fs. auto 12.
Qed.

(* non-vacuity: the client program of WriterEventsZ.events_instance_compressed (a compressed text
   message written through NextWriter in fragments with a ping in between, an uncompressed binary
   message, a compressed WriteMessage; compressor = the stored-block deflater of Spec/Inflate.v),
   a server-role reader that negotiated compression, inflating with the Spec decoder, fed the
   writer's wire in 5-byte chunks followed by one more byte: it returns the three PLAINTEXTS and
   answers the ping.  The "correct deflater" hypothesis is discharged by
   InflateP.inflate_deflate0. *)
Example round_trip_instance_compressed :
  let c := zex_cfg false 17 in
  let ks := repeat [1;2;3;4] 20 in
  let w := wire_of (evs (snd (wrun c (init_wst c ks None) zex_ops))) in
  let b := mk_bufio 200 [] {| chunks := chop 5 100 (w ++ [0]); fault := ETimeout; glued := true |} in
  let cr := {| server := true; negotiated := true; custom_handlers := false; handler_fail := []; caps := [] |} in
  exists s_r,
    run_ops Inflate.inflate cr (init_rst b) (repeat OReadMessage 3) =
      ([RMsg 1 zex_hello None; RMsg 2 [7;7;7;7] None; RMsg 1 [104;105] None], s_r) /\
    rerror s_r = None /\ outoffuel s_r = false /\ wlog s_r = [WPong [9]].
Proof.
  cbv zeta.
  set (c := zex_cfg false 17). set (ks := repeat [1;2;3;4] 20).
  set (w := wire_of (evs (snd (wrun c (init_wst c ks None) zex_ops)))).
  set (b := mk_bufio 200 [] {| chunks := chop 5 100 (w ++ [0]); fault := ETimeout; glued := true |}).
  set (cr := {| server := true; negotiated := true; custom_handlers := false; handler_fail := []; caps := [] |}).
  assert (ZO : z_out (zrun (w_negotiated c) zst0 (combine zex_ops (map e_werr_N (fst (wrun c (init_wst c ks None) zex_ops))))) =
          [(the_sent 9 [9], []); (mk_sent 1 true zex_hello, Inflate.deflate0 zex_hello);
           (mk_sent 2 false [7;7;7;7], []); (mk_sent 1 true [104;105], Inflate.deflate0 [104;105])])
    by (vm_compute; reflexivity).
  destruct (round_trip_end_to_end_compressed Inflate.inflate c ks zex_ops cr b [0])
    as (s_r & fs & R1 & R2 & R3 & Rwf & R4 & _ & _ & R5).
  - vm_compute. reflexivity.
  - vm_compute. reflexivity.
  - repeat constructor.
  - repeat constructor; unfold small; vm_compute; reflexivity.
  - repeat constructor.
  - right. exact zex_good.
  - vm_compute. reflexivity.
  - vm_compute. reflexivity.
  - rewrite ZO. unfold inflates_to.
    repeat constructor; cbn [fst snd mk_sent the_sent s_comp s_data]; intros X; try discriminate X;
      change ws_tail with Inflate.ws_tail; change (@cut4) with (@Inflate.trunc4);
      apply InflateP.inflate_deflate0; repeat constructor; unfold is_byte; lia.
  - reflexivity.
  - reflexivity.
  - reflexivity.
  - apply binv_mk; [lia|cbn; lia|]. unfold wf_script. cbn [chunks]. vm_compute.
    repeat (constructor; [discriminate|]). constructor.
  - cbn. lia.
  - vm_compute. reflexivity.
  - unfold b. rewrite pending_mk. vm_compute. reflexivity.
  - discriminate.
  - exists s_r.
    assert (DM : flat_map sent_data (a_out (arun (w_negotiated c) ast0 (combine (map wop_aop zex_ops)
              (map e_werr_N (fst (wrun c (init_wst c ks None) zex_ops)))))) =
              [(1, true, zex_hello); (2, false, [7;7;7;7]); (1, true, [104;105])])
      by (vm_compute; reflexivity).
    rewrite DM in R1. cbn [length map plain_out fst snd] in R1.
    split; [exact R1|]. split; [exact R2|]. split; [exact R3|]. rewrite R5.
    fold w in R4.
    assert (E : fs = map fst (fst (parse_frames w))).
    { rewrite R4, (parse_frames_encode fs Rwf). cbn [fst]. rewrite map_map. cbn [fst]. symmetry. apply map_id. }
    rewrite E. vm_compute. reflexivity.
Qed.

Print Assumptions wf_wire_conformantZ.
Print Assumptions round_trip_end_to_end_compressed.
Print Assumptions round_trip_instance_compressed.
