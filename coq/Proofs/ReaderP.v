(* Correctness of the read path on conformant, uncompressed peer streams (default handlers, no
   read limit): n ReadMessage calls return exactly the n data messages of the stream, answer
   every ping with a pong, never run out of fuel, and stop exactly after the last data frame.

   Definitions chosen (see ReaderP1.v):
   - [frame_acc srv open f]  :=  negb (violates srv false open f) && negb (opcode f =? 8)
       the Spec's [violates] for a reader WITHOUT negotiated compression (so RSV must be 0),
       close frames excluded;
   - [seq_ok srv open fs]    threads [open] with Spec.Frame.next_open and requires the list to
       end at a message boundary;
   - [body fs] / [trailer fs]: [trailer fs] is the longest suffix of control frames of [fs];
       these frames follow the last data message and are NOT consumed by the n reads;
   - [pings_of fs]: payloads of the opcode-9 frames of [fs], in order.                         *)
Require Import WS.Base.Bytes WS.gen.Consts WS.Spec.Frame WS.Spec.Conformance WS.Model.Bufio
  WS.Model.Reader WS.Proofs.BufioP WS.Proofs.FrameP.
From RecordUpdate Require Import RecordSet.
Import RecordSetNotations.
Require Import WS.Proofs.ReaderP1 WS.Proofs.ReaderP2 WS.Proofs.ReaderP3.
Ltac Zify.zify_post_hook ::= Z.div_mod_to_equations.

Definition conformant_frames (c:rcfg) (fs:list frame) : Prop :=
  Forall wf_frame fs /\ seq_ok (server c) false fs = true /\ blen (encode_frames fs) < 2^63.

Definition out_of (m : N * bool * bytes) : rout := RMsg (fst (fst m)) (snd m) None.

Lemma conformant_suffix c pre a :
  conformant_frames c (pre ++ a) -> seq_ok (server c) false a = true -> conformant_frames c a.
Proof.
  intros (Hwf & _ & Hlen) Hs. split; [exact (Forall_app_r _ _ _ Hwf)|]. split; [exact Hs|].
  pose proof (encode_frames_suffix_blen pre a). lia.
Qed.

Lemma conformant_body c fs : conformant_frames c fs -> conformant_frames c (body fs).
Proof.
  intros (Hwf & Hs & Hlen). rewrite <- (body_trailer fs) in Hwf, Hlen.
  split; [apply Forall_app in Hwf; apply Hwf|]. split; [apply seq_ok_body; exact Hs|].
  rewrite encode_frames_app, blen_app in Hlen. lia.
Qed.

Section Run.
Variables (inflate : bytes -> option bytes) (k:errk) (c:rcfg) (extra:bytes).
Hypothesis Hch : custom_handlers c = false.
Hypothesis Hx : extra <> [] \/ k = EEOF.

Lemma run_msgs : forall n fs, (length fs <= n)%nat -> forall s,
  rinv k s -> rem s = 0 -> rfin s = true ->
  pending (br s) = encode_frames fs ++ extra -> conformant_frames c fs ->
  exists s', run_ops inflate c s (repeat OReadMessage (length (msgs fs))) = (map out_of (msgs fs), s') /\
    rinv_end k s' /\ rem s' = 0 /\ rfin s' = true /\
    pending (br s') = encode_frames (trailer fs) ++ extra /\
    wlog s' = wlog s ++ map WPong (pings_of (body fs)).
Proof.
  induction n as [|n IH]; intros fs Hn s Hrinv Hrem Hfin Hp Hconf.
  - destruct fs; [|cbn [length] in Hn; lia].
    exists s. cbn. rewrite app_nil_r. split; [reflexivity|].
    split; [apply rinv_rinv_end; exact Hrinv|]. auto.
  - pose proof Hconf as (Hwf & Hseq & Hlen).
    destruct (first_msg fs) as [[[[ty d] p] a]|] eqn:Efm.
    + destruct (first_msg_some (server c) fs ty d p a Hseq Efm)
        as (Htr & Hpg & Hms & Hseqa & (pre & Hfs & Hpre)).
      destruct (read_message_one k c extra Hch Hx inflate fs s ty d p a Hrinv Hrem Hfin Hp Hwf Hseq Hlen Efm)
        as (s1 & Hrm & Hend1 & Hrem1 & Hfin1 & Hp1 & Hwl1).
      rewrite Hms. cbn [length repeat map run_ops]. unfold rstep. rewrite Hrm. cbv beta iota.
      set (s2 := s1 <| opidx := S (opidx s1) |>).
      assert (Hconfa : conformant_frames c a) by (apply (conformant_suffix c pre); [rewrite <- Hfs; exact Hconf|exact Hseqa]).
      assert (Hla : (length a <= n)%nat).
      { pose proof (suffix_shorter pre a Hpre). rewrite <- Hfs in H. lia. }
      pose proof Hend1 as (E1 & E2 & E3 & [E4|(E4 & E5 & E6)] & E7 & E8 & E9 & E10).
      * (* no remembered error: go on with the next message *)
        assert (Hrinv2 : rinv k s2) by (unfold rinv; subst s2; rsimpl; auto 12).
        destruct (IH a Hla s2 Hrinv2 Hrem1 Hfin1 Hp1 Hconfa)
          as (s' & Hrun & Hend' & Hrem' & Hfin' & Hp' & Hwl').
        rewrite Hrun. exists s'. split; [reflexivity|].
        split; [exact Hend'|]. split; [exact Hrem'|]. split; [exact Hfin'|].
        split; [rewrite Htr; exact Hp'|].
        rewrite Hwl'. subst s2. rsimpl. rewrite Hwl1, Hpg, map_app, app_assoc. reflexivity.
      * (* the whole stream has been consumed, its last bytes came with EOF *)
        rewrite Hp1 in E5. apply app_eq_nil in E5. destruct E5 as [Ea Eextra].
        apply encode_frames_nil_inv in Ea. subst a.
        cbn [msgs events_of events_from fst data_msgs flat_map length repeat run_ops map].
        exists s2. split; [reflexivity|]. subst s2. rsimpl.
        split; [unfold rinv_end; rsimpl; rewrite Hp1; auto 12|].
        split; [exact Hrem1|]. split; [exact Hfin1|].
        split; [rewrite Htr; exact Hp1|].
        rewrite Hwl1, Hpg. cbn [body pings_of flat_map]. rewrite app_nil_r. reflexivity.
    + destruct (first_msg_none (server c) fs Hseq Efm) as (Hall & Hms).
      rewrite Hms. cbn [length repeat run_ops map].
      exists s. split; [reflexivity|]. split; [apply rinv_rinv_end; exact Hrinv|].
      rewrite (all_ctl_trailer fs Hall), (all_ctl_body fs Hall). cbn [pings_of flat_map map].
      rewrite app_nil_r. auto.
Qed.
End Run.

Lemma rinv_init b : binv b -> (125 <= bsize b)%nat -> rinv (fault (src b)) (init_rst b).
Proof. intros H1 H2. unfold rinv, init_rst. rsimpl. auto 12. Qed.

(* ------------------------------------------------------------------------------------------ *)
(* General theorem.  [extra] = whatever bytes follow the frames [fs] on the transport (possibly *)
(* none).  Side condition: if NOTHING follows the last data frame (no trailing control frame,  *)
(* no extra byte) the transport's terminal fault must be EOF -- otherwise a fault delivered    *)
(* together with the last bytes turns the last, complete, message into an error.               *)
(* ------------------------------------------------------------------------------------------ *)
Theorem read_messages_general :
  forall inflate c b fs extra,
    custom_handlers c = false -> binv b -> (125 <= bsize b)%nat ->
    conformant_frames c fs -> pending b = encode_frames fs ++ extra ->
    (trailer fs = [] -> extra = [] -> fault (src b) = EEOF) ->
    let ms := data_msgs (events_of fs) in
    exists s',
      run_ops inflate c (init_rst b) (repeat OReadMessage (length ms)) = (map out_of ms, s') /\
      outoffuel s' = false /\ closesent s' = false /\ rem s' = 0 /\ rfin s' = true /\
      wlog s' = map WPong (pings_of (body fs)) /\
      pending (br s') = encode_frames (trailer fs) ++ extra /\
      binv (br s') /\
      (rerror s' = None \/ (rerror s' = Some RIoEOF /\ trailer fs = [] /\ extra = [])).
Proof.
  intros inflate c b fs extra Hch Hinv Hbs Hconf Hp Hside ms.
  set (extra' := encode_frames (trailer fs) ++ extra).
  assert (Hx : extra' <> [] \/ fault (src b) = EEOF).
  { destruct (trailer fs) as [|t tr] eqn:Et.
    - destruct extra as [|x extra0] eqn:Ee; [right; apply Hside; reflexivity|].
      left. subst extra'. cbn [encode_frames flat_map app]. discriminate.
    - left. subst extra'. rewrite encode_frames_cons, encode_frame_decomp. cbn [app]. discriminate. }
  assert (Hp' : pending (br (init_rst b)) = encode_frames (body fs) ++ extra').
  { subst extra'. rewrite app_assoc, <- encode_frames_app, body_trailer. exact Hp. }
  destruct (run_msgs inflate (fault (src b)) c extra' Hch Hx (length (body fs)) (body fs) (le_n _)
              (init_rst b) (rinv_init b Hinv Hbs) eq_refl eq_refl Hp' (conformant_body c fs Hconf))
    as (s' & Hrun & Hend & Hrem & Hfin & Hpend & Hwl).
  rewrite msgs_body in Hrun. rewrite trailer_body in Hpend. rewrite body_body in Hwl.
  cbn [encode_frames flat_map app] in Hpend.
  exists s'. split; [exact Hrun|].
  destruct Hend as (E1 & E2 & E3 & E4 & E5 & E6 & E7 & E8).
  split; [exact E5|]. split; [exact E6|]. split; [exact Hrem|]. split; [exact Hfin|].
  split; [exact Hwl|]. split; [exact Hpend|]. split; [exact E1|].
  destruct E4 as [E4|(E4 & E4' & _)]; [left; exact E4|right].
  rewrite Hpend in E4'. subst extra'. apply app_eq_nil in E4'. destruct E4' as [Et Ee].
  apply encode_frames_nil_inv in Et. auto.
Qed.

(* ------------------------------------------------------------------------------------------ *)
(* Flagship: the stream is followed by at least one more byte (e.g. the next frames).          *)
(* No hypothesis on chunking, buffer size (beyond 125), capacity schedule or transport fault.  *)
(* ------------------------------------------------------------------------------------------ *)
Theorem read_messages_conformant :
  forall inflate c b fs extra,
    custom_handlers c = false -> binv b -> (125 <= bsize b)%nat ->
    conformant_frames c fs -> pending b = encode_frames fs ++ extra -> extra <> [] ->
    let ms := data_msgs (events_of fs) in
    exists s',
      run_ops inflate c (init_rst b) (repeat OReadMessage (length ms)) = (map out_of ms, s') /\
      outoffuel s' = false /\ rerror s' = None /\ closesent s' = false /\
      rem s' = 0 /\ rfin s' = true /\
      wlog s' = map WPong (pings_of (body fs)) /\
      pending (br s') = encode_frames (trailer fs) ++ extra.
Proof.
  intros inflate c b fs extra Hch Hinv Hbs Hconf Hp Hne ms.
  destruct (read_messages_general inflate c b fs extra Hch Hinv Hbs Hconf Hp)
    as (s' & Hrun & H1 & H2 & H3 & H4 & H5 & H6 & H7 & H8); [intros _ E; contradiction|].
  exists s'. split; [exact Hrun|].
  destruct H8 as [H8|(_ & _ & H8)]; [|contradiction]. auto 10.
Qed.

(* ------------------------------------------------------------------------------------------ *)
(* The stream is exactly [encode_frames fs] and the transport then reports EOF.                *)
(* The reader may have been handed io.EOF together with the very last bytes; it then keeps it *)
(* as its sticky read error -- the messages returned are the same.                             *)
(* ------------------------------------------------------------------------------------------ *)
Theorem read_messages_conformant_eof :
  forall inflate c b fs,
    custom_handlers c = false -> binv b -> (125 <= bsize b)%nat ->
    conformant_frames c fs -> pending b = encode_frames fs -> fault (src b) = EEOF ->
    let ms := data_msgs (events_of fs) in
    exists s',
      run_ops inflate c (init_rst b) (repeat OReadMessage (length ms)) = (map out_of ms, s') /\
      outoffuel s' = false /\ closesent s' = false /\ rem s' = 0 /\ rfin s' = true /\
      wlog s' = map WPong (pings_of (body fs)) /\
      pending (br s') = encode_frames (trailer fs) /\
      (rerror s' = None \/ (rerror s' = Some RIoEOF /\ trailer fs = [])).
Proof.
  intros inflate c b fs Hch Hinv Hbs Hconf Hp Hf ms.
  destruct (read_messages_general inflate c b fs [] Hch Hinv Hbs Hconf)
    as (s' & Hrun & H1 & H2 & H3 & H4 & H5 & H6 & H7 & H8);
    [rewrite app_nil_r; exact Hp|intros _ _; exact Hf|].
  exists s'. split; [exact Hrun|]. rewrite app_nil_r in H6.
  split; [exact H1|]. split; [exact H2|]. split; [exact H3|]. split; [exact H4|].
  split; [exact H5|]. split; [exact H6|].
  destruct H8 as [H8|(H8 & H9 & _)]; [left; exact H8|right; auto].
Qed.

(* Independence of chunking, buffering, ReadAll's capacity schedule, the inflate function, the
   transport fault and the (ignored) handler configuration: two runs over the same byte stream
   by readers of the same role return the same messages and send the same pongs. *)
Corollary read_messages_independent :
  forall inflate1 inflate2 c1 c2 b1 b2 fs extra,
    custom_handlers c1 = false -> custom_handlers c2 = false -> server c1 = server c2 ->
    binv b1 -> binv b2 -> (125 <= bsize b1)%nat -> (125 <= bsize b2)%nat ->
    conformant_frames c1 fs -> extra <> [] ->
    pending b1 = encode_frames fs ++ extra -> pending b2 = encode_frames fs ++ extra ->
    let ops := repeat OReadMessage (length (data_msgs (events_of fs))) in
    fst (run_ops inflate1 c1 (init_rst b1) ops) = fst (run_ops inflate2 c2 (init_rst b2) ops) /\
    wlog (snd (run_ops inflate1 c1 (init_rst b1) ops)) = wlog (snd (run_ops inflate2 c2 (init_rst b2) ops)) /\
    pending (br (snd (run_ops inflate1 c1 (init_rst b1) ops))) =
    pending (br (snd (run_ops inflate2 c2 (init_rst b2) ops))).
Proof.
  intros i1 i2 c1 c2 b1 b2 fs extra Hc1 Hc2 Hsrv Hi1 Hi2 Hs1 Hs2 Hconf Hne Hp1 Hp2 ops.
  assert (Hconf2 : conformant_frames c2 fs).
  { destruct Hconf as (A & B & C). unfold conformant_frames. rewrite <- Hsrv. auto. }
  destruct (read_messages_conformant i1 c1 b1 fs extra Hc1 Hi1 Hs1 Hconf Hp1 Hne)
    as (s1 & R1 & _ & _ & _ & _ & _ & W1 & P1).
  destruct (read_messages_conformant i2 c2 b2 fs extra Hc2 Hi2 Hs2 Hconf2 Hp2 Hne)
    as (s2 & R2 & _ & _ & _ & _ & _ & W2 & P2).
  subst ops. rewrite R1, R2. cbn [fst snd]. rewrite W1, W2, P1, P2. auto.
Qed.

(* ------------------------------------------------------------------------------------------ *)
(* The whole story for a stream that is exactly [encode_frames fs]: n ReadMessage calls return *)
(* the n messages; ONE MORE call consumes the trailing control frames (answering their pings)  *)
(* and reports the end of the stream.  The error is the transport's fault as advanceFrame maps *)
(* it (EOF becomes CloseError 1006 "unexpected EOF"), except that a bare io.EOF is returned    *)
(* when EOF had been delivered together with the last bytes of the last data frame.            *)
(* ------------------------------------------------------------------------------------------ *)
Lemma run_ops_app inflate c : forall ops1 s xs s1 ops2,
  run_ops inflate c s ops1 = (xs, s1) -> ~ In RPanic xs ->
  run_ops inflate c s (ops1 ++ ops2) =
  (xs ++ fst (run_ops inflate c s1 ops2), snd (run_ops inflate c s1 ops2)).
Proof.
  induction ops1 as [|o ops1 IH]; intros s xs s1 ops2 Hrun Hnp.
  - cbn [run_ops] in Hrun. inversion Hrun; subst xs s1. cbn [app].
    destruct (run_ops inflate c s ops2); reflexivity.
  - cbn [app run_ops] in *. destruct (rstep inflate c s o) as [x s2] eqn:Es.
    destruct (run_ops inflate c s2 ops1) as [xs' s3] eqn:Er.
    assert (Hcase : x = RPanic \/ (xs = x :: xs' /\ s1 = s3)).
    { destruct x; inversion Hrun; subst; auto. }
    destruct Hcase as [Hpan|[-> ->]].
    + exfalso. subst x. inversion Hrun; subst xs s1. apply Hnp. left. reflexivity.
    + rewrite (IH s2 xs' s3 ops2 Er) by (intros Hin; apply Hnp; right; exact Hin).
      destruct x; try reflexivity. exfalso. apply Hnp. left. reflexivity.
Qed.

Lemma out_of_not_panic ms : ~ In RPanic (map out_of ms).
Proof. intros H. apply in_map_iff in H. destruct H as (m & Hm & _). discriminate Hm. Qed.

Theorem read_messages_then_end :
  forall inflate c b fs,
    custom_handlers c = false -> binv b -> (125 <= bsize b)%nat ->
    conformant_frames c fs -> pending b = encode_frames fs ->
    (trailer fs = [] -> fault (src b) = EEOF) ->
    let ms := data_msgs (events_of fs) in
    exists e s',
      run_ops inflate c (init_rst b) (repeat OReadMessage (S (length ms))) =
        (map out_of ms ++ [RMsg 0 [] (Some e)], s') /\
      (e = of_berror (BErr (fault (src b))) \/ (e = RIoEOF /\ trailer fs = [])) /\
      rerror s' = Some e /\ outoffuel s' = false /\ closesent s' = false /\
      wlog s' = map WPong (pings_of fs) /\
      pending (br s') = [].
Proof.
  intros inflate c b fs Hch Hinv Hbs Hconf Hp Hside ms.
  destruct (run_msgs inflate (fault (src b)) c (encode_frames (trailer fs)) Hch) with
    (n := length (body fs)) (fs := body fs) (s := init_rst b)
    as (s1 & Hrun & Hend & Hrem & Hfin & Hpend & Hwl).
  { destruct (trailer fs) as [|t tr] eqn:Et; [right; apply Hside; reflexivity|left].
    rewrite encode_frames_cons, encode_frame_decomp. cbn [app]. discriminate. }
  { apply le_n. }
  { apply rinv_init; assumption. }
  { reflexivity. }
  { reflexivity. }
  { change (br (init_rst b)) with b. rewrite <- encode_frames_app, body_trailer. exact Hp. }
  { apply conformant_body. exact Hconf. }
  rewrite msgs_body in Hrun. rewrite trailer_body in Hpend. rewrite body_body in Hwl.
  cbn [encode_frames flat_map app] in Hpend. fold (encode_frames (trailer fs)) in Hpend.
  subst ms. change (data_msgs (events_of fs)) with (msgs fs).
  cbn [repeat]. rewrite repeat_cons.
  rewrite (run_ops_app inflate c _ _ _ _ [OReadMessage] Hrun (out_of_not_panic _)).
  cbn [run_ops]. unfold rstep.
  destruct Hconf as (Hwf & Hseq & Hlen).
  assert (Hwft : Forall wf_frame (trailer fs)).
  { rewrite <- (body_trailer fs) in Hwf. apply Forall_app in Hwf. apply Hwf. }
  pose proof (seq_ok_trailer (server c) fs Hseq) as Hseqt.
  pose proof Hend as (E1 & E2 & E3 & [E4|(E4 & E5 & E6)] & E7 & E8 & E9 & E10).
  - (* the reader has no sticky error: it works through the trailing control frames *)
    assert (Hrinv1 : rinv (fault (src b)) s1) by (unfold rinv; auto 12).
    destruct (read_message_end (fault (src b)) c Hch inflate (trailer fs) s1 (trailer_all_ctl fs)
                Hrinv1 Hrem Hfin Hpend Hwft Hseqt)
      as (s2 & Hrm & Herr2 & Hwl2 & Hoof2 & Hcs2 & Hp2 & _).
    rewrite Hrm. cbn [fst snd].
    eexists. eexists. split; [reflexivity|]. rsimpl.
    split; [left; reflexivity|]. split; [exact Herr2|]. split; [exact Hoof2|]. split; [exact Hcs2|].
    split; [|exact Hp2].
    rewrite Hwl2, Hwl. cbn [init_rst wlog app]. rewrite <- map_app, pings_body_trailer. reflexivity.
  - (* io.EOF is already sticky: nothing is left on the transport *)
    rewrite Hpend in E5. apply encode_frames_nil_inv in E5.
    rewrite (read_message_sticky c inflate s1 RIoEOF E4 E10). cbn [fst snd].
    eexists. eexists. split; [reflexivity|]. rsimpl.
    split; [right; auto|]. split; [exact E4|]. split; [exact E7|]. split; [exact E8|].
    split; [|rewrite Hpend, E5; reflexivity].
    rewrite Hwl. cbn [init_rst wlog app]. rewrite <- (pings_body_trailer fs), E5.
    cbn [pings_of flat_map]. rewrite app_nil_r. reflexivity.
Qed.

Print Assumptions read_messages_general.
Print Assumptions read_messages_conformant.
Print Assumptions read_messages_conformant_eof.
Print Assumptions read_messages_independent.
Print Assumptions read_messages_then_end.
Print Assumptions read_message_one.
Print Assumptions advance_data.
Print Assumptions advance_ctl.
