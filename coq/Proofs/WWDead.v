(* Write path, C10's wire clause: once the connection's write error is set (transport failure,
   internal error, or a close frame sent) no operation appends anything to the wire, and the
   error stays. *)
Require Import WS.Base.Bytes WS.gen.Consts WS.Model.Writer.
From RecordUpdate Require Import RecordSet.
Import RecordSetNotations.
Require Import WS.Proofs.WWBase.
Ltac Zify.zify_post_hook ::= Z.div_mod_to_equations.

Definition frozen (s s':wst) : Prop := werr s' = werr s /\ wire s' = wire s.

Lemma frozen_refl s : frozen s s.
Proof. split; reflexivity. Qed.
Lemma frozen_trans a b c : frozen a b -> frozen b c -> frozen a c.
Proof. intros [A1 A2] [B1 B2]. split; congruence. Qed.

Definition dead (s:wst) : Prop := werr s <> None.
Lemma dead_frozen s s' : dead s -> frozen s s' -> dead s'.
Proof. unfold dead. intros D [A _]. rewrite A. exact D. Qed.

Lemma conn_write_dead ftype dl masked mk buf1 s : dead s ->
  exists e0, conn_write ftype dl masked mk buf1 s = (Some e0, s).
Proof. unfold dead, conn_write. destruct (werr s) as [e0|]; [exists e0; reflexivity|contradiction]. Qed.

Lemma end_message_frozen c e m s : frozen s (end_message c e m s).
Proof.
  unfold end_message. destruct (m_err m); [apply frozen_refl|]. cbv zeta. destruct (w_pooled c).
  - split; [reflexivity|]. rewrite wire_log. cbn [pay]. rewrite app_nil_r. reflexivity.
  - split; reflexivity.
Qed.

Lemma write_fatal_dead e s : dead s -> write_fatal e s = s.
Proof. unfold dead, write_fatal. destruct (werr s); [reflexivity|contradiction]. Qed.

Lemma flush_frame_dead c final extra m s e s' : dead s ->
  flush_frame c final extra m s = (e, s') -> frozen s s'.
Proof.
  intros D H. unfold flush_frame in H. cbv zeta in H.
  set (m1 := m <| m_compress := false |>) in *.
  set (s1 := s <| cur := Some m1 |>) in *.
  assert (F1 : frozen s s1) by (split; reflexivity).
  assert (D1 : dead s1) by exact D.
  destruct (is_control_ty (m_ftype m) && _).
  { inversion H; subst. apply end_message_frozen. }
  destruct (w_server c).
  - match type of H with context [conn_write ?a ?b ?c ?d ?e s1] =>
      destruct (conn_write_dead a b c d e s1 D1) as (e0 & E0); rewrite E0 in H end.
    inversion H; subst. eapply frozen_trans; [exact F1|apply end_message_frozen].
  - destruct extra.
    + match type of H with context [conn_write ?a ?b ?c ?d ?e s1] =>
        destruct (conn_write_dead a b c d e s1 D1) as (e0 & E0); rewrite E0 in H end.
      inversion H; subst. eapply frozen_trans; [exact F1|apply end_message_frozen].
    + inversion H; subst. rewrite (write_fatal_dead WInternal s1 D1).
      eapply frozen_trans; [exact F1|apply end_message_frozen].
Qed.

Lemma write_control_dead c ty data dl s e s' : dead s -> write_control c ty data dl s = (e, s') -> s' = s.
Proof.
  unfold dead, write_control. intros D H.
  destruct (negb (is_control_ty ty)); [inversion H; reflexivity|].
  destruct (c_maxControlFramePayloadSize <? blen data); [inversion H; reflexivity|].
  destruct (dl =? 1); [inversion H; reflexivity|].
  destruct (werr s); [inversion H; reflexivity|contradiction].
Qed.

Lemma copy_loop_dead c : forall fuel p s e s', dead s -> copy_loop fuel c p s = (e, s') -> frozen s s'.
Proof.
  induction fuel as [|fuel IH]; intros p s e s' D H; destruct p as [|x p']; cbn [copy_loop] in H;
    try (inversion H; subst; split; reflexivity).
  set (pp := x :: p') in *. clearbody pp.
  destruct (cur s) as [m|]; [|inversion H; subst; apply frozen_refl].
  destruct (cap c - blen (m_buf m) =? 0).
  - destruct (flush_frame c false [] m s) as [e1 s1] eqn:EF.
    pose proof (flush_frame_dead c false [] m s e1 s1 D EF) as F.
    destruct e1; [inversion H; subst; exact F|].
    eapply frozen_trans; [exact F|]. eapply IH; [|exact H]. eapply dead_frozen; eassumption.
  - eapply frozen_trans; [|eapply IH; [|exact H]]; [split; reflexivity|exact D].
Qed.

Lemma mw_write_dead c p s e s' : dead s -> mw_write c p s = (e, s') -> frozen s s'.
Proof.
  intros D H. unfold mw_write in H. destruct (cur s) as [m|]; [|inversion H; subst; apply frozen_refl].
  destruct ((2 * w_bufsize c <? blen p) && w_server c).
  - eapply flush_frame_dead; eassumption.
  - eapply copy_loop_dead; eassumption.
Qed.

Lemma mw_write_string_dead c p s e s' : dead s -> mw_write_string c p s = (e, s') -> frozen s s'.
Proof.
  intros D H. unfold mw_write_string in H. destruct (cur s) as [m|]; [|inversion H; subst; apply frozen_refl].
  eapply copy_loop_dead; eassumption.
Qed.

Lemma put_byte_frozen b s : frozen s (put_byte b s).
Proof. unfold put_byte. destruct (cur s); split; reflexivity. Qed.

Lemma read_from_dead c : forall fuel chunks s e s', dead s -> read_from fuel c chunks s = (e, s') -> frozen s s'.
Proof.
  induction fuel as [|fuel IH]; intros chunks s e s' D H; cbn [read_from] in H.
  - inversion H; subst; split; reflexivity.
  - destruct (cur s) as [m|]; [|inversion H; subst; apply frozen_refl].
    destruct (cap c - blen (m_buf m) =? 0).
    + destruct chunks as [|[|b ch'] rest]; [inversion H; subst; apply frozen_refl| |].
      { destruct rest as [|r1 rest1]; [inversion H; subst; apply frozen_refl|]. eapply IH; eassumption. }
      destruct (flush_frame c false [] m s) as [e1 s1] eqn:EF.
      pose proof (flush_frame_dead c false [] m s e1 s1 D EF) as F.
      destruct e1; [inversion H; subst; exact F|].
      assert (F2 : frozen s (put_byte b s1)) by (eapply frozen_trans; [exact F|apply put_byte_frozen]).
      destruct ch' as [|b1 ch1]; [destruct rest as [|r1 rest1]|].
      * inversion H; subst. exact F2.
      * eapply frozen_trans; [exact F2|]. eapply IH; [|exact H]. eapply dead_frozen; eassumption.
      * eapply frozen_trans; [exact F2|]. eapply IH; [|exact H]. eapply dead_frozen; eassumption.
    + destruct chunks as [|ch rest]; [inversion H; subst; apply frozen_refl|].
      destruct (dropN _ ch) as [|r0 rem]; [destruct rest as [|r1 rest1]|].
      * inversion H; subst. split; reflexivity.
      * eapply frozen_trans; [|eapply IH; [|exact H]]; [split; reflexivity|exact D].
      * eapply frozen_trans; [|eapply IH; [|exact H]]; [split; reflexivity|exact D].
Qed.

Lemma mw_close_dead c s e s' : dead s -> mw_close c s = (e, s') -> frozen s s'.
Proof.
  intros D H. unfold mw_close in H. destruct (cur s) as [m|]; [|inversion H; subst; apply frozen_refl].
  eapply flush_frame_dead; eassumption.
Qed.

Lemma trunc_write_dead c p f s e f' s' : dead s -> trunc_write c p f s = (e, f', s') -> frozen s s'.
Proof.
  intros D H. unfold trunc_write in H. cbv zeta in H.
  destruct (dropN _ p) as [|x r]; [inversion H; subst; apply frozen_refl|].
  match type of H with context [mw_write c ?a s] => destruct (mw_write c a s) as [e1 s1] eqn:E1 end.
  pose proof (mw_write_dead c _ s e1 s1 D E1) as F1.
  destruct e1; [inversion H; subst; exact F1|].
  match type of H with context [mw_write c ?a s1] => destruct (mw_write c a s1) as [e2 s2] eqn:E2 end.
  inversion H; subst. eapply frozen_trans; [exact F1|].
  eapply mw_write_dead; [|exact E2]. eapply dead_frozen; eassumption.
Qed.

Lemma flate_emit_dead c : forall chunks f s f' s', dead s -> flate_emit c chunks f s = (f', s') -> frozen s s'.
Proof.
  induction chunks as [|ch rest IH]; intros f s f' s' D H; cbn [flate_emit] in H.
  - inversion H; subst; apply frozen_refl.
  - destruct (f_err f); [inversion H; subst; apply frozen_refl|].
    destruct (trunc_write c ch f s) as [[e1 f1] s1] eqn:E1.
    pose proof (trunc_write_dead c ch f s e1 f1 s1 D E1) as F1.
    destruct e1; [inversion H; subst; exact F1|].
    eapply frozen_trans; [exact F1|]. eapply IH; [|exact H]. eapply dead_frozen; eassumption.
Qed.

Lemma flate_write_dead c wc f s e s' : dead s -> flate_write c wc f s = (e, s') -> frozen s s'.
Proof.
  intros D H. unfold flate_write in H. destruct (negb (f_open f)); [inversion H; subst; apply frozen_refl|].
  destruct (flate_emit c wc f s) as [f1 s1] eqn:E1.
  pose proof (flate_emit_dead c wc f s f1 s1 D E1) as F1. inversion H; subst.
  eapply frozen_trans; [exact F1|split; reflexivity].
Qed.

Lemma flate_close_dead c cc f s e s' : dead s -> flate_close c cc f s = (e, s') -> frozen s s'.
Proof.
  intros D H. unfold flate_close in H. destruct (negb (f_open f)); [inversion H; subst; apply frozen_refl|].
  destruct (flate_emit c cc f s) as [f1 s1] eqn:E1.
  pose proof (flate_emit_dead c cc f s f1 s1 D E1) as F1.
  set (f2 := f1 <| f_open := false |>) in *. set (s2 := s1 <| fl := Some f2 |>) in *.
  assert (F2 : frozen s s2) by (eapply frozen_trans; [exact F1|split; reflexivity]).
  destruct (negb (beq (f_tw f2) [0;0;255;255])); [inversion H; subst; exact F2|].
  destruct (is_cur (f_id f2) s2).
  - destruct (mw_close c s2) as [e3 s3] eqn:E3. inversion H; subst.
    eapply frozen_trans; [exact F2|]. eapply mw_close_dead; [|exact E3]. eapply dead_frozen; eassumption.
  - inversion H; subst. exact F2.
Qed.

Lemma close_current_dead c ic s : dead s -> frozen s (close_current c ic s).
Proof.
  intros D. unfold close_current. destruct (cur s) as [m|]; [|apply frozen_refl].
  assert (F : frozen s (if cur_flate s
                        then match fl s with Some f => snd (flate_close c ic f s) | None => s end
                        else snd (mw_close c s))).
  { destruct (cur_flate s).
    - destruct (fl s) as [f|]; [|apply frozen_refl].
      destruct (flate_close c ic f s) as [e1 s1] eqn:E1. cbn [snd]. eapply flate_close_dead; eassumption.
    - destruct (mw_close c s) as [e1 s1] eqn:E1. cbn [snd]. eapply mw_close_dead; eassumption. }
  destruct F as [F1 F2]. split; [exact F1|exact F2].
Qed.

Lemma begin_message_dead c ty ic s e s' : dead s -> begin_message c ty ic s = (e, s') ->
  frozen s s' /\ e <> None.
Proof.
  intros D H. unfold begin_message in H.
  pose proof (close_current_dead c ic s D) as F. set (s1 := close_current c ic s) in *. clearbody s1.
  destruct (negb (is_control_ty ty) && negb (is_data_ty ty)); [inversion H; subst; split; [exact F|discriminate]|].
  assert (D1 : dead s1) by (eapply dead_frozen; eassumption).
  unfold dead in D1. destruct (werr s1); [|contradiction]. inversion H; subst. split; [exact F|discriminate].
Qed.

Lemma next_writer_dead c ty ic s e s' : dead s -> next_writer c ty ic s = (e, s') -> frozen s s'.
Proof.
  intros D H. unfold next_writer in H. destruct (begin_message c ty ic s) as [e1 s1] eqn:E1.
  destruct (begin_message_dead c ty ic s e1 s1 D E1) as [F N].
  destruct e1; [inversion H; subst; exact F|contradiction].
Qed.

Lemma app_write_dead c sv p wc s e s' : dead s -> app_write c sv p wc s = (e, s') -> frozen s s'.
Proof.
  intros D H. unfold app_write in H.
  destruct (Writer.app s); [|inversion H; subst; apply frozen_refl].
  destruct (app_flate s).
  - destruct (fl s) as [f|]; [|inversion H; subst; apply frozen_refl].
    destruct (Nat.eqb (f_id f) n); [|inversion H; subst; apply frozen_refl].
    eapply flate_write_dead; eassumption.
  - destruct (is_cur n s); [|inversion H; subst; apply frozen_refl].
    destruct sv; [eapply mw_write_string_dead|eapply mw_write_dead]; eassumption.
Qed.

Lemma app_read_from_dead c ch s e s' : dead s -> app_read_from c ch s = (e, s') -> frozen s s'.
Proof.
  intros D H. unfold app_read_from in H.
  destruct (Writer.app s); [|inversion H; subst; apply frozen_refl].
  destruct (app_flate s); [inversion H; subst; apply frozen_refl|].
  destruct (is_cur n s); [|inversion H; subst; apply frozen_refl].
  eapply read_from_dead; eassumption.
Qed.

Lemma app_close_dead c cc s e s' : dead s -> app_close c cc s = (e, s') -> frozen s s'.
Proof.
  intros D H. unfold app_close in H.
  destruct (Writer.app s); [|inversion H; subst; apply frozen_refl].
  destruct (app_flate s).
  - destruct (fl s) as [f|]; [|inversion H; subst; apply frozen_refl].
    destruct (Nat.eqb (f_id f) n); [|inversion H; subst; apply frozen_refl].
    eapply flate_close_dead; eassumption.
  - destruct (is_cur n s); [|inversion H; subst; apply frozen_refl].
    eapply mw_close_dead; eassumption.
Qed.

Lemma write_message_dead c ty d ic wc cc s e s' : dead s ->
  write_message c ty d ic wc cc s = (e, s') -> frozen s s'.
Proof.
  intros D H. unfold write_message in H.
  destruct (w_server c && (negb (w_negotiated c) || negb (wcomp s))).
  - destruct (begin_message c ty ic s) as [e1 s1] eqn:E1.
    destruct (begin_message_dead c ty ic s e1 s1 D E1) as [F N].
    destruct e1; [inversion H; subst; exact F|contradiction].
  - destruct (next_writer c ty ic s) as [e1 s1] eqn:E1.
    pose proof (next_writer_dead c ty ic s e1 s1 D E1) as F1.
    destruct e1; [inversion H; subst; exact F1|].
    destruct (app_write c false d wc s1) as [e2 s2] eqn:E2.
    assert (D1 : dead s1) by (eapply dead_frozen; eassumption).
    pose proof (app_write_dead c false d wc s1 e2 s2 D1 E2) as F2.
    destruct e2; [inversion H; subst; eapply frozen_trans; eassumption|].
    assert (D2 : dead s2) by (eapply dead_frozen; eassumption).
    eapply frozen_trans; [exact F1|]. eapply frozen_trans; [exact F2|].
    eapply app_close_dead; eassumption.
Qed.

(* every operation, prepared frames included *)
Lemma wstep_dead c s o : dead s -> frozen s (snd (wstep c s o)).
Proof.
  intros D. destruct o; cbn [wstep].
  - destruct (write_message c ty d ic wc cc s) eqn:E. cbn [snd]. eapply write_message_dead; eassumption.
  - destruct (next_writer c ty ic s) eqn:E. cbn [snd]. eapply next_writer_dead; eassumption.
  - destruct (app_write c false d wc s) eqn:E. cbn [snd]. eapply app_write_dead; eassumption.
  - destruct (app_write c true d wc s) eqn:E. cbn [snd]. eapply app_write_dead; eassumption.
  - destruct (app_read_from c chunks s) eqn:E. cbn [snd]. eapply app_read_from_dead; eassumption.
  - destruct (app_close c cc s) eqn:E. cbn [snd]. eapply app_close_dead; eassumption.
  - destruct (write_control c ty d dl s) eqn:E. cbn [snd].
    rewrite (write_control_dead c ty d dl s _ _ D E). apply frozen_refl.
  - split; reflexivity.
  - split; reflexivity.
  - destruct (valid_level l); cbn [snd]; [split; reflexivity|apply frozen_refl].
  - destruct (conn_write_dead ty (deadline s) false (fun _ => frame) [] s D) as (e0 & ->). apply frozen_refl.
Qed.

Theorem wrun_dead c ops : forall s, dead s -> frozen s (snd (wrun c s ops)).
Proof.
  induction ops as [|o r IH]; intros s D; cbn [wrun]; [apply frozen_refl|].
  pose proof (wstep_dead c s o D) as F. destruct (wstep c s o) as [e s1]. cbn [snd] in F.
  assert (D1 : dead s1) by (eapply dead_frozen; eassumption).
  specialize (IH s1 D1). destruct (wrun c s1 r) as [es s2]. cbn [snd] in *.
  eapply frozen_trans; eassumption.
Qed.

Lemma wrun_app c a : forall b s, snd (wrun c s (a ++ b)) = snd (wrun c (snd (wrun c s a)) b).
Proof.
  induction a as [|o r IH]; intros b s; cbn [List.app wrun]; [reflexivity|].
  destruct (wstep c s o) as [e s1]. specialize (IH b s1).
  destruct (wrun c s1 (r ++ b)) as [es s2]. destruct (wrun c s1 r) as [es' s2']. cbn [snd] in *. exact IH.
Qed.
