(* The compressed write path on a live, fault-free connection: messageWriter.Write in general
   (both branches), truncWriter, flateWriteWrapper.Write / Close, and WriteMessage of a data
   message when compression applies.  The flate oracle is what it is in Model/Writer.v: the
   chunks flate.Writer hands to the truncWriter during Write ([wc]) and during Close ([cc]);
   hypothesis [tail_ok cc] (WWFlate): the Close-time output ends with 00 00 ff ff. *)
Require Import WS.Base.Bytes WS.gen.Consts WS.Spec.Frame WS.Proofs.FrameP WS.Model.Writer.
From RecordUpdate Require Import RecordSet.
Import RecordSetNotations.
Require Import WS.Proofs.WWBase WS.Proofs.WWInv WS.Proofs.WWFlate.
Require Import WS.Proofs.PrepBase WS.Proofs.PrepFrames WS.Proofs.PrepLoop WS.Proofs.PrepMsg.
Ltac Zify.zify_post_hook ::= Z.div_mod_to_equations.

Lemma after_app t (l1 l2:list kc) : after t (l1 ++ l2) = after (after t l1) l2.
Proof. destruct l1; [reflexivity|]. cbn [List.app after]. destruct l2; reflexivity. Qed.

Lemma ofr_app l1 : forall t r l2, ofr t r (l1 ++ l2) = ofr t r l1 ++ ofr (after t l1) (after r l1) l2.
Proof.
  induction l1 as [|x l1 IH]; intros t r l2; [reflexivity|].
  cbn [List.app ofr after]. rewrite IH. f_equal. destruct l1; reflexivity.
Qed.

(* progress of the current message writer since state [s0], where it was fresh with frame type
   [t0] and compress flag [b0]: [D] is everything written into it so far *)
Definition prog (c:wcfg) (s0:wst) (t0:N) (b0:bool) (id:nat) (D:bytes) (s:wst) : Prop :=
  exists l m,
    werr s = None /\ fail_at s = None /\ cur s = Some m /\ Forall len4 (keys s) /\
    m_err m = None /\ m_id m = id /\ blen (m_buf m) <= cap c /\
    m_ftype m = after t0 l /\ m_compress m = (match l with [] => b0 | _ => false end) /\
    wire s = wire s0 ++ encode_frames (ofr t0 (rsv_of b0) l) /\
    concat (map snd l) ++ m_buf m = D /\
    Forall (fun x : kc => kc_ok (negb (w_server c)) (fst x)) l /\
    Writer.app s = Writer.app s0 /\ app_flate s = app_flate s0 /\ cur_flate s = cur_flate s0.

Lemma prog_set_fl c s0 t0 b0 id D s x : prog c s0 t0 b0 id D s -> prog c s0 t0 b0 id D (s <| fl := x |>).
Proof.
  intros (l & m & H). exists l, m. unfold wire, evs in *. wsimpl. exact H.
Qed.

Lemma rsv_after b0 (l:list kc) : rsv_of (match l with [] => b0 | _ => false end) = after (rsv_of b0) l.
Proof. destruct l; reflexivity. Qed.

Lemma mw_write_prog c s0 t0 b0 id D p s :
  0 < cap c -> is_control_ty t0 = false -> prog c s0 t0 b0 id D s ->
  exists s', mw_write c p s = (None, s') /\ prog c s0 t0 b0 id (D ++ p) s' /\ fl s' = fl s.
Proof.
  intros Hcap Ht (l & m & P1 & P2 & P3 & P4 & P5 & P6 & P7 & P8 & P9 & P10 & P11 & P12 & P13 & P14 & P15).
  assert (Hnc : is_control_ty (m_ftype m) = false).
  { rewrite P8. destruct l; [exact Ht|reflexivity]. }
  unfold mw_write. rewrite P3.
  destruct ((2 * w_bufsize c <? blen p) && w_server c) eqn:EB.
  - (* a large write on a server: buffer and data leave as one non-final frame *)
    apply andb_true_iff in EB. destruct EB as [_ Hs].
    destruct (flush_frame_nf c false p m s P1 P2 P5) as (s1 & E & F1 & F2 & F3 & F4 & F5 & _ & F7 & F8).
    { rewrite Hnc. reflexivity. } { rewrite Hs. intros X; discriminate X. }
    exists s1. split; [exact E|]. split; [|apply (aux_fl _ _ F7)].
    exists (l ++ [(role_mkey c s, m_buf m ++ p)]),
           (m <| m_compress := false |> <| m_buf := [] |> <| m_ftype := c_continuationFrame |>).
    assert (Hnot8 : (m_ftype m =? c_CloseMessage) = false).
    { destruct (m_ftype m =? c_CloseMessage) eqn:E8; [|reflexivity]. apply N.eqb_eq in E8.
      rewrite E8 in Hnc. discriminate Hnc. }
    rewrite Hnot8 in F2.
    split; [exact F2|]. split; [exact F1|]. split; [exact F4|].
    split; [eapply keys_after_len4; eauto|]. split; [exact P5|]. split; [exact P6|].
    split; [change (0 <= cap c); lia|].
    split; [change (0 = after t0 (l ++ [(role_mkey c s, m_buf m ++ p)])); rewrite after_app; destruct l; reflexivity|].
    split; [destruct l; reflexivity|].
    split.
    { rewrite F8, P10, <- app_assoc. f_equal. rewrite ofr_app, encode_frames_app. f_equal.
      cbn [ofr encode_frames flat_map fst snd]. rewrite app_nil_r, P8, P9. destruct l; reflexivity. }
    split.
    { rewrite map_app, concat_app. cbn [map concat snd]. rewrite !app_nil_r, <- P11, app_assoc. reflexivity. }
    split.
    { apply Forall_app. split; [exact P12|]. constructor; [|constructor]. cbn [fst]. apply role_mkey_ok. exact P4. }
    rewrite (aux_app _ _ F7), (aux_app_flate _ _ F7), (F5 eq_refl). auto.
  - destruct (copy_loop_nf c Hcap (loop_fuel c p) p s m P1 P2 P3 P5 P7)
      as (s1 & l2 & m1 & G0 & G1 & G2 & G3 & G4 & G5 & G6 & G7 & G8 & G9 & G10 & G11 & G12 & G13 & G14 & G15 & G16).
    { rewrite Hnc. intros X; discriminate X. } { exact P4. }
    { unfold loop_fuel. destruct (blen (m_buf m) =? cap c); lia. }
    exists s1. split; [exact G0|]. split; [|apply (aux_fl _ _ G6)].
    exists (l ++ l2), m1.
    split; [exact G1|]. split; [exact G2|]. split; [exact G3|]. split; [exact G4|]. split; [exact G7|].
    split; [congruence|]. split; [exact G9|].
    split; [rewrite G10, P8, after_app; reflexivity|].
    split.
    { rewrite G11, P9. destruct l2; [rewrite app_nil_r; reflexivity|]. destruct l; reflexivity. }
    split.
    { rewrite G12, P10, <- app_assoc. f_equal. rewrite ofr_app, encode_frames_app. f_equal.
      rewrite P8, P9, rsv_after. reflexivity. }
    split.
    { rewrite map_app, concat_app, <- app_assoc.
      transitivity (concat (map snd l) ++ (m_buf m ++ p)); [f_equal; exact G13|].
      rewrite app_assoc. f_equal. exact P11. }
    split.
    { apply Forall_app. split; [exact P12|]. eapply Forall_impl; [|exact G14]. cbv beta. tauto. }
    rewrite (aux_app _ _ G6), (aux_app_flate _ _ G6), G5. auto.
Qed.

(* truncWriter.Write: forwards [fw], keeps the last (at most four) bytes back *)
Lemma trunc_write_prog c s0 t0 b0 id D p f s :
  0 < cap c -> is_control_ty t0 = false -> prog c s0 t0 b0 id D s -> blen (f_tw f) <= 4 ->
  exists tw' fw s', trunc_write c p f s = (None, f <| f_tw := tw' |>, s') /\
    prog c s0 t0 b0 id (D ++ fw) s' /\ fl s' = fl s /\
    f_tw f ++ p = fw ++ tw' /\ blen tw' <= 4 /\ (blen tw' = 4 \/ fw = []).
Proof.
  intros Hcap Ht HP HB. unfold trunc_write. cbv zeta.
  set (n0 := N.min (4 - blen (f_tw f)) (blen p)).
  set (tw := f_tw f ++ takeN n0 p).
  remember (dropN n0 p) as p1 eqn:EP1.
  assert (Hp : p = takeN n0 p ++ p1) by (subst p1; symmetry; apply takeN_app_dropN).
  assert (Lp1 : blen p1 = blen p - n0) by (subst p1; apply blen_dropN).
  assert (Ltw : blen tw = blen (f_tw f) + n0).
  { subst tw. rewrite blen_app, blen_takeN. subst n0. lia. }
  destruct p1 as [|x p1'].
  { exists tw, [], s. split; [reflexivity|]. rewrite !app_nil_r. split; [exact HP|]. split; [reflexivity|].
    split; [rewrite Hp at 1; rewrite app_nil_r; reflexivity|]. change (blen []) with 0 in Lp1. split; [lia|auto]. }
  set (pp := x :: p1') in *.
  assert (Hpp : 0 < blen pp) by (unfold pp, blen; cbn [length]; lia).
  clearbody pp.
  set (m := N.min (blen pp) 4).
  destruct (mw_write_prog c s0 t0 b0 id D (takeN m tw) s Hcap Ht HP) as (s1 & E1 & Q1 & L1).
  rewrite E1.
  set (keep := blen pp - m).
  destruct (mw_write_prog c s0 t0 b0 id (D ++ takeN m tw) (takeN keep pp) s1 Hcap Ht Q1) as (s2 & E2 & Q2 & L2).
  rewrite E2.
  exists (dropN m tw ++ dropN keep pp), (takeN m tw ++ takeN keep pp), s2.
  split; [reflexivity|]. split; [rewrite app_assoc; exact Q2|]. split; [congruence|].
  assert (Ltw4 : blen tw = 4) by lia.
  assert (Lnew : blen (dropN m tw ++ dropN keep pp) = 4).
  { rewrite blen_app, !blen_dropN. subst keep m. lia. }
  split; [|split; [lia|left; exact Lnew]].
  rewrite Hp at 1. rewrite app_assoc. fold tw.
  destruct (N.eq_dec m 4) as [M4|M4].
  - assert (Dd : dropN m tw = []) by (apply dropN_all; lia).
    rewrite Dd. cbn [List.app].
    assert (T : takeN m tw = tw).
    { rewrite <- (takeN_app_dropN m tw) at 2. rewrite Dd, app_nil_r. reflexivity. }
    rewrite T, <- app_assoc, takeN_app_dropN. reflexivity.
  - assert (K : keep = 0) by (subst keep m; lia). rewrite K, takeN_zero, app_nil_r.
    change (dropN 0 pp) with pp. rewrite app_assoc, takeN_app_dropN. reflexivity.
Qed.

Lemma flate_emit_prog c s0 t0 b0 id : 0 < cap c -> is_control_ty t0 = false ->
  forall chunks D f s, prog c s0 t0 b0 id D s -> blen (f_tw f) <= 4 -> f_err f = None ->
  exists tw' fw s', flate_emit c chunks f s = (f <| f_tw := tw' |>, s') /\
    prog c s0 t0 b0 id (D ++ fw) s' /\ fl s' = fl s /\
    f_tw f ++ concat chunks = fw ++ tw' /\ blen tw' <= 4 /\ (blen tw' = 4 \/ fw = []).
Proof.
  intros Hcap Ht. induction chunks as [|ch rest IH]; intros D f s HP HB HE.
  - exists (f_tw f), [], s. cbn [flate_emit concat]. rewrite !app_nil_r.
    split; [destruct f; reflexivity|]. split; [exact HP|]. auto.
  - cbn [flate_emit]. rewrite HE.
    destruct (trunc_write_prog c s0 t0 b0 id D ch f s Hcap Ht HP HB) as (tw1 & fw1 & s1 & E1 & Q1 & L1 & R1 & B1 & C1).
    rewrite E1.
    assert (B1' : blen (f_tw (f <| f_tw := tw1 |>)) <= 4) by exact B1.
    assert (HE' : f_err (f <| f_tw := tw1 |>) = None) by exact HE.
    destruct (IH (D ++ fw1) (f <| f_tw := tw1 |>) s1 Q1 B1' HE') as (tw2 & fw2 & s2 & E2 & Q2 & L2 & R2 & B2 & C2).
    rewrite E2. exists tw2, (fw1 ++ fw2), s2.
    split; [destruct f; reflexivity|]. split; [rewrite app_assoc; exact Q2|]. split; [congruence|].
    cbn [f_tw set] in R2. split.
    { cbn [concat]. rewrite app_assoc, R1, <- app_assoc.
      change (f_tw (f <| f_tw := tw1 |>)) with tw1 in R2. rewrite R2, app_assoc. reflexivity. }
    split; [exact B2|].
    destruct C2 as [C2|C2]; [left; exact C2|]. subst fw2. rewrite app_nil_r.
    change (f_tw (f <| f_tw := tw1 |>)) with tw1 in R2. cbn [List.app] in R2.
    destruct C1 as [C1|C1]; [|right; exact C1].
    left. assert (X : blen tw2 = blen tw1 + blen (concat rest)) by (rewrite <- R2; apply blen_app). lia.
Qed.

(* WriteMessage of a data message with compression in force *)
Lemma write_message_flate c ty data ic wc cc s :
  cur s = None -> werr s = None -> fail_at s = None -> Forall len4 (keys s) ->
  w_negotiated c = true -> wcomp s = true -> is_data_ty ty = true ->
  0 < cap c -> tail_ok cc -> blen (concat wc ++ concat cc) < 2^62 ->
  exists s' l km ch z,
    write_message c ty data ic wc cc s = (None, s') /\
    wire s' = wire s ++ encode_frames (msgfs ty 4 l km ch) /\
    concat (map snd l) ++ ch = z /\ z ++ flate_tail = concat wc ++ concat cc /\
    Forall wf_frame (msgfs ty 4 l km ch) /\
    wf_wire (negb (w_server c)) true (tag (msgfs ty 4 l km ch)) = true /\
    open_after false (tag (msgfs ty 4 l km ch)) = false /\
    events_of (msgfs ty 4 l km ch) = [EMsg ty true z] /\
    werr s' = None /\ fail_at s' = None /\ cur s' = None /\ Forall len4 (keys s').
Proof.
  intros HC HW HF HK Hng Hwc Hty Hcap (pre & Htail) HB.
  assert (Hnctl : is_control_ty ty = false) by (apply data_not_control; exact Hty).
  unfold write_message. rewrite Hng, Hwc. cbn [negb orb]. rewrite andb_false_r.
  unfold next_writer. rewrite (begin_message_nf c ty ic s HC HW).
  rewrite Hnctl, Hty. cbn [negb andb].
  destruct (acquire_proj s) as (A1 & A2 & A3 & A4 & A5 & A6 & A7 & A8).
  unfold new_mw. cbv beta iota zeta. wsimpl.
  rewrite (aux_wcomp _ _ A6), Hwc, Hng. cbn [andb].
  set (id := nextid (acquire s)).
  set (m1 := {| m_id := id; m_buf := []; m_ftype := ty; m_compress := false; m_err := None |} <| m_compress := true |>).
  set (f0 := {| f_id := id; f_open := true; f_tw := []; f_err := None |}).
  set (s1 := acquire s <| nextid := S id |> <| cur := Some m1 |> <| cur_flate := true |> <| fl := Some f0 |>
               <| Writer.app := Some id |> <| app_flate := true |>).
  assert (S1 : werr s1 = None /\ fail_at s1 = None /\ keys s1 = keys s /\ wire s1 = wire s /\
               cur s1 = Some m1 /\ Writer.app s1 = Some id /\ app_flate s1 = true /\ fl s1 = Some f0).
  { unfold s1, wire, evs in *. wsimpl. rewrite A2, A3, A4. repeat split; congruence. }
  destruct S1 as (S1w & S1f & S1k & S1wi & S1c & S1a & S1af & S1fl).
  assert (P0 : prog c s1 ty true id [] s1).
  { exists [], m1. cbn [ofr encode_frames flat_map after map concat List.app]. rewrite app_nil_r, S1k.
    repeat split; auto. change (blen (m_buf m1)) with 0. lia. }
  (* Write *)
  unfold app_write. rewrite S1a, S1af, S1fl. change (f_id f0) with id. rewrite Nat.eqb_refl.
  unfold flate_write. change (f_open f0) with true. cbn [negb].
  destruct (flate_emit_prog c s1 ty true id Hcap Hnctl wc [] f0 s1 P0) as (tw1 & fw1 & s2 & E1 & Q1 & L1 & R1 & B1 & C1);
    [change (blen (f_tw f0)) with 0; lia|reflexivity|].
  rewrite E1. change (f_err (f0 <| f_tw := tw1 |>)) with (@None werror). cbv iota.
  set (f1 := f0 <| f_tw := tw1 |>).
  set (s3 := s2 <| fl := Some f1 |>).
  assert (Q3 : prog c s1 ty true id ([] ++ fw1) s3) by (apply prog_set_fl; exact Q1).
  (* Close *)
  unfold app_close.
  assert (S3 : Writer.app s3 = Some id /\ app_flate s3 = true /\ fl s3 = Some f1).
  { destruct Q1 as (l0 & m0 & Q). unfold s3. wsimpl. repeat split; [|]; try reflexivity;
      destruct Q as (_&_&_&_&_&_&_&_&_&_&_&_&Qa&Qb&_); congruence. }
  destruct S3 as (S3a & S3af & S3fl). rewrite S3a, S3af, S3fl.
  change (f_id f1) with id. rewrite Nat.eqb_refl.
  unfold flate_close. change (f_open f1) with true. cbn [negb].
  destruct (flate_emit_prog c s1 ty true id Hcap Hnctl cc ([] ++ fw1) f1 s3 Q3) as (tw2 & fw2 & s4 & E2 & Q2 & L2 & R2 & B2 & C2);
    [exact B1|reflexivity|].
  rewrite E2. cbv zeta.
  change (f_tw f0) with (@nil N) in R1. cbn [List.app] in R1. change (f_tw f1) with tw1 in R2.
  (* the truncWriter holds exactly the sync marker *)
  assert (T2 : tw2 = flate_tail).
  { assert (L4 : blen tw2 = 4).
    { destruct C2 as [C2|C2]; [exact C2|]. subst fw2. cbn [List.app] in R2.
      assert (X : blen tw2 = blen tw1 + blen (concat cc)) by (rewrite <- R2; apply blen_app).
      rewrite Htail, blen_app in X. change (blen flate_tail) with 4 in X. lia. }
    rewrite Htail, app_assoc in R2. symmetry. apply (app_eq_tail _ _ _ _ R2).
    unfold blen in L4. cbn [flate_tail length]. lia. }
  set (f2 := f1 <| f_tw := tw2 |> <| f_open := false |>).
  set (s5 := s4 <| fl := Some f2 |>).
  assert (Q5 : prog c s1 ty true id (([] ++ fw1) ++ fw2) s5) by (apply prog_set_fl; exact Q2).
  change (f_tw f2) with tw2. rewrite T2. change (beq [0;0;255;255] [0;0;255;255]) with true. cbn [negb].
  change (f_id f2) with id. change (f_err (f1 <| f_tw := tw2 |>)) with (@None werror).
  destruct Q5 as (l & m5 & P1 & P2 & P3 & P4 & P5 & P6 & P7 & P8 & P9 & P10 & P11 & P12 & P13 & P14 & P15).
  unfold is_cur. rewrite P3, P6, Nat.eqb_refl. unfold mw_close. rewrite P3.
  assert (Hnc5 : is_control_ty (m_ftype m5) = false) by (rewrite P8; destruct l; [exact Hnctl|reflexivity]).
  destruct (flush_frame_nf c true [] m5 s5 P1 P2 P5) as (s6 & E & F1 & F2 & F3 & F4 & _ & F6 & F7 & F8).
  { rewrite Hnc5. reflexivity. } { auto. }
  rewrite E.
  assert (Hnot8 : (m_ftype m5 =? c_CloseMessage) = false).
  { destruct (m_ftype m5 =? c_CloseMessage) eqn:E8; [|reflexivity]. apply N.eqb_eq in E8.
    rewrite E8 in Hnc5. discriminate Hnc5. }
  rewrite Hnot8 in F2.
  cbn [List.app] in P11.
  exists s6, l, (role_mkey c s5), (m_buf m5), (fw1 ++ fw2).
  split; [reflexivity|].
  split.
  { rewrite F8, P10, S1wi, <- app_assoc, app_nil_r. f_equal. unfold msgfs. rewrite encode_frames_app. f_equal.
    cbn [encode_frames flat_map]. rewrite app_nil_r, P8, P9. destruct l; reflexivity. }
  split; [exact P11|].
  assert (Hz : (fw1 ++ fw2) ++ flate_tail = concat wc ++ concat cc).
  { rewrite R1, <- !app_assoc. f_equal. rewrite R2, T2. reflexivity. }
  split; [exact Hz|].
  assert (Hzl : blen (fw1 ++ fw2) < 2^62).
  { assert (X : blen (concat wc ++ concat cc) = blen (fw1 ++ fw2) + 4) by (rewrite <- Hz; apply blen_app). lia. }
  assert (Hch : blen (m_buf m5) < 2^63).
  { assert (X : blen (fw1 ++ fw2) = blen (concat (map snd l)) + blen (m_buf m5)) by (rewrite <- P11; apply blen_app). lia. }
  assert (HL' : Forall (fun x : kc => kc_ok (negb (w_server c)) (fst x) /\ blen (snd x) < 2^63) l).
  { pose proof (chunk_le l) as Cl. rewrite Forall_forall in *. intros x Hx. split; [apply P12; exact Hx|].
    specialize (Cl x Hx). cbv beta in Cl.
    assert (X : blen (fw1 ++ fw2) = blen (concat (map snd l)) + blen (m_buf m5)) by (rewrite <- P11; apply blen_app). lia. }
  destruct (wf_msgfs (negb (w_server c)) true ty 4 l (role_mkey c s5) (m_buf m5) (data_ty_ok _ Hty)
              (or_intror (conj eq_refl eq_refl)) HL' (role_mkey_ok c s5 P4) Hch) as (W1 & W2 & W3).
  split; [exact W1|]. split; [exact W2|]. split; [exact W3|].
  split. { rewrite (events_msgfs ty 4 l _ _ (data_is_not_control _ Hty)), P11. reflexivity. }
  split; [exact F2|]. split; [exact F1|]. split; [exact F4|]. eapply keys_after_len4; eauto.
Qed.
