(* Part 3 (Z): ReadMessage for one message of a stream that may carry compressed messages.
   io.ReadAll ([read_all], uncompressed messages) and the flate reader's pull of the raw
   message bytes ([read_raw], compressed messages) are two instances of one generic driver
   [read_gen] that repeatedly calls messageReader.Read with sizes chosen by a "policy"; the
   main lemma [rg_main] is proved once for the generic driver: it collects exactly the
   concatenated payload of the message's frames, across frame boundaries and interleaved
   control frames, whatever the sizes asked for. *)
Require Import WS.Base.Bytes WS.gen.Consts WS.Spec.Frame WS.Spec.Conformance WS.Model.Bufio
  WS.Model.Reader WS.Proofs.BufioP WS.Proofs.FrameP.
From RecordUpdate Require Import RecordSet.
Import RecordSetNotations.
Require Import WS.Proofs.ReaderP1 WS.Proofs.ReaderP2 WS.Proofs.ReaderP3.
Require Import WS.Proofs.ReaderZ1 WS.Proofs.ReaderZ2.
Ltac Zify.zify_post_hook ::= Z.div_mod_to_equations.

(* ---------- the generic read driver ---------- *)
Fixpoint read_gen {P:Type} (psize : P -> nat) (pnext : P -> bytes -> P)
    (fuel:nat) (c:rcfg) (p:P) (acc:bytes) (s:rst) : bytes * option rerr * rst :=
  match fuel with
  | O => (acc, None, s <| outoffuel := true |>)
  | S f =>
    let '(d, e, s) := reader_read c (psize p) s in
    let acc := acc ++ d in
    match e with
    | Some RIoEOF => (acc, None, s)
    | Some e => (acc, Some e, s)
    | None => read_gen psize pnext f c (pnext p d) acc s
    end
  end.

Definition rg_cont {P:Type} (psize : P -> nat) (pnext : P -> bytes -> P)
    (fa:nat) (c:rcfg) (p:P) (acc:bytes) (r : bytes * option rerr * rst)
  : bytes * option rerr * rst :=
  let '(d, e, s) := r in
  let acc := acc ++ d in
  match e with
  | Some RIoEOF => (acc, None, s)
  | Some e => (acc, Some e, s)
  | None => read_gen psize pnext fa c (pnext p d) acc s
  end.

Lemma read_gen_S {P} (psize : P -> nat) pnext fa c p acc s :
  read_gen psize pnext (S fa) c p acc s =
  rg_cont psize pnext fa c p acc (reader_read c (psize p) s).
Proof. reflexivity. Qed.

(* io.ReadAll: policy = (bytes read so far, current capacity) *)
Definition psizeA (p : N * N) : nat := N.to_nat (snd p - fst p).
Definition pnextA (c:rcfg) (p : N * N) (d:bytes) : N * N :=
  (fst p + blen d, if fst p + blen d =? snd p then next_cap (caps c) (snd p) else snd p).
Definition pinvA (p : N * N) : Prop := fst p < snd p.

Lemma read_all_gen c : forall fuel len cp acc s,
  read_all fuel c len cp acc s = read_gen psizeA (pnextA c) fuel c (len, cp) acc s.
Proof.
  induction fuel as [|f IH]; intros len cp acc s; [reflexivity|].
  cbn [read_all read_gen]. unfold psizeA at 1. cbn [fst snd].
  destruct (reader_read c (N.to_nat (cp - len)) s) as [[d e] s1].
  destruct e as [e|]; [destruct e; reflexivity|].
  rewrite IH. reflexivity.
Qed.

Lemma psizeA_pos p : pinvA p -> (0 < psizeA p)%nat.
Proof. unfold pinvA, psizeA. lia. Qed.

Lemma pnextA_inv c p d : pinvA p -> d <> [] -> blen d <= N.of_nat (psizeA p) -> pinvA (pnextA c p d).
Proof.
  unfold pinvA, psizeA, pnextA. cbn [fst snd]. intros Hp Hd Hl.
  assert (0 < blen d) by (destruct d; [congruence|unfold blen; cbn [length]; lia]).
  destruct (N.eqb_spec (fst p + blen d) (snd p)) as [Hq|Hq];
    [pose proof (next_cap_gt (caps c) (snd p) ltac:(lia)); lia|lia].
Qed.

(* the flate reader's pull: always 4096 bytes *)
Definition psizeR (p:unit) : nat := 4096%nat.
Definition pnextR (p:unit) (d:bytes) : unit := p.

Lemma read_raw_gen c : forall fuel acc s,
  read_raw fuel c acc s = read_gen psizeR pnextR fuel c tt acc s.
Proof.
  induction fuel as [|f IH]; intros acc s; [reflexivity|].
  cbn [read_raw read_gen]. unfold psizeR at 1.
  destruct (reader_read c 4096 s) as [[d e] s1].
  destruct e as [e|]; [destruct e; reflexivity|].
  rewrite IH. reflexivity.
Qed.

Lemma psizeR_pos p : True -> (0 < psizeR p)%nat.
Proof. intros _. unfold psizeR. apply Nat.lt_0_succ. Qed.

(* ---------- expected result of ReadMessage for one message ---------- *)
(* uncompressed: the payload; compressed: inflate of (payload ++ 00 00 ff ff 01 00 00 ff ff),
   or the flate error.  After a flate error the connection is NOT poisoned in the model (the
   raw bytes of the message have been consumed up to its last frame): reading goes on with the
   next message. *)
Definition out_ofZ (inflate : bytes -> option bytes) (m : N * bool * bytes) : rout :=
  let '(ty, cz, d) := m in
  if cz then
    match inflate (d ++ ws_tail) with
    | Some x => RMsg ty x None
    | None => RMsg ty [] (Some RFlate)
    end
  else RMsg ty d None.

Section Main.
Variables (k:errk) (c:rcfg) (extra:bytes).
Hypothesis Hch : custom_handlers c = false.
Hypothesis Hx : extra <> [] \/ k = EEOF.

Section Gen.
Variable P : Type.
Variable psize : P -> nat.
Variable pnext : P -> bytes -> P.
Variable pinv : P -> Prop.
Hypothesis psize_pos : forall p, pinv p -> (0 < psize p)%nat.
Hypothesis pnext_inv : forall p d, pinv p -> d <> [] -> blen d <= N.of_nat (psize p) -> pinv (pnext p d).

(* reading from the middle of a frame ([wp] = wire bytes of the current frame still unread)
   to the end of the message *)
Lemma rg_main : forall fs n wp, length wp = n -> forall s fa fl p acc more pings after,
  rinv k s -> rem s = blen wp -> pending (br s) = wp ++ encode_frames fs ++ extra ->
  Forall wf_frame fs -> seq_okZ (server c) (negotiated c) (negb (rfin s)) fs = true ->
  rlen s + blen (encode_frames fs) < 2^63 ->
  pinv p -> (length (pending (br s)) < fl)%nat -> (length (pending (br s)) <= fa)%nat ->
  msg_tail (rfin s) fs = (more, pings, after) ->
  exists s', rg_cont psize pnext fa c p acc (read_loop fl c (psize p) s)
             = (acc ++ unmask c s wp ++ more, None, s') /\
    rinv_end k s' /\ rem s' = 0 /\ rfin s' = true /\
    pending (br s') = encode_frames after ++ extra /\ wlog s' = wlog s ++ map WPong pings.
Proof.
  induction fs as [|f fs IHfs].
  - (* no further frame: we are in the final frame of the message *)
    induction n as [n IHn] using lt_wf_ind.
    intros wp Hn s fa fl p acc more pings after Hrinv Hrem Hp Hwf Hseq Hrl Hpi Hfl Hfa Hmt.
    cbn [seq_okZ] in Hseq. apply negb_true_iff in Hseq. apply negb_false_iff in Hseq.
    rewrite Hseq in Hmt. cbn [msg_tail] in Hmt. inversion Hmt; subst more pings after. clear Hmt.
    pose proof Hrinv as (Hinv & Hbs & Hflt & Herr & Hoof & Hcs & Hrlim & Hecnt).
    destruct fl as [|fl]; [lia|].
    destruct wp as [|x wp'] eqn:Ewp.
    + rewrite (read_loop_eof fl c _ s Herr Hrem Hseq). cbn [rg_cont].
      eexists. split; [rewrite unmask_nil; reflexivity|]. rsimpl.
      split; [apply rinv_rinv_end; apply (rinv_upd k s); auto|].
      rewrite app_nil_r. cbn [encode_frames flat_map app map] in *. auto.
    + rewrite <- Ewp in *.
      assert (Hwne : wp <> []) by (rewrite Ewp; discriminate).
      pose proof (psize_pos p Hpi) as Hm.
      destruct (read_loop_chunk k c _ fl s wp (encode_frames [] ++ extra) Hrinv Hm Hwne Hrem Hp)
        as (w1 & w2 & e & s1 & Hw & Hw1 & Hb1 & Hrl1 & Hp1 & Hrem1 & Hfin1 & Hrlen1 & Hwl1 & Hun &
            Hinv1 & Hbs1 & Hfl1 & Hoof1 & Hcs1 & Hrlim1 & Herr1 & Hec1 & He).
      rewrite Hrl1. cbn [rg_cont].
      assert (Hbu : blen (unmask c s w1) = blen w1) by (unfold blen; rewrite unmask_length; reflexivity).
      assert (Hlen1 : (length (pending (br s)) = length w1 + length (pending (br s1)))%nat).
      { rewrite Hp, Hp1, Hw, <- app_assoc, app_length. reflexivity. }
      assert (Hw1pos : (0 < length w1)%nat) by (destruct w1; [congruence|cbn [length]; lia]).
      assert (Hune : unmask c s w1 <> []).
      { intros Hq. apply (f_equal (@length N)) in Hq. rewrite unmask_length in Hq. cbn [length] in Hq. lia. }
      destruct He as [-> | [Hnil ->]].
      * (* more to read *)
        destruct fa as [|fa]; [lia|].
        rewrite read_gen_S. unfold reader_read.
        assert (Hrinv1 : rinv k s1) by (unfold rinv; rewrite Hbs1, Hec1; auto 12).
        destruct (IHn (length w2) ltac:(subst n; rewrite Hw, app_length; lia) w2 eq_refl s1 fa
                    (fuel_of s1) (pnext p (unmask c s w1))
                    (acc ++ unmask c s w1) [] [] [])
          as (s' & Hres & Hend);
          [exact Hrinv1|exact Hrem1|exact Hp1|exact Hwf|rewrite Hfin1, Hseq; reflexivity
          |rewrite Hrlen1; exact Hrl
          |apply pnext_inv; [exact Hpi|exact Hune|rewrite Hbu; exact Hb1]
          |unfold fuel_of; lia|lia|rewrite Hfin1, Hseq; reflexivity|].
        exists s'. split.
        { rewrite Hres. rewrite Hun, <- !app_assoc. reflexivity. }
        rewrite Hwl1 in Hend. exact Hend.
      * (* the transport fault came with the last bytes of the stream *)
        apply app_eq_nil in Hnil. destruct Hnil as [Hw2 Hnil]. cbn [encode_frames flat_map app] in Hnil.
        destruct Hx as [Hx1|Hx1]; [contradiction|].
        rewrite Hseq, Hx1. cbn [negb andb errk_eqb of_errk].
        eexists. split.
        { rewrite Hw, Hw2, !app_nil_r. reflexivity. }
        split.
        { unfold rinv_end. rewrite Hbs1.
          split; [exact Hinv1|]. split; [exact Hbs|]. split; [rewrite Hfl1; exact Hx1|].
          split; [|split; [exact Hoof1|split; [exact Hcs1|split; [exact Hrlim1|rewrite Hec1; exact Hecnt]]]].
          right. rewrite Herr1, Hp1, Hw2, Hnil, Hseq, Hx1.
          cbn [negb andb errk_eqb of_errk app encode_frames flat_map]. auto. }
        rewrite Hrem1, Hw2, Hfin1, Hp1, Hw2, Hwl1, app_nil_r. cbn [map app]. auto.
  - (* at least one more frame *)
    induction n as [n IHn] using lt_wf_ind.
    intros wp Hn s fa fl p acc more pings after Hrinv Hrem Hp Hwf Hseq Hrl Hpi Hfl Hfa Hmt.
    pose proof Hrinv as (Hinv & Hbs & Hflt & Herr & Hoof & Hcs & Hrlim & Hecnt).
    destruct fl as [|fl]; [lia|].
    inversion Hwf as [|f' fs' Hwff Hwfs]; subst f' fs'.
    cbn [seq_okZ] in Hseq. apply andb_true_iff in Hseq. destruct Hseq as [Hacc Hseq].
    destruct wp as [|x wp'] eqn:Ewp.
    + (* frame boundary *)
      cbn [app] in Hp. rewrite encode_frames_cons, <- app_assoc in Hp.
      destruct (rfin s) eqn:Efin.
      * (* the message is complete *)
        cbn [msg_tail] in Hmt. inversion Hmt; subst more pings after. clear Hmt.
        rewrite (read_loop_eof fl c _ s Herr Hrem Efin). cbn [rg_cont].
        eexists. split; [rewrite unmask_nil; reflexivity|]. rsimpl.
        split; [apply rinv_rinv_end; apply (rinv_upd k s); auto|].
        rewrite app_nil_r, encode_frames_cons, <- app_assoc. cbn [map]. auto.
      * (* open message: the next frame is a control frame or a continuation *)
        cbn [negb] in Hacc, Hseq. cbn [msg_tail cont_msg] in Hmt.
        assert (Hlenp : (length (pending (br s)) =
                         length (encode_frame f) + length (encode_frames fs ++ extra))%nat)
          by (rewrite Hp, app_length; reflexivity).
        pose proof (encode_frame_length_ge2 f) as Hge2.
        assert (Hrlf : rlen s + plen f + blen (encode_frames fs) < 2^63).
        { rewrite encode_frames_cons, blen_app in Hrl. pose proof (encode_frame_ge_plen f). lia. }
        assert (Haccs : frame_accZ (server c) (negotiated c) (negb (rfin s)) f = true)
          by (rewrite Efin; exact Hacc).
        destruct (acc_casesZ _ _ _ _ Hacc) as [(Hctl & Hop & _)|(Hctl & [(_ & Hxx)|(Hop & _)])];
          [| discriminate Hxx |].
        -- (* ping / pong *)
           rewrite Hctl in Hmt. unfold next_open in Hseq. rewrite Hctl in Hseq.
           destruct (cont_msg fs) as [[d1 p1] a1] eqn:Ecm. inversion Hmt; subst more pings after. clear Hmt.
           destruct (advance_ctlZ k c s f (encode_frames fs ++ extra) Hrinv Hch Hwff Haccs Hctl Hp)
             as (s1 & Hadv & Hrinv1 & Hrem1 & Hfin1 & Hrlen1 & Hp1 & Hwl1).
           rewrite (read_loop_adv fl c _ s (opcode f) s1 Herr Hrem Efin Hadv) by lia.
           destruct (IHfs 0%nat [] eq_refl s1 fa fl p acc d1 p1 a1) as (s' & Hres & Hend);
             [exact Hrinv1|exact Hrem1|exact Hp1|exact Hwfs|rewrite Hfin1, Efin; exact Hseq
             |rewrite Hrlen1; rewrite encode_frames_cons, blen_app in Hrl; lia
             |exact Hpi|rewrite Hp1; lia|rewrite Hp1; lia
             |rewrite Hfin1, Efin; exact Ecm|].
           exists s'. split; [rewrite Hres, !unmask_nil; reflexivity|].
           rewrite Hwl1, <- app_assoc, <- map_app in Hend. exact Hend.
        -- (* continuation frame *)
           rewrite Hctl in Hmt. unfold next_open in Hseq. rewrite Hctl in Hseq.
           destruct (advance_dataZ k c s f (encode_frames fs ++ extra) Hrinv Hwff Haccs Hctl Hp)
             as (s1 & Hadv & Hrinv1 & Hrem1 & Hfin1 & Hrlen1 & Hp1 & Hun1 & _ & Hwl1);
             [rewrite Hop; change (0 =? 0) with true; cbv iota; lia|].
           rewrite Hop in Hrlen1. change (0 =? 0) with true in Hrlen1. cbv iota in Hrlen1.
           rewrite (read_loop_adv fl c _ s (opcode f) s1 Herr Hrem Efin Hadv) by lia.
           assert (Hwpl : (length (wire_payload f) <= length (encode_frame f) - 2)%nat).
           { rewrite encode_frame_decomp. cbn [length]. rewrite !app_length. lia. }
           assert (Hmt1 : exists more1, msg_tail (fin f) fs = (more1, pings, after) /\
                                        more = payload f ++ more1).
           { destruct (fin f).
             - inversion Hmt; subst. exists []. rewrite app_nil_r. auto.
             - cbn [msg_tail]. destruct (cont_msg fs) as [[d1 p1] a1]. inversion Hmt; subst.
               exists d1. auto. }
           destruct Hmt1 as (more1 & Hmt1 & ->).
           destruct (IHfs (length (wire_payload f)) (wire_payload f) eq_refl s1 fa fl p acc
                       more1 pings after) as (s' & Hres & Hend);
             [exact Hrinv1|rewrite Hrem1; symmetry; apply wire_payload_blen|exact Hp1|exact Hwfs
             |rewrite Hfin1; exact Hseq|rewrite Hrlen1; exact Hrlf
             |exact Hpi|rewrite Hp1, app_length; lia|rewrite Hp1, app_length; lia
             |rewrite Hfin1; exact Hmt1|].
           exists s'. split; [rewrite Hres, Hun1, unmask_nil; reflexivity|].
           rewrite Hwl1 in Hend. exact Hend.
    + (* inside a frame *)
      rewrite <- Ewp in *.
      assert (Hwne : wp <> []) by (rewrite Ewp; discriminate).
      pose proof (psize_pos p Hpi) as Hm.
      destruct (read_loop_chunk k c _ fl s wp (encode_frames (f :: fs) ++ extra) Hrinv Hm Hwne Hrem Hp)
        as (w1 & w2 & e & s1 & Hw & Hw1 & Hb1 & Hrl1 & Hp1 & Hrem1 & Hfin1 & Hrlen1 & Hwl1 & Hun &
            Hinv1 & Hbs1 & Hfl1 & Hoof1 & Hcs1 & Hrlim1 & Herr1 & Hec1 & He).
      rewrite Hrl1. cbn [rg_cont].
      assert (Hbu : blen (unmask c s w1) = blen w1) by (unfold blen; rewrite unmask_length; reflexivity).
      assert (Hlen1 : (length (pending (br s)) = length w1 + length (pending (br s1)))%nat).
      { rewrite Hp, Hp1, Hw, <- app_assoc, app_length. reflexivity. }
      assert (Hw1pos : (0 < length w1)%nat) by (destruct w1; [congruence|cbn [length]; lia]).
      assert (Hune : unmask c s w1 <> []).
      { intros Hq. apply (f_equal (@length N)) in Hq. rewrite unmask_length in Hq. cbn [length] in Hq. lia. }
      destruct He as [-> | [Hnil _]].
      * destruct fa as [|fa]; [lia|].
        rewrite read_gen_S. unfold reader_read.
        assert (Hrinv1 : rinv k s1) by (unfold rinv; rewrite Hbs1, Hec1; auto 12).
        destruct (IHn (length w2) ltac:(subst n; rewrite Hw, app_length; lia) w2 eq_refl s1 fa
                    (fuel_of s1) (pnext p (unmask c s w1))
                    (acc ++ unmask c s w1) more pings after)
          as (s' & Hres & Hend);
          [exact Hrinv1|exact Hrem1|exact Hp1|exact Hwf
          |rewrite Hfin1; cbn [seq_okZ]; rewrite Hacc, Hseq; reflexivity
          |rewrite Hrlen1; exact Hrl
          |apply pnext_inv; [exact Hpi|exact Hune|rewrite Hbu; exact Hb1]
          |unfold fuel_of; lia|lia|rewrite Hfin1; exact Hmt|].
        exists s'. split.
        { rewrite Hres. rewrite Hun, <- !app_assoc. reflexivity. }
        rewrite Hwl1 in Hend. exact Hend.
      * (* impossible: a whole frame is still pending *)
        exfalso. apply app_eq_nil in Hnil. destruct Hnil as [_ Hnil].
        apply app_eq_nil in Hnil. destruct Hnil as [Hnil _].
        apply encode_frames_nil_inv in Hnil. discriminate Hnil.
Qed.
End Gen.

(* the two instances: io.ReadAll ... *)
Lemma ra_mainZ fs wp s fa fl len cp acc more pings after :
  rinv k s -> rem s = blen wp -> pending (br s) = wp ++ encode_frames fs ++ extra ->
  Forall wf_frame fs -> seq_okZ (server c) (negotiated c) (negb (rfin s)) fs = true ->
  rlen s + blen (encode_frames fs) < 2^63 ->
  len < cp -> (length (pending (br s)) < fl)%nat -> (length (pending (br s)) <= fa)%nat ->
  msg_tail (rfin s) fs = (more, pings, after) ->
  exists s', ra_cont fa c len cp acc (read_loop fl c (N.to_nat (cp - len)) s)
             = (acc ++ unmask c s wp ++ more, None, s') /\
    rinv_end k s' /\ rem s' = 0 /\ rfin s' = true /\
    pending (br s') = encode_frames after ++ extra /\ wlog s' = wlog s ++ map WPong pings.
Proof.
  intros Hrinv Hrem Hp Hwf Hseq Hrl Hlc Hfl Hfa Hmt.
  destruct (rg_main (N*N) psizeA (pnextA c) pinvA psizeA_pos (pnextA_inv c)
              fs (length wp) wp eq_refl s fa fl (len, cp) acc more pings after
              Hrinv Hrem Hp Hwf Hseq Hrl Hlc Hfl Hfa Hmt) as (s' & Hres & Hend).
  exists s'. split; [|exact Hend].
  rewrite <- Hres. change (psizeA (len, cp)) with (N.to_nat (cp - len)).
  destruct (read_loop fl c (N.to_nat (cp - len)) s) as [[d e] s1].
  unfold ra_cont, rg_cont. destruct e as [e|]; [destruct e; reflexivity|].
  rewrite read_all_gen. reflexivity.
Qed.

(* ... and the raw pull of a compressed message *)
Definition rr_cont (fa:nat) (c:rcfg) (acc:bytes) (r : bytes * option rerr * rst)
  : bytes * option rerr * rst :=
  let '(d, e, s) := r in
  let acc := acc ++ d in
  match e with
  | Some RIoEOF => (acc, None, s)
  | Some e => (acc, Some e, s)
  | None => read_raw fa c acc s
  end.

Lemma read_raw_S fa c0 acc s :
  read_raw (S fa) c0 acc s = rr_cont fa c0 acc (reader_read c0 4096 s).
Proof. reflexivity. Qed.

Lemma rr_mainZ fs wp s fa fl acc more pings after :
  rinv k s -> rem s = blen wp -> pending (br s) = wp ++ encode_frames fs ++ extra ->
  Forall wf_frame fs -> seq_okZ (server c) (negotiated c) (negb (rfin s)) fs = true ->
  rlen s + blen (encode_frames fs) < 2^63 ->
  (length (pending (br s)) < fl)%nat -> (length (pending (br s)) <= fa)%nat ->
  msg_tail (rfin s) fs = (more, pings, after) ->
  exists s', rr_cont fa c acc (read_loop fl c 4096 s)
             = (acc ++ unmask c s wp ++ more, None, s') /\
    rinv_end k s' /\ rem s' = 0 /\ rfin s' = true /\
    pending (br s') = encode_frames after ++ extra /\ wlog s' = wlog s ++ map WPong pings.
Proof.
  intros Hrinv Hrem Hp Hwf Hseq Hrl Hfl Hfa Hmt.
  destruct (rg_main unit psizeR pnextR (fun _ => True) psizeR_pos (fun _ _ _ _ _ => I)
              fs (length wp) wp eq_refl s fa fl tt acc more pings after
              Hrinv Hrem Hp Hwf Hseq Hrl I Hfl Hfa Hmt) as (s' & Hres & Hend).
  exists s'. split; [|exact Hend].
  rewrite <- Hres. change (psizeR tt) with 4096%nat.
  destruct (read_loop fl c 4096 s) as [[d e] s1].
  unfold rr_cont, rg_cont. destruct e as [e|]; [destruct e; reflexivity|].
  rewrite read_raw_gen. reflexivity.
Qed.

(* ---------- NextReader's loop: skip leading pings/pongs, stop at the first data frame -------- *)
Lemma next_loop_specZ : forall fs p f r, find_data fs = Some (p, f, r) ->
  forall s fuel, rinv k s -> rem s = 0 -> rfin s = true ->
  pending (br s) = encode_frames fs ++ extra ->
  Forall wf_frame fs -> seq_okZ (server c) (negotiated c) false fs = true ->
  blen (encode_frames fs) < 2^63 -> (length (pending (br s)) < fuel)%nat ->
  exists s', next_loop fuel c s = (Some (opcode f), s') /\
    rinv k s' /\ rem s' = plen f /\ rfin s' = fin f /\ rlen s' = plen f /\
    pending (br s') = wire_payload f ++ encode_frames r ++ extra /\
    unmask c s' (wire_payload f) = payload f /\ rdecomp s' = (rsv f =? 4) /\
    wlog s' = wlog s ++ map WPong p /\
    Forall wf_frame r /\ seq_okZ (server c) (negotiated c) (negb (fin f)) r = true /\
    plen f + blen (encode_frames r) < 2^63 /\ (opcode f = 1 \/ opcode f = 2).
Proof.
  induction fs as [|g fs IH]; intros p f r Hfd s fuel Hrinv Hrem Hfin Hp Hwf Hseq Hlen Hfuel;
    [discriminate Hfd|].
  pose proof Hrinv as (Hinv & Hbs & Hflt & Herr & Hoof & Hcs & Hrlim & Hecnt).
  inversion Hwf as [|g' fs' Hwfg Hwfs]; subst g' fs'.
  cbn [seq_okZ] in Hseq. apply andb_true_iff in Hseq. destruct Hseq as [Hacc Hseq].
  rewrite encode_frames_cons, <- app_assoc in Hp.
  rewrite encode_frames_cons, blen_app in Hlen.
  pose proof (encode_frame_length_ge2 g) as Hge2.
  assert (Hlenp : (length (pending (br s)) =
                   length (encode_frame g) + length (encode_frames fs ++ extra))%nat)
    by (rewrite Hp, app_length; reflexivity).
  assert (Haccs : frame_accZ (server c) (negotiated c) (negb (rfin s)) g = true)
    by (rewrite Hfin; exact Hacc).
  destruct fuel as [|fuel]; [lia|].
  cbn [next_loop]. rewrite Herr. rewrite advance_frame_rem0 by exact Hrem.
  cbn [find_data] in Hfd. unfold next_open in Hseq.
  destruct (is_control (opcode g)) eqn:Hctl.
  - destruct (find_data fs) as [[[p1 d1] a1]|] eqn:Efd; [|discriminate Hfd].
    inversion Hfd; subst p d1 a1. clear Hfd.
    destruct (advance_ctlZ k c s g (encode_frames fs ++ extra) Hrinv Hch Hwfg Haccs Hctl Hp)
      as (s1 & Hadv & Hrinv1 & Hrem1 & Hfin1 & Hrlen1 & Hp1 & Hwl1).
    rewrite Hadv. cbv iota.
    destruct (acc_casesZ _ _ _ _ Hacc) as [(_ & Hop & _)|(Hc & _)]; [|congruence].
    unfold c_TextMessage, c_BinaryMessage.
    replace ((opcode g =? 1) || (opcode g =? 2)) with false by lia. cbv iota.
    destruct (IH p1 f r eq_refl s1 fuel Hrinv1 Hrem1) as (s' & Hres & Hrest);
      [rewrite Hfin1; exact Hfin|exact Hp1|exact Hwfs|exact Hseq|lia|rewrite Hp1; lia|].
    exists s'. split; [exact Hres|].
    rewrite Hwl1, <- app_assoc, <- map_app in Hrest. exact Hrest.
  - inversion Hfd; subst p g fs. clear Hfd.
    destruct (acc_casesZ _ _ _ _ Hacc) as [(Hc & _)|(_ & [(Hop & _)|(_ & Hxx)])];
      [congruence| |discriminate Hxx].
    assert (Hop0 : (opcode f =? 0) = false) by lia.
    destruct (advance_dataZ k c s f (encode_frames r ++ extra) Hrinv Hwfg Haccs Hctl Hp)
      as (s1 & Hadv & Hrinv1 & Hrem1 & Hfin1 & Hrlen1 & Hp1 & Hun1 & Hdec1 & Hwl1);
      [rewrite Hop0; pose proof (encode_frame_ge_plen f); lia|].
    rewrite Hop0 in Hrlen1.
    rewrite Hadv. cbv iota.
    unfold c_TextMessage, c_BinaryMessage.
    replace ((opcode f =? 1) || (opcode f =? 2)) with true by lia. cbv iota.
    eexists. split; [reflexivity|]. unfold unmask in *. rsimpl.
    split; [apply (rinv_same k s1); [exact Hrinv1|reflexivity ..]|].
    cbn [map]. rewrite app_nil_r.
    pose proof (encode_frame_ge_plen f).
    repeat split; try assumption; try lia.
Qed.

(* ---------- ReadMessage: one whole message, compressed or not ---------- *)
Theorem read_message_oneZ inflate fs s ty cz d p a :
  rinv k s -> rem s = 0 -> rfin s = true ->
  pending (br s) = encode_frames fs ++ extra ->
  Forall wf_frame fs -> seq_okZ (server c) (negotiated c) false fs = true ->
  blen (encode_frames fs) < 2^63 ->
  first_msgZ fs = Some (ty, cz, d, p, a) ->
  exists s', read_message inflate c s = (out_ofZ inflate (ty, cz, d), s') /\
    rinv_end k s' /\ rem s' = 0 /\ rfin s' = true /\
    pending (br s') = encode_frames a ++ extra /\ wlog s' = wlog s ++ map WPong p.
Proof.
  intros Hrinv Hrem Hfin Hp Hwf Hseq Hlen Hfm.
  unfold first_msgZ in Hfm.
  destruct (find_data fs) as [[[p1 f] r]|] eqn:Efd; [|discriminate Hfm].
  destruct (msg_tail (fin f) r) as [[more p2] a2] eqn:Emt. inversion Hfm; subst ty cz d p a2. clear Hfm.
  set (s0 := s <| cur := None |> <| rlen := 0 |>).
  assert (Hrinv0 : rinv k s0) by (apply (rinv_same k s); [exact Hrinv|reflexivity ..]).
  destruct (next_loop_specZ fs p1 f r Efd s0 (fuel_of s0) Hrinv0) as
    (s1 & Hnl & Hrinv1 & Hrem1 & Hfin1 & Hrlen1 & Hp1 & Hun1 & Hdec1 & Hwl1 & Hwfr & Hseqr & Hlenr & Hop);
    [exact Hrem|exact Hfin|exact Hp|exact Hwf|exact Hseq|exact Hlen|unfold fuel_of; lia|].
  unfold read_message, next_reader. fold s0. rewrite Hnl. cbv iota. rewrite Hdec1.
  unfold out_ofZ.
  destruct (rsv f =? 4); cbv iota.
  - (* compressed: the raw bytes of the whole message, then inflate *)
    unfold fuel_of at 1. rewrite read_raw_S. unfold reader_read.
    destruct (rr_mainZ r (wire_payload f) s1
                (S (length (pending (br s1)))) (fuel_of s1) [] more p2 a)
      as (s' & Hres & Hend);
      [exact Hrinv1|rewrite Hrem1; symmetry; apply wire_payload_blen|exact Hp1|exact Hwfr
      |rewrite Hfin1; exact Hseqr|rewrite Hrlen1; exact Hlenr|unfold fuel_of; lia|lia
      |rewrite Hfin1; exact Emt|].
    rewrite Hres. cbn [app]. rewrite Hun1.
    exists s'. split.
    { destruct (inflate ((payload f ++ more) ++ ws_tail)); reflexivity. }
    rewrite Hwl1, <- app_assoc, <- map_app in Hend. exact Hend.
  - (* uncompressed: io.ReadAll *)
    unfold fuel_of at 1. rewrite read_all_S. unfold reader_read.
    destruct (ra_mainZ r (wire_payload f) s1
                (S (length (pending (br s1)))) (fuel_of s1) 0 512 [] more p2 a)
      as (s' & Hres & Hend);
      [exact Hrinv1|rewrite Hrem1; symmetry; apply wire_payload_blen|exact Hp1|exact Hwfr
      |rewrite Hfin1; exact Hseqr|rewrite Hrlen1; exact Hlenr|lia|unfold fuel_of; lia|lia
      |rewrite Hfin1; exact Emt|].
    rewrite Hres. cbn [app]. rewrite Hun1.
    exists s'. split; [reflexivity|].
    rewrite Hwl1, <- app_assoc, <- map_app in Hend. exact Hend.
Qed.

End Main.

(* ---------- one more ReadMessage when only control frames (or nothing) are left ---------- *)
Section EndOfStream.
Variables (k:errk) (c:rcfg).
Hypothesis Hch : custom_handlers c = false.

Lemma next_loop_endZ : forall cs s fuel, all_ctl cs = true ->
  rinv k s -> rem s = 0 -> rfin s = true -> pending (br s) = encode_frames cs ->
  Forall wf_frame cs -> seq_okZ (server c) (negotiated c) false cs = true ->
  (length (pending (br s)) < fuel)%nat ->
  exists s', next_loop fuel c s = (None, s') /\
    rerror s' = Some (of_berror (BErr k)) /\ wlog s' = wlog s ++ map WPong (pings_of cs) /\
    outoffuel s' = false /\ closesent s' = false /\ pending (br s') = [] /\
    errcount s' = 0%nat /\ rem s' = 0 /\ rfin s' = true /\ binv (br s').
Proof.
  induction cs as [|g cs IH]; intros s fuel Hall Hrinv Hrem Hfin Hp Hwf Hseq Hfuel;
    pose proof Hrinv as (Hinv & Hbs & Hflt & Herr & Hoof & Hcs & Hrlim & Hecnt);
    (destruct fuel as [|fuel]; [lia|]);
    cbn [next_loop]; rewrite Herr; rewrite advance_frame_rem0 by exact Hrem.
  - cbn [encode_frames flat_map] in Hp.
    destruct (advance_end k c s Hrinv Hp) as (s1 & Hadv & Hrinv1 & Hrem1 & Hf & Hwl1 & Hp1).
    destruct Hrinv1 as (Hinv1 & Hbs1 & Hflt1 & Herr1 & Hoof1 & Hcs1 & Hrlim1 & Hecnt1).
    rewrite Hadv. cbv iota. eexists. split; [reflexivity|]. rsimpl.
    cbn [pings_of flat_map map]. rewrite app_nil_r.
    rewrite Hrem1, Hf. auto 12.
  - rewrite all_ctl_cons in Hall. apply andb_true_iff in Hall. destruct Hall as [Hctl Hall].
    inversion Hwf as [|g' cs' Hwfg Hwfs]; subst g' cs'.
    cbn [seq_okZ] in Hseq. apply andb_true_iff in Hseq. destruct Hseq as [Hacc Hseq].
    unfold next_open in Hseq. rewrite Hctl in Hseq.
    rewrite encode_frames_cons in Hp.
    assert (Haccs : frame_accZ (server c) (negotiated c) (negb (rfin s)) g = true)
      by (rewrite Hfin; exact Hacc).
    destruct (advance_ctlZ k c s g (encode_frames cs) Hrinv Hch Hwfg Haccs Hctl Hp)
      as (s1 & Hadv & Hrinv1 & Hrem1 & Hfin1 & Hrlen1 & Hp1 & Hwl1).
    rewrite Hadv. cbv iota.
    destruct (acc_casesZ _ _ _ _ Hacc) as [(_ & Hop & _)|(Hc & _)]; [|congruence].
    unfold c_TextMessage, c_BinaryMessage.
    replace ((opcode g =? 1) || (opcode g =? 2)) with false by lia. cbv iota.
    pose proof (encode_frame_length_ge2 g) as Hge2.
    destruct (IH s1 fuel Hall Hrinv1 Hrem1) as (s' & Hres & Hrest);
      [rewrite Hfin1; exact Hfin|exact Hp1|exact Hwfs|exact Hseq
      |rewrite Hp, app_length in Hfuel; rewrite Hp1; lia|].
    exists s'. split; [exact Hres|].
    rewrite Hwl1, <- app_assoc, <- map_app in Hrest. exact Hrest.
Qed.

Lemma read_message_endZ inflate cs s : all_ctl cs = true ->
  rinv k s -> rem s = 0 -> rfin s = true -> pending (br s) = encode_frames cs ->
  Forall wf_frame cs -> seq_okZ (server c) (negotiated c) false cs = true ->
  exists s', read_message inflate c s = (RMsg 0 [] (Some (of_berror (BErr k))), s') /\
    rerror s' = Some (of_berror (BErr k)) /\ wlog s' = wlog s ++ map WPong (pings_of cs) /\
    outoffuel s' = false /\ closesent s' = false /\ pending (br s') = [] /\
    rem s' = 0 /\ rfin s' = true /\ binv (br s').
Proof.
  intros Hall Hrinv Hrem Hfin Hp Hwf Hseq.
  set (s0 := s <| cur := None |> <| rlen := 0 |>).
  assert (Hrinv0 : rinv k s0) by (apply (rinv_same k s); [exact Hrinv|reflexivity ..]).
  destruct (next_loop_endZ cs s0 (fuel_of s0) Hall Hrinv0 Hrem Hfin Hp Hwf Hseq)
    as (s1 & Hnl & Herr1 & Hwl1 & Hoof1 & Hcs1 & Hp1 & Hec1 & Hrem1 & Hfin1 & Hinv1);
    [unfold fuel_of; lia|].
  unfold read_message, next_reader. fold s0. rewrite Hnl. cbv iota zeta. rsimpl. rewrite Hec1.
  cbn [Nat.leb]. rewrite Herr1. eexists. split; [reflexivity|]. rsimpl. auto 12.
Qed.
End EndOfStream.

Print Assumptions rg_main.
Print Assumptions ra_mainZ.
Print Assumptions rr_mainZ.
Print Assumptions next_loop_specZ.
Print Assumptions read_message_oneZ.
Print Assumptions read_message_endZ.
