(* WriteMessage on a live, fault-free connection with no writer open: the fast path (server, no
   compression) and the message-writer path, for messages that are not compressed. *)
Require Import WS.Base.Bytes WS.gen.Consts WS.Spec.Frame WS.Proofs.FrameP WS.Model.Writer.
From RecordUpdate Require Import RecordSet.
Import RecordSetNotations.
Require Import WS.Proofs.WWBase WS.Proofs.WWInv.
Require Import WS.Proofs.PrepBase WS.Proofs.PrepFrames WS.Proofs.PrepLoop.
Ltac Zify.zify_post_hook ::= Z.div_mod_to_equations.

Definition acquire (s:wst) : wst := if held s then s else log TGet (s <| held := true |>).

Lemma acquire_proj s :
  cur (acquire s) = cur s /\ werr (acquire s) = werr s /\ fail_at (acquire s) = fail_at s /\
  keys (acquire s) = keys s /\ wire (acquire s) = wire s /\ aux (acquire s) = aux s /\
  cur_flate (acquire s) = cur_flate s /\ nextid (acquire s) = nextid s.
Proof.
  unfold acquire. destruct (held s); [repeat split; reflexivity|].
  rewrite wire_log. cbn [pay]. rewrite app_nil_r. unfold log, wire, evs, aux. wsimpl. repeat split; reflexivity.
Qed.

Lemma begin_message_nf c ty ic s : cur s = None -> werr s = None ->
  begin_message c ty ic s =
  if negb (is_control_ty ty) && negb (is_data_ty ty) then (Some WBadOpCode, s) else (None, acquire s).
Proof.
  intros HC HW. unfold begin_message, close_current. rewrite HC. cbv zeta.
  destruct (negb (is_control_ty ty) && negb (is_data_ty ty)); [reflexivity|].
  rewrite HW. reflexivity.
Qed.

Definition msg_valid (ty:N) (data:bytes) : Prop :=
  is_data_ty ty = true \/ (is_control_ty ty = true /\ blen data <= 125).

Lemma data_ty_ok ty : is_data_ty ty = true -> ty_ok ty.
Proof. unfold is_data_ty, ty_ok, c_TextMessage, c_BinaryMessage. lia. Qed.
Lemma control_ty_ok ty : is_control_ty ty = true -> ctl_ok ty.
Proof. unfold is_control_ty, ctl_ok, c_CloseMessage, c_PingMessage, c_PongMessage. lia. Qed.
Lemma data_not_control ty : is_data_ty ty = true -> is_control_ty ty = false.
Proof. unfold is_data_ty, is_control_ty, c_TextMessage, c_BinaryMessage, c_CloseMessage, c_PingMessage, c_PongMessage. lia. Qed.
Lemma control_is_control ty : is_control_ty ty = true -> is_control ty = true.
Proof. intros H. apply control_ty_ok in H. destruct H as [->|[->| ->]]; reflexivity. Qed.
Lemma data_is_not_control ty : is_data_ty ty = true -> is_control ty = false.
Proof. intros H. apply data_ty_ok in H. destruct H as [->| ->]; reflexivity. Qed.

(* the bytes of the single unmasked frame *)
Lemma server_frame_bytes ty data :
  encode_frame (mkf true ty 0 None data) = frame_header (ty + c_finalBit) 0 (blen data) ++ data.
Proof.
  rewrite <- (frame_header_enc true 0 ty None data (ty + c_finalBit)).
  - reflexivity.
  - unfold c_finalBit. cbn [b2n]. lia.
Qed.

(* ---- fast path ---- *)
Lemma write_message_fast c ty data ic wc cc s :
  cur s = None -> werr s = None -> fail_at s = None ->
  w_server c && (negb (w_negotiated c) || negb (wcomp s)) = true ->
  (negb (is_control_ty ty) && negb (is_data_ty ty) = true /\
     write_message c ty data ic wc cc s = (Some WBadOpCode, s)) \/
  (is_control_ty ty = true /\ 125 < blen data /\
     exists s', write_message c ty data ic wc cc s = (Some WInvalidControl, s') /\
                wire s' = wire s /\ werr s' = None) \/
  (msg_valid ty data /\
     exists s', write_message c ty data ic wc cc s = (None, s') /\
       wire s' = wire s ++ encode_frame (mkf true ty 0 None data) /\
       werr s' = (if ty =? c_CloseMessage then Some WCloseSent else None) /\
       fail_at s' = None /\ cur s' = None /\ keys s' = keys s /\ aux s' = aux s).
Proof.
  intros HC HW HF Hfast. unfold write_message. rewrite Hfast, (begin_message_nf c ty ic s HC HW).
  assert (Hsrv : w_server c = true) by (destruct (w_server c); [reflexivity|discriminate Hfast]).
  destruct (negb (is_control_ty ty) && negb (is_data_ty ty)) eqn:EV; [left; auto|right].
  destruct (acquire_proj s) as (A1 & A2 & A3 & A4 & A5 & A6 & A7 & A8).
  unfold new_mw. cbv beta iota zeta.
  set (n := N.min (cap c) (blen data)).
  set (m := {| m_id := nextid (acquire s); m_buf := []; m_ftype := ty; m_compress := false; m_err := None |}
              <| m_buf := takeN n data |>).
  set (s2 := acquire s <| nextid := S (nextid (acquire s)) |> <| cur := None |>).
  assert (S2 : werr s2 = None /\ fail_at s2 = None /\ keys s2 = keys s /\ wire s2 = wire s /\ aux s2 = aux s).
  { unfold s2, wire, evs, aux in *. wsimpl. rewrite A2, A3, A4. repeat split; congruence. }
  destruct S2 as (S2w & S2f & S2k & S2wi & S2a).
  assert (Hlen : blen (m_buf m) + blen (dropN n data) = blen data).
  { unfold m. wsimpl. rewrite <- blen_app, takeN_app_dropN. reflexivity. }
  assert (Hbuf : m_buf m ++ dropN n data = data) by (unfold m; wsimpl; apply takeN_app_dropN).
  destruct (is_control_ty ty && (125 <? blen data)) eqn:EC.
  - left. apply andb_true_iff in EC. destruct EC as [EC1 EC2].
    split; [exact EC1|]. split; [lia|].
    unfold flush_frame. cbv zeta. change (m_ftype m) with ty. rewrite Hlen, EC1.
    unfold c_maxControlFramePayloadSize. rewrite EC2. cbn [negb orb andb].
    eexists. split; [reflexivity|].
    destruct (end_message_eff c WInvalidControl m s2 eq_refl) as (E1&E2&E3&E4&E5&E6&E7).
    rewrite E7, E5. auto.
  - right. split.
    { unfold msg_valid. destruct (is_control_ty ty) eqn:E1; destruct (is_data_ty ty) eqn:E2;
        cbn [negb andb] in *; try discriminate; auto; right; split; auto; lia. }
    destruct (flush_frame_nf c true (dropN n data) m s2 S2w S2f eq_refl) as (s' & E & F1 & F2 & F3 & F4 & _ & F6 & F7 & F8).
    { change (m_ftype m) with ty. rewrite Hlen. cbn [negb orb]. exact EC. }
    { rewrite Hsrv. intros X; discriminate X. }
    exists s'. split; [exact E|]. rewrite F8, F2, F3, F7, Hsrv, S2wi, S2k, S2a, Hbuf.
    change (m_ftype m) with ty. change (m_compress m) with false. cbv iota.
    unfold role_mkey. rewrite Hsrv. auto 10.
Qed.

(* ---- the message-writer path, message not compressed ---- *)
Lemma write_message_slow c ty data ic wc cc s :
  cur s = None -> werr s = None -> fail_at s = None -> Forall len4 (keys s) ->
  w_server c && (negb (w_negotiated c) || negb (wcomp s)) = false ->
  w_negotiated c && wcomp s && is_data_ty ty = false ->
  msg_valid ty data -> 0 < cap c -> (is_control_ty ty = true -> blen data <= cap c) ->
  exists s' l k ch,
    write_message c ty data ic wc cc s = (None, s') /\
    wire s' = wire s ++ encode_frames (msgfs ty 0 l k ch) /\
    concat (map snd l) ++ ch = data /\
    Forall (fun x : kc => kc_ok (negb (w_server c)) (fst x) /\ blen (snd x) = cap c) l /\
    kc_ok (negb (w_server c)) k /\ blen ch <= cap c /\ (data <> [] -> ch <> []) /\
    (l <> [] -> is_control_ty ty = false) /\
    werr s' = (if ty =? c_CloseMessage then Some WCloseSent else None) /\
    fail_at s' = None /\ cur s' = None /\ Forall len4 (keys s').
Proof.
  intros HC HW HF HK Hslow Hnc HV Hcap HCtl. unfold write_message. rewrite Hslow.
  unfold next_writer. rewrite (begin_message_nf c ty ic s HC HW).
  assert (EV : negb (is_control_ty ty) && negb (is_data_ty ty) = false).
  { destruct HV as [H|[H _]]; rewrite H; cbn [negb andb]; [apply andb_false_r|reflexivity]. }
  rewrite EV. destruct (acquire_proj s) as (A1 & A2 & A3 & A4 & A5 & A6 & A7 & A8).
  unfold new_mw. cbv beta iota zeta. wsimpl.
  assert (Hwc : wcomp (acquire s) = wcomp s) by (apply aux_wcomp; exact A6).
  rewrite Hwc, Hnc.
  set (m := {| m_id := nextid (acquire s); m_buf := []; m_ftype := ty; m_compress := false; m_err := None |}).
  set (s1 := acquire s <| nextid := S (nextid (acquire s)) |> <| cur := Some m |> <| cur_flate := false |>
               <| Writer.app := Some (nextid (acquire s)) |> <| app_flate := false |>).
  assert (S1 : werr s1 = None /\ fail_at s1 = None /\ keys s1 = keys s /\ wire s1 = wire s /\
               cur s1 = Some m /\ Writer.app s1 = Some (m_id m) /\ app_flate s1 = false).
  { unfold s1, wire, evs in *. wsimpl. rewrite A2, A3, A4. repeat split; congruence. }
  destruct S1 as (S1w & S1f & S1k & S1wi & S1c & S1a & S1af).
  (* Write *)
  unfold app_write. rewrite S1a, S1af. unfold is_cur at 1. rewrite S1c, Nat.eqb_refl.
  unfold mw_write. rewrite S1c.
  assert (Hbig : (2 * w_bufsize c <? blen data) && w_server c = false).
  { destruct (w_server c) eqn:ES; [|apply andb_false_r]. rewrite andb_true_r.
    cbn [andb] in Hslow. destruct (w_negotiated c), (wcomp s); cbn in Hslow; try discriminate.
    cbn [andb] in Hnc. destruct HV as [H|[H _]]; [rewrite H in Hnc; discriminate|].
    specialize (HCtl H). unfold cap in *. lia. }
  rewrite Hbig.
  destruct (copy_loop_nf c Hcap (loop_fuel c data) data s1 m S1w S1f S1c eq_refl)
    as (s2 & l & m2 & G0 & G1 & G2 & G3 & G4 & G5 & G6 & G7 & G8 & G9 & G10 & G11 & G12 & G13 & G14 & G15 & G16).
  { change (blen (m_buf m)) with 0. lia. }
  { change (blen (m_buf m)) with 0. change (m_ftype m) with ty. intros X. specialize (HCtl X). lia. }
  { rewrite S1k. exact HK. }
  { unfold loop_fuel. destruct (blen (m_buf m) =? cap c); lia. }
  rewrite G0.
  (* Close *)
  unfold app_close. rewrite (aux_app _ _ G6), (aux_app_flate _ _ G6), S1a, S1af.
  unfold is_cur. rewrite G3, G8, Nat.eqb_refl. unfold mw_close. rewrite G3.
  change (m_ftype m) with ty in *. change (m_compress m) with false in *. change (m_buf m) with (@nil N) in G13.
  cbn [List.app] in G13.
  assert (Hm2c : m_compress m2 = false) by (rewrite G11; destruct l; reflexivity).
  assert (Hchk : is_control_ty (m_ftype m2) && (negb true || (c_maxControlFramePayloadSize <? blen (m_buf m2) + blen [])) = false).
  { rewrite G10. destruct l as [|x l'].
    - cbn [after]. cbn [map concat List.app] in G13. rewrite G13.
      destruct HV as [H|[H H2]]; [rewrite (data_not_control _ H); reflexivity|].
      rewrite H. change (blen []) with 0. unfold c_maxControlFramePayloadSize. cbn [negb orb andb]. lia.
    - reflexivity. }
  destruct (flush_frame_nf c true [] m2 s2 G1 G2 G7 Hchk (fun _ => eq_refl))
    as (s3 & E & F1 & F2 & F3 & F4 & _ & F6 & F7 & F8).
  rewrite E. exists s3, l, (role_mkey c s2), (m_buf m2).
  split; [reflexivity|].
  split.
  { rewrite F8, G12, S1wi, <- app_assoc. f_equal. unfold msgfs. rewrite encode_frames_app. f_equal.
    cbn [encode_frames flat_map]. rewrite !app_nil_r, G10, Hm2c. cbn [rsv_of].
    destruct l; reflexivity. }
  split; [exact G13|]. split; [exact G14|]. split; [apply role_mkey_ok; exact G4|].
  split; [exact G9|]. split; [intros X Y; apply X; apply (G16 Y)|]. split; [exact G15|].
  split.
  { rewrite F2, G10. destruct l as [|x l']; [reflexivity|]. cbn [after].
    specialize (G15 ltac:(discriminate)).
    destruct (ty =? c_CloseMessage) eqn:E8; [|reflexivity]. apply N.eqb_eq in E8. rewrite E8 in G15.
    discriminate G15. }
  split; [exact F1|]. split; [exact F4|]. eapply keys_after_len4; eauto.
Qed.
