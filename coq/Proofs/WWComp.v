(* Write path: nothing but EnableWriteCompression touches the enableWriteCompression flag; in
   particular beginMessage (with its implicit close of the previous writer) keeps it. *)
Require Import WS.Base.Bytes WS.gen.Consts WS.Model.Writer.
From RecordUpdate Require Import RecordSet.
Import RecordSetNotations.
Require Import WS.Proofs.WWBase.

Definition wceq (s s':wst) : Prop := wcomp s' = wcomp s.
Lemma wceq_refl s : wceq s s. Proof. reflexivity. Qed.
Lemma wceq_trans a b c : wceq a b -> wceq b c -> wceq a c.
Proof. unfold wceq. congruence. Qed.

Lemma next_fault_wc s f s' : next_fault s = (f, s') -> wceq s s'.
Proof.
  unfold next_fault. cbv zeta. destruct (fail_at _) as [[k fk]|]; [destruct (Nat.eqb k (tops s))|];
    intros H; inversion H; subst; reflexivity.
Qed.

Lemma t_setdl_wc d s e s' : t_setdl d s = (e, s') -> wceq s s'.
Proof.
  unfold t_setdl. destruct (next_fault s) as [f s1] eqn:E. apply next_fault_wc in E.
  destruct f; intros H; inversion H; subst; exact E.
Qed.

Lemma t_write_wc b s e s' : t_write b s = (e, s') -> wceq s s'.
Proof.
  unfold t_write. destruct (next_fault s) as [f s1] eqn:E. apply next_fault_wc in E.
  destruct f as [[| |n]|]; intros H; inversion H; subst; exact E.
Qed.

Lemma pop_key_wc s k s' : pop_key s = (k, s') -> wceq s s'.
Proof. unfold pop_key. destruct (keys s); intros H; inversion H; subst; reflexivity. Qed.

Lemma keyed_write_wc masked mk s e s' : keyed_write masked mk s = (e, s') -> wceq s s'.
Proof.
  unfold keyed_write. destruct masked.
  - destruct (pop_key s) as [k s1] eqn:E. apply pop_key_wc in E. intros H. apply t_write_wc in H.
    eapply wceq_trans; eassumption.
  - apply t_write_wc.
Qed.

Lemma write_fatal_wc e s : wceq s (write_fatal e s).
Proof. unfold write_fatal. destruct (werr s); reflexivity. Qed.

Lemma conn_write_wc ftype dl masked mk buf1 s e s' :
  conn_write ftype dl masked mk buf1 s = (e, s') -> wceq s s'.
Proof.
  unfold conn_write. destruct (werr s); [intros H; inversion H; subst; reflexivity|].
  destruct (t_setdl dl s) as [e1 s1] eqn:E1. apply t_setdl_wc in E1.
  destruct e1; [intros H; inversion H; subst; eapply wceq_trans; [exact E1|apply write_fatal_wc]|].
  destruct (keyed_write masked mk s1) as [e2 s2] eqn:E2. apply keyed_write_wc in E2.
  assert (E02 : wceq s s2) by (eapply wceq_trans; eassumption).
  destruct e2; [intros H; inversion H; subst; eapply wceq_trans; [exact E02|apply write_fatal_wc]|].
  destruct buf1 as [|x r].
  - intros H; inversion H; subst. destruct (ftype =? c_CloseMessage); [|exact E02].
    eapply wceq_trans; [exact E02|apply write_fatal_wc].
  - destruct (t_write (x :: r) s2) as [e3 s3] eqn:E3. apply t_write_wc in E3.
    assert (E03 : wceq s s3) by (eapply wceq_trans; eassumption).
    destruct e3; intros H; inversion H; subst.
    + eapply wceq_trans; [exact E03|apply write_fatal_wc].
    + destruct (ftype =? c_CloseMessage); [|exact E03].
      eapply wceq_trans; [exact E03|apply write_fatal_wc].
Qed.

Lemma end_message_wc c e m s : wceq s (end_message c e m s).
Proof. unfold end_message. destruct (m_err m); [reflexivity|]. cbv zeta. destruct (w_pooled c); reflexivity. Qed.

Lemma flush_frame_wc c final extra m s e s' : flush_frame c final extra m s = (e, s') -> wceq s s'.
Proof.
  intros H. unfold flush_frame in H. cbv zeta in H.
  set (m1 := m <| m_compress := false |>) in *.
  set (s1 := s <| cur := Some m1 |>) in *.
  assert (F1 : wceq s s1) by reflexivity.
  destruct (is_control_ty (m_ftype m) && _).
  { inversion H; subst. apply end_message_wc. }
  assert (Common : forall masked mk buf1 e0 s2,
    conn_write (m_ftype m1) (deadline s1) masked mk buf1 s1 = (e0, s2) ->
    match e0 with
    | Some e0 => (Some e0, end_message c e0 m1 s2)
    | None => if final then (None, end_message c WWriteClosed m1 s2)
              else (None, s2 <| cur := Some (m1 <| m_buf := [] |> <| m_ftype := c_continuationFrame |>) |>)
    end = (e, s') -> wceq s s').
  { intros masked mk buf1 e0 s2 HC HR. apply conn_write_wc in HC.
    assert (F2 : wceq s s2) by (eapply wceq_trans; [exact F1|exact HC]).
    destruct e0; [inversion HR; subst; eapply wceq_trans; [exact F2|apply end_message_wc]|].
    destruct final; inversion HR; subst; [eapply wceq_trans; [exact F2|apply end_message_wc]|exact F2]. }
  destruct (w_server c).
  - match type of H with context [conn_write ?a ?b ?c ?d ?e s1] =>
      destruct (conn_write a b c d e s1) as [e0 s2] eqn:E0 end.
    eapply Common; eassumption.
  - destruct extra.
    + match type of H with context [conn_write ?a ?b ?c ?d ?e s1] =>
        destruct (conn_write a b c d e s1) as [e0 s2] eqn:E0 end.
      eapply Common; eassumption.
    + inversion H; subst. eapply wceq_trans; [exact F1|].
      eapply wceq_trans; [apply write_fatal_wc|apply end_message_wc].
Qed.

Lemma copy_loop_wc c : forall fuel p s e s', copy_loop fuel c p s = (e, s') -> wceq s s'.
Proof.
  induction fuel as [|fuel IH]; intros p s e s' H; destruct p as [|x p']; cbn [copy_loop] in H;
    try (inversion H; subst; reflexivity).
  set (pp := x :: p') in *. clearbody pp.
  destruct (cur s) as [m|]; [|inversion H; subst; reflexivity].
  destruct (cap c - blen (m_buf m) =? 0).
  - destruct (flush_frame c false [] m s) as [e1 s1] eqn:EF. apply flush_frame_wc in EF.
    destruct e1; [inversion H; subst; exact EF|]. eapply wceq_trans; [exact EF|eapply IH; exact H].
  - eapply wceq_trans; [|eapply IH; exact H]. reflexivity.
Qed.

Lemma mw_write_wc c p s e s' : mw_write c p s = (e, s') -> wceq s s'.
Proof.
  intros H. unfold mw_write in H. destruct (cur s) as [m|]; [|inversion H; subst; reflexivity].
  destruct ((2 * w_bufsize c <? blen p) && w_server c).
  - eapply flush_frame_wc; eassumption.
  - eapply copy_loop_wc; eassumption.
Qed.

Lemma mw_close_wc c s e s' : mw_close c s = (e, s') -> wceq s s'.
Proof.
  intros H. unfold mw_close in H. destruct (cur s) as [m|]; [|inversion H; subst; reflexivity].
  eapply flush_frame_wc; eassumption.
Qed.

Lemma trunc_write_wc c p f s e f' s' : trunc_write c p f s = (e, f', s') -> wceq s s'.
Proof.
  intros H. unfold trunc_write in H. cbv zeta in H.
  destruct (dropN _ p) as [|x r]; [inversion H; subst; reflexivity|].
  match type of H with context [mw_write c ?a s] => destruct (mw_write c a s) as [e1 s1] eqn:E1 end.
  apply mw_write_wc in E1.
  destruct e1; [inversion H; subst; exact E1|].
  match type of H with context [mw_write c ?a s1] => destruct (mw_write c a s1) as [e2 s2] eqn:E2 end.
  apply mw_write_wc in E2. inversion H; subst. eapply wceq_trans; eassumption.
Qed.

Lemma flate_emit_wc c : forall chunks f s f' s', flate_emit c chunks f s = (f', s') -> wceq s s'.
Proof.
  induction chunks as [|ch rest IH]; intros f s f' s' H; cbn [flate_emit] in H.
  - inversion H; subst; reflexivity.
  - destruct (f_err f); [inversion H; subst; reflexivity|].
    destruct (trunc_write c ch f s) as [[e1 f1] s1] eqn:E1. apply trunc_write_wc in E1.
    destruct e1; [inversion H; subst; exact E1|]. eapply wceq_trans; [exact E1|eapply IH; exact H].
Qed.

Lemma flate_close_wc c cc f s e s' : flate_close c cc f s = (e, s') -> wceq s s'.
Proof.
  intros H. unfold flate_close in H. destruct (negb (f_open f)); [inversion H; subst; reflexivity|].
  destruct (flate_emit c cc f s) as [f1 s1] eqn:E1. apply flate_emit_wc in E1.
  set (f2 := f1 <| f_open := false |>) in *. set (s2 := s1 <| fl := Some f2 |>) in *.
  assert (F2 : wceq s s2) by exact E1.
  destruct (negb (beq (f_tw f2) [0;0;255;255])); [inversion H; subst; exact F2|].
  destruct (is_cur (f_id f2) s2).
  - destruct (mw_close c s2) as [e3 s3] eqn:E3. apply mw_close_wc in E3. inversion H; subst.
    eapply wceq_trans; eassumption.
  - inversion H; subst. exact F2.
Qed.

Lemma close_current_wc c ic s : wceq s (close_current c ic s).
Proof.
  unfold close_current. destruct (cur s) as [m|]; [|reflexivity].
  assert (F : wceq s (if cur_flate s
                      then match fl s with Some f => snd (flate_close c ic f s) | None => s end
                      else snd (mw_close c s))).
  { destruct (cur_flate s).
    - destruct (fl s) as [f|]; [|reflexivity].
      destruct (flate_close c ic f s) as [e1 s1] eqn:E1. cbn [snd]. eapply flate_close_wc; eassumption.
    - destruct (mw_close c s) as [e1 s1] eqn:E1. cbn [snd]. eapply mw_close_wc; eassumption. }
  exact F.
Qed.

Lemma begin_message_wc c ty ic s e s' : begin_message c ty ic s = (e, s') -> wceq s s'.
Proof.
  intros H. unfold begin_message in H.
  pose proof (close_current_wc c ic s) as F. set (s1 := close_current c ic s) in *. clearbody s1.
  destruct (negb (is_control_ty ty) && negb (is_data_ty ty)); [inversion H; subst; exact F|].
  destruct (werr s1); [inversion H; subst; exact F|].
  destruct (held s1); inversion H; subst; exact F.
Qed.
