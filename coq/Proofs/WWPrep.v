(* Write path, extension (c): WritePreparedMessage.  A prepared frame that is the encoding of a
   complete, well-formed message for this role, sent while no message writer is open, keeps
   the wire well-formed. *)
Require Import WS.Base.Bytes WS.gen.Consts WS.Spec.Frame WS.Proofs.FrameP WS.Model.Writer.
From RecordUpdate Require Import RecordSet.
Import RecordSetNotations.
Require Import WS.Proofs.WWBase WS.Proofs.WWInv WS.Proofs.WWStep WS.Proofs.WWFlate.
Ltac Zify.zify_post_hook ::= Z.div_mod_to_equations.

Definition prepared_ok (c:wcfg) (fr:bytes) : Prop :=
  exists pfs, fr = encode_frames pfs /\ Forall wf_frame pfs /\
              wf_wire (isclient c) (w_negotiated c) (tag pfs) = true /\
              open_after false (tag pfs) = false.

(* a strict prefix of an encoded frame list: whole frames, then a strict prefix of the next *)
Lemma sprefix_frames : forall pfs W, sprefix W (encode_frames pfs) ->
  exists pfs1 p, W = encode_frames pfs1 ++ p /\
    (p = [] /\ (exists r0, pfs = pfs1 ++ r0) \/
     exists f pfs2 rest, pfs = pfs1 ++ f :: pfs2 /\ rest <> [] /\ encode_frame f = p ++ rest).
Proof.
  induction pfs as [|f r IH]; intros W HW.
  - exists [], []. destruct HW as [->|(rest & Hr & E)].
    + split; [reflexivity|]. left. split; [reflexivity|]. exists []. reflexivity.
    + cbn [encode_frames flat_map] in E. symmetry in E. apply app_eq_nil in E. destruct E as [-> ->].
      contradiction.
  - destruct HW as [->|(rest & Hr & E)].
    { exists [], []. split; [reflexivity|]. left. split; [reflexivity|]. exists (f :: r). reflexivity. }
    rewrite encode_frames_cons in E. apply app_eq_app in E. destruct E as (l & [[E1 E2]|[E1 E2]]).
    + destruct l as [|x l'].
      * rewrite app_nil_r in E1. exists [f], []. split.
        { rewrite encode_frames_cons, E1. cbn [encode_frames flat_map]. rewrite !app_nil_r. reflexivity. }
        left. split; [reflexivity|]. exists r. reflexivity.
      * exists [], W. split; [reflexivity|]. right. exists f, r, (x :: l').
        split; [reflexivity|]. split; [discriminate|exact E1].
    + assert (HS : sprefix l (encode_frames r)) by (right; exists rest; auto).
      destruct (IH l HS) as (pfs1 & p & EL & D).
      exists (f :: pfs1), p. split.
      { rewrite E1, EL, encode_frames_cons, app_assoc. reflexivity. }
      destruct D as [[-> (r0 & ->)]|(f' & pfs2 & rest' & -> & Hr' & Ef)].
      * left. split; [reflexivity|]. exists r0. reflexivity.
      * right. exists f', pfs2, rest'. auto.
Qed.

Section Fa.
Variable fa : option (nat * fkind).
Notation Inv := (Inv fa).
Notation CInv := (CInv fa).
Notation WInv := (WInv fa).

Lemma prepared_inv c ty dl fr s e s' :
  WInv c s -> cur s = None -> prepared_ok c fr ->
  conn_write ty dl false (fun _ => fr) [] s = (e, s') -> WInv c s' /\ cur s' = None.
Proof.
  intros ((fs & p & HI) & W2 & W3) HC (pfs & Hfr & Pwf & Pok & Pcl) H.
  rewrite HC in HI.
  apply conn_write_spec in H; [|apply HI].
  destruct H as (HK' & key & W & _ & (C1&C2&C3&C4&C5) & HCase).
  assert (HC' : cur s' = None) by congruence.
  split; [|exact HC'].
  apply WInv_cur_none; [|exact HC'|intros N; rewrite C2; apply W3; exact N].
  rewrite app_nil_r in HCase.
  destruct HI as [I1 I2 I3 I4 I5 I6 I7 I8 I9].
  destruct (werr s) as [ew|] eqn:EW.
  - destruct HCase as (-> & HW' & _). exists fs, p. rewrite HC'. rewrite app_nil_r in C5.
    constructor; try assumption; try congruence.
    rewrite C4. exact I8.
  - destruct (I6 eq_refl) as [-> HL]. cbn [link] in HL.
    destruct HCase as [(-> & ->)|(Hne & HW' & HFa & HPre & _)].
    + (* the whole prepared message went out *)
      exists (fs ++ pfs), []. rewrite HC'. constructor.
      * rewrite C5, I1, !app_nil_r, Hfr, encode_frames_app. reflexivity.
      * apply Forall_app. auto.
      * rewrite tag_app, wf_wire_from_app, I3. fold (wopen fs). rewrite HL. exact Pok.
      * exact HK'.
      * intros m X. discriminate X.
      * intros _. split; [reflexivity|]. cbn [link]. unfold wopen. rewrite tag_app, open_after_app.
        fold (wopen fs). rewrite HL. exact Pcl.
      * left. reflexivity.
      * reflexivity.
      * congruence.
    + (* cut short by the transport *)
      rewrite Hfr in HPre. destruct (sprefix_frames pfs W HPre) as (pfs1 & p1 & EW1 & D).
      assert (Hsplit : exists r0, pfs = pfs1 ++ r0).
      { destruct D as [[_ X]|(f & pfs2 & rest & -> & _)]; [exact X|]. exists (f :: pfs2). reflexivity. }
      destruct Hsplit as (r0 & Hsplit).
      assert (Pwf1 : Forall wf_frame pfs1) by (rewrite Hsplit in Pwf; apply Forall_app in Pwf; tauto).
      assert (Pok1 : wf_wire_from (isclient c) (w_negotiated c) false (tag pfs1) = true).
      { unfold wf_wire in Pok. rewrite Hsplit, tag_app, wf_wire_from_app in Pok.
        apply andb_true_iff in Pok. tauto. }
      assert (Hopen : wopen (fs ++ pfs1) = open_after false (tag pfs1)).
      { unfold wopen. rewrite tag_app, open_after_app. fold (wopen fs). rewrite HL. reflexivity. }
      exists (fs ++ pfs1), p1. rewrite HC'. constructor.
      * rewrite C5, I1, !app_nil_r, EW1, encode_frames_app, app_assoc. reflexivity.
      * apply Forall_app. auto.
      * rewrite tag_app, wf_wire_from_app, I3. fold (wopen fs). rewrite HL. exact Pok1.
      * exact HK'.
      * intros m X. discriminate X.
      * intros X. contradiction.
      * destruct D as [[-> _]|(f & pfs2 & rest & Ep & Hr & Ef)]; [left; reflexivity|].
        right. exists f, rest. rewrite Hopen.
        assert (X : Forall wf_frame (pfs1 ++ f :: pfs2)) by (rewrite <- Ep; exact Pwf).
        apply Forall_app in X. destruct X as [_ X]. inversion X; subst.
        split; [assumption|]. split; [|auto].
        unfold wf_wire in Pok. rewrite tag_app, wf_wire_from_app in Pok.
        apply andb_true_iff in Pok. destruct Pok as [_ Pok]. cbn [tag map wf_wire_from] in Pok.
        apply andb_true_iff in Pok. tauto.
      * rewrite C4. intros X. contradiction.
      * congruence.
Qed.

End Fa.
