(* Part 3: messageReader.Read (read_loop), io.ReadAll (read_all) over the rest of a message,
   NextReader's loop up to the first data frame, and ReadMessage for one message. *)
Require Import WS.Base.Bytes WS.gen.Consts WS.Spec.Frame WS.Spec.Conformance WS.Model.Bufio
  WS.Model.Reader WS.Proofs.BufioP WS.Proofs.FrameP.
From RecordUpdate Require Import RecordSet.
Import RecordSetNotations.
Require Import WS.Proofs.ReaderP1 WS.Proofs.ReaderP2.
Ltac Zify.zify_post_hook ::= Z.div_mod_to_equations.

(* the invariant at the very end of a message: the last bytes of the whole stream may have
   arrived glued to the transport's EOF, which the reader then remembers as io.EOF *)
Definition rinv_end (k:errk) (s:rst) : Prop :=
  binv (br s) /\ (125 <= bsize (br s))%nat /\ fault (src (br s)) = k /\
  (rerror s = None \/ (rerror s = Some RIoEOF /\ pending (br s) = [] /\ k = EEOF)) /\
  outoffuel s = false /\ closesent s = false /\ rlimit s = 0 /\ errcount s = 0%nat.

Lemma rinv_rinv_end k s : rinv k s -> rinv_end k s.
Proof. intros (H1 & H2 & H3 & H4 & H5 & H6 & H7 & H8). unfold rinv_end. auto 12. Qed.

Lemma rinv_end_rinv k s : rinv_end k s -> pending (br s) <> [] -> rinv k s.
Proof.
  intros (H1 & H2 & H3 & [H4|(_ & H4 & _)] & H5 & H6 & H7 & H8) Hne; [|contradiction].
  unfold rinv. auto 12.
Qed.

Lemma rinv_same k s s' : rinv k s -> br s' = br s -> rerror s' = rerror s ->
  outoffuel s' = outoffuel s -> closesent s' = closesent s -> rlimit s' = rlimit s ->
  errcount s' = errcount s -> rinv k s'.
Proof. intros H E1 E2 E3 E4 E5 E6. apply (rinv_upd k s s' H); rewrite ?E1; auto; destruct H as (H1 & _); exact H1. Qed.

Lemma unmask_nil c s : unmask c s [] = [].
Proof. unfold unmask. destruct (server c); reflexivity. Qed.

Lemma unmask_length c s l : length (unmask c s l) = length l.
Proof. unfold unmask. destruct (server c); [apply maskl_length|reflexivity]. Qed.

Lemma blen_nil_inv (l:bytes) : blen l = 0 -> l = [].
Proof. destruct l; [reflexivity|]. unfold blen. cbn [length]. lia. Qed.

Lemma app_prefix_split (d p' wp rest:bytes) :
  d ++ p' = wp ++ rest -> (length d <= length wp)%nat ->
  exists w2, wp = d ++ w2 /\ p' = w2 ++ rest.
Proof.
  revert wp. induction d as [|x d IH]; intros wp H Hl.
  - exists wp. cbn [app] in *. auto.
  - destruct wp as [|y wp]; [cbn [length] in Hl; lia|].
    cbn [app] in H. inversion H; subst y.
    cbn [length] in Hl. destruct (IH wp H2 ltac:(lia)) as (w2 & Hw & Hp).
    exists w2. rewrite Hw. auto.
Qed.

(* ---------- messageReader.Read, one step ---------- *)
Lemma read_loop_eof f c m s :
  rerror s = None -> rem s = 0 -> rfin s = true ->
  read_loop (S f) c m s = ([], Some RIoEOF, s <| cur := None |>).
Proof. intros He Hr Hf. cbn [read_loop]. rewrite He, Hr, Hf. reflexivity. Qed.

Lemma read_loop_adv f c m s op s1 :
  rerror s = None -> rem s = 0 -> rfin s = false ->
  advance_after_skip c s = (AFrame op, s1) -> op <> 1 -> op <> 2 ->
  read_loop (S f) c m s = read_loop f c m s1.
Proof.
  intros He Hr Hf Hadv H1 H2. cbn [read_loop]. rewrite He.
  replace (0 <? rem s) with false by lia. cbv iota. rewrite Hf.
  rewrite advance_frame_rem0 by exact Hr. rewrite Hadv. cbv iota.
  unfold c_TextMessage, c_BinaryMessage.
  replace ((op =? 1) || (op =? 2)) with false by lia. reflexivity.
Qed.

Lemma read_loop_chunk k c m f s wp rest :
  rinv k s -> (0 < m)%nat -> wp <> [] -> rem s = blen wp -> pending (br s) = wp ++ rest ->
  exists w1 w2 e s', wp = w1 ++ w2 /\ w1 <> [] /\ blen w1 <= N.of_nat m /\
    read_loop (S f) c m s = (unmask c s w1, e, s') /\
    pending (br s') = w2 ++ rest /\ rem s' = blen w2 /\ rfin s' = rfin s /\ rlen s' = rlen s /\
    wlog s' = wlog s /\ unmask c s wp = unmask c s w1 ++ unmask c s' w2 /\
    binv (br s') /\ bsize (br s') = bsize (br s) /\ fault (src (br s')) = k /\
    outoffuel s' = false /\ closesent s' = false /\ rlimit s' = 0 /\ rerror s' = e /\
    errcount s' = errcount s /\
    (e = None \/
     (w2 ++ rest = [] /\
      e = Some (if negb (rfin s) && errk_eqb k EEOF then unexpected_eof else of_errk k))).
Proof.
  intros Hrinv Hm Hne Hrem Hp.
  pose proof Hrinv as (Hinv & Hbs & Hfl & Herr & Hoof & Hcs & Hrl & Hec).
  assert (Hwpos : 0 < blen wp) by (destruct wp; [congruence|unfold blen; cbn [length]; lia]).
  remember (N.to_nat (N.min (N.of_nat m) (rem s))) as sz eqn:Esz.
  assert (Hsz : (0 < sz)%nat) by lia.
  assert (Hpne : pending (br s) <> []) by (rewrite Hp; destruct wp; [congruence|discriminate]).
  destruct (br_read_some sz (br s) Hinv Hsz Hpne)
    as (d & e & b' & Hbr & Hd & Hl & Hpd & Hinv' & Hbs' & Hfl' & He).
  rewrite Hp in Hpd.
  destruct (app_prefix_split d (pending b') wp rest) as (w2 & Hw & Hp2);
    [symmetry; exact Hpd|unfold blen in Hrem; lia|].
  assert (Hbw : blen wp = blen d + blen w2) by (rewrite Hw; apply blen_app).
  exists d, w2.
  cbn [read_loop]. rewrite Herr. replace (0 <? rem s) with true by lia. cbv iota zeta.
  rewrite <- Esz, Hbr. cbv beta iota.
  unfold unmask.
  destruct (server c) eqn:Es.
  - (* server: unmask and advance the mask position *)
    assert (Hmask : maskl (rkey s) (mpos s) wp =
                    maskl (rkey s) (mpos s) d ++ maskl (rkey s) ((mpos s + blen d) mod 4) w2).
    { rewrite Hw, maskl_app. f_equal. apply maskl_pos_mod4. lia. }
    destruct He as [-> | [-> Hpe]].
    + do 2 eexists. split; [exact Hw|]. split; [exact Hd|]. split; [unfold blen; lia|].
      split; [reflexivity|]. rsimpl.
      split; [exact Hp2|]. split; [lia|]. split; [reflexivity|]. split; [reflexivity|].
      split; [reflexivity|]. split; [exact Hmask|]. split; [exact Hinv'|]. split; [exact Hbs'|].
      split; [congruence|]. split; [exact Hoof|]. split; [exact Hcs|]. split; [exact Hrl|].
      split; [reflexivity|]. split; [reflexivity|]. left. reflexivity.
    + do 2 eexists. split; [exact Hw|]. split; [exact Hd|]. split; [unfold blen; lia|].
      split; [reflexivity|]. rsimpl.
      assert (Hw2 : w2 = []) by (rewrite Hpe in Hp2; symmetry in Hp2; apply app_eq_nil in Hp2; apply Hp2).
      split; [exact Hp2|]. split; [lia|]. split; [reflexivity|]. split; [reflexivity|].
      split; [reflexivity|]. split; [exact Hmask|]. split; [exact Hinv'|]. split; [exact Hbs'|].
      split; [congruence|]. split; [exact Hoof|]. split; [exact Hcs|]. split; [exact Hrl|].
      split; [reflexivity|]. split; [reflexivity|].
      right. split; [rewrite <- Hp2; exact Hpe|].
      rewrite Hrem, Hbw, Hw2, Hfl. change (blen []) with 0.
      replace (0 <? blen d + 0 - blen d) with false by lia. reflexivity.
  - (* client: frames are not masked *)
    destruct He as [-> | [-> Hpe]].
    + do 2 eexists. split; [exact Hw|]. split; [exact Hd|]. split; [unfold blen; lia|].
      split; [reflexivity|]. rsimpl.
      split; [exact Hp2|]. split; [lia|]. split; [reflexivity|]. split; [reflexivity|].
      split; [reflexivity|]. split; [exact Hw|]. split; [exact Hinv'|]. split; [exact Hbs'|].
      split; [congruence|]. split; [exact Hoof|]. split; [exact Hcs|]. split; [exact Hrl|].
      split; [reflexivity|]. split; [reflexivity|]. left. reflexivity.
    + do 2 eexists. split; [exact Hw|]. split; [exact Hd|]. split; [unfold blen; lia|].
      split; [reflexivity|]. rsimpl.
      assert (Hw2 : w2 = []) by (rewrite Hpe in Hp2; symmetry in Hp2; apply app_eq_nil in Hp2; apply Hp2).
      split; [exact Hp2|]. split; [lia|]. split; [reflexivity|]. split; [reflexivity|].
      split; [reflexivity|]. split; [exact Hw|]. split; [exact Hinv'|]. split; [exact Hbs'|].
      split; [congruence|]. split; [exact Hoof|]. split; [exact Hcs|]. split; [exact Hrl|].
      split; [reflexivity|]. split; [reflexivity|].
      right. split; [rewrite <- Hp2; exact Hpe|].
      rewrite Hrem, Hbw, Hw2, Hfl. change (blen []) with 0.
      replace (0 <? blen d + 0 - blen d) with false by lia. reflexivity.
Qed.

(* ---------- io.ReadAll ---------- *)
Definition ra_cont (fa:nat) (c:rcfg) (len cp:N) (acc:bytes) (r : bytes * option rerr * rst)
  : bytes * option rerr * rst :=
  let '(d, e, s) := r in
  let acc := acc ++ d in
  let len := len + blen d in
  match e with
  | Some RIoEOF => (acc, None, s)
  | Some e => (acc, Some e, s)
  | None =>
    let cp := if len =? cp then next_cap (caps c) cp else cp in
    read_all fa c len cp acc s
  end.

Lemma read_all_S fa c len cp acc s :
  read_all (S fa) c len cp acc s = ra_cont fa c len cp acc (reader_read c (N.to_nat (cp - len)) s).
Proof. reflexivity. Qed.

Lemma next_cap_gt caps cp : 0 < cp -> cp < next_cap caps cp.
Proof.
  intros H. unfold next_cap. destruct (filter (fun x => cp <? x) caps) as [|x l] eqn:E; [lia|].
  assert (Hin : In x (filter (fun x => cp <? x) caps)) by (rewrite E; left; reflexivity).
  apply filter_In in Hin. destruct Hin as [_ Hin]. lia.
Qed.

Lemma encode_frames_nil_inv fs : encode_frames fs = [] -> fs = [].
Proof.
  destruct fs as [|f r]; [reflexivity|]. rewrite encode_frames_cons, encode_frame_decomp.
  cbn [app]. discriminate.
Qed.

Lemma encode_frame_ge_plen f : plen f <= blen (encode_frame f).
Proof. rewrite encode_frame_length. lia. Qed.

Section Main.
Variables (k:errk) (c:rcfg) (extra:bytes).
Hypothesis Hch : custom_handlers c = false.
Hypothesis Hx : extra <> [] \/ k = EEOF.

(* ReadAll from the middle of a frame ([wp] = wire bytes of the current frame still unread)
   to the end of the message *)
Lemma ra_main : forall fs n wp, length wp = n -> forall s fa fl len cp acc more pings after,
  rinv k s -> rem s = blen wp -> pending (br s) = wp ++ encode_frames fs ++ extra ->
  Forall wf_frame fs -> seq_ok (server c) (negb (rfin s)) fs = true ->
  rlen s + blen (encode_frames fs) < 2^63 ->
  len < cp -> (length (pending (br s)) < fl)%nat -> (length (pending (br s)) <= fa)%nat ->
  msg_tail (rfin s) fs = (more, pings, after) ->
  exists s', ra_cont fa c len cp acc (read_loop fl c (N.to_nat (cp - len)) s)
             = (acc ++ unmask c s wp ++ more, None, s') /\
    rinv_end k s' /\ rem s' = 0 /\ rfin s' = true /\
    pending (br s') = encode_frames after ++ extra /\ wlog s' = wlog s ++ map WPong pings.
Proof.
  induction fs as [|f fs IHfs].
  - (* no further frame: we are in the final frame of the message *)
    induction n as [n IHn] using lt_wf_ind.
    intros wp Hn s fa fl len cp acc more pings after Hrinv Hrem Hp Hwf Hseq Hrl Hlc Hfl Hfa Hmt.
    cbn [seq_ok] in Hseq. apply negb_true_iff in Hseq. apply negb_false_iff in Hseq.
    rewrite Hseq in Hmt. cbn [msg_tail] in Hmt. inversion Hmt; subst more pings after. clear Hmt.
    pose proof Hrinv as (Hinv & Hbs & Hflt & Herr & Hoof & Hcs & Hrlim & Hecnt).
    destruct fl as [|fl]; [lia|].
    destruct wp as [|x wp'] eqn:Ewp.
    + rewrite (read_loop_eof fl c _ s Herr Hrem Hseq). cbn [ra_cont].
      eexists. split; [rewrite unmask_nil; reflexivity|]. rsimpl.
      split; [apply rinv_rinv_end; apply (rinv_upd k s); auto|].
      rewrite app_nil_r. cbn [encode_frames flat_map app map] in *. auto.
    + rewrite <- Ewp in *.
      assert (Hwne : wp <> []) by (rewrite Ewp; discriminate).
      assert (Hm : (0 < N.to_nat (cp - len))%nat) by lia.
      destruct (read_loop_chunk k c _ fl s wp (encode_frames [] ++ extra) Hrinv Hm Hwne Hrem Hp)
        as (w1 & w2 & e & s1 & Hw & Hw1 & Hb1 & Hrl1 & Hp1 & Hrem1 & Hfin1 & Hrlen1 & Hwl1 & Hun &
            Hinv1 & Hbs1 & Hfl1 & Hoof1 & Hcs1 & Hrlim1 & Herr1 & Hec1 & He).
      rewrite Hrl1. cbn [ra_cont].
      assert (Hbu : blen (unmask c s w1) = blen w1) by (unfold blen; rewrite unmask_length; reflexivity).
      assert (Hlen1 : (length (pending (br s)) = length w1 + length (pending (br s1)))%nat).
      { rewrite Hp, Hp1, Hw, <- app_assoc, app_length. reflexivity. }
      assert (Hw1pos : (0 < length w1)%nat) by (destruct w1; [congruence|cbn [length]; lia]).
      destruct He as [-> | [Hnil ->]].
      * (* more to read *)
        destruct fa as [|fa]; [lia|].
        rewrite read_all_S. unfold reader_read.
        assert (Hrinv1 : rinv k s1) by (unfold rinv; rewrite Hbs1, Hec1; auto 12).
        destruct (IHn (length w2) ltac:(subst n; rewrite Hw, app_length; lia) w2 eq_refl s1 fa
                    (fuel_of s1) (len + blen (unmask c s w1))
                    (if len + blen (unmask c s w1) =? cp then next_cap (caps c) cp else cp)
                    (acc ++ unmask c s w1) [] [] [])
          as (s' & Hres & Hend);
          [exact Hrinv1|exact Hrem1|exact Hp1|exact Hwf|rewrite Hfin1, Hseq; reflexivity
          |rewrite Hrlen1; exact Hrl
          | rewrite Hbu; destruct (N.eqb_spec (len + blen w1) cp) as [Hq|Hq];
              [pose proof (next_cap_gt (caps c) cp ltac:(lia)); lia|lia]
          |unfold fuel_of; lia|lia|rewrite Hfin1, Hseq; reflexivity|].
        exists s'. split.
        { rewrite Hres. rewrite Hun, <- !app_assoc. reflexivity. }
        rewrite Hwl1 in Hend. exact Hend.
      * (* the transport fault came with the last bytes of the stream *)
        apply app_eq_nil in Hnil. destruct Hnil as [Hw2 Hnil]. cbn [encode_frames flat_map app] in Hnil.
        destruct Hx as [Hx1|Hx1]; [contradiction|].
        rewrite Hseq, Hx1. cbn [negb andb errk_eqb of_errk].
        eexists. split.
        { rewrite Hw, Hw2, !app_nil_r. reflexivity. }
        split.
        { unfold rinv_end. rewrite Hbs1.
          split; [exact Hinv1|]. split; [exact Hbs|]. split; [rewrite Hfl1; exact Hx1|].
          split; [|split; [exact Hoof1|split; [exact Hcs1|split; [exact Hrlim1|rewrite Hec1; exact Hecnt]]]].
          right. rewrite Herr1, Hp1, Hw2, Hnil, Hseq, Hx1.
          cbn [negb andb errk_eqb of_errk app encode_frames flat_map]. auto. }
        rewrite Hrem1, Hw2, Hfin1, Hp1, Hw2, Hwl1, app_nil_r. cbn [map app]. auto.
  - (* at least one more frame *)
    induction n as [n IHn] using lt_wf_ind.
    intros wp Hn s fa fl len cp acc more pings after Hrinv Hrem Hp Hwf Hseq Hrl Hlc Hfl Hfa Hmt.
    pose proof Hrinv as (Hinv & Hbs & Hflt & Herr & Hoof & Hcs & Hrlim & Hecnt).
    destruct fl as [|fl]; [lia|].
    inversion Hwf as [|f' fs' Hwff Hwfs]; subst f' fs'.
    cbn [seq_ok] in Hseq. apply andb_true_iff in Hseq. destruct Hseq as [Hacc Hseq].
    destruct wp as [|x wp'] eqn:Ewp.
    + (* frame boundary *)
      cbn [app] in Hp. rewrite encode_frames_cons, <- app_assoc in Hp.
      destruct (rfin s) eqn:Efin.
      * (* the message is complete *)
        cbn [msg_tail] in Hmt. inversion Hmt; subst more pings after. clear Hmt.
        rewrite (read_loop_eof fl c _ s Herr Hrem Efin). cbn [ra_cont].
        eexists. split; [rewrite unmask_nil; reflexivity|]. rsimpl.
        split; [apply rinv_rinv_end; apply (rinv_upd k s); auto|].
        rewrite app_nil_r, encode_frames_cons, <- app_assoc. cbn [map]. auto.
      * (* open message: the next frame is a control frame or a continuation *)
        cbn [negb] in Hacc, Hseq. cbn [msg_tail cont_msg] in Hmt.
        assert (Hlenp : (length (pending (br s)) =
                         length (encode_frame f) + length (encode_frames fs ++ extra))%nat)
          by (rewrite Hp, app_length; reflexivity).
        pose proof (encode_frame_length_ge2 f) as Hge2.
        assert (Hrlf : rlen s + plen f + blen (encode_frames fs) < 2^63).
        { rewrite encode_frames_cons, blen_app in Hrl. pose proof (encode_frame_ge_plen f). lia. }
        assert (Haccs : frame_acc (server c) (negb (rfin s)) f = true) by (rewrite Efin; exact Hacc).
        destruct (acc_cases _ _ _ Hacc) as [(Hctl & Hop & _)|(Hctl & [(_ & Hxx)|(Hop & _)])];
          [| discriminate Hxx |].
        -- (* ping / pong *)
           rewrite Hctl in Hmt. unfold next_open in Hseq. rewrite Hctl in Hseq.
           destruct (cont_msg fs) as [[d1 p1] a1] eqn:Ecm. inversion Hmt; subst more pings after. clear Hmt.
           destruct (advance_ctl k c s f (encode_frames fs ++ extra) Hrinv Hch Hwff Haccs Hctl Hp)
             as (s1 & Hadv & Hrinv1 & Hrem1 & Hfin1 & Hrlen1 & Hp1 & Hwl1).
           rewrite (read_loop_adv fl c _ s (opcode f) s1 Herr Hrem Efin Hadv) by lia.
           destruct (IHfs 0%nat [] eq_refl s1 fa fl len cp acc d1 p1 a1) as (s' & Hres & Hend);
             [exact Hrinv1|exact Hrem1|exact Hp1|exact Hwfs|rewrite Hfin1, Efin; exact Hseq
             |rewrite Hrlen1; rewrite encode_frames_cons, blen_app in Hrl; lia
             |exact Hlc|rewrite Hp1; lia|rewrite Hp1; lia
             |rewrite Hfin1, Efin; exact Ecm|].
           exists s'. split; [rewrite Hres, !unmask_nil; reflexivity|].
           rewrite Hwl1, <- app_assoc, <- map_app in Hend. exact Hend.
        -- (* continuation frame *)
           rewrite Hctl in Hmt. unfold next_open in Hseq. rewrite Hctl in Hseq.
           destruct (advance_data k c s f (encode_frames fs ++ extra) Hrinv Hwff Haccs Hctl Hp)
             as (s1 & Hadv & Hrinv1 & Hrem1 & Hfin1 & Hrlen1 & Hp1 & Hun1 & _ & Hwl1);
             [rewrite Hop; change (0 =? 0) with true; cbv iota; lia|].
           rewrite Hop in Hrlen1. change (0 =? 0) with true in Hrlen1. cbv iota in Hrlen1.
           rewrite (read_loop_adv fl c _ s (opcode f) s1 Herr Hrem Efin Hadv) by lia.
           assert (Hwpl : (length (wire_payload f) <= length (encode_frame f) - 2)%nat).
           { rewrite encode_frame_decomp. cbn [length]. rewrite !app_length. lia. }
           assert (Hmt1 : exists more1, msg_tail (fin f) fs = (more1, pings, after) /\
                                        more = payload f ++ more1).
           { destruct (fin f).
             - inversion Hmt; subst. exists []. rewrite app_nil_r. auto.
             - cbn [msg_tail]. destruct (cont_msg fs) as [[d1 p1] a1]. inversion Hmt; subst.
               exists d1. auto. }
           destruct Hmt1 as (more1 & Hmt1 & ->).
           destruct (IHfs (length (wire_payload f)) (wire_payload f) eq_refl s1 fa fl len cp acc
                       more1 pings after) as (s' & Hres & Hend);
             [exact Hrinv1|rewrite Hrem1; symmetry; apply wire_payload_blen|exact Hp1|exact Hwfs
             |rewrite Hfin1; exact Hseq|rewrite Hrlen1; exact Hrlf
             |exact Hlc|rewrite Hp1, app_length; lia|rewrite Hp1, app_length; lia
             |rewrite Hfin1; exact Hmt1|].
           exists s'. split; [rewrite Hres, Hun1, unmask_nil; reflexivity|].
           rewrite Hwl1 in Hend. exact Hend.
    + (* inside a frame *)
      rewrite <- Ewp in *.
      assert (Hwne : wp <> []) by (rewrite Ewp; discriminate).
      assert (Hm : (0 < N.to_nat (cp - len))%nat) by lia.
      destruct (read_loop_chunk k c _ fl s wp (encode_frames (f :: fs) ++ extra) Hrinv Hm Hwne Hrem Hp)
        as (w1 & w2 & e & s1 & Hw & Hw1 & Hb1 & Hrl1 & Hp1 & Hrem1 & Hfin1 & Hrlen1 & Hwl1 & Hun &
            Hinv1 & Hbs1 & Hfl1 & Hoof1 & Hcs1 & Hrlim1 & Herr1 & Hec1 & He).
      rewrite Hrl1. cbn [ra_cont].
      assert (Hbu : blen (unmask c s w1) = blen w1) by (unfold blen; rewrite unmask_length; reflexivity).
      assert (Hlen1 : (length (pending (br s)) = length w1 + length (pending (br s1)))%nat).
      { rewrite Hp, Hp1, Hw, <- app_assoc, app_length. reflexivity. }
      assert (Hw1pos : (0 < length w1)%nat) by (destruct w1; [congruence|cbn [length]; lia]).
      destruct He as [-> | [Hnil _]].
      * destruct fa as [|fa]; [lia|].
        rewrite read_all_S. unfold reader_read.
        assert (Hrinv1 : rinv k s1) by (unfold rinv; rewrite Hbs1, Hec1; auto 12).
        destruct (IHn (length w2) ltac:(subst n; rewrite Hw, app_length; lia) w2 eq_refl s1 fa
                    (fuel_of s1) (len + blen (unmask c s w1))
                    (if len + blen (unmask c s w1) =? cp then next_cap (caps c) cp else cp)
                    (acc ++ unmask c s w1) more pings after)
          as (s' & Hres & Hend);
          [exact Hrinv1|exact Hrem1|exact Hp1|exact Hwf
          |rewrite Hfin1; cbn [seq_ok]; rewrite Hacc, Hseq; reflexivity
          |rewrite Hrlen1; exact Hrl
          | rewrite Hbu; destruct (N.eqb_spec (len + blen w1) cp) as [Hq|Hq];
              [pose proof (next_cap_gt (caps c) cp ltac:(lia)); lia|lia]
          |unfold fuel_of; lia|lia|rewrite Hfin1; exact Hmt|].
        exists s'. split.
        { rewrite Hres. rewrite Hun, <- !app_assoc. reflexivity. }
        rewrite Hwl1 in Hend. exact Hend.
      * (* impossible: a whole frame is still pending *)
        exfalso. apply app_eq_nil in Hnil. destruct Hnil as [_ Hnil].
        apply app_eq_nil in Hnil. destruct Hnil as [Hnil _].
        apply encode_frames_nil_inv in Hnil. discriminate Hnil.
Qed.

(* ---------- NextReader's loop: skip leading pings/pongs, stop at the first data frame -------- *)
Lemma next_loop_spec : forall fs p f r, find_data fs = Some (p, f, r) ->
  forall s fuel, rinv k s -> rem s = 0 -> rfin s = true ->
  pending (br s) = encode_frames fs ++ extra ->
  Forall wf_frame fs -> seq_ok (server c) false fs = true ->
  blen (encode_frames fs) < 2^63 -> (length (pending (br s)) < fuel)%nat ->
  exists s', next_loop fuel c s = (Some (opcode f), s') /\
    rinv k s' /\ rem s' = plen f /\ rfin s' = fin f /\ rlen s' = plen f /\
    pending (br s') = wire_payload f ++ encode_frames r ++ extra /\
    unmask c s' (wire_payload f) = payload f /\ rdecomp s' = false /\
    wlog s' = wlog s ++ map WPong p /\
    Forall wf_frame r /\ seq_ok (server c) (negb (fin f)) r = true /\
    plen f + blen (encode_frames r) < 2^63 /\ (opcode f = 1 \/ opcode f = 2).
Proof.
  induction fs as [|g fs IH]; intros p f r Hfd s fuel Hrinv Hrem Hfin Hp Hwf Hseq Hlen Hfuel;
    [discriminate Hfd|].
  pose proof Hrinv as (Hinv & Hbs & Hflt & Herr & Hoof & Hcs & Hrlim & Hecnt).
  inversion Hwf as [|g' fs' Hwfg Hwfs]; subst g' fs'.
  cbn [seq_ok] in Hseq. apply andb_true_iff in Hseq. destruct Hseq as [Hacc Hseq].
  rewrite encode_frames_cons, <- app_assoc in Hp.
  rewrite encode_frames_cons, blen_app in Hlen.
  pose proof (encode_frame_length_ge2 g) as Hge2.
  assert (Hlenp : (length (pending (br s)) =
                   length (encode_frame g) + length (encode_frames fs ++ extra))%nat)
    by (rewrite Hp, app_length; reflexivity).
  assert (Haccs : frame_acc (server c) (negb (rfin s)) g = true) by (rewrite Hfin; exact Hacc).
  destruct fuel as [|fuel]; [lia|].
  cbn [next_loop]. rewrite Herr. rewrite advance_frame_rem0 by exact Hrem.
  cbn [find_data] in Hfd. unfold next_open in Hseq.
  destruct (is_control (opcode g)) eqn:Hctl.
  - destruct (find_data fs) as [[[p1 d1] a1]|] eqn:Efd; [|discriminate Hfd].
    inversion Hfd; subst p d1 a1. clear Hfd.
    destruct (advance_ctl k c s g (encode_frames fs ++ extra) Hrinv Hch Hwfg Haccs Hctl Hp)
      as (s1 & Hadv & Hrinv1 & Hrem1 & Hfin1 & Hrlen1 & Hp1 & Hwl1).
    rewrite Hadv. cbv iota.
    destruct (acc_cases _ _ _ Hacc) as [(_ & Hop & _)|(Hc & _)]; [|congruence].
    unfold c_TextMessage, c_BinaryMessage.
    replace ((opcode g =? 1) || (opcode g =? 2)) with false by lia. cbv iota.
    destruct (IH p1 f r eq_refl s1 fuel Hrinv1 Hrem1) as (s' & Hres & Hrest);
      [rewrite Hfin1; exact Hfin|exact Hp1|exact Hwfs|exact Hseq|lia|rewrite Hp1; lia|].
    exists s'. split; [exact Hres|].
    rewrite Hwl1, <- app_assoc, <- map_app in Hrest. exact Hrest.
  - inversion Hfd; subst p g fs. clear Hfd.
    destruct (acc_cases _ _ _ Hacc) as [(Hc & _)|(_ & [(Hop & _)|(_ & Hxx)])];
      [congruence| |discriminate Hxx].
    assert (Hop0 : (opcode f =? 0) = false) by lia.
    destruct (advance_data k c s f (encode_frames r ++ extra) Hrinv Hwfg Haccs Hctl Hp)
      as (s1 & Hadv & Hrinv1 & Hrem1 & Hfin1 & Hrlen1 & Hp1 & Hun1 & Hdec1 & Hwl1);
      [rewrite Hop0; pose proof (encode_frame_ge_plen f); lia|].
    rewrite Hop0 in Hrlen1.
    rewrite Hadv. cbv iota.
    unfold c_TextMessage, c_BinaryMessage.
    replace ((opcode f =? 1) || (opcode f =? 2)) with true by lia. cbv iota.
    eexists. split; [reflexivity|]. unfold unmask in *. rsimpl.
    split; [apply (rinv_same k s1); [exact Hrinv1|reflexivity ..]|].
    cbn [map]. rewrite app_nil_r.
    pose proof (encode_frame_ge_plen f).
    repeat split; try assumption; try lia.
Qed.

(* ---------- ReadMessage: one whole message ---------- *)
Theorem read_message_one inflate fs s ty d p a :
  rinv k s -> rem s = 0 -> rfin s = true ->
  pending (br s) = encode_frames fs ++ extra ->
  Forall wf_frame fs -> seq_ok (server c) false fs = true -> blen (encode_frames fs) < 2^63 ->
  first_msg fs = Some (ty, d, p, a) ->
  exists s', read_message inflate c s = (RMsg ty d None, s') /\
    rinv_end k s' /\ rem s' = 0 /\ rfin s' = true /\
    pending (br s') = encode_frames a ++ extra /\ wlog s' = wlog s ++ map WPong p.
Proof.
  intros Hrinv Hrem Hfin Hp Hwf Hseq Hlen Hfm.
  unfold first_msg in Hfm.
  destruct (find_data fs) as [[[p1 f] r]|] eqn:Efd; [|discriminate Hfm].
  destruct (msg_tail (fin f) r) as [[more p2] a2] eqn:Emt. inversion Hfm; subst ty d p a2. clear Hfm.
  set (s0 := s <| cur := None |> <| rlen := 0 |>).
  assert (Hrinv0 : rinv k s0) by (apply (rinv_same k s); [exact Hrinv|reflexivity ..]).
  destruct (next_loop_spec fs p1 f r Efd s0 (fuel_of s0) Hrinv0) as
    (s1 & Hnl & Hrinv1 & Hrem1 & Hfin1 & Hrlen1 & Hp1 & Hun1 & Hdec1 & Hwl1 & Hwfr & Hseqr & Hlenr & Hop);
    [exact Hrem|exact Hfin|exact Hp|exact Hwf|exact Hseq|exact Hlen|unfold fuel_of; lia|].
  unfold read_message, next_reader. fold s0. rewrite Hnl. cbv iota. rewrite Hdec1. cbv iota.
  unfold fuel_of at 1. rewrite read_all_S. unfold reader_read.
  destruct (ra_main r (length (wire_payload f)) (wire_payload f) eq_refl s1
              (S (length (pending (br s1)))) (fuel_of s1) 0 512 [] more p2 a)
    as (s' & Hres & Hend);
    [exact Hrinv1|rewrite Hrem1; symmetry; apply wire_payload_blen|exact Hp1|exact Hwfr
    |rewrite Hfin1; exact Hseqr|rewrite Hrlen1; exact Hlenr|lia|unfold fuel_of; lia|lia
    |rewrite Hfin1; exact Emt|].
  rewrite Hres. cbn [app]. rewrite Hun1.
  exists s'. split; [reflexivity|].
  rewrite Hwl1, <- app_assoc, <- map_app in Hend. exact Hend.
Qed.

End Main.

(* ---------- one more ReadMessage when only control frames (or nothing) are left ---------- *)
Section EndOfStream.
Variables (k:errk) (c:rcfg).
Hypothesis Hch : custom_handlers c = false.

Lemma next_loop_end : forall cs s fuel, all_ctl cs = true ->
  rinv k s -> rem s = 0 -> rfin s = true -> pending (br s) = encode_frames cs ->
  Forall wf_frame cs -> seq_ok (server c) false cs = true ->
  (length (pending (br s)) < fuel)%nat ->
  exists s', next_loop fuel c s = (None, s') /\
    rerror s' = Some (of_berror (BErr k)) /\ wlog s' = wlog s ++ map WPong (pings_of cs) /\
    outoffuel s' = false /\ closesent s' = false /\ pending (br s') = [] /\
    errcount s' = 0%nat /\ rem s' = 0 /\ rfin s' = true /\ binv (br s').
Proof.
  induction cs as [|g cs IH]; intros s fuel Hall Hrinv Hrem Hfin Hp Hwf Hseq Hfuel;
    pose proof Hrinv as (Hinv & Hbs & Hflt & Herr & Hoof & Hcs & Hrlim & Hecnt);
    (destruct fuel as [|fuel]; [lia|]);
    cbn [next_loop]; rewrite Herr; rewrite advance_frame_rem0 by exact Hrem.
  - cbn [encode_frames flat_map] in Hp.
    destruct (advance_end k c s Hrinv Hp) as (s1 & Hadv & Hrinv1 & Hrem1 & Hf & Hwl1 & Hp1).
    destruct Hrinv1 as (Hinv1 & Hbs1 & Hflt1 & Herr1 & Hoof1 & Hcs1 & Hrlim1 & Hecnt1).
    rewrite Hadv. cbv iota. eexists. split; [reflexivity|]. rsimpl.
    cbn [pings_of flat_map map]. rewrite app_nil_r.
    rewrite Hrem1, Hf. auto 12.
  - rewrite all_ctl_cons in Hall. apply andb_true_iff in Hall. destruct Hall as [Hctl Hall].
    inversion Hwf as [|g' cs' Hwfg Hwfs]; subst g' cs'.
    cbn [seq_ok] in Hseq. apply andb_true_iff in Hseq. destruct Hseq as [Hacc Hseq].
    unfold next_open in Hseq. rewrite Hctl in Hseq.
    rewrite encode_frames_cons in Hp.
    assert (Haccs : frame_acc (server c) (negb (rfin s)) g = true) by (rewrite Hfin; exact Hacc).
    destruct (advance_ctl k c s g (encode_frames cs) Hrinv Hch Hwfg Haccs Hctl Hp)
      as (s1 & Hadv & Hrinv1 & Hrem1 & Hfin1 & Hrlen1 & Hp1 & Hwl1).
    rewrite Hadv. cbv iota.
    destruct (acc_cases _ _ _ Hacc) as [(_ & Hop & _)|(Hc & _)]; [|congruence].
    unfold c_TextMessage, c_BinaryMessage.
    replace ((opcode g =? 1) || (opcode g =? 2)) with false by lia. cbv iota.
    pose proof (encode_frame_length_ge2 g) as Hge2.
    destruct (IH s1 fuel Hall Hrinv1 Hrem1) as (s' & Hres & Hrest);
      [rewrite Hfin1; exact Hfin|exact Hp1|exact Hwfs|exact Hseq
      |rewrite Hp, app_length in Hfuel; rewrite Hp1; lia|].
    exists s'. split; [exact Hres|].
    rewrite Hwl1, <- app_assoc, <- map_app in Hrest. exact Hrest.
Qed.

Lemma read_message_end inflate cs s : all_ctl cs = true ->
  rinv k s -> rem s = 0 -> rfin s = true -> pending (br s) = encode_frames cs ->
  Forall wf_frame cs -> seq_ok (server c) false cs = true ->
  exists s', read_message inflate c s = (RMsg 0 [] (Some (of_berror (BErr k))), s') /\
    rerror s' = Some (of_berror (BErr k)) /\ wlog s' = wlog s ++ map WPong (pings_of cs) /\
    outoffuel s' = false /\ closesent s' = false /\ pending (br s') = [] /\
    rem s' = 0 /\ rfin s' = true /\ binv (br s').
Proof.
  intros Hall Hrinv Hrem Hfin Hp Hwf Hseq.
  set (s0 := s <| cur := None |> <| rlen := 0 |>).
  assert (Hrinv0 : rinv k s0) by (apply (rinv_same k s); [exact Hrinv|reflexivity ..]).
  destruct (next_loop_end cs s0 (fuel_of s0) Hall Hrinv0 Hrem Hfin Hp Hwf Hseq)
    as (s1 & Hnl & Herr1 & Hwl1 & Hoof1 & Hcs1 & Hp1 & Hec1 & Hrem1 & Hfin1 & Hinv1);
    [unfold fuel_of; lia|].
  unfold read_message, next_reader. fold s0. rewrite Hnl. cbv iota zeta. rsimpl. rewrite Hec1.
  cbn [Nat.leb]. rewrite Herr1. eexists. split; [reflexivity|]. rsimpl. auto 12.
Qed.

(* the reader already holds a sticky io.EOF (it came glued to the last bytes) *)
Lemma read_message_sticky inflate s e : rerror s = Some e -> errcount s = 0%nat ->
  read_message inflate c s =
    (RMsg 0 [] (Some e), s <| cur := None |> <| rlen := 0 |> <| errcount := 1%nat |>).
Proof.
  intros He Hec. unfold read_message, next_reader.
  set (s0 := s <| cur := None |> <| rlen := 0 |>).
  assert (Hnl : next_loop (fuel_of s0) c s0 = (None, s0)).
  { unfold fuel_of. cbn [next_loop].
    replace (rerror s0) with (rerror s) by reflexivity. rewrite He. reflexivity. }
  rewrite Hnl. cbv iota zeta. rsimpl.
  replace (errcount s0) with (errcount s) by reflexivity.
  replace (rerror s0) with (rerror s) by reflexivity. rewrite Hec, He. reflexivity.
Qed.
End EndOfStream.

Print Assumptions read_loop_chunk.
Print Assumptions ra_main.
Print Assumptions next_loop_spec.
Print Assumptions read_message_one.
Print Assumptions read_message_end.
Print Assumptions read_message_sticky.
