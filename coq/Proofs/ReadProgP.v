(* ========================================================================================== *)
(* C03, general read programs.  The reader on a conformant, uncompressed peer stream, driven    *)
(* by an ARBITRARY program of NextReader / Read(any sizes) / ReadMessage calls, messages may   *)
(* be abandoned at any point.                                                                  *)
(*                                                                                            *)
(*  read_step               one messageReader.Read from any point of a message                 *)
(*  reads_run               any plan of Reads on the current message                           *)
(*  next_reader_step        NextReader from any point of the previous message (abandonment)    *)
(*  read_message_step       ReadMessage from any point of the previous message                 *)
(*  reader_api_mixed        whole programs (NextReader+Reads and ReadMessage mixed)            *)
(*  reader_api_general      whole programs made of read plans                                  *)
(*  next_reader_then_reads  one message, one plan                                              *)
(*  reads_ok_*              what the exact per-read specification [reads_ok] implies           *)
(*  reader_api_independent  complete messages do not depend on the plans                       *)
(* ========================================================================================== *)
Require Import WS.Base.Bytes WS.gen.Consts WS.Spec.Frame WS.Spec.Conformance WS.Model.Bufio
  WS.Model.Reader WS.Proofs.BufioP WS.Proofs.FrameP WS.Proofs.ReaderBasicP.
From RecordUpdate Require Import RecordSet.
Import RecordSetNotations.
Require Import WS.Proofs.ReaderP1 WS.Proofs.ReaderP2 WS.Proofs.ReaderP3 WS.Proofs.ReaderP
  WS.Proofs.CutP WS.Proofs.LimitP.
Ltac Zify.zify_post_hook ::= Z.div_mod_to_equations.

(* ============================== part A: frame lists ============================== *)
(* the rest of the current message, seen from a point where [final] = "the frame being read is
   the final one": payload still to come in later frames, and the frames after the message *)
Definition mdata (final:bool) (fs:list frame) : bytes := fst (fst (msg_tail final fs)).
Definition mafter (final:bool) (fs:list frame) : list frame := snd (msg_tail final fs).

Lemma mdata_true fs : mdata true fs = [].
Proof. reflexivity. Qed.
Lemma mafter_true fs : mafter true fs = fs.
Proof. reflexivity. Qed.

Lemma mdata_ctl f r : is_control (opcode f) = true -> mdata false (f :: r) = mdata false r.
Proof.
  intros H. unfold mdata, msg_tail. cbn [cont_msg]. rewrite H.
  destruct (cont_msg r) as [[d p] a]. reflexivity.
Qed.
Lemma mafter_ctl f r : is_control (opcode f) = true -> mafter false (f :: r) = mafter false r.
Proof.
  intros H. unfold mafter, msg_tail. cbn [cont_msg]. rewrite H.
  destruct (cont_msg r) as [[d p] a]. reflexivity.
Qed.
Lemma mdata_data f r : is_control (opcode f) = false ->
  mdata false (f :: r) = payload f ++ mdata (fin f) r.
Proof.
  intros H. unfold mdata, msg_tail. cbn [cont_msg]. rewrite H. destruct (fin f).
  - cbn [fst]. rewrite app_nil_r. reflexivity.
  - destruct (cont_msg r) as [[d p] a]. reflexivity.
Qed.
Lemma mafter_data f r : is_control (opcode f) = false ->
  mafter false (f :: r) = mafter (fin f) r.
Proof.
  intros H. unfold mafter, msg_tail. cbn [cont_msg]. rewrite H. destruct (fin f).
  - reflexivity.
  - destruct (cont_msg r) as [[d p] a]. reflexivity.
Qed.

(* the frames of the current message that are still to come: a prefix of the list, its pings *)
Lemma cont_msg_split : forall r d p a, cont_msg r = (d, p, a) ->
  exists pre, r = pre ++ a /\ p = pings_of pre.
Proof.
  induction r as [|f r IH]; intros d p a H.
  - cbn [cont_msg] in H. inversion H. exists []. auto.
  - cbn [cont_msg] in H. destruct (is_control (opcode f)) eqn:Hc.
    + destruct (cont_msg r) as [[d1 p1] a1] eqn:E. inversion H; subst d1 p a1. clear H.
      destruct (IH d p1 a eq_refl) as (pre & -> & ->). exists (f :: pre). auto.
    + destruct (fin f).
      * inversion H; subst d p a. exists [f]. split; [reflexivity|].
        rewrite pings_of_cons, ping1_nonctl by exact Hc. reflexivity.
      * destruct (cont_msg r) as [[d1 p1] a1] eqn:E. inversion H; subst d p1 a1. clear H.
        destruct (IH d1 p a eq_refl) as (pre & -> & ->). exists (f :: pre).
        split; [reflexivity|]. rewrite pings_of_cons, ping1_nonctl by exact Hc. reflexivity.
Qed.

Lemma msg_tail_split final fs d p a : msg_tail final fs = (d, p, a) ->
  exists pre, fs = pre ++ a /\ p = pings_of pre.
Proof.
  unfold msg_tail. destruct final; intros H.
  - inversion H. exists []. auto.
  - exact (cont_msg_split fs d p a H).
Qed.

Lemma mafter_seq srv final fs :
  seq_ok srv (negb final) fs = true -> seq_ok srv false (mafter final fs) = true.
Proof.
  destruct final; cbn [negb]; intros H; [exact H|].
  unfold mafter, msg_tail. destruct (cont_msg fs) as [[d p] a] eqn:E.
  destruct (cont_msg_spec srv fs 0 false [] d p a H E) as (_ & _ & _ & _ & H5 & _). exact H5.
Qed.

(* the last frame whose header has been consumed is a data frame, and [w] is what is left of
   its payload on the wire *)
Definition lastpos (pre:list frame) (w:bytes) : Prop :=
  (pre = [] /\ w = []) \/
  exists pre0 f w0, pre = pre0 ++ [f] /\ is_control (opcode f) = false /\ wire_payload f = w0 ++ w.

Lemma lastpos_suffix pre w1 w2 : lastpos pre (w1 ++ w2) -> lastpos pre w2.
Proof.
  intros [(H1 & H2)|(pre0 & f & w0 & H1 & H2 & H3)].
  - apply app_eq_nil in H2. destruct H2 as [_ H2]. left. auto.
  - right. exists pre0, f, (w0 ++ w1). rewrite <- app_assoc. auto.
Qed.

Lemma lastpos_data pre f : is_control (opcode f) = false -> lastpos (pre ++ [f]) (wire_payload f).
Proof. intros H. right. exists pre, f, []. auto. Qed.

Lemma lastpos_nil pre f : is_control (opcode f) = false -> lastpos (pre ++ [f]) [].
Proof. intros H. right. exists pre, f, (wire_payload f). rewrite app_nil_r. auto. Qed.

(* ============================== part B: the exact specification of a read plan ============ *)
(* [d]: the bytes of the message not yet delivered.  Each Read of size m:
   - nothing left: returns no byte and io.EOF;
   - otherwise: returns between 1 and m bytes, the next bytes of the message, and no error. *)
Fixpoint reads_ok (d:bytes) (l:list nat) (outs:list rout) {struct l} : Prop :=
  match l, outs with
  | [], [] => True
  | m :: l', RData x e :: outs' =>
      (d = [] -> x = [] /\ e = Some RIoEOF) /\
      (d <> [] -> e = None /\ x <> [] /\ (length x <= m)%nat) /\
      exists d', d = x ++ d' /\ reads_ok d' l' outs'
  | _, _ => False
  end.

Definition is_eof_out (r:rout) : bool :=
  match r with RData _ (Some RIoEOF) => true | _ => false end.

(* ... and what it implies *)
Lemma reads_ok_length : forall l d outs, reads_ok d l outs -> length outs = length l.
Proof.
  induction l as [|m l IH]; intros d outs H; destruct outs as [|o outs]; try (cbn in H; contradiction).
  - reflexivity.
  - cbn [reads_ok] in H. destruct o; try contradiction.
    destruct H as (_ & _ & d' & _ & H). cbn [length]. rewrite (IH d' outs H). reflexivity.
Qed.

Lemma reads_ok_shape : forall l d outs, reads_ok d l outs ->
  Forall (fun r => exists x e, r = RData x e /\ (e = None \/ e = Some RIoEOF)) outs.
Proof.
  induction l as [|m l IH]; intros d outs H; destruct outs as [|o outs]; try (cbn in H; contradiction).
  - constructor.
  - cbn [reads_ok] in H. destruct o; try contradiction.
    destruct H as (H1 & H2 & d' & _ & H). constructor; [|exact (IH d' outs H)].
    exists d0, e. split; [reflexivity|]. destruct d as [|b d].
    + right. apply H1. reflexivity.
    + left. apply H2. discriminate.
Qed.

Lemma reads_ok_prefix : forall l d outs, reads_ok d l outs ->
  exists rest, d = flat_map rdata outs ++ rest /\
    (rest = [] \/ forallb (fun r => negb (is_eof_out r)) outs = true).
Proof.
  induction l as [|m l IH]; intros d outs H; destruct outs as [|o outs]; try (cbn in H; contradiction).
  - exists d. split; [reflexivity|]. right. reflexivity.
  - cbn [reads_ok] in H. destruct o; try contradiction.
    destruct H as (H1 & H2 & d' & Hd & H).
    destruct (IH d' outs H) as (rest & Hr & Hc). exists rest.
    split; [cbn [flat_map rdata]; rewrite Hd, Hr, app_assoc; reflexivity|].
    destruct Hc as [Hc|Hc]; [left; exact Hc|].
    destruct d as [|b d].
    + left. symmetry in Hd. apply app_eq_nil in Hd. destruct Hd as [_ Hd]. subst d'.
      symmetry in Hr. apply app_eq_nil in Hr. apply Hr.
    + right. cbn [forallb]. rewrite Hc, andb_true_r.
      destruct H2 as (-> & _); [discriminate|]. reflexivity.
Qed.

(* io.EOF only at the true end: when the i-th read reports EOF, the reads before it have
   delivered the whole message, and every later read reports EOF again with no byte *)
Lemma reads_ok_eof_at_end : forall l d outs i x,
  reads_ok d l outs -> nth_error outs i = Some (RData x (Some RIoEOF)) ->
  x = [] /\ flat_map rdata (firstn i outs) = d /\
  Forall (fun r => r = RData [] (Some RIoEOF)) (skipn i outs).
Proof.
  induction l as [|m l IH]; intros d outs i x H Hn; destruct outs as [|o outs]; try (cbn in H; contradiction).
  - destruct i; discriminate Hn.
  - cbn [reads_ok] in H. destruct o; try contradiction.
    destruct H as (H1 & H2 & d' & Hd & H).
    destruct i as [|i].
    + cbn [nth_error] in Hn. inversion Hn; subst d0 e. clear Hn.
      destruct d as [|b d].
      * destruct (H1 eq_refl) as (-> & _). cbn [firstn flat_map skipn].
        split; [reflexivity|]. split; [reflexivity|].
        constructor; [reflexivity|].
        cbn [app] in Hd. subst d'.
        clear IH H1 H2. revert outs H. induction l as [|m' l IHl]; intros outs H;
          destruct outs as [|o outs]; try (cbn in H; contradiction); [constructor|].
        cbn [reads_ok] in H. destruct o; try contradiction.
        destruct H as (H1 & _ & d' & Hd & H). destruct (H1 eq_refl) as (-> & ->).
        cbn [app] in Hd. subst d'. constructor; [reflexivity|exact (IHl outs H)].
      * destruct H2 as (H2 & _); [discriminate|discriminate H2].
    + cbn [nth_error] in Hn. destruct (IH d' outs i x H Hn) as (E1 & E2 & E3).
      split; [exact E1|]. split; [cbn [firstn flat_map rdata]; rewrite E2; symmetry; exact Hd|].
      exact E3.
Qed.

(* a plan that is long enough delivers everything *)
Lemma reads_ok_long : forall l d outs, reads_ok d l outs -> (length d <= length l)%nat ->
  flat_map rdata outs = d.
Proof.
  induction l as [|m l IH]; intros d outs H Hl; destruct outs as [|o outs]; try (cbn in H; contradiction).
  - destruct d; [reflexivity|cbn [length] in Hl; lia].
  - cbn [reads_ok] in H. destruct o; try contradiction.
    destruct H as (H1 & H2 & d' & Hd & H). cbn [flat_map rdata].
    rewrite (IH d' outs H); [symmetry; exact Hd|].
    destruct d as [|b d].
    + symmetry in Hd. apply app_eq_nil in Hd. destruct Hd as [_ ->]. cbn [length]. lia.
    + destruct H2 as (_ & Hx & _); [discriminate|].
      assert (0 < length d0)%nat by (destruct d0; [congruence|cbn [length]; lia]).
      assert (Hlen : length (b :: d) = (length d0 + length d')%nat) by (rewrite Hd; apply app_length).
      cbn [length] in *. lia.
Qed.

(* a plan whose outputs contain an EOF has delivered everything *)
Lemma reads_ok_eof_complete l d outs :
  reads_ok d l outs -> existsb is_eof_out outs = true -> flat_map rdata outs = d.
Proof.
  intros H He. destruct (reads_ok_prefix l d outs H) as (rest & Hd & [Hr|Hr]).
  - subst rest. rewrite app_nil_r in Hd. symmetry. exact Hd.
  - exfalso. clear H Hd. induction outs as [|o outs IH]; [discriminate He|].
    cbn [existsb forallb] in *. apply andb_true_iff in Hr. destruct Hr as [Hr1 Hr2].
    destruct (is_eof_out o); [discriminate Hr1|]. cbn [orb] in He. exact (IH He Hr2).
Qed.

(* ---------- programs ---------- *)
(* a program is a list of calls: NextReader followed by a plan of Reads (which may stop before
   the end of the message, or go on after it), or ReadMessage *)
Inductive call := CPlan (l:list nat) | CMsg.
Definition ops_of_call (cl:call) : list rop :=
  match cl with CPlan l => ONext :: map ORead l | CMsg => [OReadMessage] end.
Definition call_pos (cl:call) : Prop :=
  match cl with CPlan l => Forall (fun m => (0 < m)%nat) l | CMsg => True end.

(* the i-th call concerns the i-th data message, whatever the earlier calls did *)
Fixpoint mixed_ok (ms:list (N * bool * bytes)) (cs:list call) (outs:list rout) {struct cs} : Prop :=
  match cs with
  | [] => outs = []
  | cl :: cs' =>
    match ms with
    | [] => False
    | (ty, _, d) :: ms' =>
      match cl with
      | CPlan l => exists o1 o2, outs = RNext ty None :: o1 ++ o2 /\ reads_ok d l o1 /\ mixed_ok ms' cs' o2
      | CMsg => exists o2, outs = RMsg ty d None :: o2 /\ mixed_ok ms' cs' o2
      end
    end
  end.

Definition prog := list (list nat).
Definition ops_of_prog (plans:prog) : list rop := flat_map (fun l => ONext :: map ORead l) plans.
Definition prog_pos (plans:prog) : Prop := Forall (Forall (fun m => (0 < m)%nat)) plans.

Fixpoint prog_ok (ms:list (N * bool * bytes)) (plans:prog) (outs:list rout) {struct plans} : Prop :=
  match plans with
  | [] => outs = []
  | l :: plans' =>
    match ms with
    | [] => False
    | (ty, _, d) :: ms' =>
      exists o1 o2, outs = RNext ty None :: o1 ++ o2 /\ reads_ok d l o1 /\ prog_ok ms' plans' o2
    end
  end.

Lemma prog_ok_mixed : forall plans ms outs, prog_ok ms plans outs <-> mixed_ok ms (map CPlan plans) outs.
Proof.
  induction plans as [|l plans IH]; intros ms outs; [split; intros H; exact H|].
  cbn [map prog_ok mixed_ok]. destruct ms as [|[[ty cc] d] ms]; [split; intros H; exact H|].
  split; intros (o1 & o2 & H1 & H2 & H3); exists o1, o2; (split; [exact H1|]); (split; [exact H2|]);
    apply IH; exact H3.
Qed.

Lemma ops_of_prog_calls plans : ops_of_prog plans = flat_map ops_of_call (map CPlan plans).
Proof.
  unfold ops_of_prog. induction plans as [|l plans IH]; [reflexivity|].
  cbn [map flat_map ops_of_call]. rewrite IH. reflexivity.
Qed.

(* the strengthened split of [first_msg]: the frames consumed end with a data frame *)
Lemma cont_msg_split_last srv : forall r d p a, seq_ok srv true r = true -> cont_msg r = (d, p, a) ->
  exists pre0 g, r = (pre0 ++ [g]) ++ a /\ p = pings_of (pre0 ++ [g]) /\ is_control (opcode g) = false.
Proof.
  induction r as [|f r IH]; intros d p a Hs H; [cbn in Hs; discriminate Hs|].
  cbn [seq_ok] in Hs. apply andb_true_iff in Hs. destruct Hs as [_ Hs]. unfold next_open in Hs.
  cbn [cont_msg] in H. destruct (is_control (opcode f)) eqn:Hc.
  - destruct (cont_msg r) as [[d1 p1] a1] eqn:E. inversion H; subst d1 p a1. clear H.
    destruct (IH d p1 a Hs eq_refl) as (pre0 & g & -> & -> & Hg). exists (f :: pre0), g. auto.
  - destruct (fin f).
    + inversion H; subst d p a. exists [], f. split; [reflexivity|]. split; [|exact Hc].
      cbn [app]. rewrite pings_of_cons, ping1_nonctl by exact Hc. reflexivity.
    + cbn [negb] in Hs. destruct (cont_msg r) as [[d1 p1] a1] eqn:E. inversion H; subst d p1 a1. clear H.
      destruct (IH d1 p a Hs eq_refl) as (pre0 & g & -> & -> & Hg). exists (f :: pre0), g.
      split; [reflexivity|]. split; [|exact Hg].
      change ((f :: pre0) ++ [g]) with (f :: (pre0 ++ [g])).
      rewrite pings_of_cons, ping1_nonctl by exact Hc. reflexivity.
Qed.

Lemma first_msg_split srv fs ty d p a : seq_ok srv false fs = true -> first_msg fs = Some (ty, d, p, a) ->
  exists pre0 g, fs = (pre0 ++ [g]) ++ a /\ p = pings_of (pre0 ++ [g]) /\ is_control (opcode g) = false.
Proof.
  intros Hs H. unfold first_msg in H.
  destruct (find_data fs) as [[[p1 f] r]|] eqn:Efd; [|discriminate H].
  destruct (find_data_spec srv fs p1 f r Hs Efd) as (cs & Hfs & _ & Hp & Hctl & _ & Hsr).
  unfold msg_tail in H. destruct (fin f).
  - inversion H; subst ty d p a. exists cs, f. rewrite <- app_assoc. split; [exact Hfs|].
    split; [|exact Hctl]. rewrite pings_of_app, pings_of_cons, ping1_nonctl, Hp by exact Hctl.
    cbn [pings_of flat_map]. reflexivity.
  - cbn [negb] in Hsr. destruct (cont_msg r) as [[more p2] a2] eqn:Ec. inversion H; subst ty d p a2.
    destruct (cont_msg_split_last srv r more p2 a Hsr Ec) as (pre0 & g & -> & -> & Hg).
    exists (cs ++ f :: pre0), g. split; [rewrite Hfs, <- !app_assoc; reflexivity|]. split; [|exact Hg].
    rewrite <- app_assoc. cbn [app]. rewrite (pings_of_app cs), (pings_of_cons f), Hp.
    rewrite (ping1_nonctl f) by exact Hctl. reflexivity.
Qed.

(* ============================== part C: one Read ============================== *)
Lemma next_loop_cur : forall fuel c s op s', next_loop fuel c s = (Some op, s') -> cur s' <> None.
Proof.
  induction fuel as [|fu IH]; intros c s op s' H; cbn [next_loop] in H.
  - destruct (rerror s); inversion H.
  - destruct (rerror s); [inversion H|].
    destruct (advance_frame c s) as [a s1]. destruct a as [e|o]; [inversion H|].
    destruct ((o =? c_TextMessage) || (o =? c_BinaryMessage)).
    + inversion H; subst. rsimpl. discriminate.
    + exact (IH _ _ _ _ H).
Qed.

Section Prog.
Variables (k:errk) (c:rcfg) (extra:bytes).
Hypothesis Hch : custom_handlers c = false.
Hypothesis Hne : extra <> [].
(* [all]: the whole frame list; [wl0]: what the reader had written before *)
Variables (all:list frame) (wl0:list wback).

(* the reader is inside (or at the end of) a data frame, [w] = wire bytes of that frame still
   unread, [fs] = the frames that follow *)
Definition rstate (s:rst) (w:bytes) (fs:list frame) : Prop :=
  rinv k s /\ rem s = blen w /\ pending (br s) = w ++ encode_frames fs ++ extra /\
  Forall wf_frame fs /\ seq_ok (server c) (negb (rfin s)) fs = true /\
  blen (encode_frames fs) < 2^63 /\ (rfin s = false -> rlen s + blen (encode_frames fs) < 2^63).

(* ... [pre] = the frames consumed so far: every ping among them has been answered, in order *)
Definition rpos (s:rst) (pre:list frame) (w:bytes) (fs:list frame) : Prop :=
  rstate s w fs /\ all = pre ++ fs /\ lastpos pre w /\ wlog s = wl0 ++ map WPong (pings_of pre).

(* the bytes of the current message not yet delivered *)
Definition remaining (s:rst) (w:bytes) (fs:list frame) : bytes := unmask c s w ++ mdata (rfin s) fs.

Lemma rpos_opidx s pre w fs n : rpos s pre w fs -> rpos (s <| opidx := n |>) pre w fs.
Proof.
  intros ((H1 & H2) & H3). split; [|exact H3]. split; [|exact H2].
  apply (rinv_same k s); [exact H1|reflexivity ..].
Qed.

Lemma remaining_opidx s w fs n : remaining (s <| opidx := n |>) w fs = remaining s w fs.
Proof. reflexivity. Qed.

(* outcome of one Read when [dr] is still to be delivered and [aft] follows the message *)
Definition step_post (m:nat) (dr:bytes) (aft:list frame) (r:bytes * option rerr * rst) : Prop :=
  let '(d, e, s') := r in
  (e = None /\ d <> [] /\ (length d <= m)%nat /\
   exists pre' w' fs', rpos s' pre' w' fs' /\ dr = d ++ remaining s' w' fs' /\
     mafter (rfin s') fs' = aft)
  \/
  (e = Some RIoEOF /\ d = [] /\ dr = [] /\ cur s' = None /\ rfin s' = true /\
   exists pre', rpos s' pre' [] aft).

Lemma step_chunk m fl s w fs pre : (0 < m)%nat -> rpos s pre w fs -> w <> [] ->
  step_post m (remaining s w fs) (mafter (rfin s) fs) (read_loop (S fl) c m s).
Proof.
  intros Hm ((Hrinv & Hrem & Hp & Hwf & Hseq & Hlen & Hrl) & Hall & Hlp & Hwl) Hw.
  pose proof Hrinv as (Hinv & Hbs & Hflt & Herr & Hoof & Hcs & Hrlim & Hecnt).
  destruct (read_loop_chunk k c m fl s w (encode_frames fs ++ extra) Hrinv Hm Hw Hrem Hp)
    as (w1 & w2 & e & s1 & Hw12 & Hw1 & Hb1 & Hrl1 & Hp1 & Hrem1 & Hfin1 & Hrlen1 & Hwl1 & Hun &
        Hinv1 & Hbs1 & Hfl1 & Hoof1 & Hcs1 & Hrlim1 & Herr1 & Hec1 & He).
  rewrite Hrl1. unfold step_post.
  destruct He as [-> | [Hnil _]].
  - left. split; [reflexivity|]. split; [apply unmask_nonnil; exact Hw1|].
    split; [rewrite unmask_length; unfold blen in Hb1; lia|].
    exists pre, w2, fs.
    assert (Hrinv1 : rinv k s1) by (unfold rinv; rewrite Hbs1, Hec1; auto 12).
    split.
    { split; [unfold rstate; rewrite Hfin1, Hrlen1; auto 10|].
      split; [exact Hall|]. split; [|rewrite Hwl1; exact Hwl].
      rewrite Hw12 in Hlp. exact (lastpos_suffix pre w1 w2 Hlp). }
    split; [|rewrite Hfin1; reflexivity].
    unfold remaining. rewrite Hun, Hfin1, <- app_assoc. reflexivity.
  - exfalso. apply app_eq_nil in Hnil. destruct Hnil as [_ Hnil].
    apply app_eq_nil in Hnil. destruct Hnil as [_ Hnil]. exact (Hne Hnil).
Qed.

Lemma step_eof m fl s fs pre : rpos s pre [] fs -> rfin s = true ->
  step_post m (remaining s [] fs) (mafter (rfin s) fs) (read_loop (S fl) c m s).
Proof.
  intros ((Hrinv & Hrem & Hp & Hwf & Hseq & Hlen & Hrl) & Hall & Hlp & Hwl) Hfin.
  pose proof Hrinv as (Hinv & Hbs & Hflt & Herr & Hoof & Hcs & Hrlim & Hecnt).
  rewrite (read_loop_eof fl c m s Herr Hrem Hfin). unfold step_post. right.
  unfold remaining. rewrite Hfin, unmask_nil, mdata_true, mafter_true.
  split; [reflexivity|]. split; [reflexivity|]. split; [reflexivity|]. split; [reflexivity|].
  split; [exact Hfin|]. exists pre.
  split; [|auto].
  split; [apply (rinv_same k s); [exact Hrinv|reflexivity ..]|]. rsimpl. auto 10.
Qed.

Lemma read_step_gen m : (0 < m)%nat -> forall fs w s fl pre,
  rstate s w fs -> all = pre ++ fs -> wlog s = wl0 ++ map WPong (pings_of pre) ->
  (rfin s = true \/ w <> [] -> lastpos pre w) ->
  (length (pending (br s)) < fl)%nat ->
  step_post m (remaining s w fs) (mafter (rfin s) fs) (read_loop fl c m s).
Proof.
  intros Hm. induction fs as [|f fs IH]; intros w s fl pre Hst Hall Hwl Hlp Hfl;
    (destruct fl as [|fl]; [lia|]).
  - destruct w as [|x w'] eqn:Ew.
    + pose proof Hst as (_ & _ & _ & _ & Hseq & _). cbn [seq_ok] in Hseq.
      apply negb_true_iff in Hseq. apply negb_false_iff in Hseq.
      apply (step_eof m fl s [] pre); [|exact Hseq]. split; [exact Hst|]. auto.
    + rewrite <- Ew in *. assert (Hw : w <> []) by (rewrite Ew; discriminate).
      apply (step_chunk m fl s w [] pre Hm); [|exact Hw]. split; [exact Hst|]. auto.
  - destruct w as [|x w'] eqn:Ew.
    2:{ rewrite <- Ew in *. assert (Hw : w <> []) by (rewrite Ew; discriminate).
        apply (step_chunk m fl s w (f :: fs) pre Hm); [|exact Hw]. split; [exact Hst|]. auto. }
    destruct (rfin s) eqn:Efin.
    { rewrite <- Efin. apply (step_eof m fl s (f :: fs) pre); [|exact Efin]. split; [exact Hst|]. auto. }
    destruct Hst as (Hrinv & Hrem & Hp & Hwf & Hseq & Hlen & Hrl).
    pose proof Hrinv as (Hinv & Hbs & Hflt & Herr & Hoof & Hcs & Hrlim & Hecnt).
    specialize (Hrl Efin). rewrite Efin in Hseq. cbn [negb] in Hseq.
    inversion Hwf as [|f' fs' Hwff Hwfs]; subst f' fs'.
    cbn [seq_ok] in Hseq. apply andb_true_iff in Hseq. destruct Hseq as [Hacc Hseq].
    cbn [app] in Hp. rewrite encode_frames_cons, <- app_assoc in Hp.
    change (blen []) with 0 in Hrem.
    assert (Hlenp : (length (pending (br s)) =
                     length (encode_frame f) + length (encode_frames fs ++ extra))%nat)
      by (rewrite Hp, app_length; reflexivity).
    pose proof (encode_frame_length_ge2 f) as Hge2.
    pose proof (encode_frame_ge_plen f) as Hgep.
    rewrite encode_frames_cons, blen_app in Hlen, Hrl.
    assert (Haccs : frame_acc (server c) (negb (rfin s)) f = true) by (rewrite Efin; exact Hacc).
    assert (Hall' : all = (pre ++ [f]) ++ fs) by (rewrite <- app_assoc; exact Hall).
    unfold next_open in Hseq. unfold remaining. rewrite unmask_nil, ?Efin. cbn [app].
    destruct (acc_cases _ _ _ Hacc) as [(Hctl & Hop & _)|(Hctl & [(_ & Hxx)|(Hop & _)])];
      [| discriminate Hxx |].
    + (* ping / pong between the fragments: answered, the Read goes on *)
      rewrite Hctl in Hseq.
      destruct (advance_ctl k c s f (encode_frames fs ++ extra) Hrinv Hch Hwff Haccs Hctl Hp)
        as (s1 & Hadv & Hrinv1 & Hrem1 & Hfin1 & Hrlen1 & Hp1 & Hwl1).
      rewrite (read_loop_adv fl c m s (opcode f) s1 Herr Hrem Efin Hadv) by lia.
      rewrite mdata_ctl, mafter_ctl by exact Hctl.
      rewrite Efin in Hfin1.
      replace (mdata false fs) with (remaining s1 [] fs)
        by (unfold remaining; rewrite unmask_nil, Hfin1; reflexivity).
      rewrite <- Hfin1.
      apply (IH [] s1 fl (pre ++ [f])).
      * unfold rstate. rewrite Hfin1, Hrlen1. cbn [negb app]. change (blen []) with 0.
        split; [exact Hrinv1|]. split; [exact Hrem1|]. split; [exact Hp1|]. split; [exact Hwfs|].
        split; [exact Hseq|]. split; [lia|]. intros _. lia.
      * exact Hall'.
      * rewrite Hwl1, Hwl, pings_of_app, map_app, <- app_assoc.
        cbn [pings_of flat_map]. rewrite app_nil_r. reflexivity.
      * intros [Hx|Hx]; [congruence|contradiction].
      * rewrite Hp1. lia.
    + (* continuation frame *)
      rewrite Hctl in Hseq.
      destruct (advance_data k c s f (encode_frames fs ++ extra) Hrinv Hwff Haccs Hctl Hp)
        as (s1 & Hadv & Hrinv1 & Hrem1 & Hfin1 & Hrlen1 & Hp1 & Hun1 & _ & Hwl1);
        [rewrite Hop; change (0 =? 0) with true; cbv iota; lia|].
      rewrite Hop in Hrlen1. change (0 =? 0) with true in Hrlen1. cbv iota in Hrlen1.
      rewrite (read_loop_adv fl c m s (opcode f) s1 Herr Hrem Efin Hadv) by lia.
      rewrite mdata_data, mafter_data by exact Hctl.
      replace (payload f ++ mdata (fin f) fs) with (remaining s1 (wire_payload f) fs)
        by (unfold remaining; rewrite Hun1, Hfin1; reflexivity).
      rewrite <- Hfin1.
      assert (Hwpl : (length (wire_payload f) <= length (encode_frame f) - 2)%nat).
      { rewrite encode_frame_decomp. cbn [length]. rewrite !app_length. lia. }
      apply (IH (wire_payload f) s1 fl (pre ++ [f])).
      * unfold rstate. rewrite Hfin1, Hrlen1.
        split; [exact Hrinv1|]. split; [rewrite Hrem1; symmetry; apply wire_payload_blen|].
        split; [exact Hp1|]. split; [exact Hwfs|]. split; [exact Hseq|]. split; [lia|]. intros _. lia.
      * exact Hall'.
      * rewrite Hwl1, Hwl, pings_of_app. cbn [pings_of flat_map].
        rewrite ping1_nonctl by exact Hctl. rewrite !app_nil_r. reflexivity.
      * intros _. apply lastpos_data. exact Hctl.
      * rewrite Hp1, app_length. lia.
Qed.

(* messageReader.Read(p), len(p) = m > 0, on the current reader, from any point of the message *)
Theorem read_step m s pre w fs : (0 < m)%nat -> rpos s pre w fs ->
  step_post m (remaining s w fs) (mafter (rfin s) fs) (reader_read c m s) /\
  (cur (snd (reader_read c m s)) = cur s \/ snd (fst (reader_read c m s)) = Some RIoEOF).
Proof.
  intros Hm (Hst & Hall & Hlp & Hwl). split.
  - unfold reader_read. apply (read_step_gen m Hm fs w s (fuel_of s) pre Hst Hall Hwl); [auto|].
    unfold fuel_of. lia.
  - unfold reader_read. pose proof (read_loop_cur (fuel_of s) c m s) as H.
    destruct (read_loop (fuel_of s) c m s) as [[d e] s']. exact (H d e s' eq_refl).
Qed.

(* ============================== part D: calls from any point of a message ===================== *)
(* between two calls the reader is somewhere in (or at the end of) a message; [aft] = the frames
   after that message *)
Definition midmsg (s:rst) (aft:list frame) : Prop :=
  exists pre w fs, rpos s pre w fs /\ mafter (rfin s) fs = aft.

(* ... and [d] is what is still to be delivered of it *)
Definition inmsg (s:rst) (aft:list frame) (d:bytes) : Prop :=
  exists pre w fs, rpos s pre w fs /\ remaining s w fs = d /\ mafter (rfin s) fs = aft.

Lemma inmsg_midmsg s aft d : inmsg s aft d -> midmsg s aft.
Proof. intros (pre & w & fs & H1 & _ & H3). exists pre, w, fs. auto. Qed.

Lemma midmsg_seq s aft : midmsg s aft -> seq_ok (server c) false aft = true.
Proof.
  intros (pre & w & fs & ((_ & _ & _ & _ & Hseq & _) & _) & <-). apply mafter_seq. exact Hseq.
Qed.

(* NextReader, whatever was or was not read of the previous message *)
Theorem next_reader_step s aft ty d p aft' :
  midmsg s aft -> first_msg aft = Some (ty, d, p, aft') ->
  exists s', next_reader c s = (RNext ty None, s') /\ cur s' <> None /\ inmsg s' aft' d.
Proof.
  intros Hmid Hfm. pose proof (midmsg_seq s aft Hmid) as Hseqa.
  destruct Hmid as (pre & w & fs & ((Hrinv & Hrem & Hp & Hwf & Hseq & Hlen & Hrl) & Hall & Hlp & Hwl) & Haft).
  unfold first_msg in Hfm.
  destruct (find_data aft) as [[[p1 f] r]|] eqn:Efd; [|discriminate Hfm].
  destruct (msg_tail (fin f) r) as [[more p2] a2] eqn:Emt. inversion Hfm; subst ty d p a2. clear Hfm.
  destruct (msg_tail (rfin s) fs) as [[more0 pings0] fs1] eqn:Emt0.
  assert (fs1 = aft) by (unfold mafter in Haft; rewrite Emt0 in Haft; exact Haft). subst fs1.
  destruct (msg_tail_split _ _ _ _ _ Emt0) as (pre1 & Hfs & Hpg0).
  destruct (find_data_spec (server c) aft p1 f r Hseqa Efd) as (cs & Haft2 & _ & Hp1 & Hctl & _ & _).
  set (s0 := s <| cur := None |> <| rlen := 0 |>).
  assert (Hrinv0 : rinvL 0 k s0) by (apply rinvL_zero; apply (rinv_same k s); [exact Hrinv|reflexivity ..]).
  destruct (next_loopL 0 k c extra Hch fs s0 w (fuel_of s0) more0 pings0 aft p1 f r Hrinv0 Hrem Hp Hwf Hseq)
    as [Hok _];
    [change (rlen s0) with 0; lia|unfold fuel_of; lia
    |apply tail_lim_within; [exact Emt0|left; reflexivity]|exact Efd|].
  destruct (Hok (or_introl eq_refl))
    as (s' & Hnl & Hrinv' & Hrem' & Hfin' & Hrlen' & Hp' & Hun' & _ & Hwl' & Hwfr & Hseqr & Hlenr & Hop).
  exists s'. unfold next_reader. fold s0. rewrite Hnl. split; [reflexivity|].
  split; [exact (next_loop_cur _ _ _ _ _ Hnl)|].
  exists (pre ++ pre1 ++ cs ++ [f]), (wire_payload f), r.
  split; [split|].
  - unfold rstate. rewrite Hfin', Hrlen'.
    split; [apply rinvL_zero; exact Hrinv'|]. split; [rewrite Hrem'; symmetry; apply wire_payload_blen|].
    split; [exact Hp'|]. split; [exact Hwfr|]. split; [exact Hseqr|]. split; [lia|]. intros _. exact Hlenr.
  - split; [rewrite Hall, Hfs, Haft2, <- !app_assoc; reflexivity|].
    split; [rewrite !app_assoc; apply lastpos_data; exact Hctl|].
    change (wlog s0) with (wlog s) in Hwl'. rewrite Hwl', Hwl, Hpg0, <- Hp1.
    rewrite !pings_of_app, !map_app, <- !app_assoc. cbn [pings_of flat_map].
    rewrite ping1_nonctl by exact Hctl. cbn [app map]. rewrite app_nil_r. reflexivity.
  - unfold remaining, mdata, mafter. rewrite Hun', Hfin', Emt. auto.
Qed.

(* ReadMessage, whatever was or was not read of the previous message *)
Theorem read_message_step inflate s aft ty d p aft' :
  midmsg s aft -> first_msg aft = Some (ty, d, p, aft') ->
  exists s', read_message inflate c s = (RMsg ty d None, s') /\ midmsg s' aft'.
Proof.
  intros Hmid Hfm. pose proof (midmsg_seq s aft Hmid) as Hseqa.
  destruct Hmid as (pre & w & fs & ((Hrinv & Hrem & Hp & Hwf & Hseq & Hlen & Hrl) & Hall & Hlp & Hwl) & Haft).
  destruct (msg_tail (rfin s) fs) as [[more0 pings0] fs1] eqn:Emt0.
  assert (fs1 = aft) by (unfold mafter in Haft; rewrite Emt0 in Haft; exact Haft). subst fs1.
  destruct (msg_tail_split _ _ _ _ _ Emt0) as (pre1 & Hfs & Hpg0).
  destruct (first_msg_split (server c) aft ty d p aft' Hseqa Hfm) as (pre0 & g & Haft2 & Hpp & Hg).
  destruct (first_msg_some (server c) aft ty d p aft' Hseqa Hfm) as (_ & _ & _ & Hseqa' & _).
  destruct (abandoned_then_next_message_read inflate 0 k c extra Hch (or_introl Hne)
              fs s w more0 pings0 aft ty d p aft')
    as (s' & Hrm & Hend & Hrem' & Hfin' & Hp' & Hwl');
    [apply rinvL_zero; exact Hrinv|exact Hrem|exact Hp|exact Hwf|exact Hseq|exact Hlen|exact Emt0
    |left; reflexivity|exact Hfm|left; reflexivity|].
  exists s'. split; [exact Hrm|].
  exists (pre ++ pre1 ++ pre0 ++ [g]), [], aft'.
  assert (Hwfa : Forall wf_frame aft').
  { rewrite Hfs, Haft2 in Hwf. apply Forall_app_r in Hwf. apply Forall_app_r in Hwf. exact Hwf. }
  assert (Hlena : blen (encode_frames aft') < 2^63).
  { rewrite Hfs, Haft2 in Hlen. rewrite !encode_frames_app, !blen_app in Hlen. lia. }
  split; [split|rewrite Hfin'; reflexivity].
  - unfold rstate. rewrite Hfin'. cbn [negb app].
    split.
    { destruct Hend as (E1 & E2 & E3 & [E4|(_ & E4 & _)] & E5 & E6 & E7 & E8).
      - unfold rinv. auto 12.
      - exfalso. rewrite Hp' in E4. apply app_eq_nil in E4. destruct E4 as [_ E4]. exact (Hne E4). }
    split; [exact Hrem'|]. split; [exact Hp'|]. split; [exact Hwfa|]. split; [exact Hseqa'|].
    split; [exact Hlena|]. intros Hx; discriminate Hx.
  - split; [rewrite Hall, Hfs, Haft2, <- !app_assoc; reflexivity|].
    split; [rewrite !app_assoc; apply lastpos_nil; exact Hg|].
    rewrite Hwl', Hwl, Hpg0, Hpp. rewrite !pings_of_app, !map_app, <- !app_assoc. reflexivity.
Qed.

(* any plan of Reads on the current message *)
Theorem reads_run inflate : forall l s aft d, Forall (fun m => (0 < m)%nat) l ->
  inmsg s aft d -> (cur s = None -> d = [] /\ rfin s = true) ->
  exists outs s', run_ops inflate c s (map ORead l) = (outs, s') /\ reads_ok d l outs /\ midmsg s' aft.
Proof.
  induction l as [|m l IH]; intros s aft d Hl Hin Hcur.
  - exists [], s. split; [reflexivity|]. split; [exact I|]. exact (inmsg_midmsg _ _ _ Hin).
  - inversion Hl as [|m' l' Hm Hl']; subst m' l'.
    destruct Hin as (pre & w & fs & Hrp & Hd & Haft).
    cbn [map run_ops]. unfold rstep. destruct (cur s) as [i|] eqn:Ec.
    + destruct (read_step m s pre w fs Hm Hrp) as (Hpost & Hcur1). rewrite Hd, Haft in Hpost.
      revert Hpost Hcur1. destruct (reader_read c m s) as [[x e] s1]. cbn [fst snd]. intros Hpost Hcur1.
      unfold step_post in Hpost.
      destruct Hpost as [(-> & Hx & Hlx & pre' & w' & fs' & Hrp' & Hd' & Haft')
                        |(-> & -> & Hd' & Hc1 & Hf1 & pre' & Hrp')].
      * destruct Hcur1 as [Hcur1|Hcur1]; [|discriminate Hcur1].
        destruct (IH (s1 <| opidx := S (opidx s1) |>) aft (remaining s1 w' fs') Hl') as (outs & s' & Hrun & Hok & Hmid).
        { exists pre', w', fs'. split; [apply rpos_opidx; exact Hrp'|]. split; [reflexivity|exact Haft']. }
        { change (cur (s1 <| opidx := S (opidx s1) |>)) with (cur s1). rewrite Hcur1, Ec. discriminate. }
        rewrite Hrun. exists (RData x None :: outs), s'. split; [reflexivity|]. split; [|exact Hmid].
        cbn [reads_ok]. split.
        { intros E. exfalso. rewrite E in Hd'. symmetry in Hd'. apply app_eq_nil in Hd'. apply Hx. apply Hd'. }
        split; [intros _; auto|]. exists (remaining s1 w' fs'). auto.
      * destruct (IH (s1 <| opidx := S (opidx s1) |>) aft [] Hl') as (outs & s' & Hrun & Hok & Hmid).
        { exists pre', [], aft. split; [apply rpos_opidx; exact Hrp'|].
          rewrite remaining_opidx. unfold remaining. change (rfin (s1 <| opidx := S (opidx s1) |>)) with (rfin s1).
          rewrite Hf1, unmask_nil. auto. }
        { intros _. auto. }
        rewrite Hrun. exists (RData [] (Some RIoEOF) :: outs), s'. split; [reflexivity|]. split; [|exact Hmid].
        cbn [reads_ok]. subst d. split; [auto|]. split; [intros E; contradiction|]. exists []. auto.
    + destruct (Hcur eq_refl) as (-> & Hf).
      destruct (IH (s <| opidx := S (opidx s) |>) aft [] Hl') as (outs & s' & Hrun & Hok & Hmid).
      { exists pre, w, fs. split; [apply rpos_opidx; exact Hrp|]. rewrite remaining_opidx. auto. }
      { intros _. auto. }
      rewrite Hrun. exists (RData [] (Some RIoEOF) :: outs), s'. split; [reflexivity|]. split; [|exact Hmid].
      cbn [reads_ok]. split; [auto|]. split; [intros E; contradiction|]. exists []. auto.
Qed.

Lemma reads_ok_not_panic d l outs : reads_ok d l outs -> ~ In RPanic outs.
Proof.
  intros H Hin. pose proof (reads_ok_shape l d outs H) as Hs. rewrite Forall_forall in Hs.
  destruct (Hs _ Hin) as (x & e & Hx & _). discriminate Hx.
Qed.

(* one call *)
Lemma call_run inflate cl s aft ty d p aft' : call_pos cl ->
  midmsg s aft -> first_msg aft = Some (ty, d, p, aft') ->
  exists o1 s', run_ops inflate c s (ops_of_call cl) = (o1, s') /\ ~ In RPanic o1 /\ midmsg s' aft' /\
    match cl with
    | CPlan l => exists o, o1 = RNext ty None :: o /\ reads_ok d l o
    | CMsg => o1 = [RMsg ty d None]
    end.
Proof.
  intros Hpos Hmid Hfm. destruct cl as [l|]; cbn [ops_of_call run_ops]; unfold rstep.
  - destruct (next_reader_step s aft ty d p aft' Hmid Hfm) as (s1 & Hnr & Hc1 & Hin1). rewrite Hnr.
    destruct (reads_run inflate l (s1 <| opidx := S (opidx s1) |>) aft' d Hpos) as (o & s' & Hrun & Hok & Hmid').
    { destruct Hin1 as (pre & w & fs & H1 & H2 & H3). exists pre, w, fs.
      split; [apply rpos_opidx; exact H1|]. rewrite remaining_opidx. auto. }
    { intros E. exfalso. apply Hc1. exact E. }
    rewrite Hrun. exists (RNext ty None :: o), s'. split; [reflexivity|].
    split; [intros [E|E]; [discriminate E|exact (reads_ok_not_panic d l o Hok E)]|].
    split; [exact Hmid'|]. exists o. auto.
  - destruct (read_message_step inflate s aft ty d p aft' Hmid Hfm) as (s1 & Hrm & Hmid1). rewrite Hrm.
    exists [RMsg ty d None], (s1 <| opidx := S (opidx s1) |>). split; [reflexivity|].
    split; [intros [E|[]]; discriminate E|]. split; [|reflexivity].
    destruct Hmid1 as (pre & w & fs & H1 & H2). exists pre, w, fs. split; [apply rpos_opidx; exact H1|exact H2].
Qed.

(* whole programs *)
Theorem run_calls inflate : forall cs s aft, Forall call_pos cs -> midmsg s aft ->
  (length cs <= length (msgs aft))%nat ->
  exists outs s' aft', run_ops inflate c s (flat_map ops_of_call cs) = (outs, s') /\
    mixed_ok (msgs aft) cs outs /\ midmsg s' aft' /\ msgs aft' = skipn (length cs) (msgs aft).
Proof.
  induction cs as [|cl cs IH]; intros s aft Hpos Hmid Hlen.
  - exists [], s, aft. cbn [flat_map run_ops mixed_ok length skipn]. auto.
  - inversion Hpos as [|cl' cs' Hp1 Hp2]; subst cl' cs'.
    pose proof (midmsg_seq s aft Hmid) as Hseqa.
    destruct (first_msg aft) as [[[[ty d] p] aft1]|] eqn:Efm.
    2:{ destruct (first_msg_none (server c) aft Hseqa Efm) as (_ & Hms). rewrite Hms in Hlen.
        cbn [length] in Hlen. lia. }
    destruct (first_msg_some (server c) aft ty d p aft1 Hseqa Efm) as (_ & _ & Hms & _ & _).
    destruct (call_run inflate cl s aft ty d p aft1 Hp1 Hmid Efm) as (o1 & s1 & Hrun1 & Hnp & Hmid1 & Hshape).
    rewrite Hms in Hlen. cbn [length] in Hlen.
    destruct (IH s1 aft1 Hp2 Hmid1 ltac:(lia)) as (o2 & s' & aft' & Hrun2 & Hok2 & Hmid' & Hms').
    cbn [flat_map]. rewrite (run_ops_app inflate c _ _ _ _ (flat_map ops_of_call cs) Hrun1 Hnp), Hrun2.
    cbn [fst snd]. exists (o1 ++ o2), s', aft'. split; [reflexivity|].
    split; [|split; [exact Hmid'|rewrite Hms; cbn [length skipn]; exact Hms']].
    rewrite Hms. cbn [mixed_ok]. destruct cl as [l|].
    + destruct Hshape as (o & -> & Hok). exists o, o2. auto.
    + subst o1. exists o2. auto.
Qed.
End Prog.

(* ============================== part E: theorems on a whole connection ======================= *)
(* The point the reader has reached in the frame list [fs]:
   - [pre]  = the frames whose header it has consumed; the last of them is a data frame (the
              reader never runs ahead of the application: a control frame is consumed only on
              the way to the next data frame), [w] = the wire bytes of that frame still unread;
   - [post] = the frames still untouched on the transport;
   - every ping located in [pre] has been answered, in order, and nothing else was written. *)
Definition reached (fs:list frame) (extra:bytes) (s:rst) : Prop :=
  exists pre w post, fs = pre ++ post /\ lastpos pre w /\
    pending (br s) = w ++ encode_frames post ++ extra /\ rem s = blen w /\
    wlog s = map WPong (pings_of pre) /\
    rerror s = None /\ outoffuel s = false /\ closesent s = false.

Lemma midmsg_init c extra fs b :
  binv b -> (125 <= bsize b)%nat -> conformant_frames c fs -> pending b = encode_frames fs ++ extra ->
  midmsg (fault (src b)) c extra fs [] (init_rst b) fs.
Proof.
  intros Hinv Hbs (Hwf & Hseq & Hlen) Hp. exists [], [], fs.
  split; [|reflexivity]. split.
  - unfold rstate. split; [apply rinv_init; assumption|]. split; [reflexivity|]. split; [exact Hp|].
    split; [exact Hwf|]. split; [exact Hseq|]. split; [exact Hlen|]. intros Hx; discriminate Hx.
  - split; [reflexivity|]. split; [left; auto|reflexivity].
Qed.

Lemma midmsg_reached k c extra0 all s aft :
  midmsg k c extra0 all [] s aft -> reached all extra0 s.
Proof.
  intros (pre & w & fs & ((Hrinv & Hrem & Hp & _) & Hall & Hlp & Hwl) & _).
  destruct Hrinv as (_ & _ & _ & Herr & Hoof & Hcs & _).
  exists pre, w, fs. auto 12.
Qed.

Lemma reached_trailer fs extra s :
  reached (body fs) (encode_frames (trailer fs) ++ extra) s -> reached fs extra s.
Proof.
  intros (pre & w & post & H1 & H2 & H3 & H4). exists pre, w, (post ++ trailer fs).
  split; [rewrite app_assoc, <- H1; symmetry; apply body_trailer|]. split; [exact H2|].
  split; [|exact H4]. rewrite H3, encode_frames_app, <- !app_assoc. reflexivity.
Qed.

(* ------------------------------------------------------------------------------------------ *)
(* Whole programs, NextReader+Reads and ReadMessage mixed.  Hypotheses as in                    *)
(* read_messages_general, except that at least one byte must follow the last data frame (a     *)
(* trailing control frame, or anything else): see [glued_eof_counterexample] below for what    *)
(* happens otherwise.                                                                          *)
(* ------------------------------------------------------------------------------------------ *)
Theorem reader_api_mixed :
  forall inflate c b fs extra cs,
    custom_handlers c = false -> binv b -> (125 <= bsize b)%nat ->
    conformant_frames c fs -> pending b = encode_frames fs ++ extra ->
    (trailer fs = [] -> extra <> []) ->
    Forall call_pos cs -> (length cs <= length (data_msgs (events_of fs)))%nat ->
    exists outs s',
      run_ops inflate c (init_rst b) (flat_map ops_of_call cs) = (outs, s') /\
      mixed_ok (data_msgs (events_of fs)) cs outs /\ reached fs extra s'.
Proof.
  intros inflate c b fs extra cs Hch Hinv Hbs Hconf Hp Hside Hpos Hlen.
  set (extra' := encode_frames (trailer fs) ++ extra).
  assert (Hne : extra' <> []).
  { subst extra'. destruct (trailer fs) as [|t tr] eqn:Et; [cbn [encode_frames flat_map app]; auto|].
    rewrite encode_frames_cons, encode_frame_decomp. cbn [app]. discriminate. }
  assert (Hp' : pending b = encode_frames (body fs) ++ extra').
  { subst extra'. rewrite app_assoc, <- encode_frames_app, body_trailer. exact Hp. }
  pose proof (midmsg_init c extra' (body fs) b Hinv Hbs (conformant_body c fs Hconf) Hp') as Hmid.
  destruct (run_calls (fault (src b)) c extra' Hch Hne (body fs) [] inflate cs (init_rst b) (body fs) Hpos Hmid)
    as (outs & s' & aft' & Hrun & Hok & Hmid' & _).
  { rewrite msgs_body. exact Hlen. }
  exists outs, s'. split; [exact Hrun|]. rewrite msgs_body in Hok. split; [exact Hok|].
  apply reached_trailer. exact (midmsg_reached _ _ _ _ _ _ Hmid').
Qed.

(* Whole programs made of read plans: one plan per NextReader; a plan may stop before the end of
   its message (the message is abandoned), may be empty, may go on after the end. *)
Theorem reader_api_general :
  forall inflate c b fs extra (plans:prog),
    custom_handlers c = false -> binv b -> (125 <= bsize b)%nat ->
    conformant_frames c fs -> pending b = encode_frames fs ++ extra ->
    (trailer fs = [] -> extra <> []) ->
    prog_pos plans -> (length plans <= length (data_msgs (events_of fs)))%nat ->
    exists outs s',
      run_ops inflate c (init_rst b) (ops_of_prog plans) = (outs, s') /\
      prog_ok (data_msgs (events_of fs)) plans outs /\ reached fs extra s'.
Proof.
  intros inflate c b fs extra plans Hch Hinv Hbs Hconf Hp Hside Hpos Hlen.
  destruct (reader_api_mixed inflate c b fs extra (map CPlan plans) Hch Hinv Hbs Hconf Hp Hside)
    as (outs & s' & Hrun & Hok & Hre).
  { apply Forall_forall. intros cl Hin. apply in_map_iff in Hin. destruct Hin as (l & <- & Hin).
    unfold prog_pos in Hpos. rewrite Forall_forall in Hpos. exact (Hpos l Hin). }
  { rewrite map_length. exact Hlen. }
  exists outs, s'. rewrite ops_of_prog_calls. split; [exact Hrun|]. split; [|exact Hre].
  apply prog_ok_mixed. exact Hok.
Qed.

(* One message, one plan *)
Theorem next_reader_then_reads :
  forall inflate c b fs extra l ty cc d rest,
    custom_handlers c = false -> binv b -> (125 <= bsize b)%nat ->
    conformant_frames c fs -> pending b = encode_frames fs ++ extra ->
    (trailer fs = [] -> extra <> []) ->
    Forall (fun m => (0 < m)%nat) l ->
    data_msgs (events_of fs) = (ty, cc, d) :: rest ->
    exists outs s',
      run_ops inflate c (init_rst b) (ONext :: map ORead l) = (RNext ty None :: outs, s') /\
      reads_ok d l outs /\ reached fs extra s'.
Proof.
  intros inflate c b fs extra l ty cc d rest Hch Hinv Hbs Hconf Hp Hside Hl Hms.
  destruct (reader_api_general inflate c b fs extra [l] Hch Hinv Hbs Hconf Hp Hside)
    as (outs & s' & Hrun & Hok & Hre).
  { constructor; [exact Hl|constructor]. }
  { rewrite Hms. cbn [length]. lia. }
  rewrite Hms in Hok. cbn [prog_ok] in Hok. destruct Hok as (o1 & o2 & -> & Hok1 & ->).
  unfold ops_of_prog in Hrun. cbn [flat_map] in Hrun. rewrite !app_nil_r in Hrun.
  exists o1, s'. auto.
Qed.

(* ---------- the specification [reads_ok] read out: the i-th Read of a plan ---------- *)
Lemma reads_ok_nth : forall l d outs i x e,
  reads_ok d l outs -> nth_error outs i = Some (RData x e) ->
  exists di, d = flat_map rdata (firstn i outs) ++ di /\
    (di = [] -> x = [] /\ e = Some RIoEOF) /\
    (di <> [] -> e = None /\ x <> [] /\ (length x <= nth i l 0)%nat).
Proof.
  induction l as [|m l IH]; intros d outs i x e H Hn; destruct outs as [|o outs]; try (cbn in H; contradiction).
  - destruct i; discriminate Hn.
  - cbn [reads_ok] in H. destruct o; try contradiction.
    destruct H as (H1 & H2 & d' & Hd & H).
    destruct i as [|i].
    + cbn [nth_error] in Hn. inversion Hn; subst d0 e0. clear Hn.
      exists d. cbn [firstn flat_map nth]. auto.
    + cbn [nth_error] in Hn. destruct (IH d' outs i x e H Hn) as (di & E1 & E2 & E3).
      exists di. split; [cbn [firstn flat_map rdata]; rewrite <- app_assoc, <- E1; exact Hd|].
      cbn [nth]. auto.
Qed.

Theorem reads_ok_properties d l outs : reads_ok d l outs ->
  length outs = length l /\
  (* every output is data with no error, or io.EOF *)
  Forall (fun r => exists x e, r = RData x e /\ (e = None \/ e = Some RIoEOF)) outs /\
  (* the bytes delivered are a prefix of the message *)
  (exists rest, d = flat_map rdata outs ++ rest) /\
  (forall i x e, nth_error outs i = Some (RData x e) ->
     (* io.EOF exactly when the earlier Reads have delivered the whole message ... *)
     (e = Some RIoEOF <-> flat_map rdata (firstn i outs) = d) /\
     (* ... and then no byte comes with it and every later Read says the same *)
     (e = Some RIoEOF -> x = [] /\ Forall (fun r => r = RData [] (Some RIoEOF)) (skipn i outs)) /\
     (* otherwise the Read makes progress: between 1 and len(p) bytes *)
     (e <> Some RIoEOF -> e = None /\ x <> [] /\ (length x <= nth i l 0)%nat)) /\
  (* a plan that has seen io.EOF, or that is long enough, has delivered everything *)
  (existsb is_eof_out outs = true -> flat_map rdata outs = d) /\
  ((length d <= length l)%nat -> flat_map rdata outs = d).
Proof.
  intros H. split; [exact (reads_ok_length l d outs H)|]. split; [exact (reads_ok_shape l d outs H)|].
  split; [destruct (reads_ok_prefix l d outs H) as (rest & Hr & _); exists rest; exact Hr|].
  split; [|split; [exact (reads_ok_eof_complete l d outs H)|exact (reads_ok_long l d outs H)]].
  intros i x e Hn. destruct (reads_ok_nth l d outs i x e H Hn) as (di & E1 & E2 & E3).
  assert (Hdi : di = [] <-> flat_map rdata (firstn i outs) = d).
  { split; intros Hx.
    - subst di. rewrite app_nil_r in E1. symmetry. exact E1.
    - rewrite <- Hx in E1 at 1. rewrite <- (app_nil_r (flat_map rdata (firstn i outs))) in E1 at 1.
      apply app_inv_head in E1. symmetry. exact E1. }
  split; [|split].
  - rewrite <- Hdi. split; intros Hx.
    + destruct di as [|y di]; [reflexivity|]. destruct E3 as (E3 & _); [discriminate|]. congruence.
    + apply E2. exact Hx.
  - intros ->. destruct (reads_ok_eof_at_end l d outs i x H Hn) as (A & _ & B). auto.
  - intros Hx. destruct di as [|y di]; [destruct (E2 eq_refl) as (_ & E); contradiction|].
    apply E3. discriminate.
Qed.

(* ============================== part F: independence of the plans ============================ *)
(* the complete messages an application assembles from the outputs: NextReader opens a message,
   each Read appends, ReadMessage yields one directly *)
Definition flush (acc:option (N * bytes)) : list (N * bytes) :=
  match acc with Some m => [m] | None => [] end.

Fixpoint gather (acc:option (N * bytes)) (outs:list rout) : list (N * bytes) :=
  match outs with
  | [] => flush acc
  | RNext ty _ :: r => flush acc ++ gather (Some (ty, [])) r
  | RData x _ :: r => match acc with
                      | Some (ty, d) => gather (Some (ty, d ++ x)) r
                      | None => gather None r
                      end
  | RMsg ty d _ :: r => flush acc ++ (ty, d) :: gather None r
  | _ :: r => gather acc r
  end.

(* every message is read until io.EOF before the next call (and at the end of the program);
   [prev] = "the previous output closed a message" *)
Fixpoint eof_closed (prev:bool) (outs:list rout) : bool :=
  match outs with
  | [] => prev
  | RNext _ _ :: r => prev && eof_closed false r
  | RData _ e :: r => eof_closed (match e with Some RIoEOF => true | _ => false end) r
  | RMsg _ _ _ :: r => prev && eof_closed true r
  | _ :: r => eof_closed prev r
  end.

Definition mpair (m:N * bool * bytes) : N * bytes := (fst (fst m), snd m).

Fixpoint last_eof (prev:bool) (o:list rout) : bool :=
  match o with [] => prev | r :: o' => last_eof (is_eof_out r) o' end.

Definition all_rdata (o:list rout) : Prop := Forall (fun r => exists x e, r = RData x e) o.

Lemma reads_ok_all_rdata d l o : reads_ok d l o -> all_rdata o.
Proof.
  intros H. pose proof (reads_ok_shape l d o H) as Hs. unfold all_rdata.
  rewrite Forall_forall in *. intros r Hin. destruct (Hs r Hin) as (x & e & Hx & _). exists x, e. exact Hx.
Qed.

Lemma gather_reads : forall o1 ty d0 rest, all_rdata o1 ->
  gather (Some (ty, d0)) (o1 ++ rest) = gather (Some (ty, d0 ++ flat_map rdata o1)) rest.
Proof.
  induction o1 as [|r o1 IH]; intros ty d0 rest H.
  - cbn [app flat_map]. rewrite app_nil_r. reflexivity.
  - inversion H as [|r' o' Hr Ho]; subst r' o'. destruct Hr as (x & e & ->).
    cbn [app gather flat_map rdata]. rewrite IH by exact Ho. rewrite app_assoc. reflexivity.
Qed.

Lemma eof_closed_reads : forall o1 pe rest, all_rdata o1 ->
  eof_closed pe (o1 ++ rest) = eof_closed (last_eof pe o1) rest.
Proof.
  induction o1 as [|r o1 IH]; intros pe rest H; [reflexivity|].
  inversion H as [|r' o' Hr Ho]; subst r' o'. destruct Hr as (x & e & ->).
  cbn [app eof_closed last_eof is_eof_out]. rewrite IH by exact Ho.
  destruct e as [[]|]; reflexivity.
Qed.

Lemma last_eof_exists : forall o1, last_eof false o1 = true -> existsb is_eof_out o1 = true.
Proof.
  induction o1 as [|r o1 IH]; intros H; [discriminate H|].
  cbn [last_eof] in H. cbn [existsb]. destruct (is_eof_out r) eqn:E; [reflexivity|]. exact (IH H).
Qed.

Lemma mixed_gather_some : forall cs ms outs m, mixed_ok ms cs outs ->
  gather (Some m) outs = m :: gather None outs.
Proof.
  intros cs ms outs m H. destruct cs as [|cl cs]; cbn [mixed_ok] in H.
  - subst outs. reflexivity.
  - destruct ms as [|[[ty cc] d] ms]; [contradiction|]. destruct cl as [l|].
    + destruct H as (o1 & o2 & -> & _). reflexivity.
    + destruct H as (o2 & -> & _). reflexivity.
Qed.

Lemma mixed_closed_prev : forall cs ms outs pe, mixed_ok ms cs outs -> eof_closed pe outs = true -> pe = true.
Proof.
  intros cs ms outs pe H He. destruct cs as [|cl cs]; cbn [mixed_ok] in H.
  - subst outs. exact He.
  - destruct ms as [|[[ty cc] d] ms]; [contradiction|]. destruct cl as [l|].
    + destruct H as (o1 & o2 & -> & _). cbn [eof_closed] in He. apply andb_true_iff in He. apply He.
    + destruct H as (o2 & -> & _). cbn [eof_closed] in He. apply andb_true_iff in He. apply He.
Qed.

(* pure core: if every message was read to io.EOF, what the application has assembled is exactly
   the list of messages, whatever the plans were *)
Lemma mixed_gather : forall cs ms outs pe, mixed_ok ms cs outs -> eof_closed pe outs = true ->
  gather None outs = map mpair (firstn (length cs) ms).
Proof.
  induction cs as [|cl cs IH]; intros ms outs pe H He; cbn [mixed_ok] in H.
  - subst outs. reflexivity.
  - destruct ms as [|[[ty cc] d] ms]; [contradiction|]. cbn [length firstn map mpair fst snd].
    destruct cl as [l|].
    + destruct H as (o1 & o2 & -> & Hok & Hrest).
      pose proof (reads_ok_all_rdata d l o1 Hok) as Hrd.
      cbn [eof_closed] in He. apply andb_true_iff in He. destruct He as [_ He].
      rewrite eof_closed_reads in He by exact Hrd.
      pose proof (mixed_closed_prev cs ms o2 _ Hrest He) as Hlast.
      cbn [gather flush app]. rewrite gather_reads by exact Hrd. cbn [app].
      rewrite (reads_ok_eof_complete l d o1 Hok (last_eof_exists o1 Hlast)).
      transitivity ((ty, d) :: gather None o2); [exact (mixed_gather_some cs ms o2 (ty, d) Hrest)|].
      change (mpair (ty, cc, d)) with (ty, d). f_equal. exact (IH ms o2 _ Hrest He).
    + destruct H as (o2 & -> & Hrest).
      cbn [eof_closed] in He. apply andb_true_iff in He. destruct He as [_ He].
      cbn [gather flush app]. change (mpair (ty, cc, d)) with (ty, d). f_equal. exact (IH ms o2 _ Hrest He).
Qed.

Lemma gather_out_of ms : gather None (map out_of ms) = map mpair ms.
Proof.
  induction ms as [|m ms IH]; [reflexivity|].
  cbn [map out_of gather flush app]. rewrite IH. reflexivity.
Qed.

(* ------------------------------------------------------------------------------------------ *)
(* Independence: a program that reads each of its messages to io.EOF obtains exactly the first  *)
(* [length cs] messages of the stream, whatever the read sizes, the transport chunking, the     *)
(* buffer size ...                                                                             *)
(* ------------------------------------------------------------------------------------------ *)
Theorem reader_api_independent :
  forall inflate c b fs extra cs,
    custom_handlers c = false -> binv b -> (125 <= bsize b)%nat ->
    conformant_frames c fs -> pending b = encode_frames fs ++ extra ->
    (trailer fs = [] -> extra <> []) ->
    Forall call_pos cs -> (length cs <= length (data_msgs (events_of fs)))%nat ->
    let outs := fst (run_ops inflate c (init_rst b) (flat_map ops_of_call cs)) in
    eof_closed true outs = true ->
    gather None outs = map mpair (firstn (length cs) (data_msgs (events_of fs))).
Proof.
  intros inflate c b fs extra cs Hch Hinv Hbs Hconf Hp Hside Hpos Hlen outs Hcl.
  destruct (reader_api_mixed inflate c b fs extra cs Hch Hinv Hbs Hconf Hp Hside Hpos Hlen)
    as (outs' & s' & Hrun & Hok & _).
  subst outs. rewrite Hrun in *. cbn [fst] in *. exact (mixed_gather cs _ outs' true Hok Hcl).
Qed.

(* ... in particular exactly what the ReadMessage loop returns (read_messages_general) *)
Corollary plans_agree_with_read_message_loop :
  forall inflate c b fs extra (plans:prog),
    custom_handlers c = false -> binv b -> (125 <= bsize b)%nat ->
    conformant_frames c fs -> pending b = encode_frames fs ++ extra ->
    (trailer fs = [] -> extra <> []) ->
    prog_pos plans -> length plans = length (data_msgs (events_of fs)) ->
    let ms := data_msgs (events_of fs) in
    let outs := fst (run_ops inflate c (init_rst b) (ops_of_prog plans)) in
    eof_closed true outs = true ->
    gather None outs = map mpair ms /\
    gather None outs = gather None (fst (run_ops inflate c (init_rst b) (repeat OReadMessage (length ms)))).
Proof.
  intros inflate c b fs extra plans Hch Hinv Hbs Hconf Hp Hside Hpos Hlen ms outs Hcl.
  assert (H1 : gather None outs = map mpair ms).
  { subst outs. rewrite ops_of_prog_calls in *.
    rewrite (reader_api_independent inflate c b fs extra (map CPlan plans) Hch Hinv Hbs Hconf Hp Hside).
    - rewrite map_length, Hlen. fold ms. rewrite firstn_all. reflexivity.
    - apply Forall_forall. intros cl Hin. apply in_map_iff in Hin. destruct Hin as (l & <- & Hin).
      unfold prog_pos in Hpos. rewrite Forall_forall in Hpos. exact (Hpos l Hin).
    - rewrite map_length, Hlen. apply le_n.
    - exact Hcl. }
  split; [exact H1|]. rewrite H1.
  destruct (read_messages_general inflate c b fs extra Hch Hinv Hbs Hconf Hp) as (s' & Hrun & _).
  { intros Ht He. exfalso. exact (Hside Ht He). }
  fold ms in Hrun. rewrite Hrun. cbn [fst]. symmetry. apply gather_out_of.
Qed.

(* two programs, two transports (chunking, buffer size, fault), two configurations of the same
   role: if both read each message to io.EOF they assemble the same messages *)
Corollary reader_api_independent2 :
  forall inflate1 inflate2 c1 c2 b1 b2 fs extra cs1 cs2,
    custom_handlers c1 = false -> custom_handlers c2 = false -> server c1 = server c2 ->
    binv b1 -> binv b2 -> (125 <= bsize b1)%nat -> (125 <= bsize b2)%nat ->
    conformant_frames c1 fs -> (trailer fs = [] -> extra <> []) ->
    pending b1 = encode_frames fs ++ extra -> pending b2 = encode_frames fs ++ extra ->
    Forall call_pos cs1 -> Forall call_pos cs2 -> length cs1 = length cs2 ->
    (length cs1 <= length (data_msgs (events_of fs)))%nat ->
    let outs1 := fst (run_ops inflate1 c1 (init_rst b1) (flat_map ops_of_call cs1)) in
    let outs2 := fst (run_ops inflate2 c2 (init_rst b2) (flat_map ops_of_call cs2)) in
    eof_closed true outs1 = true -> eof_closed true outs2 = true ->
    gather None outs1 = gather None outs2.
Proof.
  intros i1 i2 c1 c2 b1 b2 fs extra cs1 cs2 Hc1 Hc2 Hsrv Hi1 Hi2 Hs1 Hs2 Hconf Hside Hp1 Hp2
    Hpos1 Hpos2 Hlen12 Hlen outs1 outs2 Hcl1 Hcl2.
  assert (Hconf2 : conformant_frames c2 fs).
  { destruct Hconf as (A & B & C). unfold conformant_frames. rewrite <- Hsrv. auto. }
  subst outs1 outs2.
  rewrite (reader_api_independent i1 c1 b1 fs extra cs1 Hc1 Hi1 Hs1 Hconf Hp1 Hside Hpos1 Hlen Hcl1).
  rewrite (reader_api_independent i2 c2 b2 fs extra cs2 Hc2 Hi2 Hs2 Hconf2 Hp2 Hside Hpos2
             ltac:(rewrite <- Hlen12; exact Hlen) Hcl2).
  rewrite Hlen12. reflexivity.
Qed.

(* ============================== part G: examples ============================== *)
Module ReadProgDemo.
(* a server-side reader; the peer sends "Hello" in three fragments (one of them empty) with a
   ping between the fragments, a binary message in two fragments with a pong between them, a
   ping, the text message "xyz", and a last ping *)
Definition k1 := [1;2;3;4]. Definition k2 := [9;8;7;6].
Definition ex_fs : list frame :=
 [ mkf false 1 0 (Some k1) [72;101;108];
   mkf true 9 0 (Some k2) [112;49];
   mkf false 0 0 (Some k1) [];
   mkf true 0 0 (Some k2) [108;111];
   mkf false 2 0 (Some k1) [1;2;3];
   mkf true 10 0 (Some k1) [];
   mkf true 0 0 (Some k2) [4;5];
   mkf true 9 0 (Some k1) [113];
   mkf true 1 0 (Some k2) [120;121;122];
   mkf true 9 0 (Some k2) [116;114] ].
Definition ex_cfg : rcfg :=
  {| server := true; negotiated := false; custom_handlers := false; handler_fail := []; caps := [] |}.
Definition ex_stream := encode_frames ex_fs.
Fixpoint chop (n:nat) (fuel:nat) (l:bytes) : list bytes :=
  match fuel with
  | O => []
  | S f => match l with [] => [] | _ => firstn n l :: chop n f (skipn n l) end
  end.
(* the transport delivers [n] bytes at a time, then fails with [flt] (glued to the last bytes or not) *)
Definition ex_b (n:nat) (flt:errk) (gl:bool) : bufio :=
  mk_bufio 125 [] {| chunks := chop n 200 ex_stream; fault := flt; glued := gl |}.
(* message 1: read to the end and beyond; message 2: abandoned after 2 bytes; message 3: read to the end *)
Definition ex_plans : prog := [[2;1;100;7;7]; [2]; [1;1;1;1]]%nat.

Lemma ex_binv n flt gl : n = 5%nat \/ n = 200%nat -> binv (ex_b n flt gl).
Proof.
  intros Hn. apply binv_mk; [lia|cbn [length]; lia|]. unfold wf_script. cbn [chunks].
  apply Forall_forall. intros ch Hin.
  destruct Hn as [-> | ->]; vm_compute in Hin;
    repeat (destruct Hin as [<-|Hin]; [discriminate|]); contradiction.
Qed.

Lemma ex_conf : conformant_frames ex_cfg ex_fs.
Proof.
  split; [|split].
  - repeat (apply Forall_cons; [vm_compute; repeat split; reflexivity|]). apply Forall_nil.
  - vm_compute. reflexivity.
  - vm_compute. reflexivity.
Qed.

(* the hypotheses of reader_api_general are satisfiable: 5-byte and one-shot transport chunking,
   any fault kind, glued or not *)
Example demo_general n flt gl : n = 5%nat \/ n = 200%nat ->
  exists outs s',
    run_ops (fun _ => None) ex_cfg (init_rst (ex_b n flt gl)) (ops_of_prog ex_plans) = (outs, s') /\
    prog_ok [(1, false, [72;101;108;108;111]); (2, false, [1;2;3;4;5]); (1, false, [120;121;122])]
            ex_plans outs /\
    reached ex_fs [] s'.
Proof.
  intros Hn.
  apply (reader_api_general (fun _ => None) ex_cfg (ex_b n flt gl) ex_fs [] ex_plans eq_refl (ex_binv n flt gl Hn)).
  - cbn [ex_b mk_bufio bsize]. lia.
  - exact ex_conf.
  - destruct Hn as [-> | ->]; vm_compute; reflexivity.
  - intros H. vm_compute in H. discriminate H.
  - repeat (constructor; [repeat (constructor; [lia|]); constructor|]). constructor.
  - vm_compute. lia.
Qed.

(* ... and what the model computes on it: the outputs differ with the chunking (the Read of 100
   bytes gets "lo" at once or "l" then "o"), both satisfy prog_ok; the pings "p1" (between the
   fragments of message 1) and "q" (skipped over with the abandoned message 2) are answered, the
   last ping, not yet reached, is not *)
Example demo_run_5 :
  let r := run_ops (fun _ => None) ex_cfg (init_rst (ex_b 5 EOther true)) (ops_of_prog ex_plans) in
  fst r = [RNext 1 None; RData [72;101] None; RData [108] None; RData [108] None; RData [111] None;
           RData [] (Some RIoEOF);
           RNext 2 None; RData [1;2] None;
           RNext 1 None; RData [120] None; RData [121] None; RData [122] None; RData [] (Some RIoEOF)] /\
  wlog (snd r) = [WPong [112;49]; WPong [113]] /\
  pending (br (snd r)) = encode_frame (mkf true 9 0 (Some k2) [116;114]).
Proof. vm_compute. auto. Qed.

Example demo_run_200 :
  let r := run_ops (fun _ => None) ex_cfg (init_rst (ex_b 200 EEOF false)) (ops_of_prog ex_plans) in
  fst r = [RNext 1 None; RData [72;101] None; RData [108] None; RData [108;111] None;
           RData [] (Some RIoEOF); RData [] (Some RIoEOF);
           RNext 2 None; RData [1;2] None;
           RNext 1 None; RData [120] None; RData [121] None; RData [122] None; RData [] (Some RIoEOF)] /\
  wlog (snd r) = [WPong [112;49]; WPong [113]] /\
  pending (br (snd r)) = encode_frame (mkf true 9 0 (Some k2) [116;114]).
Proof. vm_compute. auto. Qed.

(* independence: two programs that read every message to io.EOF, over two different transports *)
Example demo_independent :
  let o1 := fst (run_ops (fun _ => None) ex_cfg (init_rst (ex_b 5 ETimeout false))
                   (ops_of_prog [[1;1;1;1;1;1]; [2;2;2;2]; [100;100]]%nat)) in
  let o2 := fst (run_ops (fun _ => None) ex_cfg (init_rst (ex_b 200 EEOF true))
                   (flat_map ops_of_call [CMsg; CPlan [3;3;3]%nat; CMsg])) in
  eof_closed true o1 = true /\ eof_closed true o2 = true /\
  gather None o1 = [(1, [72;101;108;108;111]); (2, [1;2;3;4;5]); (1, [120;121;122])] /\
  gather None o2 = gather None o1.
Proof. vm_compute. auto. Qed.

(* ---------- why "at least one byte follows the last data frame" is required ---------- *)
(* A single binary message of 130 bytes and nothing after it.  The transport hands out the 8
   header bytes, then the 130 payload bytes TOGETHER with io.EOF.  A Read with a buffer of 200
   bytes bypasses the (empty) 125-byte bufio buffer: it returns all 130 bytes AND io.EOF in the
   same call -- not "bytes with a nil error" (a legal io.Reader behaviour); the next Read on the
   same reader returns io.EOF again.  (Before the repair recorded in KNOWN_FINDINGS it returned
   the 1006 "unexpected EOF" error there.)  So without that hypothesis the per-read
   specification [reads_ok] does not hold (the bytes delivered are still exactly the message). *)
Definition cx_payload : bytes := repeat 65 130.
Definition cx_fs : list frame := [mkf true 2 0 (Some k1) cx_payload].
Definition cx_b : bufio :=
  mk_bufio 125 [] {| chunks := [firstn 8 (encode_frames cx_fs); skipn 8 (encode_frames cx_fs)];
                     fault := EEOF; glued := true |}.

Example glued_eof_counterexample :
  conformant_frames ex_cfg cx_fs /\ binv cx_b /\ (125 <= bsize cx_b)%nat /\
  pending cx_b = encode_frames cx_fs ++ [] /\ trailer cx_fs = [] /\
  data_msgs (events_of cx_fs) = [(2, false, cx_payload)] /\
  (forall outs s', run_ops (fun _ => None) ex_cfg (init_rst cx_b) (ONext :: map ORead [200;200]%nat)
                   = (RNext 2 None :: outs, s') ->
     outs = [RData cx_payload (Some RIoEOF); RData [] (Some RIoEOF)] /\
     ~ reads_ok cx_payload [200;200]%nat outs).
Proof.
  split.
  { split; [|split].
    - repeat (apply Forall_cons; [vm_compute; repeat split; reflexivity|]). apply Forall_nil.
    - vm_compute. reflexivity.
    - vm_compute. reflexivity. }
  split.
  { apply binv_mk; [lia|cbn [length]; lia|]. unfold wf_script. cbn [chunks].
    repeat (apply Forall_cons; [vm_compute; discriminate|]). apply Forall_nil. }
  split; [cbn [cx_b mk_bufio bsize]; lia|].
  split; [vm_compute; reflexivity|]. split; [vm_compute; reflexivity|]. split; [vm_compute; reflexivity|].
  intros outs s' H.
  assert (Ho : outs = [RData cx_payload (Some RIoEOF); RData [] (Some RIoEOF)]).
  { apply (f_equal fst) in H. cbn [fst] in H. vm_compute in H. inversion H. vm_compute. reflexivity. }
  split; [exact Ho|]. rewrite Ho. cbn [reads_ok]. intros (_ & H2 & _).
  destruct H2 as (H2 & _); [vm_compute; discriminate|discriminate H2].
Qed.
End ReadProgDemo.

Print Assumptions read_step.
Print Assumptions next_reader_step.
Print Assumptions read_message_step.
Print Assumptions reads_run.
Print Assumptions run_calls.
Print Assumptions reader_api_mixed.
Print Assumptions reader_api_general.
Print Assumptions next_reader_then_reads.
Print Assumptions reads_ok_properties.
Print Assumptions reader_api_independent.
Print Assumptions plans_agree_with_read_message_loop.
Print Assumptions reader_api_independent2.
Print Assumptions ReadProgDemo.demo_general.
Print Assumptions ReadProgDemo.demo_run_5.
Print Assumptions ReadProgDemo.demo_independent.
Print Assumptions ReadProgDemo.glued_eof_counterexample.
