(* Part 2 (Z): advanceFrame on one well-formed frame that is acceptable to a reader WITH the
   negotiated-compression flag of its configuration (so RSV1 may be set when [negotiated c]).
   Generalises ReaderP2.hdr_reject_ok / aas2_ok / hdr_state / advance_data / advance_ctl, which
   assume RSV = 0.  Only the two-byte header step differs: stages 3-7 (aas3 .. aas5) do not look
   at the RSV bits and their lemmas are reused unchanged. *)
Require Import WS.Base.Bytes WS.gen.Consts WS.Spec.Frame WS.Spec.Conformance WS.Model.Bufio
  WS.Model.Reader WS.Proofs.BufioP WS.Proofs.FrameP.
From RecordUpdate Require Import RecordSet.
Import RecordSetNotations.
Require Import WS.Proofs.ReaderP1 WS.Proofs.ReaderP2 WS.Proofs.ReaderZ1.
Ltac Zify.zify_post_hook ::= Z.div_mod_to_equations.

(* ---------- RSV bits of a frame whose rsv field is 0 or 4 ---------- *)
Lemma bit_rsvZ f : wf_frame f -> rsv f = 0 \/ rsv f = 4 ->
  bit (hdr_b0 f) c_rsv1Bit = (rsv f =? 4) /\ bit (hdr_b0 f) c_rsv2Bit = false /\
  bit (hdr_b0 f) c_rsv3Bit = false.
Proof.
  intros H [E|E].
  - destruct (hdr_b0_rsv_zero f H E) as (H1 & H2 & H3).
    unfold bit, c_rsv1Bit, c_rsv2Bit, c_rsv3Bit. rewrite H1, H2, H3, E. auto.
  - destruct (hdr_b0_rsv_four f H E) as (H1 & H2 & H3).
    unfold bit, c_rsv1Bit, c_rsv2Bit, c_rsv3Bit. rewrite H1, H2, H3, E. auto.
Qed.

Lemma accZ_rsv_cases srv ng open f : frame_accZ srv ng open f = true -> rsv f = 0 \/ rsv f = 4.
Proof. intros H. destruct (frame_accZ_facts _ _ _ _ H) as ([Hr|[_ Hr]] & _); auto. Qed.

Lemma accZ_rsv1_neg srv ng open f : frame_accZ srv ng open f = true -> ((rsv f =? 4) && negb ng) = false.
Proof.
  intros H. destruct (frame_accZ_facts _ _ _ _ H) as ([Hr|[Hn Hr]] & _); rewrite Hr; [reflexivity|].
  rewrite Hn. reflexivity.
Qed.

Lemma hdr_reject_okZ c fs f : wf_frame f ->
  frame_accZ (server c) (negotiated c) (negb fs) f = true ->
  hdr_reject c fs (hdr_b0 f) (hdr_b1 f) = false.
Proof.
  intros Hwf Hacc. destruct (frame_accZ_facts _ _ _ _ Hacc) as (_ & Hm & Hcases).
  destruct (bit_rsvZ f Hwf (accZ_rsv_cases _ _ _ _ Hacc)) as (R1 & R2 & R3).
  unfold hdr_reject. cbv zeta.
  rewrite R1, R2, R3, (bit_fin f Hwf), bit_mask, (hdr_b0_opcode f Hwf), hdr_b1_len7, Hm.
  rewrite (accZ_rsv1_neg _ _ _ _ Hacc).
  rewrite eqb_reflx. cbn [andb orb negb].
  unfold c_CloseMessage, c_PingMessage, c_PongMessage, c_TextMessage, c_BinaryMessage,
    c_continuationFrame, c_maxControlFramePayloadSize.
  destruct Hcases as [(Ho & Hf & Hl)|[(Ho & Hop)|(Ho & Hop)]].
  - replace ((opcode f =? 8) || (opcode f =? 9) || (opcode f =? 10)) with true by lia.
    destruct (len7_small f) as [Hl7 _]; [lia|]. rewrite Hl7, Hf.
    replace (125 <? plen f) with false by lia. reflexivity.
  - replace ((opcode f =? 8) || (opcode f =? 9) || (opcode f =? 10)) with false by lia.
    replace ((opcode f =? 1) || (opcode f =? 2)) with true by lia.
    destruct fs; [reflexivity|discriminate Hop].
  - replace ((opcode f =? 8) || (opcode f =? 9) || (opcode f =? 10)) with false by lia.
    replace ((opcode f =? 1) || (opcode f =? 2)) with false by lia.
    replace (opcode f =? 0) with true by lia.
    destruct fs; [discriminate Hop|reflexivity].
Qed.

(* ---------- stage 2: the two fixed header bytes ---------- *)
Definition hdr_stateZ (f:frame) (s:rst) : rst :=
  let s2 := s <| rem := len7 f |> <| rdecomp := (rsv f =? 4) |> in
  if (opcode f =? 1) || (opcode f =? 2) then s2 <| rfin := fin f |> <| rlen := 0 |>
  else if opcode f =? 0 then s2 <| rfin := fin f |> else s2.

Lemma hdr_stateZ_rsv0 f s : rsv f = 0 -> hdr_stateZ f s = hdr_state f s.
Proof. intros H. unfold hdr_stateZ, hdr_state. rewrite H. reflexivity. Qed.

Transparent aas2.
Lemma aas2_okZ c f s : wf_frame f ->
  frame_accZ (server c) (negotiated c) (negb (rfin s)) f = true ->
  aas2 c (hdr_b0 f) (hdr_b1 f) s = aas3 c (opcode f) (is_some (mkey f)) (len7 f) (hdr_stateZ f s).
Proof.
  intros Hwf Hacc.
  destruct (bit_rsvZ f Hwf (accZ_rsv_cases _ _ _ _ Hacc)) as (R1 & _ & _).
  unfold aas2. cbv zeta.
  rewrite R1, (bit_fin f Hwf), bit_mask, (hdr_b0_opcode f Hwf), hdr_b1_len7.
  rewrite (accZ_rsv4 _ _ _ _ Hacc).
  replace (rfin (s <| rem := len7 f |> <| rdecomp := (rsv f =? 4) |>)) with (rfin s) by reflexivity.
  rewrite (hdr_reject_okZ c (rfin s) f Hwf Hacc).
  reflexivity.
Qed.
Opaque aas2.

(* ---------- advanceFrame on a data / continuation frame ---------- *)
Lemma advance_dataZ k c s f rest :
  rinv k s -> wf_frame f -> frame_accZ (server c) (negotiated c) (negb (rfin s)) f = true ->
  is_control (opcode f) = false ->
  pending (br s) = encode_frame f ++ rest ->
  (if opcode f =? 0 then rlen s else 0) + plen f < 2^63 ->
  exists s', advance_after_skip c s = (AFrame (opcode f), s') /\
    rinv k s' /\ rem s' = plen f /\ rfin s' = fin f /\
    rlen s' = (if opcode f =? 0 then rlen s else 0) + plen f /\
    pending (br s') = wire_payload f ++ rest /\
    unmask c s' (wire_payload f) = payload f /\
    rdecomp s' = (rsv f =? 4) /\ wlog s' = wlog s.
Proof.
  intros Hrinv Hwf Hacc Hctl Hp Hlen.
  pose proof Hrinv as (Hinv & Hbs & Hfl & Herr & Hoof & Hcs & Hrl & Hec).
  destruct (frame_accZ_facts _ _ _ _ Hacc) as (Hr & Hm & Hcases).
  assert (Hop : opcode f = 0 \/ opcode f = 1 \/ opcode f = 2).
  { unfold is_control in Hctl. destruct Hcases as [(Ho & _)|[(Ho & _)|(Ho & _)]]; lia. }
  pose proof Hwf as (_ & _ & Hpl & Hkey).
  rewrite encode_frame_split in Hp.
  rewrite aas_unfold.
  destruct (rd_app 2 s _ _ Hinv ltac:(lia) Hp eq_refl) as (b1 & Hrd & Hp1 & Hinv1 & Hbs1 & Hfl1).
  rewrite Hrd. cbv iota. cbn [nth].
  rewrite aas2_okZ; [|exact Hwf|exact Hacc].
  set (s1 := hdr_stateZ f (s <| br := b1 |>)).
  assert (Es1 : br s1 = b1 /\ rfin s1 = fin f /\ rlen s1 = (if opcode f =? 0 then rlen s else 0) /\
                rlimit s1 = 0 /\ rerror s1 = None /\ outoffuel s1 = false /\ closesent s1 = false /\
                wlog s1 = wlog s /\ rdecomp s1 = (rsv f =? 4) /\ errcount s1 = errcount s).
  { subst s1. unfold hdr_stateZ. cbv zeta.
    destruct Hop as [Ho|[Ho|Ho]]; rewrite Ho;
      [change ((0 =? 1) || (0 =? 2)) with false; change (0 =? 0) with true
      |change ((1 =? 1) || (1 =? 2)) with true; change (1 =? 0) with false
      |change ((2 =? 1) || (2 =? 2)) with true; change (2 =? 0) with false];
      cbv iota; rsimpl; auto 12. }
  destruct Es1 as (E1 & E2 & E3 & E4 & E5 & E6 & E7 & E8 & E9 & E10).
  destruct (aas3_ok c (opcode f) (is_some (mkey f)) f s1 (key_bytes f ++ (wire_payload f ++ rest)))
    as (b2 & H3 & Hp2 & Hinv2 & Hbs2 & Hfl2);
    [rewrite E1; exact Hinv1|rewrite E1; lia|exact Hpl|rewrite E1; exact Hp1|].
  rewrite H3. rewrite E1 in Hbs2, Hfl2.
  destruct (mkey f) as [key|] eqn:Ek.
  - (* masked *)
    cbn [is_some]. unfold key_bytes in Hp2. rewrite Ek in Hp2.
    destruct (aas4_masked c (opcode f) (plen f) (s1 <| br := b2 |>) key (wire_payload f ++ rest))
      as (b3 & H4 & Hp3 & Hinv3 & Hbs3 & Hfl3);
      [exact Hinv2|change (125 <= bsize b2)%nat; lia|exact Hkey|exact Hp2|].
    rewrite H4. change (bsize (br (s1 <| br := b2 |>))) with (bsize b2) in Hbs3.
    change (fault (src (br (s1 <| br := b2 |>)))) with (fault (src b2)) in Hfl3.
    rewrite aas5_data; [|exact Hop|rsimpl; exact E4|rsimpl; rewrite E3; exact Hlen].
    eexists. split; [reflexivity|].
    split.
    { apply (rinv_upd k s); [exact Hrinv| | | |rsimpl; congruence ..]; rsimpl;
        [exact Hinv3|congruence|congruence]. }
    rsimpl. rewrite E2, E3, E8, E9.
    repeat split; try reflexivity; try assumption.
    unfold unmask. rsimpl. cbn [is_some] in Hm. rewrite <- Hm. apply unmask_wire. exact Ek.
  - (* unmasked *)
    cbn [is_some]. unfold key_bytes in Hp2. rewrite Ek in Hp2. cbn [app] in Hp2.
    rewrite aas4_unmasked.
    rewrite aas5_data; [|exact Hop|rsimpl; exact E4|rsimpl; rewrite E3; exact Hlen].
    eexists. split; [reflexivity|].
    split.
    { apply (rinv_upd k s); [exact Hrinv| | | |rsimpl; congruence ..]; rsimpl;
        [exact Hinv2|congruence|congruence]. }
    rsimpl. rewrite E2, E3, E8, E9.
    repeat split; try reflexivity; try assumption.
    unfold unmask. cbn [is_some] in Hm. rewrite <- Hm. apply wire_payload_unmasked. exact Ek.
Qed.

(* ---------- advanceFrame on a ping / pong (RSV1 tolerated when negotiated) ---------- *)
Lemma advance_ctlZ k c s f rest :
  rinv k s -> custom_handlers c = false -> wf_frame f ->
  frame_accZ (server c) (negotiated c) (negb (rfin s)) f = true ->
  is_control (opcode f) = true ->
  pending (br s) = encode_frame f ++ rest ->
  exists s', advance_after_skip c s = (AFrame (opcode f), s') /\
    rinv k s' /\ rem s' = 0 /\ rfin s' = rfin s /\ rlen s' = rlen s /\
    pending (br s') = rest /\ wlog s' = wlog s ++ map WPong (ping1 f).
Proof.
  intros Hrinv Hch Hwf Hacc Hctl Hp.
  pose proof Hrinv as (Hinv & Hbs & Hfl & Herr & Hoof & Hcs & Hrl & Hec).
  destruct (frame_accZ_facts _ _ _ _ Hacc) as (Hr & Hm & Hcases).
  assert (Hop : (opcode f = 9 \/ opcode f = 10) /\ fin f = true /\ plen f <= 125).
  { unfold is_control in Hctl. destruct Hcases as [H|[(Ho & _)|(Ho & _)]]; [exact H|lia|lia]. }
  destruct Hop as (Hop & Hfin & Hl125).
  pose proof Hwf as (_ & _ & Hpl & Hkey).
  rewrite encode_frame_split in Hp.
  rewrite aas_unfold.
  destruct (rd_app 2 s _ _ Hinv ltac:(lia) Hp eq_refl) as (b1 & Hrd & Hp1 & Hinv1 & Hbs1 & Hfl1).
  rewrite Hrd. cbv iota. cbn [nth].
  rewrite aas2_okZ; [|exact Hwf|exact Hacc].
  set (s1 := hdr_stateZ f (s <| br := b1 |>)).
  assert (Es1 : br s1 = b1 /\ rfin s1 = rfin s /\ rlen s1 = rlen s /\
                rlimit s1 = 0 /\ rerror s1 = None /\ outoffuel s1 = false /\ closesent s1 = false /\
                wlog s1 = wlog s /\ errcount s1 = errcount s).
  { subst s1. unfold hdr_stateZ. cbv zeta.
    destruct Hop as [Ho|Ho]; rewrite Ho;
      [change ((9 =? 1) || (9 =? 2)) with false; change (9 =? 0) with false
      |change ((10 =? 1) || (10 =? 2)) with false; change (10 =? 0) with false];
      cbv iota; rsimpl; auto 12. }
  destruct Es1 as (E1 & E2 & E3 & E4 & E5 & E6 & E7 & E8 & E10).
  destruct (aas3_ok c (opcode f) (is_some (mkey f)) f s1 (key_bytes f ++ (wire_payload f ++ rest)))
    as (b2 & H3 & Hp2 & Hinv2 & Hbs2 & Hfl2);
    [rewrite E1; exact Hinv1|rewrite E1; lia|exact Hpl|rewrite E1; exact Hp1|].
  rewrite H3. rewrite E1 in Hbs2, Hfl2.
  assert (Hwl : blen (wire_payload f) = plen f) by apply wire_payload_blen.
  destruct (mkey f) as [key|] eqn:Ek.
  - (* masked: the reader is a server *)
    cbn [is_some] in *. unfold key_bytes in Hp2. rewrite Ek in Hp2.
    destruct (aas4_masked c (opcode f) (plen f) (s1 <| br := b2 |>) key (wire_payload f ++ rest))
      as (b3 & H4 & Hp3 & Hinv3 & Hbs3 & Hfl3);
      [exact Hinv2|change (125 <= bsize b2)%nat; lia|exact Hkey|exact Hp2|].
    rewrite H4. change (bsize (br (s1 <| br := b2 |>))) with (bsize b2) in Hbs3.
    change (fault (src (br (s1 <| br := b2 |>)))) with (fault (src b2)) in Hfl3.
    set (s3 := s1 <| br := b2 |> <| rem := plen f |> <| mpos := 0 |> <| br := b3 |> <| rkey := key |>).
    destruct (aas5_ctl c (opcode f) (plen f) s3 (wire_payload f) rest Hop Hch)
      as (b4 & Hp4 & Hinv4 & Hbs4 & Hfl4 & H5);
      [subst s3; rsimpl; exact E7|subst s3; rsimpl; exact Hinv3|subst s3; rsimpl; lia
      |exact Hl125|exact Hwl|subst s3; rsimpl; exact Hp3|].
    rewrite H5. cbv zeta.
    eexists. split; [reflexivity|].
    replace (bsize (br s3)) with (bsize b3) in Hbs4 by reflexivity.
    replace (fault (src (br s3))) with (fault (src b3)) in Hfl4 by reflexivity.
    replace (rkey s3) with key by reflexivity.
    replace (wlog s3) with (wlog s1) by reflexivity.
    rewrite <- Hm. rewrite (unmask_wire f key Ek).
    unfold ping1.
    destruct (opcode f =? 9); subst s3; rsimpl.
    + split.
      { apply (rinv_upd k s); [exact Hrinv| | | |rsimpl; congruence ..]; rsimpl;
          [exact Hinv4|congruence|congruence]. }
      rewrite E8. repeat split; try reflexivity; try assumption.
    + split.
      { apply (rinv_upd k s); [exact Hrinv| | | |rsimpl; congruence ..]; rsimpl;
          [exact Hinv4|congruence|congruence]. }
      rewrite E8, app_nil_r. repeat split; try reflexivity; try assumption.
  - (* unmasked: the reader is a client *)
    cbn [is_some] in *. unfold key_bytes in Hp2. rewrite Ek in Hp2. cbn [app] in Hp2.
    rewrite aas4_unmasked.
    set (s3 := s1 <| br := b2 |> <| rem := plen f |>).
    destruct (aas5_ctl c (opcode f) (plen f) s3 (wire_payload f) rest Hop Hch)
      as (b4 & Hp4 & Hinv4 & Hbs4 & Hfl4 & H5);
      [subst s3; rsimpl; exact E7|subst s3; rsimpl; exact Hinv2|subst s3; rsimpl; lia
      |exact Hl125|exact Hwl|subst s3; rsimpl; exact Hp2|].
    rewrite H5. cbv zeta.
    eexists. split; [reflexivity|].
    replace (bsize (br s3)) with (bsize b2) in Hbs4 by reflexivity.
    replace (fault (src (br s3))) with (fault (src b2)) in Hfl4 by reflexivity.
    replace (wlog s3) with (wlog s1) by reflexivity.
    rewrite <- Hm. rewrite (wire_payload_unmasked f Ek).
    unfold ping1.
    destruct (opcode f =? 9); subst s3; rsimpl.
    + split.
      { apply (rinv_upd k s); [exact Hrinv| | | |rsimpl; congruence ..]; rsimpl;
          [exact Hinv4|congruence|congruence]. }
      rewrite E8. repeat split; try reflexivity; try assumption.
    + split.
      { apply (rinv_upd k s); [exact Hrinv| | | |rsimpl; congruence ..]; rsimpl;
          [exact Hinv4|congruence|congruence]. }
      rewrite E8, app_nil_r. repeat split; try reflexivity; try assumption.
Qed.

(* the RSV = 0 lemmas of ReaderP2 are instances *)
Corollary advance_data_from_Z k c s f rest :
  rinv k s -> wf_frame f -> frame_acc (server c) (negb (rfin s)) f = true ->
  is_control (opcode f) = false ->
  pending (br s) = encode_frame f ++ rest ->
  (if opcode f =? 0 then rlen s else 0) + plen f < 2^63 ->
  exists s', advance_after_skip c s = (AFrame (opcode f), s') /\
    rinv k s' /\ rem s' = plen f /\ rfin s' = fin f /\
    rlen s' = (if opcode f =? 0 then rlen s else 0) + plen f /\
    pending (br s') = wire_payload f ++ rest /\
    unmask c s' (wire_payload f) = payload f /\
    rdecomp s' = false /\ wlog s' = wlog s.
Proof.
  intros Hrinv Hwf Hacc Hctl Hp Hlen.
  destruct (frame_acc_facts _ _ _ Hacc) as (Hr & _).
  destruct (advance_dataZ k c s f rest Hrinv Hwf (frame_acc_accZ _ (negotiated c) _ _ Hacc) Hctl Hp Hlen)
    as (s' & H). exists s'. rewrite Hr in H. exact H.
Qed.

Corollary hdr_reject_ok_from_Z c fs f : wf_frame f -> frame_acc (server c) (negb fs) f = true ->
  hdr_reject c fs (hdr_b0 f) (hdr_b1 f) = false.
Proof. intros Hwf H. apply hdr_reject_okZ; [exact Hwf|apply frame_acc_accZ; exact H]. Qed.

Corollary aas2_ok_from_Z c f s : wf_frame f -> frame_acc (server c) (negb (rfin s)) f = true ->
  aas2 c (hdr_b0 f) (hdr_b1 f) s = aas3 c (opcode f) (is_some (mkey f)) (len7 f) (hdr_state f s).
Proof.
  intros Hwf H. destruct (frame_acc_facts _ _ _ H) as (Hr & _).
  rewrite <- (hdr_stateZ_rsv0 f s Hr). apply aas2_okZ; [exact Hwf|apply frame_acc_accZ; exact H].
Qed.

Print Assumptions hdr_reject_okZ.
Print Assumptions hdr_reject_ok_from_Z.
Print Assumptions aas2_ok_from_Z.
Print Assumptions aas2_okZ.
Print Assumptions advance_dataZ.
Print Assumptions advance_ctlZ.
Print Assumptions advance_data_from_Z.
