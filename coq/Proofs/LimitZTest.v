(* Non-vacuity and sanity checks by computation for LimitZ.v: a read limit on a stream with
   fragmented permessage-deflate messages, pings between the fragments. *)
Require Import WS.Base.Bytes WS.gen.Consts WS.Spec.Frame WS.Spec.Conformance WS.Model.Bufio
  WS.Model.Reader WS.Proofs.BufioP WS.Proofs.FrameP.
From RecordUpdate Require Import RecordSet.
Import RecordSetNotations.
Require Import WS.Proofs.ReaderP1 WS.Proofs.ReaderP2 WS.Proofs.ReaderP3 WS.Proofs.ReaderBasicP.
Require Import WS.Proofs.ReaderZ1 WS.Proofs.ReaderZ2 WS.Proofs.ReaderZ3 WS.Proofs.LimitP WS.Proofs.LimitZ.
From Coq Require Import Lia.
Require WS.Spec.Inflate.
Module SanityZ.
Definition k1 := [1;2;3;4]. Definition k2 := [9;8;7;6].
Definition hello : bytes := [72;101;108;108;111].
Definition zhello : bytes := Inflate.trunc4 (Inflate.deflate0 hello).     (* 11 bytes *)
Definition cfg : rcfg :=
  {| server := true; negotiated := true; custom_handlers := false; handler_fail := []; caps := [3;7] |}.
(* a compressed text message (11 wire bytes) in fragments 4 + 7 with a ping between them;
   a compressed binary message of 6 + 6 wire bytes, again with a ping between the fragments *)
Definition big1 := mkf false 2 4 (Some k1) [7;7;7;7;7;7].
Definition big2 := mkf true 0 0 (Some k1) [8;8;8;8;8;8].
Definition fs_msg2 : list frame := [ big1; mkf true 9 0 (Some k2) [106]; big2 ].
Definition fs_all : list frame :=
 [ mkf true 9 0 (Some k1) [104];
   mkf false 1 4 (Some k2) (firstn 4 zhello);
   mkf true 9 0 (Some k1) [105];
   mkf true 0 0 (Some k2) (skipn 4 zhello) ] ++ fs_msg2.
Definition stream : bytes := encode_frames fs_all ++ [99].
Definition b0 : bufio :=
  mk_bufio 125 [] {| chunks := [firstn 5 stream; firstn 30 (skipn 5 stream); skipn 35 stream];
                     fault := EOther; glued := false |}.
Definition run (ops:list rop) := run_ops Inflate.inflate cfg (init_rst b0) ops.

(* limit 11 wire bytes: the first message (exactly 11) is read and inflated; the second is refused
   at the header of its second fragment: nothing delivered, 1009 queued, the 6 payload bytes of
   that fragment are still unread *)
Example run_all :
  let r := run [OSetLimit 11; OReadMessage; OReadMessage; OReadMessage] in
  fst r = [RUnit; RMsg 1 hello None; RMsg 2 [] (Some RReadLimit); RMsg 0 [] (Some RReadLimit)] /\
  wlog (snd r) = [WPong [104]; WPong [105]; WPong [106]; WCloseTooBig] /\
  pending (br (snd r)) = wire_payload big2 ++ [99] /\ rem (snd r) = 6.
Proof. vm_compute. repeat split; reflexivity. Qed.

(* with limit 10 the first message is refused too - the limit is on the COMPRESSED size *)
Example run_10 :
  let r := run [OSetLimit 10; OReadMessage] in
  fst r = [RUnit; RMsg 1 [] (Some RReadLimit)] /\ wlog (snd r) = [WPong [104]; WPong [105]; WCloseTooBig].
Proof. vm_compute. repeat split; reflexivity. Qed.

(* the same by the theorems (no computation of the run) *)
Definition s0 : rst := init_rst b0 <| rlimit := 11 |>.
Lemma s0_inv : rinvL 11 EOther s0.
Proof.
  unfold rinvL, s0. rsimpl. split.
  - apply binv_mk; [unfold Nat.lt; repeat constructor|cbn [length]; apply Nat.le_0_l|].
    unfold wf_script. cbn [chunks]. repeat (apply Forall_cons; [vm_compute; discriminate|]). apply Forall_nil.
  - repeat split; try reflexivity.
Qed.

Example by_theorems :
  exists s1 s2,
    read_message Inflate.inflate cfg s0 = (RMsg 1 hello None, s1) /\
    read_message Inflate.inflate cfg s1 = (RMsg 2 [] (Some RReadLimit), s2) /\
    wlog s2 = [WPong [104]; WPong [105]; WPong [106]; WCloseTooBig] /\
    pending (br s2) = wire_payload big2 ++ [99] /\ rerror s2 = Some RReadLimit.
Proof.
  assert (Hx : [99] <> [] \/ EOther = EEOF) by (left; discriminate).
  assert (Hc : custom_handlers cfg = false) by reflexivity.
  assert (Hwf : Forall wf_frame fs_all).
  { repeat (apply Forall_cons; [vm_compute; repeat split; reflexivity|]). apply Forall_nil. }
  assert (Hwf2 : Forall wf_frame fs_msg2).
  { repeat (apply Forall_cons; [vm_compute; repeat split; reflexivity|]). apply Forall_nil. }
  (* first message: 11 wire bytes, limit 11 *)
  assert (H1 : exists s', (forall inflate, read_message inflate cfg s0 = (out_ofZ inflate (1, true, zhello), s')) /\
    rinvL_end 11 EOther s' /\ rem s' = 0 /\ rfin s' = true /\
    pending (br s') = encode_frames fs_msg2 ++ [99] /\ wlog s' = wlog s0 ++ map WPong [[104];[105]]).
  { apply (within_limit_message_readZ 11 EOther cfg [99] Hc Hx fs_all s0 1 true zhello [[104];[105]] fs_msg2 s0_inv);
      [reflexivity|reflexivity|vm_compute; reflexivity|exact Hwf|vm_compute; reflexivity
      |vm_compute; reflexivity|vm_compute; reflexivity|right; vm_compute; discriminate]. }
  destruct H1 as (s1 & Hrm1 & Hend1 & Hrem1 & Hfin1 & Hp1 & Hwl1).
  assert (Hrinv1 : rinvL 11 EOther s1).
  { apply rinvL_end_rinvL; [exact Hend1|]. rewrite Hp1. vm_compute. discriminate. }
  (* second message: 6 + 6 wire bytes, refused at the header of its second fragment *)
  assert (H2 : exists s', (forall inflate, read_message inflate cfg s1 = (lim_outZ inflate 2 true [7;7;7;7;7;7] None, s')) /\
    wlog s' = wlog s1 ++ map WPong ([] ++ [[106]]) ++ lim_close None /\
    rm_postZ 11 EOther [99] s' None (first_cross 11 fs_msg2)).
  { apply (read_message_limitZ 11 EOther cfg [99] Hc Hx fs_msg2 s1 [] [] [] fs_msg2 2 true [7;7;7;7;7;7] [[106]] None Hrinv1 Hrem1);
      [exact Hp1|exact Hwf2|rewrite Hfin1; vm_compute; reflexivity|vm_compute; reflexivity
      |rewrite Hfin1; reflexivity|vm_compute; reflexivity]. }
  destruct H2 as (s2 & Hrm2 & Hwl2 & (Herr2 & _ & _ & _ & _ & (fj & rj & Hcr & _ & Hp2))).
  vm_compute in Hcr. inversion Hcr; subst fj rj. clear Hcr.
  exists s1, s2.
  split; [rewrite (Hrm1 Inflate.inflate); vm_compute; reflexivity|].
  split; [exact (Hrm2 Inflate.inflate)|].
  split; [rewrite Hwl2, Hwl1; reflexivity|].
  split; [exact Hp2|exact Herr2].
Qed.

(* ---------- an ABANDONED compressed message, then the next messages ---------- *)
(* a compressed binary message of 6 + 4 wire bytes is started with NextReader, 2 raw bytes are
   read, then it is abandoned; a compressed text message (11 wire bytes, fragments 4 + 7) follows,
   then the over-limit message of above *)
Definition ab1 := mkf false 2 4 (Some k1) [7;7;7;7;7;7].
Definition fs_rest2 : list frame :=
 [ mkf true 9 0 (Some k2) [103];
   mkf true 0 0 (Some k2) [8;8;8;8];
   mkf true 10 0 (Some k2) [];
   mkf false 1 4 (Some k2) (firstn 4 zhello);
   mkf true 9 0 (Some k1) [105];
   mkf true 0 0 (Some k2) (skipn 4 zhello) ] ++ fs_msg2.
Definition stream2 : bytes := encode_frames (ab1 :: fs_rest2) ++ [99].
Definition b2 : bufio :=
  mk_bufio 125 [] {| chunks := [firstn 5 stream2; firstn 30 (skipn 5 stream2); skipn 35 stream2];
                     fault := EOther; glued := false |}.
Definition run2 (ops:list rop) := run_ops Inflate.inflate cfg (init_rst b2) ops.
Definition s_ab : rst := snd (run2 [OSetLimit 11; ONext; ORead 2]).

Example run_abandoned :
  let r := run2 [OSetLimit 11; ONext; ORead 2; OReadMessage; OReadMessage] in
  fst r = [RUnit; RNext 2 None; RData [7;7] None; RMsg 1 hello None; RMsg 2 [] (Some RReadLimit)] /\
  wlog (snd r) = [WPong [103]; WPong [105]; WPong [106]; WCloseTooBig] /\
  pending (br (snd r)) = wire_payload big2 ++ [99].
Proof. vm_compute. repeat split; reflexivity. Qed.

(* the hypotheses of [abandoned_then_next_message_readZ] hold in the abandoned state: the count
   kept from the abandoned message is 6, a reader is current, the rest of the abandoned message
   (4 bytes) and the next message (11 bytes) are within the limit *)
Example abandoned_hypsZ :
  let w := skipn 2 (wire_payload ab1) in
  rinvL 11 EOther s_ab /\ rem s_ab = blen w /\
  pending (br s_ab) = w ++ encode_frames fs_rest2 ++ [99] /\
  Forall wf_frame fs_rest2 /\
  seq_okZ (server cfg) (negotiated cfg) (negb (rfin s_ab)) fs_rest2 = true /\
  blen (encode_frames fs_rest2) < 2^63 /\
  rlen s_ab = 6 /\ cur s_ab = Some 0%nat /\ rdecomp s_ab = true /\
  exists more0 pings0 fs1 ty cz d p a,
    msg_tail (rfin s_ab) fs_rest2 = (more0, pings0, fs1) /\ blen more0 <= 11 /\
    first_msgZ fs1 = Some (ty, cz, d, p, a) /\ blen d <= 11 /\
    ty = 1 /\ cz = true /\ d = zhello /\ pings0 = [[103]] /\ p = [[105]] /\ a = fs_msg2.
Proof.
  cbv zeta.
  split.
  { unfold rinvL. split.
    - unfold binv. vm_compute. split; [lia|]. split; [lia|]. split.
      + repeat constructor; discriminate.
      + intros k H. discriminate H.
    - vm_compute. repeat split; try reflexivity. }
  split; [vm_compute; reflexivity|]. split; [vm_compute; reflexivity|].
  split; [repeat (apply Forall_cons; [vm_compute; repeat split; reflexivity|]); apply Forall_nil|].
  split; [vm_compute; reflexivity|]. split; [vm_compute; reflexivity|].
  split; [vm_compute; reflexivity|]. split; [vm_compute; reflexivity|]. split; [vm_compute; reflexivity|].
  do 8 eexists. split; [vm_compute; reflexivity|]. split; [vm_compute; discriminate|].
  split; [vm_compute; reflexivity|]. split; [vm_compute; discriminate|].
  repeat split; reflexivity.
Qed.
End SanityZ.

Print Assumptions SanityZ.run_all.
Print Assumptions SanityZ.run_10.
Print Assumptions SanityZ.by_theorems.
Print Assumptions SanityZ.run_abandoned.
Print Assumptions SanityZ.abandoned_hypsZ.
