(* C02, first half: everything the write path of gorilla/websocket puts on the wire is
   well-formed RFC 6455 framing.

   Main results (all closed under the global context):
   - [wire_wellformed_gen]        any role, compression negotiated or not, any fault plan
   - [wire_wellformed]            the statement asked for (no compression, no fault)
   - [wire_wellformed_negotiated] extension (b): permessage-deflate negotiated, no fault
   - [wire_wellformed_parse]      the Spec decoder reads the wire back, every frame flagged minimal
   - [wire_wellformed_fault]      extension (a): with a fault plan the wire is whole frames plus a
                                  strict prefix of one further acceptable frame
   - [nothing_after_error]        C10's wire clause: once writeErr is set nothing is appended
   - [wire_wellformed_prepared]   extension (c): programs with WritePreparedMessage ([crun])
   - [flate_tail_hypothesis_needed], [prepared_hypothesis_needed]: the extra hypotheses are
     necessary (concrete violating runs); [negotiated_instance]: they are satisfiable.

   Helper files, in build order (see build.sh):
     WWBase.v   transport primitives, Conn.write, header builder = canonical encoder
     WWInv.v    the invariant, flushFrame
     WWStep.v   WriteControl, copy loops, messageWriter Write/WriteString/ReadFrom/Close
     WWComp.v   enableWriteCompression is only changed by EnableWriteCompression
     WWFlate.v  truncWriter / flateWriteWrapper, beginMessage, NextWriter, WriteMessage, programs
     WWDead.v   nothing is written once writeErr is set
     WWPrep.v   prepared frames *)
Require Import WS.Base.Bytes WS.gen.Consts WS.Spec.Frame WS.Proofs.FrameP WS.Model.Writer.
From RecordUpdate Require Import RecordSet.
Import RecordSetNotations.
Require Import WS.Model.Prepared WS.Cases.WriterCase.
Require Import WS.Proofs.WWBase WS.Proofs.WWInv WS.Proofs.WWStep WS.Proofs.WWFlate WS.Proofs.WWDead WS.Proofs.WWPrep.
Ltac Zify.zify_post_hook ::= Z.div_mod_to_equations.

Definition no_prepared (ops:list wop) : Prop := Forall op_not_prepared ops.

Lemma init_WInv fa c ks : Forall len4 ks -> WInv fa c (init_wst c ks fa).
Proof.
  intros HK. apply WInv_cur_none; [|reflexivity|intros _; reflexivity].
  exists [], []. constructor.
  - reflexivity.
  - constructor.
  - reflexivity.
  - exact HK.
  - intros m X. discriminate X.
  - intros _. split; reflexivity.
  - left. reflexivity.
  - reflexivity.
  - reflexivity.
Qed.

Lemma capok_of c : w_bufsize c < 2^62 -> capok c.
Proof. unfold capok, cap, c_maxFrameHeaderSize. lia. Qed.

(* The general statement.  [p] is what a failed transport write left behind: nothing, or a
   strict prefix of the encoding of one further frame that would itself have been acceptable
   at that point. *)
Theorem wire_wellformed_gen :
  forall c ks fa ops,
    w_bufsize c < 2^62 ->
    Forall (fun k => length k = 4%nat) ks ->
    Forall op_small ops -> no_prepared ops ->
    (w_negotiated c = false \/ flate_good c (init_wst c ks fa) ops) ->
    let s' := snd (wrun c (init_wst c ks fa) ops) in
    exists fs p,
      wire_of (evs s') = encode_frames fs ++ p /\
      Forall wf_frame fs /\
      wf_wire (negb (w_server c)) (w_negotiated c) (map (fun f => (f, true)) fs) = true /\
      (p = [] \/
       exists f rest, wf_frame f /\
         frame_ok (negb (w_server c)) (w_negotiated c)
                  (open_after false (map (fun f => (f, true)) fs)) f true = true /\
         rest <> [] /\ encode_frame f = p ++ rest) /\
      (fa = None -> p = []) /\
      (werr s' = None -> p = []).
Proof.
  intros c ks fa ops HB HK HS HP HT s'.
  pose proof (wrun_inv fa c ops (capok_of c HB) (init_wst c ks fa) HS HT HP (init_WInv fa c ks HK)) as HW.
  fold s' in HW. destruct HW as ((fs & p & [I1 I2 I3 I4 I5 I6 I7 I8 I9]) & _).
  exists fs, p. split; [exact I1|]. split; [exact I2|]. split; [exact I3|]. split; [exact I7|].
  split.
  - intros ->. apply I8. exact I9.
  - intros X. apply (I6 X).
Qed.

(* the statement asked for: no compression, no fault plan *)
Theorem wire_wellformed :
  forall c ks ops, (14 < w_bufsize c) -> w_bufsize c < 2^62 -> w_negotiated c = false ->
    Forall (fun k => length k = 4%nat) ks ->
    Forall op_small ops -> no_prepared ops ->
    let s' := snd (wrun c (init_wst c ks None) ops) in
    oracle_short s' = false ->
    exists fs, wire_of (evs s') = encode_frames fs /\
               Forall wf_frame fs /\
               wf_wire (negb (w_server c)) (w_negotiated c) (map (fun f => (f, true)) fs) = true.
Proof.
  intros c ks ops _ HB HN HK HS HP s' _.
  destruct (wire_wellformed_gen c ks None ops HB HK HS HP (or_introl HN)) as (fs & p & A & B & C & _ & D & _).
  fold s' in A. rewrite (D eq_refl), app_nil_r in A. exists fs. auto.
Qed.

(* neither the lower bound on the buffer nor the oracle being long enough is needed, and
   compression may be negotiated provided the Close-time flate oracles that are actually
   consumed (a compressed writer is current) end with 00 00 ff ff: [flate_good];
   [flate_good_of]: it is enough that every such oracle in the program does *)
Theorem wire_wellformed_negotiated :
  forall c ks ops, w_bufsize c < 2^62 ->
    Forall (fun k => length k = 4%nat) ks ->
    Forall op_small ops -> no_prepared ops ->
    (w_negotiated c = false \/ flate_good c (init_wst c ks None) ops) ->
    let s' := snd (wrun c (init_wst c ks None) ops) in
    exists fs, wire_of (evs s') = encode_frames fs /\
               Forall wf_frame fs /\
               wf_wire (negb (w_server c)) (w_negotiated c) (map (fun f => (f, true)) fs) = true.
Proof.
  intros c ks ops HB HK HS HP HT s'.
  destruct (wire_wellformed_gen c ks None ops HB HK HS HP HT) as (fs & p & A & B & C & _ & D & _).
  fold s' in A. rewrite (D eq_refl), app_nil_r in A. exists fs. auto.
Qed.

(* the Spec decoder reads the wire back: the same frames, each flagged minimal, nothing left *)
Corollary wire_wellformed_parse :
  forall c ks ops, w_bufsize c < 2^62 ->
    Forall (fun k => length k = 4%nat) ks ->
    Forall op_small ops -> no_prepared ops ->
    (w_negotiated c = false \/ flate_good c (init_wst c ks None) ops) ->
    let s' := snd (wrun c (init_wst c ks None) ops) in
    exists fs, parse_frames (wire_of (evs s')) = (map (fun f => (f, true)) fs, TEnd) /\
               wf_wire (negb (w_server c)) (w_negotiated c) (map (fun f => (f, true)) fs) = true.
Proof.
  intros c ks ops HB HK HS HP HT s'.
  destruct (wire_wellformed_negotiated c ks ops HB HK HS HP HT) as (fs & A & B & C).
  fold s' in A. exists fs. split; [|exact C]. rewrite A. apply parse_frames_encode. exact B.
Qed.

(* extension (a): any fault plan *)
Theorem wire_wellformed_fault :
  forall c ks fa ops, w_bufsize c < 2^62 ->
    Forall (fun k => length k = 4%nat) ks ->
    Forall op_small ops -> no_prepared ops ->
    (w_negotiated c = false \/ flate_good c (init_wst c ks fa) ops) ->
    let s' := snd (wrun c (init_wst c ks fa) ops) in
    exists fs p,
      wire_of (evs s') = encode_frames fs ++ p /\
      Forall wf_frame fs /\
      wf_wire (negb (w_server c)) (w_negotiated c) (map (fun f => (f, true)) fs) = true /\
      (p = [] \/
       exists f rest, wf_frame f /\
         frame_ok (negb (w_server c)) (w_negotiated c)
                  (open_after false (map (fun f => (f, true)) fs)) f true = true /\
         rest <> [] /\ encode_frame f = p ++ rest) /\
      (p <> [] -> werr s' <> None).
Proof.
  intros c ks fa ops HB HK HS HP HT s'.
  destruct (wire_wellformed_gen c ks fa ops HB HK HS HP HT) as (fs & p & A & B & C & D & _ & E).
  exists fs, p. split; [exact A|]. split; [exact B|]. split; [exact C|]. split; [exact D|].
  intros X Y. apply X. apply E. exact Y.
Qed.

(* C10's wire clause: once the write error is set nothing more reaches the wire *)
Theorem nothing_after_error :
  forall c s ops, werr s <> None ->
    wire_of (evs (snd (wrun c s ops))) = wire_of (evs s) /\ werr (snd (wrun c s ops)) = werr s.
Proof. intros c s ops D. destruct (wrun_dead c ops s D) as [A B]. split; [exact B|exact A]. Qed.

Corollary nothing_after_error_split :
  forall c s ops1 ops2, werr (snd (wrun c s ops1)) <> None ->
    wire_of (evs (snd (wrun c s (ops1 ++ ops2)))) = wire_of (evs (snd (wrun c s ops1))).
Proof. intros c s ops1 ops2 D. rewrite wrun_app. apply nothing_after_error. exact D. Qed.

(* ------------------------------------------------------------------------------------------ *)
(* extension (c): programs with WritePreparedMessage (the case format's [crun])               *)
(* ------------------------------------------------------------------------------------------ *)
(* the frame bytes cstep hands to the connection for a prepared send issued in state [st] *)
Definition prep_frame (c:wcfg) (st:wst * cache) (p:psend) : bytes :=
  let s := close_current c (ps_ic p) (fst st) in
  let pm := match cache_get (ps_id p) (snd st) with
            | Some pm => pm
            | None => snd (new_prepared (ps_ty p) (ps_data p))
            end in
  fst (frame_for (key_for c s (ps_ty p)) pm (ps_keys p) (ps_wc p) (ps_cc p)).

Definition cop_ok (c:wcfg) (st:wst * cache) (o:cop) : Prop :=
  match o with
  | COp w => op_small w /\ (w_negotiated c = false \/ op_flate_ok_at c (fst st) w) /\ op_not_prepared w
  | CPrepared p => Forall small (ps_ic p) /\ tail_at (fst st) (ps_ic p) /\
                   prepared_ok c (prep_frame c st p)
  end.

Fixpoint cgood (c:wcfg) (st:wst * cache) (ops:list cop) : Prop :=
  match ops with
  | [] => True
  | o :: r => cop_ok c st o /\ cgood c (snd (cstep c st o)) r
  end.

Lemma cstep_inv fa c st o : capok c -> cop_ok c st o ->
  WInv fa c (fst st) -> WInv fa c (fst (snd (cstep c st o))).
Proof.
  intros HCap HO HW. destruct st as [s ca]. cbn [fst] in HW. destruct o as [w|p]; cbn [cstep cop_ok] in *.
  - destruct HO as (S1 & S2 & S3). pose proof (wstep_inv fa c s w HCap S1 S2 S3 HW) as X.
    destruct (wstep c s w) as [e s1]. exact X.
  - destruct HO as (S1 & S2 & S3). unfold prep_frame in S3. cbn [fst snd] in S3. cbv zeta in S3.
    cbv zeta.
    destruct (close_current_inv fa c (ps_ic p) s HCap S1 S2 HW) as [A B].
    set (s1 := close_current c (ps_ic p) s) in *.
    set (pm := match cache_get (ps_id p) ca with Some pm => pm | None => snd (new_prepared (ps_ty p) (ps_data p)) end) in *.
    destruct (frame_for (key_for c s1 (ps_ty p)) pm (ps_keys p) (ps_wc p) (ps_cc p)) as [fr pm'].
    cbn [fst] in S3. cbn [wstep].
    destruct (conn_write (ps_ty p) (deadline s1) false (fun _ : bytes => fr) [] s1) as [e s2] eqn:E.
    cbn [fst snd]. apply (prepared_inv fa c _ _ fr s1 e s2 A B S3 E).
Qed.

Lemma crun_inv fa c ops : capok c -> forall st, cgood c st ops ->
  WInv fa c (fst st) -> WInv fa c (fst (snd (crun c st ops))).
Proof.
  intros HCap. induction ops as [|o r IH]; intros st HG HW; cbn [crun]; [exact HW|].
  destruct HG as [G1 G2]. pose proof (cstep_inv fa c st o HCap G1 HW) as W1.
  destruct (cstep c st o) as [e st1]. cbn [snd] in *.
  specialize (IH st1 G2 W1). destruct (crun c st1 r) as [es st2]. exact IH.
Qed.

Theorem wire_wellformed_prepared :
  forall c ks fa ops,
    w_bufsize c < 2^62 -> Forall (fun k => length k = 4%nat) ks ->
    cgood c (init_wst c ks fa, []) ops ->
    let s' := fst (snd (crun c (init_wst c ks fa, []) ops)) in
    exists fs p,
      wire_of (evs s') = encode_frames fs ++ p /\
      Forall wf_frame fs /\
      wf_wire (negb (w_server c)) (w_negotiated c) (map (fun f => (f, true)) fs) = true /\
      (p = [] \/
       exists f rest, wf_frame f /\
         frame_ok (negb (w_server c)) (w_negotiated c)
                  (open_after false (map (fun f => (f, true)) fs)) f true = true /\
         rest <> [] /\ encode_frame f = p ++ rest) /\
      (fa = None -> p = []) /\ (werr s' = None -> p = []).
Proof.
  intros c ks fa ops HB HK HG s'.
  pose proof (crun_inv fa c ops (capok_of c HB) (init_wst c ks fa, []) HG (init_WInv fa c ks HK)) as HW.
  fold s' in HW. destruct HW as ((fs & p & [I1 I2 I3 I4 I5 I6 I7 I8 I9]) & _).
  exists fs, p. split; [exact I1|]. split; [exact I2|]. split; [exact I3|]. split; [exact I7|].
  split.
  - intros ->. apply I8. exact I9.
  - intros X. apply (I6 X).
Qed.

(* ------------------------------------------------------------------------------------------ *)
(* the hypotheses are not artefacts                                                           *)
(* ------------------------------------------------------------------------------------------ *)
(* (1) flate oracle: if flate.Writer's Close-time output did not end with the sync marker,
   flateWriteWrapper.Close returns its "unexpected bytes" error WITHOUT closing the message
   writer; the next NextWriter then calls Close again, gets errWriteClosed from the wrapper,
   drops the writer and starts a new message while the fragmented one is still open. *)
Example flate_tail_hypothesis_needed :
  let c := {| w_server := true; w_bufsize := 16; w_pooled := false; w_negotiated := true |} in
  let ops := [WNext 1 []; WWrite [1] [[1;2;3;4;5;6;7;8;9]]; WClose [];
              WNext 1 []; WWrite [1] [[7;7;0;0;255;255]]; WClose []] in
  let w := wire_of (evs (snd (wrun c (init_wst c [] None) ops))) in
  Forall op_small ops /\ no_prepared ops /\ snd (parse_frames w) = TEnd /\
  wf_wire false true (fst (parse_frames w)) = false.
Proof.
  cbv zeta. split; [|split; [|split]].
  - repeat constructor; unfold small; vm_compute; reflexivity.
  - repeat constructor.
  - vm_compute. reflexivity.
  - vm_compute. reflexivity.
Qed.

(* (2) a raw prepared frame sent while a fragmented message is open breaks the framing
   (WritePreparedMessage itself closes the open writer first: [cstep]) *)
Example prepared_hypothesis_needed :
  let c := {| w_server := true; w_bufsize := 16; w_pooled := false; w_negotiated := false |} in
  let ops := [WNext 1 []; WWrite [1;2;3] []; WPreparedFrame 1 [129;1;9]] in
  let w := wire_of (evs (snd (wrun c (init_wst c [] None) ops))) in
  snd (parse_frames w) = TEnd /\ wf_wire false false (fst (parse_frames w)) = false.
Proof. cbv zeta. split; vm_compute; reflexivity. Qed.

(* (3) non-vacuity with compression negotiated and harness-style oracles (empty when unused) *)
Example negotiated_instance :
  let c := {| w_server := false; w_bufsize := 16; w_pooled := false; w_negotiated := true |} in
  let ks := [[1;2;3;4];[5;6;7;8];[9;10;11;12];[13;14;15;16];[1;1;1;1];[2;2;2;2];[3;3;3;3]] in
  let ops := [WNext 1 []; WWrite [1;2;3] [[170;171;172;173;174]]; WClose [[0;0;255;255]];
              WNext 9 []; WWrite [7] []; WClose [];
              WEnableCompression false; WMessage 2 [5;6;7] [] [] [];
              WEnableCompression true; WNext 2 []; WWrite [1] [[1;2;3;4;5;6]]; WControl 10 [1] 0;
              WMessage 1 [8] [[9;0;0;255;255]] [[1;2]] [[0;0;255;255]]] in
  exists fs, parse_frames (wire_of (evs (snd (wrun c (init_wst c ks None) ops)))) =
             (map (fun f => (f, true)) fs, TEnd) /\
             wf_wire true true (map (fun f => (f, true)) fs) = true.
Proof.
  cbv zeta. apply wire_wellformed_parse.
  - vm_compute. reflexivity.
  - repeat constructor.
  - repeat constructor; unfold small; vm_compute; reflexivity.
  - repeat constructor.
  - right. cbn [flate_good op_flate_ok_at].
    repeat split;
      first [ exact I
            | (intros [X _]; vm_compute in X; discriminate X)
            | (intros _; exists []; reflexivity)
            | (intros _; exists [9]; reflexivity)
            | (intros X; vm_compute in X; discriminate X) ].
Qed.

Print Assumptions wire_wellformed_gen.
Print Assumptions wire_wellformed.
Print Assumptions wire_wellformed_negotiated.
Print Assumptions wire_wellformed_parse.
Print Assumptions wire_wellformed_fault.
Print Assumptions nothing_after_error.
Print Assumptions nothing_after_error_split.
Print Assumptions wire_wellformed_prepared.
